import CliUtils.Drv.Util
import CliUtils.Drv.C19
import CliUtils.Drv.C15
import CliUtils.Drv.C06
import CliUtils.Drv.C20
import CliUtils.Drv.C17
import CliUtils.Drv.C14
import CliUtils.Drv.Sys
import CliUtils.Drv.Filters
import CliUtils.Drv.Status
import CliUtils.Drv.C16
import CliUtils.Drv.C18
import CliUtils.Drv.PruneStep
import CliUtils.Drv.RunnerCache
import CliUtils.Drv.CacheReader
import CliUtils.Drv.Scope
import CliUtils.Drv.Apisvc
/-
  Line-protocol driver.  stdin: one JSON object per line  {"d": domain, "i": input, "o": implementation output}
  stdout: one line per case that needs attention, then one summary line.
-/
open Lean CliUtils CliUtils.Drv

def handlers : List (String × Handler) := [
  ("set", C19.handleSet),
  ("mgr", C19.handleMgr),
  ("idstr", C15.handleIdstr),
  ("invstore", C15.handleInvstore),
  ("dep", C15.handleDep),
  ("wait", C06.handleWait),
  ("print", C20.handlePrint),
  ("grammar-neg", C20.handleGrammarNeg),
  ("aggregate", C17.handleAggregate),
  ("rsequal", C17.handleRsEqual),
  ("poll", C17.handlePoll),
  ("pollcache", C17.handlePollCache),
  ("cachereader", CacheReaderD.handleCacheReader),
  ("dynreader", CacheReaderD.Dyn.handleDynReader),
  ("collector", C17.handleCollector),
  ("podctl", C17.handlePodctl),
  ("readstatus", C17.handleReadStatus),
  ("graph", C14.handleGraph),
  ("depgraph", C14.handleDepgraph),
  ("prunestep", PruneStep.handlePruneStep),
  ("runnercache", RunnerCache.handleRunnerCache),
  ("scope", ScopeD.handleScope),
  ("policy", Filters.handlePolicy), ("depfilter", Filters.handleDepfilter),
  ("sys", SysD.handleSysFor "all"),
  ("sys-C01", SysD.handleSysFor "C01"), ("sys-C02", SysD.handleSysFor "C02"), ("sys-C03", SysD.handleSysFor "C03"),
  ("sys-C04", SysD.handleSysFor "C04"), ("sys-C05", SysD.handleSysFor "C05"), ("sys-C10", SysD.handleSysFor "C10"),
  ("sys-C11", SysD.handleSysFor "C11"), ("sys-C12", SysD.handleSysFor "C12"), ("sys-C13", SysD.handleSysFor "C13"),
  ("sys-C18", SysD.handleSysFor "C18"), ("sync-race", SysD.handleSyncRace), ("sys-real", SysD.handleSysReal), ("pre-cancel", SysD.handlePreCancel), ("apisvc", Apisvc.handleApisvc),
  ("status", KS.handleStatus),
  ("status-c07", KS.handleStatusC07),
  ("status-c08", KS.handleStatusC08),
  ("status-malformed", KS.handleMalformed),
  ("augment", KS.handleAugment),
  ("kubectl", KS.handleKubectl),
  ("funnel", C16.handleFunnel),
  ("watcher", C16.handleWatcher),
  ("watcher-fatal", C16.handleFatal),
  ("watcher-unsched", C16.handleUnsched), ("fatalseq", C16.handleFatalSeq),
  ("watcher-late", C16.handleLate),
  ("jsonpath", C18.handleJsonpath),
  ("mutate", C18.handleMutate)
]

structure Stats where
  cases : Nat := 0
  agree : Nat := 0
  disagree : Nat := 0
  specFail : Nat := 0
  specModelFail : Nat := 0
  errors : Nat := 0
  nontrivial : Nat := 0
  seen : Std.HashSet UInt64 := {}
  tags : Std.HashMap String Nat := {}
  regions : Std.HashMap String Nat := {}
  printed : Nat := 0
  samples : Array Json := #[]

def maxPrinted : Nat := 200

partial def loop (h : IO.FS.Stream) (out : IO.FS.Stream) (st : Stats) (idx : Nat) : IO Stats := do
  let line ← h.getLine
  if line.isEmpty then return st
  if line.trimAscii.isEmpty then return (← loop h out st idx)
  let mut st := { st with cases := st.cases + 1 }
  let res : Except String (String × Json × Json × Verdict) := do
    let j ← Json.parse line
    let d ← jstr j "d"
    let i ← jget j "i"
    let o ← jget j "o"
    match handlers.lookup d with
    | none => throw s!"unknown domain {d}"
    | some hd => return (d, i, o, ← hd i o)
  match res with
  | .error e =>
    st := { st with errors := st.errors + 1 }
    if st.printed < maxPrinted then
      out.putStrLn (Json.mkObj [("idx", idx), ("kind", "error"), ("err", e), ("line", line.trimAscii.toString)]).compress
      st := { st with printed := st.printed + 1 }
  | .ok (d, i, o, v) =>
    let hsh := hash i.compress
    if v.nontrivial && !st.seen.contains hsh then
      st := { st with nontrivial := st.nontrivial + 1, seen := st.seen.insert hsh }
    for t in v.tags do
      st := { st with tags := st.tags.insert t (st.tags.getD t 0 + 1) }
    if v.agree then st := { st with agree := st.agree + 1 } else st := { st with disagree := st.disagree + 1 }
    if !v.spec then
      st := { st with specFail := st.specFail + 1 }
      match v.region with
      | some r => st := { st with regions := st.regions.insert r (st.regions.getD r 0 + 1) }
      | none => pure ()
    -- a predicate that fails on the model only (the implementation satisfies it) means model and theorems disagree
    if !v.specModel && v.spec then st := { st with specModelFail := st.specModelFail + 1 }
    if st.samples.size < 3 && v.nontrivial then
      st := { st with samples := st.samples.push (Json.mkObj [("d", d), ("i", i), ("o", o)]) }
    if (!v.agree || !v.spec || (!v.specModel && v.spec)) && st.printed < maxPrinted then
      let kind := if !v.spec then "specfail" else if !v.agree then "disagree" else "specmodelfail"
      out.putStrLn (Json.mkObj [("idx", idx), ("kind", kind), ("d", d), ("i", i), ("o", o), ("m", v.model),
        ("agree", v.agree), ("spec", v.spec), ("region", match v.region with | some r => Json.str r | none => Json.null),
        ("note", v.note)]).compress
      st := { st with printed := st.printed + 1 }
  loop h out st (idx + 1)

def main : IO UInt32 := do
  let stdin ← IO.getStdin
  let stdout ← IO.getStdout
  let st ← loop stdin stdout {} 0
  let tagsJ := Json.mkObj (st.tags.toList.map (fun (k, v) => (k, (v : Json))))
  let regJ := Json.mkObj (st.regions.toList.map (fun (k, v) => (k, (v : Json))))
  stdout.putStrLn (Json.mkObj [("summary", true), ("cases", st.cases), ("agree", st.agree), ("disagree", st.disagree),
    ("specfail", st.specFail), ("specmodelfail", st.specModelFail), ("errors", st.errors),
    ("distinct_nontrivial", st.nontrivial), ("tags", tagsJ), ("regions", regJ),
    ("samples", Json.arr st.samples)]).compress
  return 0
