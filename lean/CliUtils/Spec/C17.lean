import CliUtils.Model.Poll
/-
  C17 — specification-level notions, written without reference to the engine / aggregator model functions
  (they only use the data types and, for `differs`, the comparison `rsEqual`).  Shared by the theorems in
  `Props/C17.lean` and by the driver, which evaluates them on the IMPLEMENTATION's observed behaviour.
-/
namespace CliUtils.Poll.Spec
open CliUtils CliUtils.Poll

/-- the stated aggregation rule -/
def aggRule (l : List Status) (d : Status) : Status :=
  if .failed ∈ l then .failed
  else if .unknown ∈ l then .unknown
  else if ∀ s ∈ l, s = d then d
  else .inProgress

def updStep (id : Id) (acc : Option RS) (e : Event) : Option RS :=
  match e with
  | .update rs => if rs.id = id then some rs else acc
  | _ => acc

/-- the last update for `id` in an event stream (starting from `init`) -/
def lastUpdFrom (init : Option RS) (evs : List Event) (id : Id) : Option RS := evs.foldl (updStep id) init

/-- "the last update it emitted" for `id`, read off the event stream alone -/
def lastUpd (evs : List Event) (id : Id) : Option RS := lastUpdFrom none evs id

/-- "differs from the last update": there is none, or the fresh status is not ResourceStatusEqual to it -/
def differs (last : Option RS) (fresh : RS) : Bool :=
  match last with
  | none => true
  | some old => !rsEqual fresh old

def errStep (acc : Option String) (e : Event) : Option String :=
  match e with
  | .error t => some t
  | _ => acc

/-- text of the last error event of a stream -/
def lastErr (evs : List Event) : Option String := evs.foldl errStep none

/-- the part of a ResourceStatus that ResourceStatusEqual looks at -/
def hdr (r : RS) : Id × Status × String × Int × Option String := (r.id, r.status, r.message, r.generation, r.err)

end CliUtils.Poll.Spec
