import CliUtils.Model.Graph
/-
  Vocabulary for stating C14: the edge relation of an adjacency list, walks, dependency chains, cycles,
  layer membership, strict total orders.  Prop-valued; nothing here is executed by the driver.
-/
namespace CliUtils.Graph
variable {α : Type}

/-- `v` depends on `d`: `d` occurs in an adjacency list stored under key `v`. -/
def Edge (g : Adj α) (v d : α) : Prop := ∃ ds, (v, ds) ∈ g ∧ d ∈ ds

/-- every key occurs once (an invariant of Go's map). -/
def KeysNodup (g : Adj α) : Prop := (verts g).Nodup

/-- every dependency is itself a vertex (an invariant of `AddEdge`, which adds both endpoints). -/
def Closed (g : Adj α) : Prop := ∀ v d, Edge g v d → d ∈ verts g

/-- `Walk g a c l`: following edges leads from `a` to `c`; `l` lists the vertices left behind
(all visited vertices except the final `c`), so `l.length` is the number of edges. -/
inductive Walk (g : Adj α) : α → α → List α → Prop
  | nil (a : α) : Walk g a a []
  | cons {a b c : α} {l : List α} : Edge g a b → Walk g b c l → Walk g a c (a :: l)

/-- `c` can be reached from `a` (zero or more edges). -/
def Reach (g : Adj α) (a c : α) : Prop := ∃ l, Walk g a c l

/-- `c` lies on a cycle (a closed walk with at least one edge; a self-loop counts). -/
def OnCycle (g : Adj α) (c : α) : Prop := ∃ l, l ≠ [] ∧ Walk g c c l

/-- a dependency chain with `n` edges starts at `v`. -/
def HasChain (g : Adj α) (v : α) (n : Nat) : Prop := ∃ c l, Walk g v c l ∧ l.length = n

/-- `v` is in layer number `i` (0-based) of `L`. -/
def InLayer (L : List (List α)) (i : Nat) (v : α) : Prop := ∃ l, L[i]? = some l ∧ v ∈ l

/-- a Boolean comparison that is a strict total order (what `sort.Sort` needs for a unique result). -/
structure StrictTotal (lt : α → α → Bool) : Prop where
  irrefl : ∀ a, lt a a = false
  trans : ∀ a b c, lt a b = true → lt b c = true → lt a c = true
  tri : ∀ a b, lt a b = false → lt b a = false → a = b

/-- sortedness as `sort.Sort` guarantees it: no later element is less than an earlier one. -/
def Sorted (lt : α → α → Bool) (l : List α) : Prop := l.Pairwise (fun a b => lt b a = false)

end CliUtils.Graph
