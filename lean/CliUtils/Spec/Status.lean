import CliUtils.Model.Status
/-
  Decidable property predicates for C07 / C08 / C09, written from the property statements and the Kubernetes API
  semantics (declaratively: `find?` / `any` over the converted conditions and comparisons of the count fields), NOT by
  calling the rule functions of `Model.Status`.  They share with the model only the accessor layer (`Model.Json`) and the
  small result types.  The theorems in `Props/C07..C09` say the model satisfies them for every input; the driver evaluates
  the same predicates on the IMPLEMENTATION's observed output.
-/
namespace CliUtils.Spec.KStatus
open CliUtils CliUtils.J CliUtils.KStatus

/-! ### C09: shape of a result -/

def countCond (cs : List Cond) (t : String) : Nat := (cs.filter (fun c => c.type = t ∧ c.status = "True")).length

/-- exactly one true Reconciling condition when InProgress, exactly one true Stalled condition when Failed,
no conditions when Current or Terminating -/
def resultShape (r : Result) : Bool :=
  match r.status with
  | .inProgress => countCond r.conditions "Reconciling" == 1
  | .failed => countCond r.conditions "Stalled" == 1
  | .current => r.conditions.isEmpty
  | .terminating => r.conditions.isEmpty

/-! ### C07: the generic signals -/

/-- a deletion timestamp is set -/
def deletionSet (o : J) : Bool :=
  match nestedString o ["metadata", "deletionTimestamp"] with
  | .found s => s ≠ ""
  | _ => false

/-- `metadata.deletionTimestamp` is absent or the empty string (no signal and no lookup error) -/
def deletionClean (o : J) : Bool :=
  match nestedString o ["metadata", "deletionTimestamp"] with
  | .found s => s = ""
  | .notFound => true
  | .err => false

/-- both generations are present (int64) and differ -/
def generationMismatch (o : J) : Bool :=
  match nestedInt64 o ["metadata", "generation"], nestedInt64 o ["status", "observedGeneration"] with
  | .found g, .found og => g ≠ og
  | _, _ => false

/-- the generation lookups raise no error and show no mismatch (`status.observedGeneration` is only looked at
when `metadata.generation` is present) -/
def generationClean (o : J) : Bool :=
  match nestedInt64 o ["metadata", "generation"] with
  | .err => false
  | .notFound => true
  | .found g =>
    match nestedInt64 o ["status", "observedGeneration"] with
    | .err => false
    | .notFound => true
    | .found og => g = og

def isSignal (c : BC) : Bool := (c.type = "Reconciling" ∨ c.type = "Stalled") ∧ c.status = "True"

/-- the first listed true Reconciling / true Stalled condition -/
def firstSignal (cs : List BC) : Option BC := cs.find? isSignal

def signalStatus (c : BC) : Status := if c.type = "Reconciling" then .inProgress else .failed

/-- the first Ready condition with a recognised truth value -/
def firstReady (cs : List BC) : Option BC :=
  cs.find? (fun c => c.type = "Ready" ∧ (c.status = "True" ∨ c.status = "False" ∨ c.status = "Unknown"))

/-- no generic signal at all, and none of the generic lookups fails: the kind-specific rules decide -/
def noGenericSignal (o : J) : Bool :=
  deletionClean o && generationClean o &&
  match convConds o with
  | some cs => (firstSignal cs).isNone
  | none => false

/-- what C07 demands of the computed status, for the dispatch key `key`: `some s` = the status must be `s`
(and no error may be returned); `none` = C07 says nothing (a kind-specific rule decides, or the object is malformed
at a place that is consulted before the signal) -/
def c07Demand (key : String) (o : J) : Option Status :=
  if deletionSet o then some .terminating
  else if !deletionClean o then none
  else if generationMismatch o then some .inProgress
  else if !generationClean o then none
  else match convConds o with
    | none => none
    | some cs =>
      match firstSignal cs with
      | some c => some (signalStatus c)
      | none =>
        match legacy key with
        | some _ => none
        | none =>
          match firstReady cs with
          | some c => if c.status = "True" then some .current else some .inProgress
          | none => some .current

/-! ### C07: Augment -/

/-- an entry of `status.conditions` that is one of the two standard conditions Augment maintains -/
def isStdJ : J → Bool
  | .obj m =>
    match lookup "type" m with
    | some (.str t) => t = "Reconciling" ∨ t = "Stalled"
    | _ => false
  | _ => false

/-- the entries of `status.conditions` (none when absent or not a list) -/
def condItems (o : J) : List J :=
  match nestedSlice o ["status", "conditions"] with
  | .found l => l
  | _ => []

/-- all other conditions, in order -/
def otherConds (o : J) : List J := (condItems o).filter (fun c => !isStdJ c)

/-! ### C08: rollout predicates per built-in kind (API semantics) -/

def hasCond (cs : List BC) (t s : String) : Bool := cs.any (fun c => c.type = t ∧ c.status = s)

def condsOf (o : J) : List BC := (convConds o).getD []

abbrev fInt (o : J) (p : List String) (d : Int) : Int := getIntField o p d
abbrev fStr (o : J) (p : List String) (d : String) : String := getStringField o p d

/-- a Progressing condition that reports the progress deadline exceeded -/
def isPDE (c : BC) : Bool := c.type = "Progressing" ∧ c.reason = "ProgressDeadlineExceeded"

/-- a true Progressing condition that reports the new ReplicaSet available (rollout complete) -/
def isNRSA (c : BC) : Bool := c.type = "Progressing" ∧ c.status = "True" ∧ c.reason = "NewReplicaSetAvailable"

/-- Deployment: explicit failure = a Progressing condition reports ProgressDeadlineExceeded -/
def deploymentFailed (o : J) : Bool := (condsOf o).any isPDE

/-- Deployment rolled out: all desired replicas exist, are updated, available and ready, there is no surplus replica,
the Deployment is Available and its new ReplicaSet is reported complete (or no progress deadline applies) -/
def deploymentRolledOut (o : J) : Bool :=
  let desired := fInt o ["spec", "replicas"] 1
  let replicas := fInt o ["status", "replicas"] 0
  let updated := fInt o ["status", "updatedReplicas"] 0
  let ready := fInt o ["status", "readyReplicas"] 0
  let available := fInt o ["status", "availableReplicas"] 0
  let noDeadline := decide (fInt o ["spec", "progressDeadlineSeconds"] maxInt32 = maxInt32)
  let cs := condsOf o
  !deploymentFailed o &&
  decide (replicas = desired) && decide (desired ≤ updated) && decide (updated ≤ available) && decide (desired ≤ ready) &&
  hasCond cs "Available" "True" && (noDeadline || cs.any isNRSA)

def deploymentLagging (o : J) : Bool :=
  let desired := fInt o ["spec", "replicas"] 1
  decide (fInt o ["status", "replicas"] 0 < desired) || decide (fInt o ["status", "updatedReplicas"] 0 < desired) ||
  decide (fInt o ["status", "readyReplicas"] 0 < desired) || decide (fInt o ["status", "availableReplicas"] 0 < desired)

/-- StatefulSet rolled out: user-managed (OnDelete), or exactly the desired replicas exist and are ready and
(partitioned update: the pods above the partition are updated | otherwise: all pods are at the current revision and
the current revision is the update revision) -/
def stsRolledOut (o : J) : Bool :=
  let desired := fInt o ["spec", "replicas"] 1
  let replicas := fInt o ["status", "replicas"] 0
  let ready := fInt o ["status", "readyReplicas"] 0
  let current := fInt o ["status", "currentReplicas"] 0
  let updated := fInt o ["status", "updatedReplicas"] 0
  let partition := fInt o ["spec", "updateStrategy", "rollingUpdate", "partition"] (-1)
  fStr o ["spec", "updateStrategy", "type"] "" == "OnDelete" ||
  (decide (replicas = desired) && decide (desired ≤ ready) &&
    (if partition ≠ -1 then decide (desired - partition ≤ updated)
     else decide (desired ≤ current) && fStr o ["status", "currentRevision"] "" == fStr o ["status", "updateRevision"] ""))

def stsLagging (o : J) : Bool :=
  let desired := fInt o ["spec", "replicas"] 1
  fStr o ["spec", "updateStrategy", "type"] "" != "OnDelete" &&
  (decide (fInt o ["status", "replicas"] 0 < desired) || decide (fInt o ["status", "readyReplicas"] 0 < desired))

def isFound {α : Type} : Acc α → Bool
  | .found _ => true
  | _ => false

/-- DaemonSet rolled out: the controller has reported (both generations present, desired number present) and the
scheduled, updated, available and ready numbers have reached the desired number -/
def dsRolledOut (o : J) : Bool :=
  let desired := fInt o ["status", "desiredNumberScheduled"] (-1)
  isFound (nestedInt64 o ["metadata", "generation"]) && isFound (nestedInt64 o ["status", "observedGeneration"]) &&
  decide (desired ≠ -1) &&
  decide (desired ≤ fInt o ["status", "currentNumberScheduled"] 0) && decide (desired ≤ fInt o ["status", "updatedNumberScheduled"] 0) &&
  decide (desired ≤ fInt o ["status", "numberAvailable"] 0) && decide (desired ≤ fInt o ["status", "numberReady"] 0)

def dsLagging (o : J) : Bool :=
  let desired := fInt o ["status", "desiredNumberScheduled"] (-1)
  decide (fInt o ["status", "currentNumberScheduled"] 0 < desired) || decide (fInt o ["status", "updatedNumberScheduled"] 0 < desired) ||
  decide (fInt o ["status", "numberAvailable"] 0 < desired) || decide (fInt o ["status", "numberReady"] 0 < desired)

/-- ReplicaSet rolled out: no ReplicaFailure, the desired replicas are labelled, available and ready, no surplus -/
def rsRolledOut (o : J) : Bool :=
  let desired := fInt o ["spec", "replicas"] 1
  !hasCond (condsOf o) "ReplicaFailure" "True" &&
  decide (desired ≤ fInt o ["status", "fullyLabeledReplicas"] 0) && decide (desired ≤ fInt o ["status", "availableReplicas"] 0) &&
  decide (desired ≤ fInt o ["status", "readyReplicas"] 0) && decide (fInt o ["status", "replicas"] 0 ≤ desired)

/-- `status.replicas` is only counted as lagging when the API invariant fullyLabeledReplicas ≤ replicas holds
(the code never compares `status.replicas < spec.replicas` directly) -/
def rsLagging (o : J) : Bool :=
  let desired := fInt o ["spec", "replicas"] 1
  let labelled := fInt o ["status", "fullyLabeledReplicas"] 0
  decide (labelled < desired) || decide (fInt o ["status", "availableReplicas"] 0 < desired) ||
  decide (fInt o ["status", "readyReplicas"] 0 < desired) ||
  (decide (fInt o ["status", "replicas"] 0 < desired) && decide (labelled ≤ fInt o ["status", "replicas"] 0))

/-- a container status entry that reports CrashLoopBackOff for a named container -/
def entryCrashLoops (e : J) : Bool :=
  match nestedString e ["name"], nestedString e ["state", "waiting", "reason"] with
  | .found _, .found r => r = "CrashLoopBackOff"
  | _, _ => false

def podCrashLooping (o : J) : Bool :=
  match nestedSlice o ["status", "containerStatuses"] with
  | .found items => items.any entryCrashLoops
  | _ => false

/-- Pod failure evidence: running, not Ready, a container crash-looping; or pending and reported Unschedulable
(by the first false PodScheduled condition) beyond the grace window -/
def podFailed (w : Bool) (o : J) : Bool :=
  let cs := condsOf o
  let phase := fStr o ["status", "phase"] ""
  (phase == "Running" && !hasCond cs "Ready" "True" && podCrashLooping o) ||
  (phase == "Pending" && !w &&
    match cs.find? (fun c => c.type = "PodScheduled" ∧ c.status = "False") with
    | some c => c.reason == "Unschedulable"
    | none => false)

/-- Pod rolled out: completed (either way) or running and Ready -/
def podRolledOut (o : J) : Bool :=
  let phase := fStr o ["status", "phase"] ""
  phase == "Succeeded" || phase == "Failed" || (phase == "Running" && hasCond (condsOf o) "Ready" "True")

/-- a condition that settles a Job: Complete=True or Failed=True -/
def isJobDecisive (c : BC) : Bool := (c.type = "Complete" ∨ c.type = "Failed") ∧ c.status = "True"

/-- the first Complete=True or Failed=True condition of a Job -/
def jobDecisive (o : J) : Option BC := (condsOf o).find? isJobDecisive

def jobFailed (o : J) : Bool :=
  match jobDecisive o with
  | some c => c.type == "Failed"
  | none => false

/-- Job: completed, or started (running counts as Current by the documented rule) -/
def jobRolledOut (o : J) : Bool :=
  match jobDecisive o with
  | some c => c.type == "Complete"
  | none => fStr o ["status", "startTime"] "" != ""

def pvcRolledOut (o : J) : Bool := fStr o ["status", "phase"] "unknown" == "Bound"

def serviceRolledOut (o : J) : Bool :=
  !(fStr o ["spec", "type"] "ClusterIP" == "LoadBalancer" && fStr o ["spec", "clusterIP"] "" == "")

/-- a condition that settles a CRD: names rejected, established, or establishing failed -/
def isCrdDecisive (c : BC) : Bool :=
  (c.type = "NamesAccepted" ∧ c.status = "False") ∨
  (c.type = "Established" ∧ (c.status = "True" ∨ (c.status = "False" ∧ c.reason ≠ "Installing")))

/-- the first condition of a CRD that settles it -/
def crdDecisive (o : J) : Option BC := (condsOf o).find? isCrdDecisive

def crdFailed (o : J) : Bool :=
  match crdDecisive o with
  | some c => c.status == "False"
  | none => false

def crdRolledOut (o : J) : Bool :=
  match crdDecisive o with
  | some c => c.status == "True"
  | none => false

def failureEvidence (k : Kind) (w : Bool) (o : J) : Bool :=
  match k with
  | .deployment => deploymentFailed o
  | .pod => podFailed w o
  | .job => jobFailed o
  | .crd => crdFailed o
  | _ => false

def rolledOut (k : Kind) (o : J) : Bool :=
  match k with
  | .service => serviceRolledOut o
  | .pod => podRolledOut o
  | .always => true
  | .pvc => pvcRolledOut o
  | .sts => stsRolledOut o
  | .ds => dsRolledOut o
  | .deployment => deploymentRolledOut o
  | .rs => rsRolledOut o
  | .pdb => true
  | .job => jobRolledOut o
  | .crd => crdRolledOut o

def lagging (k : Kind) (o : J) : Bool :=
  match k with
  | .deployment => deploymentLagging o
  | .sts => stsLagging o
  | .ds => dsLagging o
  | .rs => rsLagging o
  | _ => false

/-- the status C08 prescribes for a built-in kind without generic signal -/
def c08Expect (k : Kind) (w : Bool) (o : J) : Status :=
  if failureEvidence k w o then .failed else if rolledOut k o then .current else .inProgress

/-- C08 on an observed status `s` (no error returned) of an object whose dispatch key is `key` -/
def c08Holds (key : String) (w : Bool) (o : J) (s : Status) : Bool :=
  match legacy key with
  | none => true
  | some k =>
    if noGenericSignal o then
      (decide (s = .current) == (rolledOut k o && !failureEvidence k w o)) &&
      (decide (s = .failed) == failureEvidence k w o) &&
      (!lagging k o || decide (s ≠ .current))
    else true

/-! ### kubectl rollout status (k8s.io/kubectl@v0.31.1 pkg/polymorphichelpers/rollout_status.go), transcribed for
well-typed objects: typed zero values for absent fields, `Spec.Replicas`/`Partition`/`RollingUpdate` are pointers.
Result: `none` = the viewer returns an error, `some done`. -/

def present (o : J) (p : List String) : Bool :=
  match nestedField o p with
  | .found .null => false
  | .found _ => true
  | _ => false

/-- well-typedness of an optional integer field: when present at all it is an int64 (kubectl's typed conversion needs it) -/
def intIfPresent (o : J) (p : List String) : Bool := !present o p || isFound (nestedInt64 o p)

def kubectlDeployment (o : J) : Option Bool :=
  let gen := fInt o ["metadata", "generation"] 0
  let og := fInt o ["status", "observedGeneration"] 0
  let updated := fInt o ["status", "updatedReplicas"] 0
  if gen ≤ og then
    match (condsOf o).find? (fun c => c.type = "Progressing") with
    | some c => if c.reason = "ProgressDeadlineExceeded" then none else kubectlDeploymentCounts updated
    | none => kubectlDeploymentCounts updated
  else some false
where
  kubectlDeploymentCounts (updated : Int) : Option Bool :=
    if present o ["spec", "replicas"] ∧ updated < fInt o ["spec", "replicas"] 0 then some false
    else if fInt o ["status", "replicas"] 0 > updated then some false
    else if fInt o ["status", "availableReplicas"] 0 < updated then some false
    else some true

def kubectlDaemonSet (o : J) : Option Bool :=
  if fStr o ["spec", "updateStrategy", "type"] "" ≠ "RollingUpdate" then none
  else if fInt o ["metadata", "generation"] 0 ≤ fInt o ["status", "observedGeneration"] 0 then
    let desired := fInt o ["status", "desiredNumberScheduled"] 0
    if fInt o ["status", "updatedNumberScheduled"] 0 < desired then some false
    else if fInt o ["status", "numberAvailable"] 0 < desired then some false
    else some true
  else some false

def kubectlStatefulSet (o : J) : Option Bool :=
  let og := fInt o ["status", "observedGeneration"] 0
  let hasReplicas := present o ["spec", "replicas"]
  let desired := fInt o ["spec", "replicas"] 0
  let updated := fInt o ["status", "updatedReplicas"] 0
  if fStr o ["spec", "updateStrategy", "type"] "" ≠ "RollingUpdate" then none
  else if og = 0 ∨ fInt o ["metadata", "generation"] 0 > og then some false
  else if hasReplicas ∧ fInt o ["status", "readyReplicas"] 0 < desired then some false
  else if present o ["spec", "updateStrategy", "rollingUpdate"] then
    if hasReplicas ∧ present o ["spec", "updateStrategy", "rollingUpdate", "partition"] ∧
        updated < desired - fInt o ["spec", "updateStrategy", "rollingUpdate", "partition"] 0 then some false
    else some true
  else if fStr o ["status", "updateRevision"] "" ≠ fStr o ["status", "currentRevision"] "" then some false
  else some true

end CliUtils.Spec.KStatus
