import CliUtils.Model.Print
import CliUtils.Spec.EventGrammar
/-
  C20: what a faithful rendering of an event stream is — stated on the stream and the observed lines only,
  by COUNTING EVENTS (no running statistics, no formatter).  `printSpec` is the decidable property predicate:
  the theorems of Props/C20 show it holds of the model's printer on every well-formed stream, and the driver
  evaluates it on the real printer's output.
-/
namespace CliUtils.Spec
open CliUtils CliUtils.Print

variable {ι : Type}

/-! ### counting events -/

/-- number of apply (prune, delete — per `a`) events with status `st` -/
def countOp (a : Action) (st : OpStatus) (es : List (Event ι)) : Nat := es.countP (Event.isOp a st)

/-- number of wait events with status `st` -/
def countWait (st : WaitStatus) (es : List (Event ι)) : Nat := es.countP (Event.isWait st)

def tallyOp (a : Action) (es : List (Event ι)) : OpStats :=
  { successful := countOp a .successful es, skipped := countOp a .skipped es, failed := countOp a .failed es }

def tallyWait (es : List (Event ι)) : WaitStats :=
  { successful := countWait .successful es, timeout := countWait .timeout es,
    failed := countWait .failed es, skipped := countWait .skipped es }

/-- the statistics of a stream, by counting its events -/
def tally (es : List (Event ι)) : Stats :=
  { apply := tallyOp .apply es, prune := tallyOp .prune es, delete := tallyOp .delete es, wait := tallyWait es }

/-- the counters a group-finished / summary line about action `a` must show after the events `es`:
count = successful + skipped + failed (+ timeout for wait), each the number of such events in `es` -/
def expectedCounts (a : Action) (es : List (Event ι)) : Option Counts :=
  match a with
  | .apply | .prune | .delete =>
    some { count := countOp a .successful es + countOp a .skipped es + countOp a .failed es,
           successful := countOp a .successful es, skipped := countOp a .skipped es, failed := countOp a .failed es }
  | .wait =>
    some { count := countWait .successful es + countWait .skipped es + countWait .failed es + countWait .timeout es,
           successful := countWait .successful es, skipped := countWait .skipped es, failed := countWait .failed es,
           timeout := some (countWait .timeout es) }
  | .inventory => none

/-- number of failed apply + prune + delete events -/
def failedActuations (es : List (Event ι)) : Nat :=
  countOp .apply .failed es + countOp .prune .failed es + countOp .delete .failed es

/-- the stream holds a failed actuation, a failed reconcile or a reconcile timeout -/
def hasFailure (es : List (Event ι)) : Bool :=
  decide (failedActuations es > 0) || decide (countWait .failed es > 0) || decide (countWait .timeout es > 0)

/-! ### which events are printed, which can be printed at all -/

/-- the event is rendered as a line (init events never; status events only on request) -/
def printed (printStatus : Bool) : Event ι → Bool
  | .init _ => false
  | .status .. => printStatus
  | _ => true

/-- the printer can take the event: no `Pending` apply/prune/delete status (the counters panic on it) and no
validation event without identifiers (the formatter refuses it). Guaranteed by the grammar. -/
def countable : Event ι → Bool
  | .apply _ _ st _ => st != .pending
  | .prune _ _ st _ => st != .pending
  | .delete _ _ st _ => st != .pending
  | .validation ids _ => !ids.isEmpty
  | _ => true

/-- every event can be taken and an error event, if any, is the last one (weaker than the grammar) -/
def printable : List (Event ι) → Bool
  | [] => true
  | e :: es => if e.isError then es.isEmpty else countable e && printable es

/-! ### the predicate on observed output -/

section
variable [DecidableEq ι]

/-- the line names the same object(s), action, status (and error / message text) as the event -/
def lineIdentifies (e : Event ι) (l : Line ι) : Bool :=
  match e with
  | .init _ => false
  | .error msg =>
    l.type == "error" && l.error == some msg && l.ids.isEmpty && l.action == none && l.status == none && l.message == none
  | .actionGroup _ a st =>
    l.type == "group" && l.action == some a.str && l.status == some st.str && l.ids.isEmpty && l.error == none &&
    l.message == none
  | .apply _ id st err =>
    l.type == "apply" && l.ids == [id] && l.status == some st.str && l.error == err && l.action == none && l.message == none
  | .prune _ id st err =>
    l.type == "prune" && l.ids == [id] && l.status == some st.str && l.error == err && l.action == none && l.message == none
  | .delete _ id st err =>
    l.type == "delete" && l.ids == [id] && l.status == some st.str && l.error == err && l.action == none && l.message == none
  | .wait _ id st =>
    l.type == "wait" && l.ids == [id] && l.status == some st.str && l.error == none && l.action == none && l.message == none
  | .status id st msg =>
    l.type == "status" && l.ids == [id] && l.status == some st && l.message == some msg && l.error == none && l.action == none
  | .validation ids err =>
    l.type == "validation" && l.ids == ids && l.error == some err && l.action == none && l.status == none && l.message == none

/-- the counters of the line for `e` equal the counts of the events seen so far (`pre` = events before `e`;
only a group-finished line of a non-inventory group carries counters) -/
def countsOk (pre : List (Event ι)) (e : Event ι) (l : Line ι) : Bool :=
  match e with
  | .actionGroup _ a .finished => l.counts == expectedCounts a pre
  | _ => l.counts == none

/-- consume one line per printed event, in order; returns the lines left over (`none`: a line is missing or wrong) -/
def checkLines (printStatus : Bool) : List (Event ι) → List (Event ι) → List (Line ι) → Option (List (Line ι))
  | _, [], ls => some ls
  | pre, e :: es, ls =>
    if printed printStatus e then
      match ls with
      | [] => none
      | l :: ls' =>
        if lineIdentifies e l && countsOk pre e l then checkLines printStatus (pre ++ [e]) es ls' else none
    else checkLines printStatus (pre ++ [e]) es ls

end

/-- the summary a complete stream must end with: one line per action with at least one counted event, in the
order apply, prune, delete, wait, showing the totals over the whole stream -/
def expectedSummary (es : List (Event ι)) : List (Line ι) :=
  [Action.apply, .prune, .delete, .wait].filterMap fun a =>
    match expectedCounts a es with
    | some c => if c.count > 0 then some { type := "summary", action := some a.str, counts := some c } else none
    | none => none

section
variable [DecidableEq ι]

/-- **C20 on one observed behaviour**: no panic; one line per printed event, in order, identifying it, with counters
equal to the events seen so far; then the summary (none after an error event); error result iff the stream
holds an error event or a failure. -/
def printSpec (printStatus : Bool) (es : List (Event ι)) (r : Result ι) : Bool :=
  !r.panicked &&
  match checkLines printStatus [] es r.lines with
  | none => false
  | some rest =>
    (rest == if hasError es then [] else expectedSummary es) &&
    ((r.err != .none) == (hasError es || hasFailure es))

end
end CliUtils.Spec
