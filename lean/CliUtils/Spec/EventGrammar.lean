import CliUtils.Model.Event
/-
  The event-stream grammar of C13 (reused by C20) as a decidable, structurally recursive checker.

      stream  ::=  validation* · ( error  |  init(plan) · status* · block(g₁) · status* · … · block(gₖ) · status* · error? )
      block(g) ::=  started(g) · ( item(g) | status )* · finished(g)

  * `g₁ … gₖ` is a PREFIX of the plan carried by the init event, in plan order (k ≤ |plan|; k < |plan| when the
    run stops early); every started group is finished (the runner always waits for the running task).
  * validation events carry ≥ 1 identifier and come before the init event.
  * item(g) for an apply / prune / delete group: an apply / prune / delete event naming group g, for an object
    of g, with a non-pending status (a *result*); every object of g gets EXACTLY ONE such event inside the block.
  * item(g) for a wait group: a wait event (any status, `Pending` included) naming g for an object of g;
    every object of g gets AT LEAST ONE inside the block.  Inventory groups have no item events.
  * forwarded status events may appear anywhere after init (also before the first `started`).
  * an error event occurs at most once, only as the very last event, and never inside a block.  It may replace
    the init event (`Applier.Run` exits before planning: inventory read failure, `ExitEarly` validation).

  Implemented as a small automaton (`Phase`, `step`) folded over the stream (`run`).
-/
namespace CliUtils.Spec
open CliUtils

variable {ι : Type} [DecidableEq ι]

/-- where the checker stands in the grammar -/
inductive Phase (ι : Type) where
  /-- before the init event: only validation events so far -/
  | pre
  /-- after init, no group open; `rest` = planned groups not yet started -/
  | between (rest : List (ActionGroup ι))
  /-- inside the block of `g`; `seen` = objects that already have an item event in this block -/
  | inGroup (g : ActionGroup ι) (seen : List ι) (rest : List (ActionGroup ι))
  /-- an error event was read: nothing may follow -/
  | done
deriving Repr

/-- a result event of action `a` for `id` with status `st`, naming group `n`, is admissible in the block of `g` -/
def resultOk (g : ActionGroup ι) (seen : List ι) (a : Action) (n : String) (id : ι) (st : OpStatus) : Bool :=
  g.action = a && n = g.name && decide (id ∈ g.ids) && !decide (id ∈ seen) && st != .pending

/-- a wait event for `id` naming group `n` is admissible in the block of `g` -/
def waitOk (g : ActionGroup ι) (n : String) (id : ι) : Bool :=
  g.action = .wait && n = g.name && decide (id ∈ g.ids)

/-- the block of `g` may be closed: every object of an apply/prune/delete/wait group has its item event(s) -/
def groupComplete (g : ActionGroup ι) (seen : List ι) : Bool :=
  match g.action with
  | .inventory => true
  | _ => g.ids.all (fun i => decide (i ∈ seen))

/-- one transition of the checker; `none` = the stream is rejected -/
def step (plan : List (ActionGroup ι)) (ph : Phase ι) (e : Event ι) : Option (Phase ι) :=
  match ph with
  | .pre =>
    match e with
    | .validation ids _ => if ids.isEmpty then none else some .pre
    | .init gs => if gs = plan then some (.between plan) else none
    | .error _ => some .done
    | _ => none
  | .between rest =>
    match e with
    | .status .. => some (.between rest)
    | .error _ => some .done
    | .actionGroup n a .started =>
      match rest with
      | g :: rest' => if n = g.name ∧ a = g.action then some (.inGroup g [] rest') else none
      | [] => none
    | _ => none
  | .inGroup g seen rest =>
    match e with
    | .status .. => some (.inGroup g seen rest)
    | .apply n id st _ => if resultOk g seen .apply n id st then some (.inGroup g (id :: seen) rest) else none
    | .prune n id st _ => if resultOk g seen .prune n id st then some (.inGroup g (id :: seen) rest) else none
    | .delete n id st _ => if resultOk g seen .delete n id st then some (.inGroup g (id :: seen) rest) else none
    | .wait n id _ => if waitOk g n id then some (.inGroup g (id :: seen) rest) else none
    | .actionGroup n a .finished =>
      if n = g.name ∧ a = g.action ∧ groupComplete g seen then some (.between rest) else none
    | _ => none
  | .done => none

/-- fold `step` over the stream -/
def run (plan : List (ActionGroup ι)) : Phase ι → List (Event ι) → Option (Phase ι)
  | ph, [] => some ph
  | ph, e :: es =>
    match step plan ph e with
    | none => none
    | some ph' => run plan ph' es

/-- phases in which the stream may end: no open block, and the plan event or an error was seen -/
def Phase.accepting : Phase ι → Bool
  | .between _ => true
  | .done => true
  | _ => false

/-- **the C13 grammar**: `es` is a well-formed event stream for the plan `plan` -/
def eventsWellFormed (plan : List (ActionGroup ι)) (es : List (Event ι)) : Bool :=
  match run plan .pre es with
  | some ph => ph.accepting
  | none => false

/-! helpers for users of the grammar -/

omit [DecidableEq ι]

/-- names of the groups whose `Finished` event is in the stream, in stream order -/
def finishedGroups (es : List (Event ι)) : List String :=
  es.filterMap fun
    | .actionGroup n _ .finished => some n
    | _ => none

/-- names of the groups whose `Started` event is in the stream, in stream order -/
def startedGroups (es : List (Event ι)) : List String :=
  es.filterMap fun
    | .actionGroup n _ .started => some n
    | _ => none

/-- the planned groups that were run to completion (for a well-formed stream: a prefix of the plan whose names
are exactly `finishedGroups es`, see `Props.C20.finished_is_plan_prefix`) -/
def closedGroups (plan : List (ActionGroup ι)) (es : List (Event ι)) : List (ActionGroup ι) :=
  plan.take (finishedGroups es).length

/-- the stream contains an error event -/
def hasError (es : List (Event ι)) : Bool := es.any Event.isError

end CliUtils.Spec
