import CliUtils.Model.Sys
import CliUtils.Spec.EventGrammar
/-
  Property predicates for system-level behaviour (C01, C02, C03, C04, C05, C10, C11, C12, C13), evaluated on an OBSERVED
  history: what the real Applier/Destroyer did (events, mutating requests with the store snapshot after each, final
  store) — and, as a sanity check, on what the model did.  They are written against the input (manifests, options,
  injected faults) and the observations only; they never call the run model.
-/
namespace CliUtils.Spec
open CliUtils CliUtils.Sys

structure RunObs where
  events : List Ev
  muts : List MutRec
  final : Snap
  closed : Bool
  late : Nat
  anomaly : String
  unreadable : Bool
  cancelCalled : Bool := false   -- the caller's context was cancelled while the run was in progress
  watcherStopped : Bool := true  -- the status watcher the runner started was stopped by the time the event channel closed

structure History where
  pre : List Manifest
  snap0 : Snap
  runs : List Run

/-! ### helpers -/

def toAction : String → Action
  | "Apply" => .apply | "Prune" => .prune | "Delete" => .delete | "Wait" => .wait | _ => .inventory
def toOpStatus : String → OpStatus
  | "Successful" => .successful | "Skipped" => .skipped | "Failed" => .failed | _ => .pending
def toWaitStatus : String → WaitStatus
  | "Successful" => .successful | "Skipped" => .skipped | "Failed" => .failed | "Timeout" => .timeout | _ => .pending

def toEvent : Ev → Event Id
  | .init gs => .init (gs.map fun (n, a, ids) => { name := n, action := toAction a, ids := ids })
  | .error k => .error k
  | .group n a st => .actionGroup n (toAction a) (if st = "Started" then .started else .finished)
  | .op "apply" g id st r => .apply g id (toOpStatus st) (if r = "" then none else some r)
  | .op "prune" g id st r => .prune g id (toOpStatus st) (if r = "" then none else some r)
  | .op _ g id st r => .delete g id (toOpStatus st) (if r = "" then none else some r)
  | .wait g id st => .wait g id (toWaitStatus st)
  | .status id st => .status id st ""
  | .validation ids k => .validation ids k

def planOf (es : List Ev) : List (ActionGroup Id) :=
  match es.findSome? (fun e => match e with | .init gs => some gs | _ => none) with
  | some gs => gs.map fun (n, a, ids) => { name := n, action := toAction a, ids := ids }
  | none => []

def hasErrorEv (es : List Ev) : Bool := es.any (fun e => match e with | .error _ => true | _ => false)

def isInvReq (m : MutRec) : Bool := m.id = invObjId

/-- the store at the start of run `k`: final store of the previous run (or the initial one) minus what the environment deleted -/
def startSnap (h : History) (obs : List RunObs) (k : Nat) : Snap :=
  let base := if k = 0 then h.snap0 else (obs[k - 1]?.map (·.final)).getD h.snap0
  let del := (h.runs[k]?.map (·.envDel)).getD []
  { base with objs := base.objs.filter (fun o => o.id ∉ del) }

def snapFind (s : Snap) (id : Id) : Option Live := s.objs.find? (fun o => o.id = id)

/-- lifecycle annotations are a fixed attribute of an id in the generated histories -/
def manifestFor (h : History) (id : Id) : Option Manifest :=
  (h.runs.flatMap (·.objs) ++ h.pre).find? (fun m => m.id = id)

def preventsRemoval (h : History) (id : Id) : Bool :=
  match manifestFor h id with | some m => m.keep || m.detach | none => false

/-! ### C01 — no orphans at every snapshot -/

def nsInvId : Id := { ns := "", name := invNs, group := "", kind := "Namespace" }

/-- objects annotated with this inventory that the stored inventory does not list -/
def orphans (s : Snap) (nsEverListed : Bool) : List Id :=
  (s.objs.filter (fun o => o.owner = invId &&
      !(o.id = nsInvId && !nsEverListed) &&
      (match s.inv with | none => true | some l => o.id ∉ l))).map (·.id)

/-- all snapshots of the history in order, with the run index -/
def allSnaps (h : History) (obs : List RunObs) : List (Nat × Snap) :=
  (List.range obs.length).flatMap fun k =>
    match obs[k]? with
    | none => []
    | some o => [(k, startSnap h obs k)] ++ o.muts.map (fun m => (k, m.snap)) ++ [(k, o.final)]

def checkC01 (h : History) (obs : List RunObs) : Option String :=
  let r := (allSnaps h obs).foldl (fun (acc : Bool × Option String) (ks : Nat × Snap) =>
      match acc.2 with
      | some _ => acc
      | none =>
        let orph := orphans ks.2 acc.1
        -- the inventory namespace is exempt until the stored inventory has listed it once ("while the inventory is first
        -- being created": it is created, annotated, before the inventory object that will list it can be written)
        let ever := acc.1 || (match ks.2.inv with | some l => decide (nsInvId ∈ l) | none => false)
        if orph.isEmpty then (ever, none)
        else
          -- classify for the known-findings file
          let run := h.runs[ks.1]?
          let cls := match run with
            | some r =>
              if orph = [nsInvId] && !r.destroy then "inventory-namespace-apply-failed"
              else if r.destroy && ks.2.inv.isNone then "destroy-inventory-deleted-while-live"
              else if !r.destroy && r.opts.noPrune then "noprune-drops-unapplied"
              else "other"
            | none => "other"
          (ever, some s!"C01 orphan [{cls}] run {ks.1}: {orph.map (fun i => i.name)} live and annotated but not in the stored inventory"))
    (false, none)
  -- deleting the namespace that holds the inventory object deletes the inventory object with it (the fake API server has no
  -- namespace controller, so the consequence is stated here): an APPLY run must never do that while managed objects are live
  let nsDel := (List.range obs.length).findSome? fun k =>
    match obs[k]?, h.runs[k]? with
    | some o, some rn =>
      if rn.destroy || rn.opts.dry ≠ .none then none else
      (o.muts.find? fun m => m.verb = "delete" && m.id = nsInvId && m.result = "ok" &&
          m.snap.objs.any (fun l => l.owner = invId && l.id ≠ nsInvId)).map fun m =>
        s!"C01 run {k}: the namespace that holds the inventory object was deleted while {((m.snap.objs.filter (fun l => l.owner = invId && l.id ≠ nsInvId)).map (·.id.name))} are live and managed"
    | _, _ => none
  r.2 <|> nsDel

/-! ### C13 — event stream well-formed, closed, nothing after close -/

def checkC13 (_h : History) (obs : List RunObs) : Option String :=
  (List.range obs.length).findSome? fun k =>
    match obs[k]? with
    | none => none
    | some o =>
      if o.anomaly ≠ "" && !("early-timeout".isPrefixOf o.anomaly) then some s!"C13 run {k}: {o.anomaly}"
      else if !o.closed then some s!"C13 run {k}: event channel not closed"
      else if o.late > 0 then some s!"C13 run {k}: {o.late} API requests after the channel closed"
      else if !o.watcherStopped then some s!"C13 run {k}: the status watcher started by the run is still running after the event channel closed (its informers keep issuing LIST/WATCH requests)"
      else if !(eventsWellFormed (planOf o.events) (o.events.map toEvent)) then some s!"C13 run {k}: event stream violates the grammar"
      else none

/-! ### C10 — dry-run changes nothing -/

def snapEq (a b : Snap) : Bool :=
  let key (o : Live) := (o.id, o.uid, o.gen, o.owner, o.deleting, o.rev)
  let la := a.objs.map key
  let lb := b.objs.map key
  la.all (· ∈ lb) && lb.all (· ∈ la) &&
  (match a.inv, b.inv with
   | none, none => true
   | some x, some y => x.all (· ∈ y) && y.all (· ∈ x)
   | _, _ => false)

def checkC10 (h : History) (obs : List RunObs) : Option String :=
  (List.range obs.length).findSome? fun k =>
    match obs[k]?, h.runs[k]? with
    | some o, some r =>
      match r.opts.dry with
      | .none => none
      | .client =>
        if !o.muts.isEmpty then some s!"C10 run {k}: client dry-run issued a mutating request ({(o.muts.map (·.verb))})"
        else if !(snapEq (startSnap h obs k) o.final) then some s!"C10 run {k}: store changed under client dry-run"
        else none
      | .server =>
        if o.muts.any (fun m => !m.dry) then some s!"C10 run {k}: server dry-run issued a request without the dry-run directive"
        else if o.muts.any (fun m => m.verb = "delete") then some s!"C10 run {k}: server dry-run sent a delete"
        else if o.muts.any (fun m => m.verb ≠ "patch") then some s!"C10 run {k}: server dry-run sent a non-apply mutating request"
        else if !(snapEq (startSnap h obs k) o.final) then some s!"C10 run {k}: store changed under server dry-run"
        else none
    | _, _ => none

/-! ### C02 — every delete / apply is authorised -/

def appliedUids (o : RunObs) (upTo : Nat) : List String :=
  -- uids of objects applied by this run before event index `upTo` (from the snapshots of the apply requests)
  o.muts.filterMap fun m =>
    if (m.verb = "create" || m.verb = "patch") && !isInvReq m && m.result = "ok" && !m.dry && m.evIdx ≤ upTo then
      (snapFind m.snap m.id).map (·.uid)
    else none

def checkC02 (h : History) (obs : List RunObs) : Option String :=
  (List.range obs.length).findSome? fun k =>
    match obs[k]?, h.runs[k]? with
    | some o, some r =>
      let s0 := startSnap h obs k
      let prevInv := s0.inv.getD []
      let applySet := if r.destroy then [] else r.objs.map (·.id)
      let localNs := (applySet.map (·.ns)).filter (· ≠ "") ++ [invNs]
      -- deletes
      let badDelete := o.muts.findSome? fun m =>
        if m.verb = "delete" && !isInvReq m then
          let live0 := snapFind s0 m.id
          let owner := (live0.map (·.owner)).getD ""
          if m.id ∉ prevInv then some s!"delete of {m.id.name} which was not in the inventory before the run"
          else if m.id ∈ applySet then some s!"delete of {m.id.name} which is in the apply set"
          else if !(canPrune owner r.opts.policy) then some s!"delete of {m.id.name} not allowed by the inventory policy (owner '{owner}')"
          else if preventsRemoval h m.id then some s!"delete of {m.id.name} which carries a deletion-prevention annotation"
          else if !r.destroy && m.id.group = "" && m.id.kind = "Namespace" && m.id.name ∈ localNs then some s!"delete of namespace {m.id.name} still in use"
          else if m.precond = "" || some m.precond ≠ live0.map (·.uid) then some s!"delete of {m.id.name} without the UID precondition read at planning time"
          else if m.precond ∈ appliedUids o m.evIdx then some s!"delete of {m.id.name}: same UID as an object just applied"
          else if m.prop ≠ (if r.opts.foreground then "Foreground" else "Background") then some s!"delete of {m.id.name} with propagation policy {m.prop}"
          else none
        else none
      -- applies over existing objects
      let badApply := (List.range o.muts.length).findSome? fun i =>
        match o.muts[i]? with
        | some m =>
          -- writes over an existing object: PATCH/CREATE of the apply task, and an UPDATE of an object of the apply set or of the
          -- inventory's namespace (the only UPDATE the library sends to other objects removes the owning-inventory annotation of a
          -- spared prune candidate, which the property asks for whatever the owner).  The CREATE that `InvAddTask` sends for the
          -- inventory's namespace is exempt: on an existing namespace it is answered AlreadyExists and changes nothing.
          if (m.verb = "patch" || m.verb = "create" || (m.verb = "update" && (m.id = nsInvId || m.id ∈ applySet))) &&
             !isInvReq m && !m.dry && !(m.id = nsInvId && m.verb = "create") then
            let before := if i = 0 then s0 else (o.muts[i - 1]?.map (·.snap)).getD s0
            match snapFind before m.id with
            | some live => if canApply live.owner r.opts.policy then none
                           else some s!"apply over existing {m.id.name} (owner '{live.owner}') not allowed by the inventory policy"
            | none => none
          else none
        | none => none
      -- spared objects
      let completed := !hasErrorEv o.events && r.opts.dry = .none
      let badSpared := o.events.findSome? fun e =>
        match e with
        | .op k _ id "Skipped" reason =>
          if (k = "prune" || k = "delete") && completed then
            let inFinal := match o.final.inv with | some l => decide (id ∈ l) | none => false
            let live := snapFind o.final id
            if reason = "prevent-remove" then
              if inFinal then some s!"{id.name} spared by a deletion-prevention annotation but still in the inventory"
              else if (live.map (·.owner)).getD "" = invId then some s!"{id.name} spared by a deletion-prevention annotation but still carries the owning-inventory annotation"
              else none
            else if reason = "just-applied" then
              if inFinal && id ∉ applySet then some s!"{id.name} (alias of a just-applied object) still in the inventory" else none
            else if !inFinal && id ∈ prevInv && !(r.destroy && o.final.inv.isNone) then some s!"{id.name} was spared ({reason}) but left the inventory"
            else none
          else none
        | _ => none
      (badDelete <|> badApply <|> badSpared).map (fun s => s!"C02 run {k}: {s}")
    | _, _ => none

/-! ### C04 / C05 — ordering of actuation w.r.t. dependencies -/

/-- the dependencies a manifest declares (an unparseable annotation declares none that anybody could honour) -/
def declaredDeps (m : Manifest) : List Id :=
  if m.depsRaw ≠ "" then [] else m.deps ++ (match m.mutFrom with | some s => [s] | none => [])

/-- explicit + implicit dependencies of an object of run `r` within a set of ids.  For an object of the apply set: what
this run's manifest declares.  For an object that is only tracked (its live annotations count): what its manifests in
the history declare, provided they all declare the same — otherwise the predicate makes no claim about it. -/
def depsIn (h : History) (r : Run) (ids : List Id) (id : Id) : List Id :=
  let expl : List Id :=
    match (if r.destroy then none else r.objs.find? (fun m => m.id = id)) with
    | some m => declaredDeps m
    | none =>
      match (h.runs.flatMap (·.objs) ++ h.pre).filter (fun m => m.id = id) with
      | [] => []
      | m :: rest => if rest.all (fun m' => declaredDeps m' = declaredDeps m) then declaredDeps m else []
  let nsDep : List Id := if id.ns ≠ "" then [{ ns := "", name := id.ns, group := "", kind := "Namespace" }] else []
  (expl ++ nsDep).filter (· ∈ ids)

def lastWaitBefore (es : List Ev) (upTo : Nat) (id : Id) : Option String :=
  ((es.take upTo).filterMap fun e => match e with | .wait _ i st => if i = id then some st else none | _ => none).getLast?

def opResultBefore (es : List Ev) (upTo : Nat) (kinds : List String) (id : Id) : Option String :=
  ((es.take upTo).filterMap fun e => match e with | .op k _ i st _ => if i = id && k ∈ kinds then some st else none | _ => none).getLast?

/-- "observed Current at a generation not older than the applied one": an object whose only observation so far is the
initial status (reported before the run changed it) and whose apply bumped the generation cannot be reported reconciled
at the start of its wait phase — its first wait event must be Pending -/
def staleInitialReportedReconciled (h : History) (obs : List RunObs) (k : Nat) (o : RunObs) (r : Run) : Option String :=
  if r.opts.dry ≠ .none then none else
  let s0 := startSnap h obs k
  r.initial.findSome? fun d =>
    match snapFind s0 d with
    | none => none
    | some live0 =>
      -- generation after this run's apply request for d (if any)
      match o.muts.find? (fun m => m.id = d && (m.verb = "patch" || m.verb = "create") && m.result = "ok" && !m.dry) with
      | none => none
      | some m =>
        match snapFind m.snap d with
        | none => none
        | some live1 =>
          if live1.gen ≤ live0.gen then none else
          let firstWait := (o.events.drop m.evIdx).findSome? fun e => match e with | .wait _ i st => if i = d then some st else none | _ => none
          if firstWait = some "Successful" then
            some s!"C04 run {k}: {d.name} reported reconciled at the start of its wait phase although its only observation (generation {live0.gen}) is older than the applied generation {live1.gen}"
          else none

/-- an applied object whose controller script never shows it Current at a generation as new as the applied one (and that
was not reported by the watcher before the run started) cannot be reported reconciled -/
def reconciledWithoutObservation (k : Nat) (o : RunObs) (r : Run) : Option String :=
  if r.opts.dry ≠ .none || r.destroy then none else
  (r.objs.map (·.id)).findSome? fun d =>
    if d ∈ r.initial then none
    else if (r.ctrl.lookup d).getD "current" ∈ ["never", "stale", "failed", "failed-stale"] then
      if o.events.any (fun e => match e with | .wait _ i st => i = d && st = "Successful" | _ => false) then
        some s!"C04 run {k}: {d.name} reported reconciled although it was never observed Current at the applied generation"
      else none
    else none

def checkC04 (h : History) (obs : List RunObs) : Option String :=
  (List.range obs.length).findSome? fun k =>
    match obs[k]?, h.runs[k]? with
    | some o, some r =>
      if r.destroy then none else
      let applySet := r.objs.map (·.id)
      let dry := r.opts.dry ≠ .none
      (staleInitialReportedReconciled h obs k o r) <|> (reconciledWithoutObservation k o r) <|> o.muts.findSome? fun m =>
        if (m.verb = "patch" || m.verb = "create") && !isInvReq m && m.id ≠ nsInvId || (m.id = nsInvId && m.verb = "patch") then
          (depsIn h r applySet m.id).findSome? fun d =>
            if opResultBefore o.events m.evIdx ["apply"] d ≠ some "Successful" then
              some s!"C04 run {k}: {m.id.name} sent to the API server before its dependency {d.name} was applied successfully"
            else if !dry && lastWaitBefore o.events m.evIdx d ≠ some "Successful" then
              some s!"C04 run {k}: {m.id.name} sent to the API server although its dependency {d.name} was not reconciled"
            else none
        else none
    | _, _ => none

def checkC05 (h : History) (obs : List RunObs) : Option String :=
  (List.range obs.length).findSome? fun k =>
    match obs[k]?, h.runs[k]? with
    | some o, some r =>
      let s0 := startSnap h obs k
      let applySet := if r.destroy then [] else r.objs.map (·.id)
      let all := applySet ++ (s0.inv.getD [])
      let dry := r.opts.dry ≠ .none
      let bad := o.muts.findSome? fun m =>
        if m.verb = "delete" && !isInvReq m then
          -- every object of the run that depends on m.id and exists must have been deleted and observed gone before
          (all.filter (fun x => m.id ∈ depsIn h r all x && (snapFind s0 x).isSome || (m.id ∈ depsIn h r all x && x ∈ applySet))).findSome? fun x =>
            if x ∈ applySet then some s!"C05 run {k}: {m.id.name} deleted although {x.name}, which depends on it, is in the apply set"
            else if opResultBefore o.events m.evIdx ["prune", "delete"] x ≠ some "Successful" then
              some s!"C05 run {k}: {m.id.name} deleted before its dependent {x.name} was deleted"
            else if !dry && lastWaitBefore o.events m.evIdx x ≠ some "Successful" then
              some s!"C05 run {k}: {m.id.name} deleted before its dependent {x.name} was observed gone"
            -- … and the events must be true: the dependent is not in the store any more (or is on its way out) when the
            -- dependency's delete is answered
            else if !dry && m.result = "ok" && (snapFind m.snap x).any (fun l => !l.deleting) then
              some s!"C05 run {k}: {m.id.name} deleted while its dependent {x.name} is still live in the cluster"
            else none
        else none
      bad
    | _, _ => none

/-! ### C11 — invalid objects isolated -/

/-- ids of the apply set on a two-object dependency cycle, and everything of the apply set that (transitively) depends on one of
them: none of these can be ordered, all of them are reported by the cycle error -/
def onOrBehindCycle (r : Run) : List Id :=
  let ms := r.objs
  let core := (ms.filter fun m => (declaredDeps m).any fun d =>
    d ≠ m.id && (ms.find? (fun m2 => m2.id = d)).any (fun m2 => (declaredDeps m2).contains m.id)).map (·.id)
  let step (s : List Id) : List Id := s ++ ((ms.filter fun m => m.id ∉ s && (declaredDeps m).any (· ∈ s)).map (·.id))
  (List.range ms.length).foldl (fun s _ => step s) core

def generatedInvalid (r : Run) (pruneIds : List Id) : List Id :=
  -- invalid by construction of the generator: field errors, and the named families of bad references
  -- (a reference is external if it is neither in the apply set nor among the tracked objects that still exist)
  (r.objs.filter (fun m => fieldInvalid m || m.depsRaw ≠ "" || (m.mutExt && m.mutFrom.isSome) ||
      (m.deps ++ (match m.mutFrom with | some x => [x] | none => [])).any (fun d => d ∉ r.objs.map (·.id) && d ∉ pruneIds) || dedup m.deps ≠ m.deps ||
      (m.id.name = "x" || m.id.name = "y") && m.deps.any (fun d => d.name = "x" || d.name = "y") ||
      m.id ∈ onOrBehindCycle r)).map (·.id)

def checkC11 (h : History) (obs : List RunObs) : Option String :=
  (List.range obs.length).findSome? fun k =>
    match obs[k]?, h.runs[k]? with
    | some o, some r =>
      if r.destroy then none else
      let s0 := startSnap h obs k
      let prevInv := s0.inv.getD []
      let bad := generatedInvalid r (prevInv.filter (fun i => (snapFind s0 i).isSome))
      if bad.isEmpty then none else
      let named := o.events.flatMap fun e => match e with | .validation ids _ => ids | _ => []
      if !r.opts.skipInvalid then
        if !o.muts.isEmpty then some s!"C11 run {k}: exit-early validation but a mutating request was made"
        else if !hasErrorEv o.events then some s!"C11 run {k}: exit-early validation but no error event"
        else none
      else
        let notNamed := bad.filter (· ∉ named)
        if !notNamed.isEmpty && !(o.events.any fun e => match e with | .error _ => true | _ => false) then
          some s!"C11 run {k}: invalid objects {notNamed.map (·.name)} not named in any validation error"
        else match o.muts.find? (fun m => m.id ∈ bad && !isInvReq m) with
          | some m => some s!"C11 run {k}: invalid object {m.id.name} was sent to the API server ({m.verb})"
          | none =>
            -- never added to the inventory unless already tracked; tracked ones stay (in every snapshot of the run)
            let snaps := o.muts.map (·.snap) ++ [o.final]
            match snaps.findSome? (fun s => match s.inv with
                | some l => (bad.find? (fun i => i ∈ l && i ∉ prevInv)).map (fun i => s!"invalid object {i.name} was added to the stored inventory")
                | none => none) with
            | some msg => some s!"C11 run {k}: {msg}"
            | none =>
              let completed := !hasErrorEv o.events && r.opts.dry = .none
              let lost := bad.filter (fun i => i ∈ prevInv && completed && (match o.final.inv with | some l => i ∉ l | none => true))
              if !lost.isEmpty then some s!"C11 run {k}: tracked invalid objects {lost.map (·.name)} left the inventory"
              else
                -- objects depending on an invalid object are not applied
                let applySet := r.objs.map (·.id)
                (o.muts.find? (fun m => (m.verb = "create" || m.verb = "patch") && !isInvReq m &&
                    (depsIn h r applySet m.id).any (· ∈ bad))).map
                  (fun m => s!"C11 run {k}: {m.id.name} depends on an invalid object but was applied")
    | _, _ => none

/-! ### C12 — timeouts and cancellation -/

def checkC12 (h : History) (obs : List RunObs) : Option String :=
  (List.range obs.length).findSome? fun k =>
    match obs[k]?, h.runs[k]? with
    | some o, some r =>
      let es := o.events
      -- Timeout only when a timeout is configured, and only for objects that were pending
      let badTimeout := (List.range es.length).findSome? fun i =>
        match (es[i]? : Option Ev) with
        | some (Ev.wait g id "Timeout") =>
          if !r.opts.timeout then some s!"Timeout reported for {id.name} although no timeout is configured"
          else
            let lastInGroup := ((es.take i).filterMap fun e => match e with | .wait g' i' st => if g' = g && i' = id then some st else none | _ => none).getLast?
            if lastInGroup ≠ some "Pending" then some s!"Timeout reported for {id.name} which was not pending" else none
        | _ => none
      -- Timeout is the last word of a wait phase about an object: no further wait event for it in that group
      let afterTimeout := (List.range es.length).findSome? fun i =>
        match (es[i]? : Option Ev) with
        | some (Ev.wait g id "Timeout") =>
          -- (a report that arrives right after the deadline may still turn the object Successful / Failed — and is then what is
          -- recorded; what cannot follow a Timeout is Pending, Skipped or a second Timeout)
          if (es.drop (i + 1)).any (fun e => match e with
              | .wait g' i' st => g' = g && i' = id && st ≠ "Successful" && st ≠ "Failed" | _ => false)
          then some s!"{id.name} is reported pending / timed out again by {g} after its Timeout" else none
        | _ => none
      -- a group that finished with objects still pending (and no abort) must have reported Timeout for exactly them
      let cancelled := es.any fun e => match e with | .error "canceled" => true | .error "watcher" => true | _ => false
      -- after cancellation: no further group is started, a single error event ends the stream
      let errIdx := es.findIdx? (fun e => match e with | .error _ => true | _ => false)
      let afterErr : Nat := match errIdx with | some i => es.length - i - 1 | none => 0
      let badCancel :=
        if afterErr > 0 then some "events after the error event"
        else if r.cancel ≠ .never && cancelled then
          -- the request log after the close is empty (checked by C13.late); inventory never shrinks below live objects (C01)
          none
        else none
      -- a run whose context was cancelled ends with the CONTEXT error, whatever the status watcher reported meanwhile
      let badReason := if o.cancelCalled && es.getLast? = some (Ev.error "watcher")
        then some "the caller's context was cancelled, yet the run ends with the watcher's error instead of the context error"
        else if es.getLast? = some (Ev.error "cause")
        then some "the run ends with the cause the caller cancelled its context with, not with the context error"
        -- the context was cancelled while the run was in progress (the script cancels before the sync event, while a request of
        -- some phase is in flight, or during a wait): whatever phase that was — the last one included — the run reports it
        else if o.cancelCalled && r.opts.dry = .none && !(es.any fun e => match e with | .error _ => true | _ => false)
        then some "the caller's context was cancelled while the run was in progress, yet the run ends without an error event" else none
      let early := if "early-timeout".isPrefixOf o.anomaly then some o.anomaly
        else if (o.anomaly.splitOn "after the context was cancelled").length > 1 then some o.anomaly else none
      (badTimeout <|> afterTimeout <|> badCancel <|> badReason <|> early).map (fun s => s!"C12 run {k}: {s}")
    | _, _ => none

/-! ### C03 — convergence -/

def resultOf (es : List Ev) (kinds : List String) (id : Id) : Option String :=
  (es.filterMap fun e => match e with | .op k _ i st _ => if i = id && k ∈ kinds then some st else none | _ => none).getLast?

def lastWait (es : List Ev) (id : Id) : Option String :=
  (es.filterMap fun e => match e with | .wait _ i st => if i = id then some st else none | _ => none).getLast?

def checkC03 (h : History) (obs : List RunObs) : Option String :=
  (List.range obs.length).findSome? fun k =>
    match obs[k]?, h.runs[k]? with
    | some o, some r =>
      -- (a run the harness had to abort — a phase that can never end and no timeout configured — did not complete)
      if hasErrorEv o.events || r.opts.dry ≠ .none || o.anomaly ≠ "" then none else
      let s0 := startSnap h obs k
      let prevInv := s0.inv.getD []
      let es := o.events
      -- every successfully applied object is live and annotated
      let applied := (r.objs.map (·.id)).filter (fun i => resultOf es ["apply"] i = some "Successful")
      let missing := applied.filter fun i => match snapFind o.final i with | some l => l.owner ≠ invId | none => true
      -- objects whose deletion succeeded and completed are gone
      let deleted := prevInv.filter (fun i => resultOf es ["prune", "delete"] i = some "Successful" && lastWait es i = some "Successful")
      let stillThere := deleted.filter fun i => (snapFind o.final i).isSome && !((r.del.lookup i).getD "gone" = "finalizer-gone" && false)
      -- the inventory formula
      let invalidNamed := es.flatMap fun e => match e with | .validation ids _ => ids | _ => []
      let detached := es.filterMap fun e => match e with
        | .op _ _ i "Skipped" "prevent-remove" => some i
        | .op _ _ i "Skipped" "just-applied" => some i
        | _ => none
      let keepPrev := prevInv.filter fun i =>
        let a := resultOf es ["apply"] i
        let d := resultOf es ["prune", "delete"] i
        let w := lastWait es i
        a = some "Failed" || a = some "Skipped" || d = some "Failed" || d = some "Skipped" ||
        w = some "Failed" || w = some "Timeout" || i ∈ invalidNamed ||
        -- pruning disabled: tracked objects that still exist and are not applied count as "delete skipped"
        (!r.destroy && r.opts.noPrune && i ∉ r.objs.map (·.id) && (snapFind s0 i).isSome)
      let expected := dedup ((applied ++ keepPrev).filter (· ∉ detached) ++ prevInv.filter (fun i => i ∈ invalidNamed))
      let bad1 := if !missing.isEmpty then some s!"applied objects {missing.map (·.name)} are not live with the owning annotation" else none
      let bad2 := if !stillThere.isEmpty then some s!"objects {stillThere.map (·.name)} whose deletion completed still exist" else none
      let bad3 := match o.final.inv with
        | some l =>
          let allDeleted := r.destroy && invalidNamed.isEmpty && es.all fun e => match e with
            | .op _ _ _ st _ => st = "Successful"
            | .wait _ i st => st = "Successful" || (st = "Pending" && lastWait es i = some "Successful")
            | _ => true
          if allDeleted then some "a destroy in which every object was deleted and observed gone left the inventory object behind"
          else if !(l.all (· ∈ expected) && expected.all (· ∈ l)) then
            -- un-applied, un-pruned previous ids (NoPrune) are judged by C01; report only genuine formula mismatches
            let extra := l.filter (· ∉ expected)
            let lack := expected.filter (· ∉ l)
            some s!"stored inventory differs from the declared formula: unexpected {extra.map (·.name)}, missing {lack.map (·.name)}"
          else none
        | none =>
          if r.destroy then
            (o.final.objs.find? (fun l => l.owner = invId && l.id ≠ nsInvId)).map (fun l => s!"destroy removed the inventory but {l.id.name} is still managed")
          else if expected.isEmpty && prevInv.isEmpty then none else some "no stored inventory after an apply run"
      -- fixpoint: an identical apply after a clean run sends no create/delete and leaves the inventory alone
      let bad4 :=
        if k = 0 then none else
        match obs[k - 1]?, h.runs[k - 1]? with
        | some po, some pr =>
          let same := !pr.destroy && !r.destroy && pr.objs = r.objs && pr.opts.policy = r.opts.policy && pr.opts.noPrune = r.opts.noPrune &&
                      pr.opts.ssa = r.opts.ssa && r.envDel.isEmpty
          let clean (o : RunObs) := !hasErrorEv o.events && o.events.all fun e => match e with
            | .op _ _ _ st _ => st = "Successful"
            | .wait _ _ st => st = "Successful" || st = "Pending"
            | .validation .. => false
            | _ => true
          let prClean := clean po && pr.opts.dry = .none && po.events.all (fun e => match e with | .wait _ i "Pending" => lastWait po.events i = some "Successful" | _ => true)
          if same && prClean && r.failMut.isEmpty && r.failGet.isEmpty && r.failInvRead.isEmpty then
            -- (an idempotent create answered AlreadyExists — the inventory namespace — creates nothing and is not counted)
            if o.muts.any (fun m => (m.verb = "create" || m.verb = "delete") && m.result = "ok") then some "re-running an identical clean apply sent a create or delete request"
            else if !(snapEq { s0 with objs := [] } { o.final with objs := [] }) then some "re-running an identical clean apply changed the stored inventory"
            else none
          else none
        | _, _ => none
      (bad1 <|> bad2 <|> bad3 <|> bad4).map (fun s => s!"C03 run {k}: {s}")
    | _, _ => none

/-! ### C18 — the value apply-time mutation writes is the source's value -/

/-- after every successful apply request for an object with an apply-time-mutation annotation (a single in-set source), the
target field of the stored object holds the source field's value as the store has it at that moment (in the generated
histories a source does not change between its last status report and the apply of its dependent) -/
def checkC18 (h : History) (obs : List RunObs) : Option String :=
  (List.range obs.length).findSome? fun k =>
    match obs[k]?, h.runs[k]? with
    | some o, some r =>
      if r.destroy || r.opts.dry ≠ .none then none else
      o.muts.findSome? fun m =>
        if (m.verb = "create" || m.verb = "patch") && m.result = "ok" then
          match r.objs.find? (fun x => x.id = m.id) with
          | some mf =>
            match mf.mutFrom with
            | some src =>
              if mf.mutExt then none else
              if mf.mutBad then some s!"C18 run {k}: {m.id.name} was applied although one of its substitutions is rejected (source path matches nothing)" else
              match snapFind m.snap m.id, snapFind m.snap src with
              | some tgt, some sl =>
                if tgt.frm = some sl.rev then none
                else some s!"C18 run {k}: {m.id.name} was applied with value {tgt.frm} but its source {src.name} holds {sl.rev}"
              | _, _ => none
            | none => none
          | none => none
        else none
    | _, _ => none

/-! ### dispatcher -/

def checks : List (String × (History → List RunObs → Option String)) := [
  ("C01", checkC01), ("C02", checkC02), ("C03", checkC03), ("C04", checkC04), ("C05", checkC05),
  ("C10", checkC10), ("C11", checkC11), ("C12", checkC12), ("C13", checkC13), ("C18", checkC18)]

def checkHistory (prop : String) (h : History) (obs : List RunObs) : Bool × String :=
  let sel := if prop = "all" then checks else checks.filter (fun c => c.1 = prop)
  match sel.findSome? (fun c => c.2 h obs) with
  | some msg => (false, msg)
  | none => (true, "")

/-- known-finding regions are recognised from the classification embedded in the message -/
def regionOf (why : String) : Option String :=
  if (why.splitOn "[destroy-inventory-deleted-while-live]").length > 1 then some "C01.destroy-inventory-deleted-while-live"
  else if (why.splitOn "[noprune-drops-unapplied]").length > 1 then some "C01.noprune-drops-unapplied"
  else if (why.splitOn "[inventory-namespace-apply-failed]").length > 1 then some "C01.inventory-namespace-apply-failed"
  else none

def tagsOf (h : History) (obs : List RunObs) : List String :=
  let runTags := h.runs.flatMap fun r =>
    [if r.destroy then "sys:destroy" else "sys:apply"] ++
    (if r.opts.noPrune then ["sys:noprune"] else []) ++
    (match r.opts.dry with | .none => [] | .client => ["sys:dry-client"] | .server => ["sys:dry-server"]) ++
    (if r.opts.skipInvalid then ["sys:skip-invalid"] else ["sys:exit-early"]) ++
    (if r.opts.ssa then ["sys:ssa"] else []) ++
    (if !r.failMut.isEmpty then ["sys:fail-mut"] else []) ++
    (if !r.failInvRead.isEmpty then ["sys:fail-inv-read"] else []) ++
    (if !r.failGet.isEmpty then ["sys:fail-get"] else []) ++
    (match r.cancel with | .never => [] | .beforeSync => ["sys:cancel-before-sync"] | .wait .. => ["sys:cancel-in-wait"] | .mut _ => ["sys:cancel-in-request"]) ++
    (if r.watchErr.isSome then ["sys:watcher-error"] else []) ++
    [s!"sys:policy{r.opts.policy}"]
  let evTags := obs.flatMap fun o => o.events.filterMap fun e => match e with
    | .op k _ _ st r => some (s!"ev:{k}-{st}" ++ (if r = "" then "" else s!"-{r}"))
    | .wait _ _ st => some s!"ev:wait-{st}"
    | .error k => some s!"ev:error-{k}"
    | .validation _ k => some s!"ev:validation-{k}"
    | _ => none
  (runTags ++ evTags ++ [s!"sys:runs{h.runs.length}"]).eraseDups

end CliUtils.Spec
