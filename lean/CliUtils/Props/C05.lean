import CliUtils.Model.Sys
import CliUtils.Lemmas.SysL
import CliUtils.Props.C02
import CliUtils.Props.C04
import CliUtils.Props.C14
/-
  C05 — objects are deleted in reverse dependency order; dependencies outlive dependents.
-/
namespace CliUtils.Props.C05
open CliUtils CliUtils.Sys CliUtils.Props.C04

/-- **C05 gate**: a delete request is sent for an object only if every object of the run that depends on it (the
incoming edges of the run's graph: apply set and stored inventory) has, at that moment, been deleted successfully and —
outside dry-run — is recorded as reconciled (by C06: last observed NotFound, or replaced) -/
theorem delete_gate (uids localNs : List String) (s : St) (live : Live)
    (h : pruneDecision uids localNs s live = .delete) :
    ∀ d ∈ dependentsOrdered s.edges live.id, RelationOk s.invalid s.mgr .delete (dryOf s) d :=
  (depFilter_pass_iff _ _ _ _ _).mp (CliUtils.Props.C02.delete_decision_guards uids localNs s live h).dependents

/-- a dependent that is still part of the apply set is registered with strategy Apply, so it blocks (strategy mismatch) -/
theorem dependent_in_apply_set_blocks (invalid : List Id) (mgr : Mgr Id) (dry : Bool) (d : Id) (r : Rec Id)
    (hr : mgr.find? d = some r) (hs : r.strategy = .apply) : ¬ RelationOk invalid mgr .delete dry d := by
  rintro ⟨_, r', hr', hs', _⟩
  rw [hr] at hr'; injection hr' with hr'; subst hr'
  rw [hs] at hs'; cases hs'

/-- **C05 blocked**: if a dependent's delete failed, was skipped, or did not complete (reconcile failed / timeout / skipped /
pending), or the dependent is being applied, or is invalid, the dependency is not deleted in that step: no request, store
unchanged, it is reported Skipped or Failed, and it is recorded as a skipped or failed delete (which keeps it in the inventory:
see C01/C03 `final_inventory_mem`) -/
theorem blocked_not_deleted (group : String) (uids localNs : List String) (s : St) (live : Live)
    (d : Id) (hd : d ∈ dependentsOrdered s.edges live.id) (hblock : ¬ RelationOk s.invalid s.mgr .delete (dryOf s) d) :
    pruneDecision uids localNs s live ≠ .delete ∧ pruneDecision uids localNs s live ≠ .deleteDry := by
  constructor
  · intro h; exact hblock (delete_gate uids localNs s live h d hd)
  · intro h
    -- deleteDry also needs the filter to pass
    unfold pruneDecision at h
    repeat' split at h
    all_goals first | cases h | skip
    rename_i hpass _ _
    exact hblock ((depFilter_pass_iff _ _ _ _ _).mp hpass d hd)

/-- every edge to `v` shows up among its dependents: the gate looks at ALL incoming edges -/
theorem dependents_complete (edges : List (Id × Id)) (x v : Id) (h : (x, v) ∈ edges) : x ∈ dependentsOrdered edges v := by
  unfold dependentsOrdered
  rw [mem_dedup, List.mem_map]
  exact ⟨(x, v), List.mem_filter.mpr ⟨h, by simp⟩, rfl⟩

/-- **plan order for deletes**: in the reversed layering used for prune/destroy, an object that others depend on sits in a
strictly LATER delete layer than each of its dependents (from the layering theorem of C14) -/
theorem delete_layers_reverse (g : Graph.Adj Id) (h : Graph.KeysNodup g) {i : Nat} {v d : Id}
    (hv : Graph.InLayer (Graph.reverseSetList (Graph.sort g).1) i v) (he : Graph.Edge g v d) :
    ∃ j, i < j ∧ Graph.InLayer (Graph.reverseSetList (Graph.sort g).1) j d :=
  CliUtils.Props.C14.reverse_edges_strict g h hv he

/-- **the gate does not depend on the order of the related objects**: two lists with the same members pass or block together.
(The library keeps the dependents of an object in the order their edges were added, and prune candidates come in Go
map-iteration order of the stored inventory — unspecified; what IS specified, whether the delete goes out, is order-free.) -/
theorem gate_order_independent (invalid : List Id) (mgr : Mgr Id) (strategy : Strategy) (dry : Bool) (l l' : List Id)
    (h : ∀ x, x ∈ l ↔ x ∈ l') :
    depFilter invalid mgr strategy dry l = .pass ↔ depFilter invalid mgr strategy dry l' = .pass := by
  rw [depFilter_pass_iff, depFilter_pass_iff]
  constructor
  · intro hp b hb; exact hp b ((h b).mpr hb)
  · intro hp b hb; exact hp b ((h b).mp hb)

/-- when the gate blocks, the verdict reported is the verdict of one of the related objects that block (the first in the list) -/
theorem blocked_verdict_is_a_blockers (invalid : List Id) (mgr : Mgr Id) (strategy : Strategy) (dry : Bool) (l : List Id)
    (o : DepOutcome) (ho : depFilter invalid mgr strategy dry l = o) (hb : o ≠ .pass) :
    ∃ b ∈ l, depRelation invalid mgr strategy dry b = o := by
  induction l with
  | nil => simp [depFilter] at ho; exact absurd ho.symm hb
  | cons b bs ih =>
    simp only [depFilter] at ho
    cases hr : depRelation invalid mgr strategy dry b with
    | pass =>
      rw [hr] at ho
      obtain ⟨c, hc, hco⟩ := ih ho
      exact ⟨c, List.mem_cons_of_mem _ hc, hco⟩
    | skip r => rw [hr] at ho; exact ⟨b, List.mem_cons_self, by rw [hr]; exact ho⟩
    | fatal r => rw [hr] at ho; exact ⟨b, List.mem_cons_self, by rw [hr]; exact ho⟩

/-- non-vacuity: one blocking relation of each kind; in either order the gate blocks, with the first one's verdict -/
example :
    let mgr : Mgr Id := [{ id := ⟨"ns", "y", "", "ConfigMap"⟩, strategy := .delete, actuation := .failed, reconcile := .pending }]
    let x : Id := ⟨"ns", "x", "", "ConfigMap"⟩
    let y : Id := ⟨"ns", "y", "", "ConfigMap"⟩
    depFilter [x] mgr .delete false [x, y] ≠ .pass ∧ depFilter [x] mgr .delete false [y, x] ≠ .pass ∧
    depFilter [x] mgr .delete false [x, y] ≠ depFilter [x] mgr .delete false [y, x] := by decide

end CliUtils.Props.C05
