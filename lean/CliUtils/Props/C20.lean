import CliUtils.Lemmas.PrintL
/-
  C20 — printers render the event stream faithfully and signal failure in the result.

  Model: `Print.print` (BaseListPrinter.Print + JSON formatter + stats collector, `Model/Print.lean`).
  Streams: all streams accepted by the grammar `Spec.eventsWellFormed` (`Spec/EventGrammar.lean`), any plan.
  The property predicate evaluated on the real printer's output is `Spec.printSpec` (`Spec/PrintSpec.lean`);
  `print_satisfies_spec` shows the model always satisfies it, the named theorems below spell its parts out.
  Theorems only; helper lemmas live in `Lemmas/PrintL.lean`.
-/
namespace CliUtils.Props.C20
open CliUtils CliUtils.Print CliUtils.Spec CliUtils.Lemmas.PrintL

variable {ι : Type} [DecidableEq ι]

/-! ### the grammar gives the printer what it needs -/

/-- A well-formed stream has no `Pending` apply/prune/delete result, no validation event without identifiers,
and its error event (if any) is the last event. -/
theorem wellFormed_printable (plan : List (ActionGroup ι)) (es : List (Event ι))
    (h : eventsWellFormed plan es = true) : printable es = true := wf_printable h

/-- In a well-formed stream the finished groups are, in order, a prefix of the plan (sanity of the grammar). -/
theorem finished_is_plan_prefix (plan : List (ActionGroup ι)) (es : List (Event ι))
    (h : eventsWellFormed plan es = true) : finishedGroups es <+: plan.map (·.name) := by
  unfold eventsWellFormed at h
  cases hr : run plan .pre es with
  | none => simp [hr] at h
  | some ph =>
    obtain ⟨tail, ht⟩ := run_todo plan es _ _ hr
    exact ⟨tail, by simpa [todo] using ht.symm⟩

/-! ### counting (all streams, no grammar needed) -/

omit [DecidableEq ι] in
/-- **The statistics are the event counts.** For every stream whatsoever: if feeding it to `Stats.Handle` event by
event does not panic, each counter equals the number of events of that kind and status in the stream
(`tally` is defined by `List.countP`; `Pending` wait events and all other event types are counted nowhere). -/
theorem stats_equal_counts (es : List (Event ι)) (s : Stats) (h : Stats.handleAll {} es = some s) :
    s = tally es := by
  have := handleAll_tally es [] s (by rw [tally_nil]; exact h)
  simpa using this

omit [DecidableEq ι] in
/-- `Handle` panics on a stream iff it holds an apply/prune/delete event with status `Pending`;
in particular never on a printable (hence never on a well-formed) stream. -/
theorem stats_total_on_printable (es : List (Event ι)) (h : printable es = true) :
    Stats.handleAll {} es = some (tally es) := by
  have hc := printable_all_countable es h
  suffices ∀ (es pre : List (Event ι)), (∀ e ∈ es, countable e = true) →
      Stats.handleAll (tally pre) es = some (tally (pre ++ es)) by
    have := this es [] hc
    rw [tally_nil] at this
    simpa using this
  intro es
  induction es with
  | nil => intro pre _; simp [Stats.handleAll]
  | cons e es ih =>
    intro pre hc
    simp only [Stats.handleAll, handle_tally pre e (hc e (by simp))]
    simpa [List.append_assoc] using ih (pre ++ [e]) (fun x hx => hc x (by simp [hx]))

/-! ### the main statement -/

/-- **C20 for the model**: on every well-formed stream the printer's behaviour satisfies the property predicate
that is also evaluated on the real printer (one line per printed event, in order, identifying it; counters =
events so far; summary totals; error result iff error event or failure; no panic). -/
theorem print_satisfies_spec (plan : List (ActionGroup ι)) (es : List (Event ι)) (ps : Bool)
    (h : eventsWellFormed plan es = true) : printSpec ps es (print ps es) = true := by
  have hp := wf_printable h
  rw [print_closed ps es hp]
  simp only [printSpec, Bool.not_false, Bool.true_and]
  rw [checkLines_eventLines ps es [] _ (printable_all_countable es hp)]
  simp only [summaryLines_tally, resultError_tally]
  cases hasError es <;> cases hasFailure es <;> simp

/-- the same for every printable stream (weaker hypothesis than the grammar) -/
theorem print_satisfies_spec_of_printable (es : List (Event ι)) (ps : Bool)
    (hp : printable es = true) : printSpec ps es (print ps es) = true := by
  rw [print_closed ps es hp]
  simp only [printSpec, Bool.not_false, Bool.true_and]
  rw [checkLines_eventLines ps es [] _ (printable_all_countable es hp)]
  simp only [summaryLines_tally, resultError_tally]
  cases hasError es <;> cases hasFailure es <;> simp

/-! ### the parts, spelled out -/

omit [DecidableEq ι] in
/-- **Exactly one line per printed event.** The output of a well-formed stream is: one line for each printed event
(every event except init events and, when status printing is off, status events), then the summary lines —
none if the stream ended with an error event. Nothing else is written and the printer does not panic. -/
theorem one_line_per_printed_event_of_printable (es : List (Event ι)) (ps : Bool)
    (hp : printable es = true) :
    ∃ evLines sumLines, (print ps es).lines = evLines ++ sumLines ∧
      evLines.length = (es.filter (printed ps)).length ∧
      sumLines = (if hasError es then [] else expectedSummary es) ∧
      (∀ l ∈ evLines, l.type ≠ "summary") ∧ (∀ l ∈ sumLines, l.type = "summary") ∧
      (print ps es).panicked = false := by
  refine ⟨eventLines ps [] es, if hasError es then [] else expectedSummary es, ?_, ?_, rfl, ?_, ?_, ?_⟩
  · rw [print_closed ps es hp, summaryLines_tally]
  · exact eventLines_length ps es [] (printable_all_countable es hp)
  · suffices ∀ (es pre : List (Event ι)), ∀ l ∈ eventLines ps pre es, l.type ≠ "summary" from this es []
    intro es
    induction es with
    | nil => intro pre l hl; simp [eventLines] at hl
    | cons e es ih =>
      intro pre l hl
      simp only [eventLines, List.mem_append] at hl
      rcases hl with hl | hl
      · cases e with
        | status id st msg => cases ps <;> simp [formatEvent] at hl; subst hl; simp
        | validation ids err =>
          simp only [formatEvent] at hl
          split at hl
          · simp at hl
          · simp at hl; subst hl; simp
        | init gs => simp [formatEvent] at hl
        | _ => simp [formatEvent, opLine, groupLine] at hl; subst hl; simp
      · exact ih _ l hl
  · intro l hl
    split at hl
    · simp at hl
    · simp only [expectedSummary, List.mem_filterMap] at hl
      obtain ⟨a, _, ha⟩ := hl
      split at ha
      · split at ha
        · simp at ha; subst ha; rfl
        · simp at ha
      · simp at ha
  · rw [print_closed ps es hp]

/-- `one_line_per_printed_event_of_printable` for well-formed streams. -/
theorem one_line_per_printed_event (plan : List (ActionGroup ι)) (es : List (Event ι)) (ps : Bool)
    (h : eventsWellFormed plan es = true) :
    ∃ evLines sumLines, (print ps es).lines = evLines ++ sumLines ∧
      evLines.length = (es.filter (printed ps)).length ∧
      sumLines = (if hasError es then [] else expectedSummary es) ∧
      (∀ l ∈ evLines, l.type ≠ "summary") ∧ (∀ l ∈ sumLines, l.type = "summary") ∧
      (print ps es).panicked = false :=
  one_line_per_printed_event_of_printable es ps (wf_printable h)

/-- **The k-th line is about the k-th printed event.** Split a well-formed stream at any printed event `e`
(`es = pre ++ e :: post`). The line at position "number of printed events before `e`" exists, names the same
object(s), action, status and error/message text as `e` (`lineIdentifies`), and carries counters only if `e`
is a group-finished event — then exactly the counts of the events before it (`countsOk`). -/
theorem line_identifies_event (plan : List (ActionGroup ι)) (pre post : List (Event ι)) (e : Event ι) (ps : Bool)
    (h : eventsWellFormed plan (pre ++ e :: post) = true) (hpr : printed ps e = true) :
    ∃ l, (print ps (pre ++ e :: post)).lines[(pre.filter (printed ps)).length]? = some l ∧
      lineIdentifies e l = true ∧ countsOk pre e l = true := by
  have hp := wf_printable h
  have hc := printable_all_countable _ hp
  have hce : countable e = true := hc e (by simp)
  have hsome := formatEvent_isSome ps (tally (pre ++ [e])) e hce
  rw [hpr] at hsome
  obtain ⟨l, hl⟩ := Option.isSome_iff_exists.1 hsome
  refine ⟨l, ?_, formatEvent_identifies ps pre e l hl⟩
  rw [print_closed ps _ hp, eventLines_append]
  have hlen : (eventLines ps [] pre).length = (pre.filter (printed ps)).length :=
    eventLines_length ps pre [] (fun x hx => hc x (by simp [hx]))
  simp only [eventLines, List.nil_append, hl, Option.toList, List.append_assoc]
  rw [List.getElem?_append_right (by omega)]
  simp [hlen]

/-- **Counts in a group-finished line equal the events seen so far.** If the stream is `pre`, then the `Finished`
event of a group with action `a`, then `post`, the corresponding line is a "group" line with that action and
status `Finished`, and its counters are, for apply/prune/delete: successful/skipped/failed = the number of
apply (resp. prune, delete) events with that status in `pre` — over ALL groups of that action so far, not only
the group being closed — and count = their sum; for wait additionally timeout, and `Pending` wait events are
not counted; an inventory group shows no counters. (`expectedCounts` is defined by `List.countP` on `pre`.) -/
theorem counts_equal_events_so_far (plan : List (ActionGroup ι)) (pre post : List (Event ι))
    (n : String) (a : Action) (ps : Bool)
    (h : eventsWellFormed plan (pre ++ Event.actionGroup n a .finished :: post) = true) :
    ∃ l, (print ps (pre ++ Event.actionGroup n a .finished :: post)).lines[(pre.filter (printed ps)).length]? = some l ∧
      l.type = "group" ∧ l.action = some a.str ∧ l.status = some "Finished" ∧
      l.counts = expectedCounts a pre := by
  obtain ⟨l, hl, hid, hco⟩ := line_identifies_event plan pre post (Event.actionGroup n a .finished) ps h rfl
  refine ⟨l, hl, ?_⟩
  simp only [lineIdentifies, Bool.and_eq_true, beq_iff_eq] at hid
  simp only [countsOk, beq_iff_eq] at hco
  exact ⟨hid.1.1.1.1.1, hid.1.1.1.1.2, by simpa [GroupStatus.str] using hid.1.1.1.2, hco⟩

omit [DecidableEq ι] in
/-- In a well-formed (indeed printable) stream no apply/prune/delete event is `Pending`, so the `count` shown for
action `a` is simply the number of ALL apply (prune, delete) events so far. -/
theorem count_is_all_results (es : List (Event ι)) (a : Action) (hp : printable es = true) :
    countOp a .successful es + countOp a .skipped es + countOp a .failed es =
      es.countP (fun e => Event.isOp a .successful e || Event.isOp a .skipped e || Event.isOp a .failed e ||
        Event.isOp a .pending e) := by
  have hc := printable_all_countable es hp
  clear hp
  have aux : ∀ e : Event ι, countable e = true →
      (if Event.isOp a .successful e = true then 1 else 0) + (if Event.isOp a .skipped e = true then 1 else 0) +
        (if Event.isOp a .failed e = true then 1 else 0) =
      (if (Event.isOp a .successful e || Event.isOp a .skipped e || Event.isOp a .failed e ||
        Event.isOp a .pending e) = true then 1 else 0) := by
    intro e he
    cases e with
    | apply g id st err => cases st <;> cases a <;> simp [Event.isOp, countable] at he ⊢
    | prune g id st err => cases st <;> cases a <;> simp [Event.isOp, countable] at he ⊢
    | delete g id st err => cases st <;> cases a <;> simp [Event.isOp, countable] at he ⊢
    | _ => simp [Event.isOp]
  induction es with
  | nil => simp [countOp]
  | cons e es ih =>
    have ih := ih (fun x hx => hc x (by simp [hx]))
    have he := aux e (hc e (by simp))
    simp only [countOp, List.countP_cons] at ih ⊢
    omega

/-- **Summary counts.** A well-formed stream without error event ends with the summary: after the event lines come,
in the order apply, prune, delete, wait, one "summary" line for each action with at least one counted event,
showing the totals over the whole stream; a stream with an error event has no summary. -/
theorem summary_counts (plan : List (ActionGroup ι)) (es : List (Event ι)) (ps : Bool)
    (h : eventsWellFormed plan es = true) :
    (print ps es).lines.drop (es.filter (printed ps)).length =
      if hasError es then [] else expectedSummary es := by
  obtain ⟨ev, sm, h1, h2, h3, _⟩ := one_line_per_printed_event plan es ps h
  rw [h1, ← h2, List.drop_left, h3]

/-- **Error result.** Printing a well-formed stream returns an error exactly when the stream holds an error event,
or at least one failed apply/prune/delete, or a failed reconcile, or a reconcile timeout. -/
theorem print_error_iff (plan : List (ActionGroup ι)) (es : List (Event ι)) (ps : Bool)
    (h : eventsWellFormed plan es = true) :
    (print ps es).err ≠ .none ↔
      (hasError es = true ∨ failedActuations es > 0 ∨ countWait .failed es > 0 ∨ countWait .timeout es > 0) := by
  rw [print_closed ps es (wf_printable h), resultError_tally]
  simp only [hasFailure]
  cases hasError es <;> simp
  by_cases h1 : failedActuations es > 0 <;> by_cases h2 : countWait .failed es > 0 <;>
    by_cases h3 : countWait .timeout es > 0 <;> simp [h1, h2, h3] <;> omega

/-- which error: the error event's own error if there is one (the failure counters are then not consulted),
otherwise a `ResultError` iff there was a failure. -/
theorem print_error_kind (plan : List (ActionGroup ι)) (es : List (Event ι)) (ps : Bool)
    (h : eventsWellFormed plan es = true) :
    (print ps es).err = if hasError es then .event else if hasFailure es then .result else .none := by
  rw [print_closed ps es (wf_printable h), resultError_tally]

/-! ### status texts identify statuses -/

/-- equal status / action texts mean equal statuses / actions, so a line that shows the event's text shows the event's value -/
theorem status_texts_injective :
    (∀ a b : OpStatus, a.str = b.str → a = b) ∧ (∀ a b : WaitStatus, a.str = b.str → a = b) ∧
    (∀ a b : Action, a.str = b.str → a = b) ∧ (∀ a b : GroupStatus, a.str = b.str → a = b) := by
  refine ⟨?_, ?_, ?_, ?_⟩ <;> intro a b <;> cases a <;> cases b <;> decide

/-! ### outside the grammar: the two branches the grammar excludes -/

omit [DecidableEq ι] in
/-- A validation event without identifiers is refused by the formatter: `Print` stops there with an error, having
written the lines of the events before it (the grammar excludes such events; C13 shows the applier sends none). -/
theorem idless_validation_rejected (pre post : List (Event ι)) (err : String) (ps : Bool)
    (hpre : printable pre = true) (hne : hasError pre = false) :
    (print ps (pre ++ Event.validation [] err :: post)).err = .format ∧
    (print ps (pre ++ Event.validation [] err :: post)).lines.length = (pre.filter (printed ps)).length := by
  have hc := printable_all_countable pre hpre
  suffices ∀ (pre p0 : List (Event ι)), (∀ e ∈ pre, countable e = true) → hasError pre = false →
      (printLoop ps (tally p0) (pre ++ Event.validation [] err :: post)).err = .format ∧
      (printLoop ps (tally p0) (pre ++ Event.validation [] err :: post)).lines.length =
        (pre.filter (printed ps)).length by
    have := this pre [] hc hne
    rw [tally_nil] at this
    exact this
  intro pre
  induction pre with
  | nil => intro p0 _ _; simp [printLoop, Stats.handle, Event.isError, rejected]
  | cons e pre ih =>
    intro p0 hc hne
    have he : e.isError = false := by
      simp only [hasError, List.any_cons, Bool.or_eq_false_iff] at hne; exact hne.1
    have hne' : hasError pre = false := by
      simp only [hasError, List.any_cons, Bool.or_eq_false_iff] at hne; exact hne.2
    have hce := hc e (by simp)
    have := ih (p0 ++ [e]) (fun x hx => hc x (by simp [hx])) hne'
    have hs := formatEvent_isSome ps (tally (p0 ++ [e])) e hce
    simp only [List.cons_append, printLoop, handle_tally p0 e hce, he, not_rejected_of_countable hce,
      Bool.false_eq_true, if_false, this.1, List.length_append, this.2, List.filter_cons, true_and]
    cases hf : formatEvent ps (tally (p0 ++ [e])) e with
    | none => simp [hf] at hs; simp [hs]
    | some l => simp [hf] at hs; simp [hs]; omega

omit [DecidableEq ι] in
/-- An apply event with status `Pending` makes the statistics collector panic (the `default:` branch of `Inc`);
same for prune and delete. The grammar excludes such events: a result is never `Pending`. -/
theorem pending_result_panics (g : String) (id : ι) (err : Option String) (post : List (Event ι)) (ps : Bool) :
    (print ps (Event.apply g id .pending err :: post)).panicked = true ∧
    (print ps (Event.prune g id .pending err :: post)).panicked = true ∧
    (print ps (Event.delete g id .pending err :: post)).panicked = true := by
  simp [print, printLoop, Stats.handle, OpStats.inc]

/-! ### non-vacuity: a concrete well-formed stream with a failure, a timeout and a final error -/

section Examples

def exPlan : List (ActionGroup Nat) :=
  [⟨"inventory-add-0", .inventory, [1, 2]⟩, ⟨"apply-0", .apply, [1, 2]⟩, ⟨"wait-0", .wait, [1, 2]⟩,
   ⟨"prune-0", .prune, [3]⟩, ⟨"wait-1", .wait, [3]⟩]

/-- validation, plan, inventory group, apply group with one failure, wait group with a timeout; stops early -/
def exStream : List (Event Nat) :=
  [.validation [9] "invalid", .init exPlan, .status 1 "InProgress" "",
   .actionGroup "inventory-add-0" .inventory .started, .actionGroup "inventory-add-0" .inventory .finished,
   .actionGroup "apply-0" .apply .started, .apply "apply-0" 2 .successful none, .status 2 "Current" "ok",
   .apply "apply-0" 1 .failed (some "boom"), .actionGroup "apply-0" .apply .finished,
   .actionGroup "wait-0" .wait .started, .wait "wait-0" 1 .skipped, .wait "wait-0" 2 .pending,
   .wait "wait-0" 2 .timeout, .actionGroup "wait-0" .wait .finished]

example : eventsWellFormed exPlan exStream = true := by decide
example : eventsWellFormed exPlan (exStream ++ [.error "fatal"]) = true := by decide
example : hasFailure exStream = true ∧ hasError exStream = false := by decide
example : (print true exStream).err = .result ∧ (print true exStream).lines.length = 16 := by decide
example : (print false exStream).lines.length = 14 := by decide
example : (print true (exStream ++ [.error "fatal"])).err = .event ∧
    (print true (exStream ++ [.error "fatal"])).lines.length = 15 := by decide
/-- the apply-finished line (9th line with status printing on) shows count 2 = 1 successful + 1 failed -/
example : ((print true exStream).lines[8]?).map (·.counts) =
    some (some { count := 2, successful := 1, skipped := 0, failed := 1 }) := by decide
/-- the grammar rejects: a second result for the same object; an error that is not last; an open group -/
example : eventsWellFormed exPlan (exStream.take 9 ++ [.apply "apply-0" 1 .failed none] ++ exStream.drop 9) = false := by decide
example : eventsWellFormed exPlan (.error "fatal" :: exStream) = false := by decide
example : eventsWellFormed exPlan (exStream.take 12) = false := by decide
/-- an early exit (validation then error, no plan event) is accepted; a stream with neither plan nor error is not -/
example : eventsWellFormed exPlan [.validation [9] "invalid", .error "exit early"] = true := by decide
example : eventsWellFormed exPlan [.validation [9] "invalid"] = false := by decide

end Examples

end CliUtils.Props.C20
