import CliUtils.Model.Sys
import CliUtils.Lemmas.SysL
/-
  C10 — dry-run never changes the cluster.
  For every step function of the run model: under a dry-run strategy the store is unchanged and the only mutating
  requests are server-side-apply patches carrying the dry-run directive (none at all under client dry-run); then for a
  whole run (`runOne`): the store after the run is the store before it.
-/
namespace CliUtils.Props.C10
open CliUtils CliUtils.Sys

/-- the requests a step added to the log -/
def NewMutsAre (P : MutRec → Prop) (before after : List MutRec) : Prop :=
  ∃ l, after = l ++ before ∧ ∀ m ∈ l, P m

theorem NewMutsAre.refl (P : MutRec → Prop) (l : List MutRec) : NewMutsAre P l l := ⟨[], rfl, by simp⟩

theorem NewMutsAre.trans {P : MutRec → Prop} {a b c : List MutRec} (h1 : NewMutsAre P a b) (h2 : NewMutsAre P b c) :
    NewMutsAre P a c := by
  obtain ⟨l1, e1, p1⟩ := h1
  obtain ⟨l2, e2, p2⟩ := h2
  refine ⟨l2 ++ l1, by rw [e2, e1, List.append_assoc], ?_⟩
  intro m hm
  rcases List.mem_append.mp hm with h | h
  · exact p2 m h
  · exact p1 m h

/-- what a dry-run may send: nothing under client dry-run; under server dry-run only apply patches flagged dry-run -/
def DryOk (d : Dry) (m : MutRec) : Prop := d = .server ∧ m.verb = "patch" ∧ m.dry = true

/-- a step is harmless under dry-run: same store, same run configuration, only admissible requests -/
structure Harmless (s s' : St) : Prop where
  cl : s'.cl = s.cl
  run : s'.run = s.run
  muts : NewMutsAre (DryOk s.run.opts.dry) s.muts s'.muts

theorem Harmless.refl (s : St) : Harmless s s := ⟨rfl, rfl, NewMutsAre.refl _ _⟩

theorem Harmless.trans {a b c : St} (h1 : Harmless a b) (h2 : Harmless b c) : Harmless a c :=
  ⟨h2.cl.trans h1.cl, h2.run.trans h1.run, NewMutsAre.trans h1.muts (by rw [← h1.run]; exact h2.muts)⟩

theorem harmless_of_eq (s s' : St) (hcl : s'.cl = s.cl) (hrun : s'.run = s.run) (hm : s'.muts = s.muts) : Harmless s s' :=
  ⟨hcl, hrun, by rw [hm]; exact NewMutsAre.refl _ _⟩

/-- kubectl under dry-run: client → no request; server → one dry-run patch that leaves the store alone -/
theorem kubectlApply_dry (group : String) (s : St) (m : Manifest) (frm : Option String) (hd : dryOf s = true) :
    Harmless s (kubectlApply group s m frm) := by
  unfold dryOf at hd
  unfold kubectlApply
  cases hdry : s.run.opts.dry with
  | none => simp [hdry] at hd
  | client =>
    -- client dry-run: the client-side path, which sends nothing
    have hu : useSSA s.run.opts = false := by simp [useSSA, hdry]
    simp only [hu, Bool.false_eq_true, if_false]
    unfold csaApply
    simp only []
    cases hg : s.get m.id with
    | none => exact harmless_of_eq _ _ (by simp) (by simp) (by simp)
    | some o =>
      cases o with
      | none => simp only [hdry, if_true]; exact harmless_of_eq _ _ (by simp) (by simp) (by simp)
      | some old =>
        simp only [hdry, decide_true, Bool.or_true, if_true]
        exact harmless_of_eq _ _ (by simp) (by simp) (by simp)
  | server =>
    have hu : useSSA s.run.opts = true := by simp [useSSA, hdry]
    simp only [hu, if_true]
    unfold ssaApply
    have hb : (s.run.opts.dry == Dry.server) = true := by simp [hdry]
    simp only [hb]
    have h := mutReq_spec s "patch" m.id true "" "" (ssaEffect m frm true)
    simp only [] at h
    obtain ⟨⟨mr, hm, hv, _, hdr, _⟩, hcl, _, _, _, hrun, _⟩ := h
    have hcl' : (s.mutReq "patch" m.id true "" "" (ssaEffect m frm true)).1.cl = s.cl := by
      rw [hcl]; split
      · rfl
      · unfold ssaEffect; split <;> simp
    have hmuts : NewMutsAre (DryOk s.run.opts.dry) s.muts (s.mutReq "patch" m.id true "" "" (ssaEffect m frm true)).1.muts :=
      ⟨[mr], by simp [hm], by intro x hx; simp at hx; subst hx; exact ⟨hdry, hv, hdr⟩⟩
    split
    · exact ⟨by simp [hcl'], by simp [hrun], by simpa using hmuts⟩
    · split
      · simp only [if_true]
        exact ⟨by simp [hcl'], by simp [hrun], by simpa using hmuts⟩
      · exact ⟨by simp [hcl'], by simp [hrun], by simpa using hmuts⟩

theorem applyOne_dry (group : String) (s : St) (id : Id) (hd : dryOf s = true) : Harmless s (applyOne group s id) := by
  unfold applyOne
  cases hm : manifestOf s id with
  | none => exact Harmless.refl s
  | some m =>
    simp only []
    cases hdec : applyDecision s m with
    | fail r => exact harmless_of_eq _ _ (by simp) (by simp) (by simp)
    | skip r => exact harmless_of_eq _ _ (by simp) (by simp) (by simp)
    | go frm => exact kubectlApply_dry group s m frm hd

/-- no delete and no annotation removal under dry-run -/
theorem pruneOne_dry (group : String) (uids localNs : List String) (s : St) (live : Live) (hd : dryOf s = true) :
    Harmless s (pruneOne group uids localNs s live) := by
  have hdec : pruneDecision uids localNs s live ≠ .preventUpdate ∧ pruneDecision uids localNs s live ≠ .delete ∧
      pruneDecision uids localNs s live ≠ .preventNoAnnotation := by
    unfold pruneDecision
    simp only [hd, if_true]
    refine ⟨?_, ?_, ?_⟩ <;> (repeat' split) <;> simp
  cases h : pruneDecision uids localNs s live with
  | failNoUid => exact harmless_of_eq _ _ (by simp [pruneOne, h]) (by simp [pruneOne, h]) (by simp [pruneOne, h])
  | preventDry => exact harmless_of_eq _ _ (by simp [pruneOne, h]) (by simp [pruneOne, h]) (by simp [pruneOne, h])
  | preventNoAnnotation => exact absurd h hdec.2.2
  | preventUpdate => exact absurd h hdec.1
  | skip r => exact harmless_of_eq _ _ (by simp [pruneOne, h]) (by simp [pruneOne, h]) (by simp [pruneOne, h])
  | fail r => exact harmless_of_eq _ _ (by simp [pruneOne, h]) (by simp [pruneOne, h]) (by simp [pruneOne, h])
  | justApplied => exact harmless_of_eq _ _ (by simp [pruneOne, h, hd]) (by simp [pruneOne, h, hd]) (by simp [pruneOne, h, hd])
  | deleteDry => exact harmless_of_eq _ _ (by simp [pruneOne, h]) (by simp [pruneOne, h]) (by simp [pruneOne, h])
  | delete => exact absurd h hdec.2.1

theorem fold_harmless {β : Type} (f : St → β → St) (hf : ∀ s b, dryOf s = true → Harmless s (f s b)) (l : List β) (s : St)
    (hd : dryOf s = true) : Harmless s (l.foldl f s) := by
  induction l generalizing s with
  | nil => exact Harmless.refl s
  | cons b bs ih =>
    have h1 := hf s b hd
    have hd' : dryOf (f s b) = true := by unfold dryOf at *; rw [h1.run]; exact hd
    exact Harmless.trans h1 (ih (f s b) hd')

@[simp] theorem invRead_cl (s : St) : s.invRead.1.cl = s.cl := by unfold St.invRead; simp only []; split <;> rfl
@[simp] theorem invRead_run (s : St) : s.invRead.1.run = s.run := by unfold St.invRead; simp only []; split <;> rfl
@[simp] theorem invRead_muts (s : St) : s.invRead.1.muts = s.muts := by unfold St.invRead; simp only []; split <;> rfl

theorem harmless_invRead (s t : St) (ht : Harmless s t) : Harmless s t.invRead.1 :=
  ⟨by simp [ht.cl], by simp [ht.run], by simpa using ht.muts⟩

theorem dry_invRead (s : St) (hd : dryOf s = true) : dryOf s.invRead.1 = true := by unfold dryOf at *; simpa using hd

/-- the inventory is not written under dry-run: neither namespace, nor merge, nor replace, nor delete -/
theorem mergeInv_dry (s : St) (ids : List Id) (hd : dryOf s = true) : Harmless s (mergeInv s ids).1 := by
  unfold mergeInv
  simp only []
  have hd1 := dry_invRead s hd
  have hd2 := dry_invRead _ hd1
  have e1 := harmless_invRead s s (Harmless.refl s)
  have e2 := harmless_invRead s _ e1
  cases h1 : s.invRead.2 with
  | none => exact e1
  | some o =>
    cases o with
    | none =>
      simp only [hd1, if_true]
      split <;> exact e1
    | some l =>
      simp only []
      cases h2 : s.invRead.1.invRead.2 with
      | none => exact e2
      | some cur =>
        simp only [hd2, if_true]
        split
        · exact e2
        · split <;> exact e2

theorem runInvAdd_dry (s : St) (ids : List Id) (hd : dryOf s = true) : Harmless s (runInvAdd s ids).1 := by
  unfold runInvAdd
  simp only [hd, Bool.not_true, Bool.and_false, Bool.false_eq_true, if_false]
  exact mergeInv_dry s ids hd

theorem runInvSet_dry (s : St) (prev : List Id) (prevErr : Bool) (hd : dryOf s = true) : Harmless s (runInvSet s prev prevErr).1 := by
  unfold runInvSet
  split
  · exact Harmless.refl s
  · split
    · unfold deleteInv
      simp only []
      have hd1 := dry_invRead s hd
      have e1 := harmless_invRead s s (Harmless.refl s)
      cases h1 : s.invRead.2 with
      | none => exact e1
      | some o =>
        cases o with
        | none => exact e1
        | some l => simp only [hd1, if_true]; exact e1
    · unfold replaceInv
      simp only [hd, if_true]
      exact Harmless.refl s

/-- apply, prune and inventory tasks are harmless under dry-run (wait tasks are not generated under dry-run: `plan_no_wait`) -/
theorem runTask_dry (s : St) (t : Task) (pruneObjs : List Live) (localNs : List String) (hd : dryOf s = true)
    (hnw : ∀ ids c, t.kind ≠ .wait ids c) : Harmless s (runTask s t pruneObjs localNs).1 := by
  unfold runTask
  cases hk : t.kind with
  | invAdd ids => exact runInvAdd_dry s ids hd
  | apply ids => exact fold_harmless (applyOne t.name) (fun s b h => applyOne_dry t.name s b h) ids s hd
  | prune ids => exact fold_harmless (pruneOne t.name _ localNs) (fun s b h => pruneOne_dry t.name _ localNs s b h) _ s hd
  | wait ids c => exact absurd hk (hnw ids c)
  | invSet prev pe => exact runInvSet_dry s prev pe hd

/-- the plan of a dry-run contains no wait task -/
theorem layerTasks_dry_no_wait (isApply : Bool) (layers : List (List Id)) (c w : Nat) :
    ∀ t ∈ (layerTasks isApply true layers c w).1, ∀ ids cond, t.kind ≠ .wait ids cond := by
  induction layers generalizing c w with
  | nil => simp [layerTasks]
  | cons l ls ih =>
    intro t ht ids cond
    simp only [layerTasks, if_true] at ht
    rcases List.mem_cons.mp ht with h | h
    · subst h; split <;> simp
    · exact ih (c + 1) w t h ids cond

/-- **C10 for a task list**: under dry-run, running tasks none of which is a wait task leaves the store unchanged and sends
only admissible requests -/
theorem runTasks_dry (pruneObjs : List Live) (localNs : List String) (ts : List Task) (s : St) (hd : dryOf s = true)
    (hnw : ∀ t ∈ ts, ∀ ids c, t.kind ≠ .wait ids c) : Harmless s (runTasks pruneObjs localNs s ts) := by
  induction ts generalizing s with
  | nil => exact Harmless.refl s
  | cons t ts ih =>
    unfold runTasks
    simp only []
    have e1 : Harmless s (s.emit (.group t.name (t.action s.run.destroy) "Started")) :=
      harmless_of_eq _ _ rfl rfl rfl
    have hd1 : dryOf (s.emit (.group t.name (t.action s.run.destroy) "Started")) = true := hd
    have e2 := runTask_dry (s.emit (.group t.name (t.action s.run.destroy) "Started")) t pruneObjs localNs hd1
      (hnw t (by simp))
    have e12 := Harmless.trans e1 e2
    have e3 : Harmless s ((runTask (s.emit (.group t.name (t.action s.run.destroy) "Started")) t pruneObjs localNs).1.emit
        (.group t.name (t.action s.run.destroy) "Finished")) :=
      Harmless.trans e12 (harmless_of_eq _ _ rfl rfl rfl)
    split
    · exact Harmless.trans e3 (harmless_of_eq _ _ rfl rfl rfl)
    · split
      · exact Harmless.trans e3 (harmless_of_eq _ _ rfl rfl rfl)
      · split
        · exact Harmless.trans e3 (harmless_of_eq _ _ rfl rfl rfl)
        · refine Harmless.trans e3 (ih _ ?_ (fun t' ht' => hnw t' (by simp [ht'])))
          unfold dryOf at *
          rw [show ((runTask (s.emit (.group t.name (t.action s.run.destroy) "Started")) t pruneObjs localNs).1.emit
            (.group t.name (t.action s.run.destroy) "Finished")).run = s.run from e3.run]
          exact hd

/-! non-vacuity: a server dry-run apply of a new object sends one dry-run patch and leaves the store empty -/
section Examples
def mA : Manifest := { id := { ns := "ns1", name := "a", group := "", kind := "ConfigMap" } }
def sDry : St := { cl := {}, run := { destroy := false, objs := [mA], opts := { dry := .server } } }
example : (kubectlApply "apply-0" sDry mA none).cl.objs = [] ∧
    ((kubectlApply "apply-0" sDry mA none).muts.map (fun m => (m.verb, m.dry))) = [("patch", true)] := by
  simp [kubectlApply, useSSA, sDry, ssaApply, St.mutReq, ssaEffect, Cluster.find?, applyOk, St.emit, mA]
end Examples

end CliUtils.Props.C10

namespace CliUtils.Props.C10
open CliUtils CliUtils.Sys

/-- the plan built for a dry-run has no wait task -/
theorem planTasks_dry_no_wait (run : Run) (applyIds pruneIds : List Id) (layers : List (List Id)) (prev : List Id) (pe : Bool)
    (hd : run.opts.dry ≠ .none) :
    ∀ t ∈ planTasks run applyIds pruneIds layers prev pe, ∀ ids c, t.kind ≠ .wait ids c := by
  intro t ht ids c
  unfold planTasks at ht
  simp only [hd, ne_eq, not_false_eq_true, decide_true, List.mem_append, List.mem_singleton] at ht
  rcases ht with ((h | h) | h) | h
  · split at h
    · simp at h
    · simp at h; subst h; simp
  · split at h
    · simp at h
    · exact layerTasks_dry_no_wait true _ 0 0 t h ids c
  · split at h
    · exact layerTasks_dry_no_wait false _ 0 _ t h ids c
    · simp at h
  · subst h; simp

theorem getPruneObjs_harmless (s : St) (ids : List Id) : Harmless s (getPruneObjs s ids).1 := by
  unfold getPruneObjs
  simp only []
  cases h : s.invRead.2 with
  | none => exact harmless_invRead s s (Harmless.refl s)
  | some inv => exact harmless_invRead s s (Harmless.refl s)

theorem fold_validation_harmless (l : List (List Id × String)) (s : St) :
    (l.foldl (fun s e => s.emit (.validation e.1 e.2)) s).cl = s.cl ∧
    (l.foldl (fun s e => s.emit (.validation e.1 e.2)) s).run = s.run ∧
    (l.foldl (fun s e => s.emit (.validation e.1 e.2)) s).muts = s.muts := by
  induction l generalizing s with
  | nil => exact ⟨rfl, rfl, rfl⟩
  | cons e es ih => simpa using ih (s.emit (.validation e.1 e.2))

theorem prepare_harmless (s : St) (plan : Plan) (pruneObjs : List Live) : Harmless s (prepare s plan pruneObjs) := by
  have h := fold_validation_harmless plan.valErrors s
  exact harmless_of_eq _ _ (by simp [prepare, h.1]) (by simp [prepare, h.2.1]) (by simp [prepare, h.2.2])

theorem initialStatuses_harmless (s : St) : Harmless s (initialStatuses s) := by
  unfold initialStatuses
  split
  · exact Harmless.refl s
  · generalize s.run.initial = l
    suffices ∀ (l : List Id) (t : St), Harmless s t → Harmless s (l.foldl (fun s id =>
        match s.cl.find? id with
        | none => s
        | some l =>
          if ({ s with cache := (id, { status := .current, hasRes := true, gen := l.gen, uid := l.uid }) :: s.cache } : St).run.opts.emitStatus
          then ({ s with cache := (id, { status := .current, hasRes := true, gen := l.gen, uid := l.uid }) :: s.cache } : St).emit (.status id "Current")
          else { s with cache := (id, { status := .current, hasRes := true, gen := l.gen, uid := l.uid }) :: s.cache }) t) from
      this l s (Harmless.refl s)
    intro l
    induction l with
    | nil => intro t ht; exact ht
    | cons id ids ih =>
      intro t ht
      simp only [List.foldl_cons]
      apply ih
      split
      · exact ht
      · split
        · exact Harmless.trans ht (harmless_of_eq _ _ rfl rfl rfl)
        · exact Harmless.trans ht (harmless_of_eq _ _ rfl rfl rfl)

/-- **C10 for a whole run**: with client or server dry-run, whatever the apply set, the options, the injected failures and
the point of cancellation, the store after the run — every object and the stored inventory — is the store before it
(after the environment's own deletions), and every mutating request of the run is a server-side-apply patch carrying the
dry-run directive (there is none at all under client dry-run) -/
theorem run_dry_changes_nothing (c : Cluster) (run : Run) (hd : run.opts.dry ≠ .none) :
    (runOne c run).cl = run.envDel.foldl (fun c i => c.remove i) c ∧
    ∀ m ∈ (runOne c run).muts, DryOk run.opts.dry m := by
  have key : Harmless { cl := run.envDel.foldl (fun c i => c.remove i) c, run := run } (runOne c run) := by
    unfold runOne
    simp only []
    generalize hs0 : ({ cl := run.envDel.foldl (fun c i => c.remove i) c, run := run } : St) = s0
    have hr0 : s0.run = run := by rw [← hs0]
    generalize (if run.destroy then [] else run.objs) = applyMs
    have e1 := getPruneObjs_harmless s0 (applyMs.map (·.id))
    generalize hr1 : getPruneObjs s0 (applyMs.map (·.id)) = r1 at e1 ⊢
    cases hp : r1.2 with
    | none => exact Harmless.trans e1 (harmless_of_eq _ _ rfl rfl rfl)
    | some pruneObjs =>
      simp only []
      have e2 := harmless_invRead s0 _ e1
      generalize hplan : buildPlan run applyMs pruneObjs _ _ = plan
      generalize (!run.opts.skipInvalid && !plan.valErrors.isEmpty) = b
      cases b with
      | true => simp only [if_true]; exact Harmless.trans e2 (harmless_of_eq _ _ rfl rfl rfl)
      | false =>
        simp only [Bool.false_eq_true, if_false]
        have e3 := Harmless.trans (Harmless.trans e2 (prepare_harmless r1.1.invRead.1 plan pruneObjs)) (initialStatuses_harmless _)
        generalize (decide (run.cancel = CancelAt.beforeSync) && decide (run.opts.dry = Dry.none)) = b2
        cases b2 with
        | true => simp only [if_true]; exact Harmless.trans e3 (harmless_of_eq _ _ rfl rfl rfl)
        | false =>
          simp only [Bool.false_eq_true, if_false]
          refine Harmless.trans e3 (runTasks_dry pruneObjs _ _ _ ?_ ?_)
          · unfold dryOf; rw [e3.run, hr0]; simpa using hd
          · rw [← hplan]; exact planTasks_dry_no_wait run _ _ _ _ _ hd
  refine ⟨key.cl, ?_⟩
  obtain ⟨l, hl, hP⟩ := key.muts
  intro m hm
  rw [hl] at hm
  simp only [List.append_nil] at hm
  exact hP m hm

end CliUtils.Props.C10
