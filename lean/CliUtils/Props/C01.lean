import CliUtils.Model.Sys
import CliUtils.Lemmas.SysL
import CliUtils.Props.C03
import CliUtils.Props.C10
/-
  C01 — the inventory never loses track of a live managed object.

  Proved here, for the definitions the driver runs against the real Applier/Destroyer:
    * merge-before-apply: a successful merge stores a superset of what was stored and of the apply set;
    * only the two inventory tasks ever write the stored inventory (apply and prune steps do not touch it);
    * the final replace keeps every object of a retention class and every successfully applied object
      (`keeps_*`, from the inventory formula of C03), drops only abandoned / deleted-and-gone ones;
    * the inventory object is deleted only when the retained set is empty (`C03.destroy_successful_nothing_retained`);
    * an aborted run (task error, cancellation, watcher failure) never reaches the final replace.
  Full statement (kept visible, NOT proved as one theorem): for every history, every prefix of the mutating-request trace
  satisfies `Spec.orphans = []`.  It is checked on every snapshot of every generated history of the implementation and of the
  model (domain sys-C01); the theorems below are the per-step facts that argument consists of.  One region is a recorded
  finding (C01.inventory-namespace-apply-failed).
-/
namespace CliUtils.Props.C01
open CliUtils CliUtils.Sys CliUtils.Props.C19 CliUtils.Props.C03

/-! ### the final replace loses nothing that is still managed -/

/-- a successfully applied object stays in the inventory unless it was explicitly detached -/
theorem keeps_applied (mgr : Mgr Id) (prev abandoned invalid : List Id) (id : Id)
    (h : id ∈ mgr.withActuation .apply .succeeded) (hab : id ∉ abandoned) :
    id ∈ finalInventory mgr prev abandoned invalid :=
  (final_inventory_mem _ _ _ _ _).mpr (Or.inl ⟨Or.inl h, hab⟩)

/-- a tracked object whose apply or delete failed or was skipped, or whose reconcile failed or timed out, stays in the inventory
unless it was explicitly detached -/
theorem keeps_retained (mgr : Mgr Id) (prev abandoned invalid : List Id) (id : Id)
    (hp : id ∈ prev) (h : Retained mgr id) (hab : id ∉ abandoned) :
    id ∈ finalInventory mgr prev abandoned invalid :=
  (final_inventory_mem _ _ _ _ _).mpr (Or.inl ⟨Or.inr ⟨hp, h⟩, hab⟩)

/-- a tracked invalid object stays in the inventory -/
theorem keeps_invalid (mgr : Mgr Id) (prev abandoned invalid : List Id) (id : Id) (hp : id ∈ prev) (hi : id ∈ invalid) :
    id ∈ finalInventory mgr prev abandoned invalid :=
  (final_inventory_mem _ _ _ _ _).mpr (Or.inr ⟨hp, hi⟩)

/-- what the final replace drops from the previous inventory: only objects that were abandoned, or whose record is a
successful delete / successful apply-that-was-abandoned with no failed or timed-out reconcile — i.e. never an object in a
retention class -/
theorem dropped_only_if (mgr : Mgr Id) (prev abandoned invalid : List Id) (id : Id) (hp : id ∈ prev)
    (h : id ∉ finalInventory mgr prev abandoned invalid) :
    id ∉ invalid ∧ (id ∈ abandoned ∨ (id ∉ mgr.withActuation .apply .succeeded ∧ ¬ Retained mgr id)) := by
  have hn := mt (final_inventory_mem mgr prev abandoned invalid id).mpr h
  simp only [not_or, not_and] at hn
  refine ⟨fun hi => hn.2 hp hi, ?_⟩
  by_cases hab : id ∈ abandoned
  · exact Or.inl hab
  · right
    constructor
    · intro ha; exact hn.1 (Or.inl ha) hab
    · intro hr; exact hn.1 (Or.inr ⟨hp, hr⟩) hab

/-! ### merge before apply -/

theorem invRead_snd (s : St) : s.invRead.2 = if s.invReads ∈ s.run.failInvRead then none else some s.cl.inv := by
  unfold St.invRead; simp only []; split <;> rfl
theorem invRead_invReads (s : St) : s.invRead.1.invReads = s.invReads + 1 := by
  unfold St.invRead; simp only []; split <;> rfl
theorem invRead_mutIdx (s : St) : s.invRead.1.mutIdx = s.mutIdx := by
  unfold St.invRead; simp only []; split <;> rfl

/-- a successful first write stores exactly the (de-duplicated) ids and touches no object -/
theorem create_inv_ok (t : St) (ids : List Id)
    (h : (t.mutReq "create" invObjId false "" "" (invCreateEffect ids)).2 ≠ "error") :
    (t.mutReq "create" invObjId false "" "" (invCreateEffect ids)).1.cl.inv = some (dedup ids) ∧
    (t.mutReq "create" invObjId false "" "" (invCreateEffect ids)).1.cl.objs = t.cl.objs := by
  have hs := mutReq_spec t "create" invObjId false "" "" (invCreateEffect ids)
  simp only [] at hs
  obtain ⟨_, hcl, hres, _⟩ := hs
  by_cases hf : t.mutIdx ∈ t.run.failMut
  · rw [hres] at h; simp [hf] at h
  · rw [hcl]; simp [hf, invCreateEffect, Cluster.freshUid]

/-- a successful update stores exactly the given ids and touches no object -/
theorem update_inv_ok (t : St) (ids : List Id)
    (h : (t.mutReq "update" invObjId false "" "" (invUpdateEffect ids)).2 = "ok") :
    (t.mutReq "update" invObjId false "" "" (invUpdateEffect ids)).1.cl.inv = some ids ∧
    (t.mutReq "update" invObjId false "" "" (invUpdateEffect ids)).1.cl.objs = t.cl.objs := by
  have hs := mutReq_spec t "update" invObjId false "" "" (invUpdateEffect ids)
  simp only [] at hs
  obtain ⟨_, hcl, hres, _⟩ := hs
  by_cases hf : t.mutIdx ∈ t.run.failMut
  · rw [hres] at h; simp [hf] at h
  · rw [hres] at h
    simp only [hf, if_false] at h hcl
    rw [hcl]
    unfold invUpdateEffect at h ⊢
    cases hi : t.cl.inv with
    | none => simp [hi] at h
    | some l => simp

/-- **merge_superset**: when the merge reports no error (outside dry-run), the stored inventory exists and lists every
previously stored id and every id of the apply set — before the first apply request is made; no object is touched -/
theorem merge_superset (s : St) (ids : List Id) (hok : (mergeInv s ids).2 = none) (hd : dryOf s = false) :
    ∃ l, (mergeInv s ids).1.cl.inv = some l ∧ (∀ i ∈ ids, i ∈ l) ∧ (∀ i ∈ s.cl.inv.getD [], i ∈ l) ∧
         (mergeInv s ids).1.cl.objs = s.cl.objs := by
  unfold mergeInv at hok ⊢
  simp only [] at hok ⊢
  rw [invRead_snd] at hok ⊢
  have hcl1 : s.invRead.1.cl = s.cl := by simp
  have hd1 : dryOf s.invRead.1 = false := by unfold dryOf at *; simpa using hd
  by_cases hf1 : s.invReads ∈ s.run.failInvRead
  · simp [hf1] at hok
  · simp only [hf1, if_false] at hok ⊢
    generalize s.invRead.1 = t1 at *
    cases hinv : s.cl.inv with
    | none =>
      simp only [hinv] at hok ⊢
      split at hok
      · simp at hok
      · rename_i hst
        simp only [hst, if_false, hd1, Bool.false_eq_true] at hok ⊢
        have hne : (t1.mutReq "create" invObjId false "" "" (invCreateEffect ids)).2 ≠ "error" := by
          intro e; simp [e] at hok
        obtain ⟨h1, h2⟩ := create_inv_ok t1 ids hne
        exact ⟨dedup ids, h1, fun i hi => (mem_dedup ids i).mpr hi, by simp, by rw [h2, hcl1]⟩
    | some l =>
      simp only [hinv] at hok ⊢
      rw [invRead_snd] at hok ⊢
      have hcl2 : t1.invRead.1.cl = t1.cl := by simp
      have hd2 : dryOf t1.invRead.1 = false := by unfold dryOf at *; simpa using hd1
      by_cases hf2 : t1.invReads ∈ t1.run.failInvRead
      · simp [hf2] at hok
      · simp only [hf2, if_false, hcl1, hinv, Option.getD_some] at hok ⊢
        generalize t1.invRead.1 = t2 at *
        split at hok
        · simp at hok
        · rename_i hst
          simp only [hst, Bool.false_eq_true, if_false]
          by_cases heq : IdSet.equal ids l = true
          · simp only [heq, if_true]
            rw [equal_iff_same_members] at heq
            exact ⟨l, by rw [hcl2, hcl1, hinv], fun i hi => (heq i).mp hi, fun i hi => hi, by rw [hcl2, hcl1]⟩
          · simp only [heq, if_false, hd2, Bool.false_eq_true] at hok ⊢
            have hres : (t2.mutReq "update" invObjId false "" "" (invUpdateEffect (IdSet.union l ids))).2 = "ok" := by
              unfold errOfRes at hok
              by_cases e : (t2.mutReq "update" invObjId false "" "" (invUpdateEffect (IdSet.union l ids))).2 = "ok"
              · exact e
              · simp [e] at hok
            obtain ⟨h1, h2⟩ := update_inv_ok t2 _ hres
            exact ⟨IdSet.union l ids, h1, fun i hi => (mem_union l ids i).mpr (Or.inr hi),
              fun i hi => (mem_union l ids i).mpr (Or.inl hi), by rw [h2, hcl2, hcl1]⟩

/-! ### only the inventory tasks write the stored inventory -/

/-- a store effect that leaves the stored inventory alone -/
def KeepsInv (eff : Cluster → Cluster × String) : Prop := ∀ c, (eff c).1.inv = c.inv

theorem mutReq_keeps_inv (s : St) (verb : String) (id : Id) (dry : Bool) (pre prop : String) (eff : Cluster → Cluster × String)
    (h : KeepsInv eff) : (s.mutReq verb id dry pre prop eff).1.cl.inv = s.cl.inv := by
  have hs := mutReq_spec s verb id dry pre prop eff
  simp only [] at hs
  rw [hs.2.1]
  split
  · rfl
  · exact h s.cl

theorem put_inv (c : Cluster) (o : Live) : (c.put o).inv = c.inv := by unfold Cluster.put; split <;> rfl
theorem remove_inv (c : Cluster) (i : Id) : (c.remove i).inv = c.inv := rfl
theorem freshUid_inv (c : Cluster) : c.freshUid.2.inv = c.inv := rfl

/-- the prune step (delete, annotation removal) never touches the stored inventory -/
theorem pruneOne_keeps_inv (group : String) (uids localNs : List String) (s : St) (live : Live) :
    (pruneOne group uids localNs s live).cl.inv = s.cl.inv := by
  have ka : KeepsInv (abandonEffect live) := by
    intro c; unfold abandonEffect; split <;> simp [put_inv]
  have kd : ∀ f, KeepsInv (deleteEffect f live) := by
    intro f c; unfold deleteEffect; split
    · rfl
    · split
      · rfl
      · split <;> simp [put_inv, remove_inv]
  cases hd : pruneDecision uids localNs s live <;> simp only [pruneOne, hd]
  all_goals first
    | (simp; done)
    | (split <;> simp [mutReq_keeps_inv _ _ _ _ _ _ _ ka, mutReq_keeps_inv _ _ _ _ _ _ _ (kd _)])
    | skip

/-- kubectl's apply never touches the stored inventory -/
theorem applyOne_keeps_inv (group : String) (s : St) (id : Id) : (applyOne group s id).cl.inv = s.cl.inv := by
  unfold applyOne
  cases hm : manifestOf s id with
  | none => rfl
  | some m =>
    simp only []
    cases hdec : applyDecision s m with
    | fail r => simp
    | skip r => simp
    | go frm =>
      simp only [kubectlApply]
      have ks : ∀ d, KeepsInv (ssaEffect m frm d) := by
        intro d c; unfold ssaEffect; split
        · split
          · rfl
          · simp [createLive, put_inv, freshUid_inv]
        · split
          · rfl
          · simp [put_inv]
      split
      · unfold ssaApply
        simp only []
        have := mutReq_keeps_inv s "patch" m.id (s.run.opts.dry == .server) "" "" _ (ks (s.run.opts.dry == .server))
        split
        · simpa using this
        · split
          · split
            · simpa using this
            · split <;> simpa using this
          · simpa using this
      · unfold csaApply
        simp only []
        cases hg : s.get m.id with
        | none => simp
        | some o =>
          cases o with
          | none =>
            simp only []
            split
            · simp
            · have kc : KeepsInv (fun c => ((createLive m frm true c).1, "ok")) := by
                intro c; simp [createLive, put_inv, freshUid_inv]
              have := mutReq_keeps_inv s "create" m.id false "" "" _ kc
              split
              · simpa using this
              · split <;> simpa using this
          | some old =>
            simp only []
            split
            · simp
            · have kp : KeepsInv (fun c => (c.put (patchLive m frm true old), "ok")) := by
                intro c; simp [put_inv]
              have := mutReq_keeps_inv s "patch" m.id false "" "" _ kp
              split <;> simpa using this

/-! ### an aborted run never reaches the final replace -/

/-- if the run is aborted during (or a task error is returned by) the first task, no later task runs: the result is the state
after that task plus its Finished event and exactly one error event -/
theorem abort_stops (pruneObjs : List Live) (localNs : List String) (s : St) (t : Task) (ts : List Task)
    (h : (runTask (s.emit (.group t.name (t.action s.run.destroy) "Started")) t pruneObjs localNs).2.isSome ∨
         (runTask (s.emit (.group t.name (t.action s.run.destroy) "Started")) t pruneObjs localNs).1.watcherFailed = true ∨
         (runTask (s.emit (.group t.name (t.action s.run.destroy) "Started")) t pruneObjs localNs).1.cancelled = true) :
    ∃ k, runTasks pruneObjs localNs s (t :: ts) =
      ((runTask (s.emit (.group t.name (t.action s.run.destroy) "Started")) t pruneObjs localNs).1.emit
        (.group t.name (t.action s.run.destroy) "Finished")).emit (.error k) := by
  unfold runTasks
  simp only []
  generalize runTask (s.emit (.group t.name (t.action s.run.destroy) "Started")) t pruneObjs localNs = r at h ⊢
  cases he : r.2 with
  | some k => exact ⟨k, rfl⟩
  | none =>
    simp only []
    rcases h with h | h | h
    · rw [he] at h; cases h
    · exact ⟨"watcher", by simp [St.emit, h]⟩
    · by_cases hw : r.1.watcherFailed = true
      · exact ⟨"watcher", by simp [St.emit, hw]⟩
      · exact ⟨"canceled", by simp [St.emit, hw, h]⟩

end CliUtils.Props.C01
