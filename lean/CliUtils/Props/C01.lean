import CliUtils.Model.Sys
import CliUtils.Lemmas.SysL
import CliUtils.Props.C03
import CliUtils.Props.C10
/-
  C01 — the inventory never loses track of a live managed object.

  Proved here, for the definitions the driver runs against the real Applier/Destroyer:
    * merge-before-apply: a successful merge stores a superset of what was stored and of the apply set;
    * only the two inventory tasks ever write the stored inventory (apply and prune steps do not touch it);
    * the final replace keeps every object of a retention class and every successfully applied object
      (`keeps_*`, from the inventory formula of C03), drops only abandoned / deleted-and-gone ones;
    * the inventory object is deleted only when the retained set is empty (`C03.destroy_successful_nothing_retained`);
    * an aborted run (task error, cancellation, watcher failure) never reaches the final replace.
  Full statement (kept visible, NOT proved as one theorem): for every history, every prefix of the mutating-request trace
  satisfies `Spec.orphans = []`.  It is checked on every snapshot of every generated history of the implementation and of the
  model (domain sys-C01); the theorems below are the per-step facts that argument consists of.  One region is a recorded
  finding (C01.inventory-namespace-apply-failed).
-/
namespace CliUtils.Props.C01
open CliUtils CliUtils.Sys CliUtils.Props.C19 CliUtils.Props.C03

/-! ### the final replace loses nothing that is still managed -/

/-- a successfully applied object stays in the inventory unless it was explicitly detached -/
theorem keeps_applied (mgr : Mgr Id) (prev abandoned invalid : List Id) (id : Id)
    (h : id ∈ mgr.withActuation .apply .succeeded) (hab : id ∉ abandoned) :
    id ∈ finalInventory mgr prev abandoned invalid :=
  (final_inventory_mem _ _ _ _ _).mpr (Or.inl ⟨Or.inl h, hab⟩)

/-- a tracked object whose apply or delete failed or was skipped, or whose reconcile failed or timed out, stays in the inventory
unless it was explicitly detached -/
theorem keeps_retained (mgr : Mgr Id) (prev abandoned invalid : List Id) (id : Id)
    (hp : id ∈ prev) (h : Retained mgr id) (hab : id ∉ abandoned) :
    id ∈ finalInventory mgr prev abandoned invalid :=
  (final_inventory_mem _ _ _ _ _).mpr (Or.inl ⟨Or.inr ⟨hp, h⟩, hab⟩)

/-- a tracked invalid object stays in the inventory -/
theorem keeps_invalid (mgr : Mgr Id) (prev abandoned invalid : List Id) (id : Id) (hp : id ∈ prev) (hi : id ∈ invalid) :
    id ∈ finalInventory mgr prev abandoned invalid :=
  (final_inventory_mem _ _ _ _ _).mpr (Or.inr ⟨hp, hi⟩)

/-- what the final replace drops from the previous inventory: only objects that were abandoned, or whose record is a
successful delete / successful apply-that-was-abandoned with no failed or timed-out reconcile — i.e. never an object in a
retention class -/
theorem dropped_only_if (mgr : Mgr Id) (prev abandoned invalid : List Id) (id : Id) (hp : id ∈ prev)
    (h : id ∉ finalInventory mgr prev abandoned invalid) :
    id ∉ invalid ∧ (id ∈ abandoned ∨ (id ∉ mgr.withActuation .apply .succeeded ∧ ¬ Retained mgr id)) := by
  have hn := mt (final_inventory_mem mgr prev abandoned invalid id).mpr h
  simp only [not_or, not_and] at hn
  refine ⟨fun hi => hn.2 hp hi, ?_⟩
  by_cases hab : id ∈ abandoned
  · exact Or.inl hab
  · right
    constructor
    · intro ha; exact hn.1 (Or.inl ha) hab
    · intro hr; exact hn.1 (Or.inr ⟨hp, hr⟩) hab

/-! ### merge before apply -/

theorem invRead_snd (s : St) : s.invRead.2 = if s.invReads ∈ s.run.failInvRead then none else some s.cl.inv := by
  unfold St.invRead; simp only []; split <;> rfl
theorem invRead_invReads (s : St) : s.invRead.1.invReads = s.invReads + 1 := by
  unfold St.invRead; simp only []; split <;> rfl
theorem invRead_mutIdx (s : St) : s.invRead.1.mutIdx = s.mutIdx := by
  unfold St.invRead; simp only []; split <;> rfl

/-- a successful first write stores exactly the (de-duplicated) ids and touches no object -/
theorem create_inv_ok (t : St) (ids : List Id)
    (h : (t.mutReq "create" invObjId false "" "" (invCreateEffect ids)).2 ≠ "error") :
    (t.mutReq "create" invObjId false "" "" (invCreateEffect ids)).1.cl.inv = some (dedup ids) ∧
    (t.mutReq "create" invObjId false "" "" (invCreateEffect ids)).1.cl.objs = t.cl.objs := by
  have hs := mutReq_spec t "create" invObjId false "" "" (invCreateEffect ids)
  simp only [] at hs
  obtain ⟨_, hcl, hres, _⟩ := hs
  by_cases hf : t.mutIdx ∈ t.run.failMut
  · rw [hres] at h; simp [hf] at h
  · rw [hcl]; simp [hf, invCreateEffect, Cluster.freshUid]

/-- a successful update stores exactly the given ids and touches no object -/
theorem update_inv_ok (t : St) (ids : List Id)
    (h : (t.mutReq "update" invObjId false "" "" (invUpdateEffect ids)).2 = "ok") :
    (t.mutReq "update" invObjId false "" "" (invUpdateEffect ids)).1.cl.inv = some ids ∧
    (t.mutReq "update" invObjId false "" "" (invUpdateEffect ids)).1.cl.objs = t.cl.objs := by
  have hs := mutReq_spec t "update" invObjId false "" "" (invUpdateEffect ids)
  simp only [] at hs
  obtain ⟨_, hcl, hres, _⟩ := hs
  by_cases hf : t.mutIdx ∈ t.run.failMut
  · rw [hres] at h; simp [hf] at h
  · rw [hres] at h
    simp only [hf, if_false] at h hcl
    rw [hcl]
    unfold invUpdateEffect at h ⊢
    cases hi : t.cl.inv with
    | none => simp [hi] at h
    | some l => simp

/-- **merge_superset**: when the merge reports no error (outside dry-run), the stored inventory exists and lists every
previously stored id and every id of the apply set — before the first apply request is made; no object is touched -/
theorem merge_superset (s : St) (ids : List Id) (hok : (mergeInv s ids).2 = none) (hd : dryOf s = false) :
    ∃ l, (mergeInv s ids).1.cl.inv = some l ∧ (∀ i ∈ ids, i ∈ l) ∧ (∀ i ∈ s.cl.inv.getD [], i ∈ l) ∧
         (mergeInv s ids).1.cl.objs = s.cl.objs := by
  unfold mergeInv at hok ⊢
  simp only [] at hok ⊢
  rw [invRead_snd] at hok ⊢
  have hcl1 : s.invRead.1.cl = s.cl := by simp
  have hd1 : dryOf s.invRead.1 = false := by unfold dryOf at *; simpa using hd
  by_cases hf1 : s.invReads ∈ s.run.failInvRead
  · simp [hf1] at hok
  · simp only [hf1, if_false] at hok ⊢
    generalize s.invRead.1 = t1 at *
    cases hinv : s.cl.inv with
    | none =>
      simp only [hinv] at hok ⊢
      split at hok
      · simp at hok
      · rename_i hst
        simp only [hst, if_false, hd1, Bool.false_eq_true] at hok ⊢
        have hne : (t1.mutReq "create" invObjId false "" "" (invCreateEffect ids)).2 ≠ "error" := by
          intro e; simp [e] at hok
        obtain ⟨h1, h2⟩ := create_inv_ok t1 ids hne
        exact ⟨dedup ids, h1, fun i hi => (mem_dedup ids i).mpr hi, by simp, by rw [h2, hcl1]⟩
    | some l =>
      simp only [hinv] at hok ⊢
      rw [invRead_snd] at hok ⊢
      have hcl2 : t1.invRead.1.cl = t1.cl := by simp
      have hd2 : dryOf t1.invRead.1 = false := by unfold dryOf at *; simpa using hd1
      by_cases hf2 : t1.invReads ∈ t1.run.failInvRead
      · simp [hf2] at hok
      · simp only [hf2, if_false, hcl1, hinv, Option.getD_some] at hok ⊢
        generalize t1.invRead.1 = t2 at *
        split at hok
        · simp at hok
        · rename_i hst
          simp only [hst, Bool.false_eq_true, if_false]
          by_cases heq' : (IdSet.equal ids l && !t2.run.opts.statusAll) = true
          · simp only [heq', if_true]
            have heq : IdSet.equal ids l = true := by
              cases h1 : IdSet.equal ids l <;> simp [h1] at heq' ⊢
            rw [equal_iff_same_members] at heq
            exact ⟨l, by rw [hcl2, hcl1, hinv], fun i hi => (heq i).mp hi, fun i hi => hi, by rw [hcl2, hcl1]⟩
          · simp only [heq', if_false, hd2, Bool.false_eq_true] at hok ⊢
            have hres : (t2.mutReq "update" invObjId false "" "" (invUpdateEffect (IdSet.union l ids))).2 = "ok" := by
              unfold errOfRes at hok
              by_cases e : (t2.mutReq "update" invObjId false "" "" (invUpdateEffect (IdSet.union l ids))).2 = "ok"
              · exact e
              · simp [e] at hok
            obtain ⟨h1, h2⟩ := update_inv_ok t2 _ hres
            exact ⟨IdSet.union l ids, h1, fun i hi => (mem_union l ids i).mpr (Or.inr hi),
              fun i hi => (mem_union l ids i).mpr (Or.inl hi), by rw [h2, hcl2, hcl1]⟩

/-! ### only the inventory tasks write the stored inventory -/

/-- a store effect that leaves the stored inventory alone -/
def KeepsInv (eff : Cluster → Cluster × String) : Prop := ∀ c, (eff c).1.inv = c.inv

theorem mutReq_keeps_inv (s : St) (verb : String) (id : Id) (dry : Bool) (pre prop : String) (eff : Cluster → Cluster × String)
    (h : KeepsInv eff) : (s.mutReq verb id dry pre prop eff).1.cl.inv = s.cl.inv := by
  have hs := mutReq_spec s verb id dry pre prop eff
  simp only [] at hs
  rw [hs.2.1]
  split
  · rfl
  · exact h s.cl

theorem put_inv (c : Cluster) (o : Live) : (c.put o).inv = c.inv := by unfold Cluster.put; split <;> rfl
theorem remove_inv (c : Cluster) (i : Id) : (c.remove i).inv = c.inv := rfl
theorem freshUid_inv (c : Cluster) : c.freshUid.2.inv = c.inv := rfl

/-- the prune step (delete, annotation removal) never touches the stored inventory -/
theorem pruneOne_keeps_inv (group : String) (uids localNs : List String) (s : St) (live : Live) :
    (pruneOne group uids localNs s live).cl.inv = s.cl.inv := by
  have ka : KeepsInv (abandonEffect live) := by
    intro c; unfold abandonEffect; split <;> simp [put_inv]
  have kd : ∀ f, KeepsInv (deleteEffect f live) := by
    intro f c; unfold deleteEffect; split
    · rfl
    · split
      · rfl
      · split <;> simp [put_inv, remove_inv]
  cases hd : pruneDecision uids localNs s live <;> simp only [pruneOne, hd]
  all_goals first
    | (simp; done)
    | (split <;> simp [mutReq_keeps_inv _ _ _ _ _ _ _ ka, mutReq_keeps_inv _ _ _ _ _ _ _ (kd _)])
    | skip

/-- kubectl's apply never touches the stored inventory -/
theorem applyOne_keeps_inv (group : String) (s : St) (id : Id) : (applyOne group s id).cl.inv = s.cl.inv := by
  unfold applyOne
  cases hm : manifestOf s id with
  | none => rfl
  | some m =>
    simp only []
    cases hdec : applyDecision s m with
    | fail r => simp
    | skip r => simp
    | go frm =>
      simp only [kubectlApply]
      have ks : ∀ d, KeepsInv (ssaEffect m frm d) := by
        intro d c; unfold ssaEffect; split
        · split
          · rfl
          · simp [createLive, put_inv, freshUid_inv]
        · split
          · rfl
          · simp [put_inv]
      split
      · unfold ssaApply
        simp only []
        have := mutReq_keeps_inv s "patch" m.id (s.run.opts.dry == .server) "" "" _ (ks (s.run.opts.dry == .server))
        split
        · simpa using this
        · split
          · split
            · simpa using this
            · split <;> simpa using this
          · simpa using this
      · unfold csaApply
        simp only []
        cases hg : s.get m.id with
        | none => simp
        | some o =>
          cases o with
          | none =>
            simp only []
            split
            · simp
            · have kc : KeepsInv (fun c => ((createLive m frm true c).1, "ok")) := by
                intro c; simp [createLive, put_inv, freshUid_inv]
              have := mutReq_keeps_inv s "create" m.id false "" "" _ kc
              split
              · simpa using this
              · split <;> simpa using this
          | some old =>
            simp only []
            split
            · simp
            · have kp : KeepsInv (fun c => (c.put (patchLive m frm true old), "ok")) := by
                intro c; simp [put_inv]
              have := mutReq_keeps_inv s "patch" m.id false "" "" _ kp
              split <;> simpa using this

/-! ### an aborted run never reaches the final replace -/

/-- if the run is aborted during (or a task error is returned by) the first task, no later task runs: the result is the state
after that task plus its Finished event and exactly one error event -/
theorem abort_stops (pruneObjs : List Live) (localNs : List String) (s : St) (t : Task) (ts : List Task)
    (h : (runTask (s.emit (.group t.name (t.action s.run.destroy) "Started")) t pruneObjs localNs).2.isSome ∨
         (runTask (s.emit (.group t.name (t.action s.run.destroy) "Started")) t pruneObjs localNs).1.watcherFailed = true ∨
         (runTask (s.emit (.group t.name (t.action s.run.destroy) "Started")) t pruneObjs localNs).1.cancelled = true) :
    ∃ k, runTasks pruneObjs localNs s (t :: ts) =
      ((runTask (s.emit (.group t.name (t.action s.run.destroy) "Started")) t pruneObjs localNs).1.emit
        (.group t.name (t.action s.run.destroy) "Finished")).emit (.error k) := by
  unfold runTasks
  simp only []
  generalize runTask (s.emit (.group t.name (t.action s.run.destroy) "Started")) t pruneObjs localNs = r at h ⊢
  cases he : r.2 with
  | some k => exact ⟨k, rfl⟩
  | none =>
    simp only []
    rcases h with h | h | h
    · rw [he] at h; cases h
    · by_cases hc : r.1.cancelled = true
      · exact ⟨"canceled", by simp [St.emit, hc]⟩
      · exact ⟨"watcher", by simp [St.emit, hc, h]⟩
    · exact ⟨"canceled", by simp [St.emit, h]⟩

end CliUtils.Props.C01

/-! ## no orphan at any request between the merge and the final inventory task

The invariant: every object annotated with this inventory is listed in the stored inventory, in the current store AND in the
snapshot taken after every mutating request so far.  It is preserved by every apply step for an object the stored inventory
lists (merge-before-apply provides that: `merge_superset`), by every prune step, and by every wait phase (the environment
only removes objects). -/
namespace CliUtils.Props.C01
open CliUtils CliUtils.Sys

/-- no orphan in a store: every object carrying this inventory's annotation is listed in the stored inventory -/
def NoOrphanCl (c : Cluster) : Prop := ∀ o ∈ c.objs, o.owner = invId → ∃ l, c.inv = some l ∧ o.id ∈ l

/-- … in the current store and in the snapshot after every mutating request made so far -/
def Safe (s : St) : Prop := NoOrphanCl s.cl ∧ ∀ m ∈ s.muts, NoOrphanCl { objs := m.snap.objs, inv := m.snap.inv }

theorem mem_put (c : Cluster) (o x : Live) (h : x ∈ (c.put o).objs) : x = o ∨ x ∈ c.objs := by
  unfold Cluster.put at h
  split at h
  · simp only [List.mem_map] at h
    obtain ⟨y, hy, rfl⟩ := h
    split
    · exact Or.inl rfl
    · exact Or.inr hy
  · simp only [List.mem_append, List.mem_singleton] at h
    rcases h with h | h
    · exact Or.inr h
    · exact Or.inl h

theorem noOrphan_put (c : Cluster) (o : Live) (h : NoOrphanCl c) (ho : o.owner = invId → ∃ l, c.inv = some l ∧ o.id ∈ l) :
    NoOrphanCl (c.put o) := by
  intro x hx hown
  rw [put_inv]
  rcases mem_put c o x hx with rfl | hx
  · exact ho hown
  · exact h x hx hown

theorem noOrphan_remove (c : Cluster) (i : Id) (h : NoOrphanCl c) : NoOrphanCl (c.remove i) := by
  intro x hx hown
  exact h x (List.mem_filter.mp hx).1 hown

theorem noOrphan_freshUid (c : Cluster) (h : NoOrphanCl c) : NoOrphanCl c.freshUid.2 := h

/-- a store effect that keeps the store orphan-free -/
def EffSafe (eff : Cluster → Cluster × String) : Prop := ∀ c, NoOrphanCl c → NoOrphanCl (eff c).1

theorem safe_mutReq (s : St) (verb : String) (id : Id) (dry : Bool) (pre prop : String) (eff : Cluster → Cluster × String)
    (hs : Safe s) (he : NoOrphanCl s.cl → NoOrphanCl (eff s.cl).1) : Safe (s.mutReq verb id dry pre prop eff).1 := by
  have h := mutReq_spec s verb id dry pre prop eff
  simp only [] at h
  obtain ⟨⟨m, hm, _, _, _, _, _, _, _, _, hsnap⟩, hcl, _⟩ := h
  have hcl' : NoOrphanCl (s.mutReq verb id dry pre prop eff).1.cl := by
    rw [hcl]; split
    · exact hs.1
    · exact he hs.1
  refine ⟨hcl', ?_⟩
  intro x hx
  rw [hm] at hx
  rcases List.mem_cons.mp hx with rfl | hx
  · rw [hsnap]; exact hcl'
  · exact hs.2 x hx

theorem safe_of_eq (s s' : St) (hs : Safe s) (hcl : s'.cl = s.cl) (hm : s'.muts = s.muts) : Safe s' := by
  unfold Safe; rw [hcl, hm]; exact hs

/-! ### prune steps -/

theorem abandonEffect_safe (live : Live) : EffSafe (abandonEffect live) := by
  intro c h
  unfold abandonEffect
  split
  · exact h
  · exact noOrphan_put c _ h (by intro hown; simp [invId] at hown)

theorem deleteEffect_safe (f : Bool) (live : Live) : EffSafe (deleteEffect f live) := by
  intro c h
  unfold deleteEffect
  split
  · exact h
  · rename_i cur hcur
    split
    · exact h
    · split
      · refine noOrphan_put c _ h ?_
        intro hown
        have hmem : cur ∈ c.objs := List.mem_of_find?_eq_some hcur
        exact h cur hmem hown
      · exact noOrphan_remove c _ h

theorem pruneOne_safe (group : String) (uids localNs : List String) (s : St) (live : Live) (hs : Safe s) :
    Safe (pruneOne group uids localNs s live) := by
  cases hd : pruneDecision uids localNs s live <;> simp only [pruneOne, hd]
  · exact safe_of_eq _ _ hs (by simp) (by simp)
  · exact safe_of_eq _ _ hs (by simp) (by simp)
  · exact safe_of_eq _ _ hs (by simp) (by simp)
  · have h1 := safe_mutReq s "update" live.id false "" "" (abandonEffect live) hs (abandonEffect_safe live s.cl)
    split
    · exact safe_of_eq _ _ h1 (by simp) (by simp)
    · exact safe_of_eq _ _ h1 (by simp) (by simp)
  · exact safe_of_eq _ _ hs (by simp) (by simp)
  · exact safe_of_eq _ _ hs (by simp) (by simp)
  · split <;> exact safe_of_eq _ _ hs (by simp) (by simp)
  · exact safe_of_eq _ _ hs (by simp) (by simp)
  · have h1 := safe_mutReq s "delete" live.id false live.uid (propagationOf s) (deleteEffect (hasFinalizer s.run live.id) live) hs
      (deleteEffect_safe _ live s.cl)
    split
    · exact safe_of_eq _ _ h1 (by simp) (by simp)
    · exact safe_of_eq _ _ h1 (by simp) (by simp)

/-! ### apply steps: the object must be listed (merge-before-apply) -/

/-- the stored inventory lists `id` -/
def Listed (c : Cluster) (id : Id) : Prop := ∃ l, c.inv = some l ∧ id ∈ l

theorem createLive_safe (m : Manifest) (frm : Option String) (la : Bool) (c : Cluster) (h : NoOrphanCl c) (hl : Listed c m.id) :
    NoOrphanCl (createLive m frm la c).1 := by
  unfold createLive
  simp only []
  exact noOrphan_put _ _ (noOrphan_freshUid c h) (fun _ => hl)

theorem patchLive_id (m : Manifest) (frm : Option String) (la : Bool) (old : Live) : (patchLive m frm la old).id = old.id := rfl

theorem ssaEffect_safe (m : Manifest) (frm : Option String) (dry : Bool) (c : Cluster) (h : NoOrphanCl c) (hl : Listed c m.id) :
    NoOrphanCl (ssaEffect m frm dry c).1 := by
  unfold ssaEffect
  split
  · split
    · exact h
    · exact createLive_safe m frm false c h hl
  · rename_i old hold
    split
    · exact h
    · refine noOrphan_put c _ h (fun _ => ?_)
      have : old.id = m.id := by
        have := List.find?_some hold; simpa using this
      rw [patchLive_id, this]; exact hl

theorem kubectlApply_safe (group : String) (s : St) (m : Manifest) (frm : Option String) (hs : Safe s) (hl : Listed s.cl m.id) :
    Safe (kubectlApply group s m frm) := by
  unfold kubectlApply
  split
  · unfold ssaApply
    simp only []
    have h1 := safe_mutReq s "patch" m.id (s.run.opts.dry == .server) "" "" (ssaEffect m frm (s.run.opts.dry == .server)) hs
      (fun h => ssaEffect_safe m frm _ s.cl h hl)
    split
    · exact safe_of_eq _ _ h1 (by simp) (by simp)
    · split
      · split
        · exact safe_of_eq _ _ h1 (by simp) (by simp)
        · split <;> exact safe_of_eq _ _ h1 (by simp) (by simp)
      · exact safe_of_eq _ _ h1 (by simp) (by simp)
  · unfold csaApply
    simp only []
    cases hg : s.get m.id with
    | none => exact safe_of_eq _ _ hs (by simp) (by simp)
    | some o =>
      cases o with
      | none =>
        simp only []
        split
        · exact safe_of_eq _ _ hs (by simp) (by simp)
        · have h1 := safe_mutReq s "create" m.id false "" "" (fun c => ((createLive m frm true c).1, "ok")) hs
            (fun h => createLive_safe m frm true s.cl h hl)
          split
          · exact safe_of_eq _ _ h1 (by simp) (by simp)
          · split <;> exact safe_of_eq _ _ h1 (by simp) (by simp)
      | some old =>
        simp only []
        split
        · exact safe_of_eq _ _ hs (by simp) (by simp)
        · have hid : old.id = m.id := by
            unfold St.get at hg
            split at hg
            · cases hg
            · simp only [Option.some.injEq] at hg
              have := List.find?_some hg; simpa using this
          have h1 := safe_mutReq s "patch" m.id false "" "" (fun c => (c.put (patchLive m frm true old), "ok")) hs
            (fun h => noOrphan_put s.cl _ h (fun _ => by rw [patchLive_id, hid]; exact hl))
          split <;> exact safe_of_eq _ _ h1 (by simp) (by simp)

theorem manifestOf_id (s : St) (id : Id) (m : Manifest) (h : manifestOf s id = some m) : m.id = id := by
  unfold manifestOf at h
  have := List.find?_some h
  simpa using this

/-- **an apply step keeps the store orphan-free if the stored inventory lists the object** -/
theorem applyOne_safe (group : String) (s : St) (id : Id) (hs : Safe s) (hl : Listed s.cl id) : Safe (applyOne group s id) := by
  unfold applyOne
  cases hm : manifestOf s id with
  | none => exact hs
  | some m =>
    simp only []
    cases hdec : applyDecision s m with
    | fail r => exact safe_of_eq _ _ hs (by simp) (by simp)
    | skip r => exact safe_of_eq _ _ hs (by simp) (by simp)
    | go frm => exact kubectlApply_safe group s m frm hs (by rw [manifestOf_id s id m hm]; exact hl)

theorem applyFold_safe (group : String) (ids : List Id) (s : St) (hs : Safe s) (hl : ∀ id ∈ ids, Listed s.cl id) :
    Safe (ids.foldl (applyOne group) s) ∧ (ids.foldl (applyOne group) s).cl.inv = s.cl.inv := by
  induction ids generalizing s with
  | nil => exact ⟨hs, rfl⟩
  | cons id ids ih =>
    simp only [List.foldl_cons]
    have h1 := applyOne_safe group s id hs (hl id (by simp))
    have hinv := applyOne_keeps_inv group s id
    have hl' : ∀ x ∈ ids, Listed (applyOne group s id).cl x := by
      intro x hx
      obtain ⟨l, hl1, hl2⟩ := hl x (by simp [hx])
      exact ⟨l, by rw [hinv]; exact hl1, hl2⟩
    obtain ⟨h2, h3⟩ := ih _ h1 hl'
    exact ⟨h2, h3.trans hinv⟩

theorem pruneFold_safe (group : String) (uids localNs : List String) (lives : List Live) (s : St) (hs : Safe s) :
    Safe (lives.foldl (pruneOne group uids localNs) s) ∧ (lives.foldl (pruneOne group uids localNs) s).cl.inv = s.cl.inv := by
  induction lives generalizing s with
  | nil => exact ⟨hs, rfl⟩
  | cons l ls ih =>
    simp only [List.foldl_cons]
    obtain ⟨h2, h3⟩ := ih _ (pruneOne_safe group uids localNs s l hs)
    exact ⟨h2, h3.trans (pruneOne_keeps_inv group uids localNs s l)⟩

end CliUtils.Props.C01

namespace CliUtils.Props.C01
open CliUtils CliUtils.Sys

/-! ### wait phases: the environment only removes objects -/

theorem flushWait_cl (group : String) (s : St) (w : Wait.WState Id) (n0 : Nat) :
    (flushWait group s w n0).cl = s.cl ∧ (flushWait group s w n0).muts = s.muts := by
  unfold flushWait
  generalize w.events.drop n0 = l
  induction l generalizing s with
  | nil => exact ⟨rfl, rfl⟩
  | cons e es ih => simpa using ih (s.emit (.wait group e.1 (wevName e.2)))

theorem deliverState_safe (s : St) (d : Delivery) (hs : Safe s) :
    Safe (deliverState s d) ∧ (deliverState s d).cl.inv = s.cl.inv := by
  unfold deliverState
  simp only []
  have hcl : NoOrphanCl (if d.envRemove then s.cl.remove d.id else s.cl) := by
    split
    · exact noOrphan_remove _ _ hs.1
    · exact hs.1
  have hinv : (if d.envRemove then s.cl.remove d.id else s.cl).inv = s.cl.inv := by split <;> rfl
  split
  · exact ⟨⟨by simpa using hcl, by simpa using hs.2⟩, by simpa using hinv⟩
  · exact ⟨⟨by simpa using hcl, by simpa using hs.2⟩, by simpa using hinv⟩

theorem deliverOne_safe (group : String) (n : Nat) (ws : WaitSt) (d : Delivery) (hs : Safe ws.s) :
    Safe (deliverOne group n ws d).1.s ∧ (deliverOne group n ws d).1.s.cl.inv = ws.s.cl.inv := by
  unfold deliverOne
  simp only []
  split
  · exact ⟨hs, rfl⟩
  · split
    · exact ⟨safe_of_eq _ _ hs rfl rfl, rfl⟩
    · split
      · exact ⟨safe_of_eq _ _ hs rfl rfl, rfl⟩
      · have h2 := deliverState_safe ws.s d hs
        generalize deliverState ws.s d = s2 at h2 ⊢
        generalize Wait.statusUpdate { ws.w with mgr := s2.mgr } d.id (obsOf s2.cl d) = w'
        have hf := flushWait_cl group { s2 with mgr := w'.mgr } w' ws.w.events.length
        exact ⟨safe_of_eq _ _ h2.1 hf.1 hf.2, by simp only []; rw [hf.1]; exact h2.2⟩

theorem deliverChain_safe (group : String) (n : Nat) (ds : List Delivery) (ws : WaitSt) (hs : Safe ws.s) :
    Safe (deliverChain group n ws ds).s ∧ (deliverChain group n ws ds).s.cl.inv = ws.s.cl.inv := by
  induction ds generalizing ws with
  | nil => exact ⟨hs, rfl⟩
  | cons d ds ih =>
    simp only [deliverChain]
    have h1 := deliverOne_safe group n ws d hs
    split
    · obtain ⟨h2, h3⟩ := ih _ h1.1
      exact ⟨h2, h3.trans h1.2⟩
    · exact h1

theorem runWait_safe (group : String) (s : St) (ids : List Id) (cond : Wait.Cond) (hs : Safe s) :
    Safe (runWait group s ids cond).1 ∧ (runWait group s ids cond).1.cl.inv = s.cl.inv := by
  unfold runWait
  simp only []
  have f0 := flushWait_cl group { { s with waitIdx := s.waitIdx + 1 } with mgr := (Wait.start ids cond s.mgr s.cache).mgr }
      (Wait.start ids cond s.mgr s.cache) 0
  have e0 : Safe (flushWait group { { s with waitIdx := s.waitIdx + 1 } with mgr := (Wait.start ids cond s.mgr s.cache).mgr }
      (Wait.start ids cond s.mgr s.cache) 0) ∧
      (flushWait group { { s with waitIdx := s.waitIdx + 1 } with mgr := (Wait.start ids cond s.mgr s.cache).mgr }
      (Wait.start ids cond s.mgr s.cache) 0).cl.inv = s.cl.inv :=
    ⟨safe_of_eq _ _ hs f0.1 f0.2, by rw [f0.1]⟩
  have efold : ∀ (chains : List (List Delivery)) (ws : WaitSt), (Safe ws.s ∧ ws.s.cl.inv = s.cl.inv) →
      (Safe (chains.foldl (deliverChain group s.waitIdx) ws).s ∧ (chains.foldl (deliverChain group s.waitIdx) ws).s.cl.inv = s.cl.inv) := by
    intro chains
    induction chains with
    | nil => intro ws h; exact h
    | cons c cs ih =>
      intro ws h
      have h1 := deliverChain_safe group s.waitIdx c ws h.1
      exact ih _ ⟨h1.1, h1.2.trans h.2⟩
  have e1 := efold (ids.flatMap (scriptFor s.run cond))
    { s := flushWait group { { s with waitIdx := s.waitIdx + 1 } with mgr := (Wait.start ids cond s.mgr s.cache).mgr }
        (Wait.start ids cond s.mgr s.cache) 0, w := Wait.start ids cond s.mgr s.cache } e0
  generalize (ids.flatMap (scriptFor s.run cond)).foldl (deliverChain group s.waitIdx) _ = ws at e1
  have e2 : Safe (if !ws.stopped && !ws.w.cancelled && !ws.w.pending.isEmpty && decide (ws.s.run.cancel = CancelAt.wait s.waitIdx none) then
      ({ ws with s := { ws.s with cancelled := true }, w := Wait.cancel ws.w, stopped := true } : WaitSt) else ws).s ∧
      (if !ws.stopped && !ws.w.cancelled && !ws.w.pending.isEmpty && decide (ws.s.run.cancel = CancelAt.wait s.waitIdx none) then
      ({ ws with s := { ws.s with cancelled := true }, w := Wait.cancel ws.w, stopped := true } : WaitSt) else ws).s.cl.inv = s.cl.inv := by
    split
    · exact ⟨safe_of_eq _ _ e1.1 rfl rfl, e1.2⟩
    · exact e1
  generalize (if !ws.stopped && !ws.w.cancelled && !ws.w.pending.isEmpty && decide (ws.s.run.cancel = CancelAt.wait s.waitIdx none) then
      ({ ws with s := { ws.s with cancelled := true }, w := Wait.cancel ws.w, stopped := true } : WaitSt) else ws) = ws2 at e2
  split
  · exact e2
  · split
    · exact e2
    · have f := flushWait_cl group { ws2.s with mgr := (Wait.timeout { ws2.w with mgr := ws2.s.mgr }).mgr }
        (Wait.timeout { ws2.w with mgr := ws2.s.mgr }) ws2.w.events.length
      exact ⟨safe_of_eq _ _ e2.1 f.1 f.2, by rw [f.1]; exact e2.2⟩

/-! ### the tasks between the merge and the final inventory task -/

/-- a task of the middle segment: apply (all its objects listed), prune or wait -/
def MiddleTask (c : Cluster) (t : Task) : Prop :=
  match t.kind with
  | .apply ids => ∀ id ∈ ids, Listed c id
  | .prune _ => True
  | .wait _ _ => True
  | _ => False

theorem runTask_middle_safe (s : St) (t : Task) (pruneObjs : List Live) (localNs : List String) (hs : Safe s)
    (hm : MiddleTask s.cl t) :
    Safe (runTask s t pruneObjs localNs).1 ∧ (runTask s t pruneObjs localNs).1.cl.inv = s.cl.inv := by
  unfold runTask
  unfold MiddleTask at hm
  cases hk : t.kind with
  | invAdd ids => rw [hk] at hm; exact absurd hm (by simp)
  | apply ids => rw [hk] at hm; exact applyFold_safe t.name ids s hs hm
  | prune ids => exact pruneFold_safe t.name _ localNs _ s hs
  | wait ids c => exact runWait_safe t.name s ids c hs
  | invSet prev pe => rw [hk] at hm; exact absurd hm (by simp)

/-- **no orphan at any request between the merge and the final inventory task**: starting from an orphan-free state whose
stored inventory lists every object of every apply task (which `merge_superset` establishes), running any list of apply, prune
and wait tasks — with any injected request failures, any status feed, finalizers, cancellation or watcher failure at any
point — leaves the store orphan-free after EVERY mutating request (the snapshot taken after each one), and never changes the
stored inventory -/
theorem no_orphan_until_final (pruneObjs : List Live) (localNs : List String) (ts : List Task) (s : St) (hs : Safe s)
    (hm : ∀ t ∈ ts, MiddleTask s.cl t) :
    Safe (runTasks pruneObjs localNs s ts) ∧ (runTasks pruneObjs localNs s ts).cl.inv = s.cl.inv := by
  induction ts generalizing s with
  | nil => exact ⟨hs, rfl⟩
  | cons t ts ih =>
    unfold runTasks
    simp only []
    have hs1 : Safe (s.emit (.group t.name (t.action s.run.destroy) "Started")) := safe_of_eq _ _ hs rfl rfl
    have h1 := runTask_middle_safe (s.emit (.group t.name (t.action s.run.destroy) "Started")) t pruneObjs localNs hs1 (hm t (by simp))
    generalize runTask (s.emit (.group t.name (t.action s.run.destroy) "Started")) t pruneObjs localNs = r at h1 ⊢
    have hinv : r.1.cl.inv = s.cl.inv := h1.2
    have hs3 : Safe (r.1.emit (.group t.name (t.action s.run.destroy) "Finished")) := safe_of_eq _ _ h1.1 rfl rfl
    split
    · exact ⟨safe_of_eq _ _ hs3 rfl rfl, hinv⟩
    · split
      · exact ⟨safe_of_eq _ _ hs3 rfl rfl, hinv⟩
      · split
        · exact ⟨safe_of_eq _ _ hs3 rfl rfl, hinv⟩
        · have hm' : ∀ t' ∈ ts, MiddleTask (r.1.emit (.group t.name (t.action s.run.destroy) "Finished")).cl t' := by
            intro t' ht'
            have := hm t' (by simp [ht'])
            unfold MiddleTask at this ⊢
            cases hk : t'.kind with
            | apply ids =>
              rw [hk] at this
              intro id hid
              obtain ⟨l, h1', h2'⟩ := this id hid
              exact ⟨l, by simp only [emit_cl]; rw [hinv]; exact h1', h2'⟩
            | invAdd ids => rw [hk] at this; exact this
            | prune ids => trivial
            | wait ids c => trivial
            | invSet p pe => rw [hk] at this; exact this
          obtain ⟨h2, h3⟩ := ih _ hs3 hm'
          exact ⟨h2, by rw [h3]; simpa using hinv⟩

end CliUtils.Props.C01

namespace CliUtils.Props.C01
open CliUtils CliUtils.Sys CliUtils.Props.C19

/-! ### the merge itself, and the run from its start up to the final inventory task -/

theorem invRead_safe (s : St) (hs : Safe s) : Safe s.invRead.1 :=
  safe_of_eq _ _ hs (by simp) (by simp)

theorem invCreateEffect_safe (ids : List Id) (c : Cluster) (h : NoOrphanCl c) (hn : c.inv = none) :
    NoOrphanCl (invCreateEffect ids c).1 := by
  intro o ho hown
  simp only [invCreateEffect, Cluster.freshUid] at ho
  obtain ⟨l, hl, _⟩ := h o ho hown
  rw [hn] at hl; cases hl

theorem invUpdateEffect_safe (ids : List Id) (c : Cluster) (h : NoOrphanCl c)
    (hsup : ∀ l, c.inv = some l → ∀ i ∈ l, i ∈ ids) : NoOrphanCl (invUpdateEffect ids c).1 := by
  unfold invUpdateEffect
  cases hi : c.inv with
  | none => simpa [hi] using h
  | some l =>
    intro o ho hown
    obtain ⟨l', hl', hmem⟩ := h o ho hown
    rw [hi] at hl'; injection hl' with hl'; subst hl'
    exact ⟨ids, rfl, hsup l hi o.id hmem⟩

/-- the merge never creates an orphan: it touches no object and only ever enlarges the stored set -/
theorem mergeInv_safe (s : St) (ids : List Id) (hs : Safe s) : Safe (mergeInv s ids).1 := by
  unfold mergeInv
  simp only []
  have e1 := invRead_safe s hs
  have hcl1 : s.invRead.1.cl = s.cl := by simp
  rw [invRead_snd]
  by_cases hf1 : s.invReads ∈ s.run.failInvRead
  · simp only [hf1, if_true]; exact e1
  · simp only [hf1, if_false]
    generalize s.invRead.1 = t1 at *
    cases hinv : s.cl.inv with
    | none =>
      simp only []
      split
      · exact e1
      · split
        · exact e1
        · exact safe_mutReq t1 "create" invObjId false "" "" (invCreateEffect ids) e1
            (fun h => invCreateEffect_safe ids t1.cl h (by rw [hcl1]; exact hinv))
    | some l =>
      simp only []
      have e2 := invRead_safe t1 e1
      have hcl2 : t1.invRead.1.cl = t1.cl := by simp
      rw [invRead_snd]
      by_cases hf2 : t1.invReads ∈ t1.run.failInvRead
      · simp only [hf2, if_true]; exact e2
      · simp only [hf2, if_false, hcl1, hinv, Option.getD_some]
        generalize t1.invRead.1 = t2 at *
        split
        · exact e2
        · split
          · exact e2
          · split
            · exact e2
            · exact safe_mutReq t2 "update" invObjId false "" "" (invUpdateEffect (IdSet.union l ids)) e2
                (fun h => invUpdateEffect_safe _ t2.cl h (by
                  intro l' hl' i hi
                  rw [hcl2, hcl1, hinv] at hl'
                  injection hl' with hl'; subst hl'
                  exact (mem_union _ ids i).mpr (Or.inl hi)))

/-- **from the start of an apply run up to the final inventory task**: for a plan `inventory-add(ids)` followed by apply / prune /
wait tasks whose apply tasks only name objects of `ids` — i.e. every plan the task builder produces — with a real (non dry-run)
strategy and without creating the inventory namespace in this run: if the store is orphan-free at the start, it is orphan-free after
every mutating request of these tasks, whatever fails, whenever the run is cancelled -/
theorem no_orphan_from_start (pruneObjs : List Live) (localNs : List String) (name : String) (ids : List Id) (middle : List Task)
    (s : St) (hs : Safe s) (hd : dryOf s = false) (hns : nsInv ∉ ids)
    (hmid : ∀ t ∈ middle, match t.kind with
      | .apply ids' => ∀ id ∈ ids', id ∈ ids
      | .prune _ => True
      | .wait _ _ => True
      | _ => False) :
    Safe (runTasks pruneObjs localNs s (⟨name, .invAdd ids⟩ :: middle)) := by
  unfold runTasks
  simp only []
  have hs1 : Safe (s.emit (.group name ((⟨name, .invAdd ids⟩ : Task).action s.run.destroy) "Started")) := safe_of_eq _ _ hs rfl rfl
  have hrt : runTask (s.emit (.group name ((⟨name, .invAdd ids⟩ : Task).action s.run.destroy) "Started")) ⟨name, .invAdd ids⟩ pruneObjs localNs =
      mergeInv (s.emit (.group name ((⟨name, .invAdd ids⟩ : Task).action s.run.destroy) "Started")) ids := by
    simp [runTask, runInvAdd, hns]
  rw [hrt]
  generalize hs1' : s.emit (.group name ((⟨name, .invAdd ids⟩ : Task).action s.run.destroy) "Started") = s1 at hs1 ⊢
  have hd1 : dryOf s1 = false := by rw [← hs1']; exact hd
  have hm := mergeInv_safe s1 ids hs1
  cases hres : (mergeInv s1 ids).2 with
  | some k => exact safe_of_eq _ _ hm rfl rfl
  | none =>
    simp only []
    obtain ⟨l, hl, hsup, _, _⟩ := merge_superset s1 ids hres hd1
    have hs3 : Safe ((mergeInv s1 ids).1.emit (.group name ((⟨name, .invAdd ids⟩ : Task).action s.run.destroy) "Finished")) :=
      safe_of_eq _ _ hm rfl rfl
    split
    · exact safe_of_eq _ _ hs3 rfl rfl
    · split
      · exact safe_of_eq _ _ hs3 rfl rfl
      · refine (no_orphan_until_final pruneObjs localNs middle _ hs3 ?_).1
        intro t ht
        have := hmid t ht
        unfold MiddleTask
        cases hk : t.kind with
        | apply ids' =>
          rw [hk] at this
          intro id hid
          exact ⟨l, by simpa using hl, hsup id (this id hid)⟩
        | invAdd i => rw [hk] at this; exact this
        | prune i => trivial
        | wait i c => trivial
        | invSet p pe => rw [hk] at this; exact this

end CliUtils.Props.C01
