import CliUtils.Model.CacheReader
import CliUtils.Lemmas.CacheReaderL
import CliUtils.Model.DynReader
import CliUtils.Lemmas.DynReaderL
/-
  C17 — the caching cluster reader answers exactly what the cluster held at Sync time.
  Property theorems only; helper lemmas live in `Lemmas/CacheReaderL.lean`.

  Reading guide (model ↔ code, see Model/CacheReader.lean; the correspondence domain `cachereader` runs these very
  definitions against the real `clusterreader.CachingClusterReader`):
    init ids scopes   = NewCachingClusterReader(reader, mapper, identifiers)      trackedOf ids = its `gns`
    sync st inp       = Sync with the cluster content, mapper table and LIST outcomes `inp` of this poll
    get / listNs / listCluster = Get / ListNamespaceScoped / ListClusterScoped
    pairItems inp p   = what the cluster holds for the tracked pair p at that Sync (namespace "" = everything of the
                        kind, which is what is listed for root-scoped mappings)
    pagerList         = one paginated LIST (client-go pager + listUnstructured)
    WF st             = the invariant of every state reachable from `init` (`reachable_wf`)
  "LIST ok" is `pagerList false items outcome = (.ok l, c)`; `pager_plain` shows that this is the case whenever the script
  injects neither a failure nor a cancellation, for every page size.
-/
namespace CliUtils.Props.C17
open CliUtils CliUtils.CacheReader

/-- every state a script can reach from a freshly constructed reader satisfies the invariant `WF`:
no pair tracked twice, cache entries only for tracked pairs; and the tracked pairs never change -/
theorem reachable_wf (ids : List Pair) (scopes : List (GK × Scope)) (ops : List Op) :
    WF (exec (init ids scopes) ops) ∧ (exec (init ids scopes) ops).tracked = trackedOf ids :=
  ⟨exec_wf ops _ (init_wf ids scopes), by rw [exec_tracked]; rfl⟩

/-- which pairs the reader tracks: for every identifier its own GroupKind and every kind reachable from it in the
hard-coded table of generated kinds (Deployment → ReplicaSet → Pod, StatefulSet → Pod), in the identifier's namespace -/
theorem tracked_iff (ids : List Pair) (q : Pair) :
    q ∈ trackedOf ids ↔ ∃ id ∈ ids, id.2 = q.2 ∧ reach id.1 q.1 :=
  mem_trackedOf ids q

/-- pagination is lossless: whenever the paginated LIST succeeds — any page size, any number of pages, with or without
the full-LIST fallback after "Expired" — its result is the complete list in cluster order -/
theorem pager_lossless (items : List Obj) (o : Outcome) (c c' : Bool) (l : List Obj)
    (h : pagerList c items o = (.ok l, c')) : l = items :=
  pagerList_ok items o c c' l h

/-- … and it does succeed when the script injects neither a failure nor a cancellation, for every page size -/
theorem pager_plain (items : List Obj) (o : Outcome) (hf : o.failAt = none) (hc : o.cancelAt = none) :
    pagerList false items o = (.ok items, false) :=
  pagerList_plain items o hf hc

/-- Sync REPLACES the cache: after a completed Sync the entry of every pair is a function of THIS Sync's input alone
(`entryFor inp q` for tracked pairs, nothing for all others) — whatever the cache held before. -/
theorem sync_replaces_cache (st st' : St) (inp : SyncIn) (hwf : WF st) (h : sync st inp = (st', none)) (q : Pair) :
    st'.cache.get? q = if q ∈ st.tracked then some (entryFor inp q) else none :=
  sync_cache st st' inp hwf.1 h q

/-- in particular two readers with the same tracked pairs but arbitrary different histories hold the same cache after
the same Sync -/
theorem sync_forgets_history (st1 st2 st1' st2' : St) (inp : SyncIn) (h1 : WF st1) (h2 : WF st2)
    (ht : st1.tracked = st2.tracked) (s1 : sync st1 inp = (st1', none)) (s2 : sync st2 inp = (st2', none)) (q : Pair) :
    st1'.cache.get? q = st2'.cache.get? q := by
  rw [sync_replaces_cache st1 st1' inp h1 s1, sync_replaces_cache st2 st2' inp h2 s2, ht]

/-- after a completed Sync, `Get` of a tracked pair whose kind the mapper knows and whose LIST succeeded answers exactly
what the cluster held at that Sync for that name: the object (with its generation and labels), or NotFound -/
theorem get_after_sync (st st' : St) (inp : SyncIn) (hwf : WF st) (h : sync st inp = (st', none))
    (gk : GK) (ns name : String) (htr : (gk, ns) ∈ st.tracked) (hm : (scopeOf inp.scopes gk).isMapping = true)
    (l : List Obj) (c : Bool) (hl : pagerList false (pairItems inp (gk, ns)) (pairOutcome inp (gk, ns)) = (.ok l, c)) :
    get st' gk ns name =
      match (pairItems inp (gk, ns)).find? (fun o => o.name == name) with
      | some o => .found o
      | none => .err .notFound := by
  have hc := sync_replaces_cache st st' inp hwf h (gk, ns)
  rw [if_pos htr, entryFor_list inp (gk, ns) hm, hl] at hc
  have hsc : st'.scopes = inp.scopes := by have := sync_scopes st inp; rw [h] at this; exact this
  have hl' : l = pairItems inp (gk, ns) := pagerList_ok _ _ _ _ _ hl
  unfold CacheReader.get
  rw [hsc, hc, hl']
  cases hs : scopeOf inp.scopes gk <;> simp [hs, Scope.isMapping] at hm ⊢ <;> rfl

/-- … and the lists return exactly the objects of that pair that match the selector, in cluster order -/
theorem list_filters_by_selector (st st' : St) (inp : SyncIn) (hwf : WF st) (h : sync st inp = (st', none))
    (gk : GK) (ns : String) (sel : Sel) (htr : (gk, ns) ∈ st.tracked) (hm : (scopeOf inp.scopes gk).isMapping = true)
    (l : List Obj) (c : Bool) (hl : pagerList false (pairItems inp (gk, ns)) (pairOutcome inp (gk, ns)) = (.ok l, c)) :
    listNs st' gk ns sel = .items ((pairItems inp (gk, ns)).filter sel.matches) := by
  have hc := sync_replaces_cache st st' inp hwf h (gk, ns)
  rw [if_pos htr, entryFor_list inp (gk, ns) hm, hl] at hc
  have hl' : l = pairItems inp (gk, ns) := pagerList_ok _ _ _ _ _ hl
  unfold listNs
  rw [hc, hl']

/-- `ListClusterScoped` is `ListNamespaceScoped` with namespace "" -/
theorem listCluster_filters_by_selector (st st' : St) (inp : SyncIn) (hwf : WF st) (h : sync st inp = (st', none))
    (gk : GK) (sel : Sel) (htr : (gk, "") ∈ st.tracked) (hm : (scopeOf inp.scopes gk).isMapping = true)
    (l : List Obj) (c : Bool) (hl : pagerList false (pairItems inp (gk, "")) (pairOutcome inp (gk, "")) = (.ok l, c)) :
    listCluster st' gk sel = .items ((pairItems inp (gk, "")).filter sel.matches) :=
  list_filters_by_selector st st' inp hwf h gk "" sel htr hm l c hl

/-- what "the objects of the pair" are: the objects of that GroupKind — in that namespace if the mapping is
namespace-scoped and the pair has a namespace, otherwise all of them -/
theorem pairItems_mem (inp : SyncIn) (gk : GK) (ns : String) (o : Obj) :
    o ∈ pairItems inp (gk, ns) ↔
      o ∈ inp.cluster ∧ o.gk = gk ∧ (scopeOf inp.scopes gk = .namespaced → ns ≠ "" → o.ns = ns) := by
  unfold pairItems listItems listNsOf
  by_cases hs : scopeOf inp.scopes gk = .namespaced
  · by_cases hn : ns = "" <;> simp [hs, hn]
  · simp [hs]

/-- the selector semantics of the lists: equality / inequality / existence on the object's labels -/
theorem selector_matches (o : Obj) (k v : String) :
    (Sel.all.matches o = true) ∧ (Sel.nothing.matches o = false) ∧
    ((Sel.eq k v).matches o = true ↔ o.labels.lookup k = some v) ∧
    ((Sel.neq k v).matches o = true ↔ o.labels.lookup k ≠ some v) ∧
    ((Sel.has k).matches o = true ↔ ∃ w, o.labels.lookup k = some w) := by
  refine ⟨rfl, rfl, ?_, ?_, ?_⟩
  · simp [Sel.matches]
  · simp [Sel.matches]
  · simp [Sel.matches, Option.isSome_iff_exists]

/-- a LIST that failed with a non-context error makes the reads of THAT pair fail with that very error … -/
theorem list_error_reads (st st' : St) (inp : SyncIn) (hwf : WF st) (h : sync st inp = (st', none))
    (gk : GK) (ns name : String) (sel : Sel) (htr : (gk, ns) ∈ st.tracked) (hm : (scopeOf inp.scopes gk).isMapping = true)
    (e : Err) (hl : (pagerList false (pairItems inp (gk, ns)) (pairOutcome inp (gk, ns))).1 = .error e) :
    get st' gk ns name = .err e ∧ listNs st' gk ns sel = .err e ∧ e.isCtx = false := by
  have hc := sync_replaces_cache st st' inp hwf h (gk, ns)
  rw [if_pos htr, entryFor_list inp (gk, ns) hm, hl] at hc
  have hsc : st'.scopes = inp.scopes := by have := sync_scopes st inp; rw [h] at this; exact this
  refine ⟨?_, ?_, ?_⟩
  · unfold CacheReader.get
    rw [hsc, hc]
    cases hs : scopeOf inp.scopes gk <;> simp [hs, Scope.isMapping] at hm ⊢
  · unfold listNs; rw [hc]
  · exact (sync_listedOk st st' inp hwf.1 h (gk, ns) htr).2 hm e hl

/-- … and is local: the entry of any other pair q depends only on q's own mapper answer, cluster content and LIST outcome.
Two completed Syncs that agree on those (and differ arbitrarily elsewhere, e.g. in the LIST outcome of another pair) leave
the same entry for q. -/
theorem list_error_is_local (st1 st2 st1' st2' : St) (inp1 inp2 : SyncIn) (h1 : WF st1) (h2 : WF st2)
    (ht : st1.tracked = st2.tracked) (s1 : sync st1 inp1 = (st1', none)) (s2 : sync st2 inp2 = (st2', none))
    (q : Pair) (hsc : scopeOf inp1.scopes q.1 = scopeOf inp2.scopes q.1)
    (hit : pairItems inp1 q = pairItems inp2 q) (hout : pairOutcome inp1 q = pairOutcome inp2 q) :
    st1'.cache.get? q = st2'.cache.get? q := by
  rw [sync_replaces_cache st1 st1' inp1 h1 s1, sync_replaces_cache st2 st2' inp2 h2 s2, ht]
  have : entryFor inp1 q = entryFor inp2 q := by unfold entryFor; rw [hsc, hit, hout]
  rw [this]

/-- a kind the mapper does not know (NoMatch) does not abort the Sync: list reads of its pairs fail with the NoMatch error -/
theorem nomatch_is_cached (st st' : St) (inp : SyncIn) (hwf : WF st) (h : sync st inp = (st', none))
    (gk : GK) (ns : String) (sel : Sel) (htr : (gk, ns) ∈ st.tracked) (hm : scopeOf inp.scopes gk = .noMatch) :
    listNs st' gk ns sel = .err .noMatch := by
  have hc := sync_replaces_cache st st' inp hwf h (gk, ns)
  rw [if_pos htr, entryFor_noMatch inp (gk, ns) hm] at hc
  unfold listNs; rw [hc]

/-- a Sync that fails leaves the PREVIOUS cache in place (all reads keep answering from it), and it fails only with a
context error or with the mapper's error — never with the error of a LIST -/
theorem ctx_error_keeps_old_cache (st st' : St) (inp : SyncIn) (e : Err) (h : sync st inp = (st', some e)) :
    st'.cache = st.cache ∧ st'.tracked = st.tracked ∧ (e.isCtx = true ∨ ∃ t, e = .mapper t) ∧
    ∀ gk ns sel, listNs st' gk ns sel = listNs st gk ns sel := by
  obtain ⟨hl, rfl⟩ := (sync_err_iff _ _ _ _).mp h
  exact ⟨rfl, rfl, syncLoop_error inp _ _ _ _ hl, fun _ _ _ => rfl⟩

/-- a context error from the LIST of ANY tracked pair aborts the Sync: it cannot complete -/
theorem ctx_error_aborts_sync (st : St) (inp : SyncIn) (hwf : WF st) (p : Pair) (htr : p ∈ st.tracked)
    (hm : (scopeOf inp.scopes p.1).isMapping = true) (e : Err)
    (hl : (pagerList false (pairItems inp p) (pairOutcome inp p)).1 = .error e) (hctx : e.isCtx = true) :
    ∃ e', (sync st inp).2 = some e' ∧ (e'.isCtx = true ∨ ∃ t, e' = .mapper t) := by
  rcases hr : sync st inp with ⟨st', r⟩
  cases r with
  | none =>
    have := (sync_listedOk st st' inp hwf.1 hr p htr).2 hm e hl
    rw [hctx] at this; simp at this
  | some e' => exact ⟨e', rfl, (ctx_error_keeps_old_cache st st' inp e' hr).2.2.1⟩

/-- the scripted context errors are context errors of the pager's result, whichever page request they hit first:
a cancelled context is reported before any request -/
theorem cancelled_context_is_ctx_error (items : List Obj) (o : Outcome) :
    pagerList true items o = (.error .ctxCanceled, true) :=
  pagerList_cancelled items o

/-- reads of untracked pairs are errors, never silent empties — in every reachable state -/
theorem untracked_is_error (st : St) (hwf : WF st) (gk : GK) (ns name : String) (sel : Sel) (h : (gk, ns) ∉ st.tracked) :
    listNs st gk ns sel = .err .notInCache ∧ (∃ e, get st gk ns name = .err e) := by
  have hc : st.cache.get? (gk, ns) = none := by
    cases hg : st.cache.get? (gk, ns) with
    | none => rfl
    | some v => exact absurd (hwf.2 (gk, ns) (by rw [hg]; simp)) h
  refine ⟨by unfold listNs; rw [hc], ?_⟩
  unfold CacheReader.get
  rw [hc]
  cases scopeOf st.scopes gk <;> simp

/-- the same for whole scripts: whatever operations ran before, a read of a pair that no identifier reaches is an error -/
theorem untracked_is_error_run (ids : List Pair) (scopes : List (GK × Scope)) (ops : List Op)
    (gk : GK) (ns name : String) (sel : Sel) (h : ¬ ∃ id ∈ ids, id.2 = ns ∧ reach id.1 gk) :
    listNs (exec (init ids scopes) ops) gk ns sel = .err .notInCache ∧
    ∃ e, get (exec (init ids scopes) ops) gk ns name = .err e := by
  obtain ⟨hwf, htr⟩ := reachable_wf ids scopes ops
  apply untracked_is_error _ hwf
  rw [htr, tracked_iff]
  exact h

/-- before the first Sync every list read is an error -/
theorem read_before_first_sync (ids : List Pair) (scopes : List (GK × Scope)) (gk : GK) (ns : String) (sel : Sel) :
    listNs (init ids scopes) gk ns sel = .err .notInCache := rfl

/-! ### the dynamic cluster reader (status watcher): every read answers the CURRENT content

  Model/DynReader.lean; the correspondence domain `dynreader` runs these definitions against the real
  `clusterreader.DynamicClusterReader` over client-go's fake dynamic client. -/

section Dyn
open CliUtils.DynReader

/-- whatever the script did before, the cluster never holds two objects with the same (GroupKind, namespace, name) -/
theorem dyn_reachable_uniq (scopes : List (GK × Scope)) (ops : List DynReader.Op) :
    DynReader.Uniq (DynReader.exec (DynReader.init scopes) ops) :=
  exec_uniq ops _ (init_uniq scopes)

/-- `Get` answers the current content: found o exactly if o is IN the cluster now under that key, NotFound exactly if
no object has the key now (mapper knows the kind, GET requests are not failing) -/
theorem dyn_get_current (st : DynReader.St) (hu : DynReader.Uniq st) (gk : GK) (ns name : String)
    (hm : mapperErr st gk = none) (hf : failOf st.fails .get gk = none) :
    (∀ o, DynReader.get st gk ns name = .found o ↔ o ∈ st.objs ∧ hasKey gk ns name o = true) ∧
    (DynReader.get st gk ns name = .err .notFound ↔ ∀ o ∈ st.objs, hasKey gk ns name o = false) := by
  unfold DynReader.get
  rw [hm, hf]
  simp only
  constructor
  · intro o
    rw [← find_hasKey st.objs hu gk ns name o]
    cases st.objs.find? (hasKey gk ns name) <;> simp
  · cases hfd : st.objs.find? (hasKey gk ns name) with
    | none => rw [List.find?_eq_none] at hfd; simpa using hfd
    | some o' =>
      simp only [reduceCtorEq, false_iff]
      intro hall
      have := hall o' (List.mem_of_find?_eq_some hfd)
      rw [List.find?_some hfd] at this; simp at this

/-- a write is visible to the very next read: after `put o` the object read under its key is o, after `del` it is NotFound -/
theorem dyn_get_after_write (st : DynReader.St) (o : Obj) (gk : GK) (ns name : String) :
    (mapperErr st o.gk = none → failOf st.fails .get o.gk = none →
      DynReader.get (DynReader.put st o) o.gk o.ns o.name = .found o) ∧
    (mapperErr st gk = none → failOf st.fails .get gk = none →
      DynReader.get (DynReader.del st gk ns name) gk ns name = .err .notFound) := by
  constructor
  · intro hm hf
    unfold DynReader.get
    have hm' : mapperErr (DynReader.put st o) o.gk = none := hm
    have hf' : failOf (DynReader.put st o).fails .get o.gk = none := hf
    rw [hm', hf']
    simp only
    have : (DynReader.put st o).objs.find? (hasKey o.gk o.ns o.name) = some o := by
      unfold DynReader.put
      simp only
      rw [List.find?_append]
      have h1 : (st.objs.filter (fun x => !sameKey x o)).find? (hasKey o.gk o.ns o.name) = none := by
        rw [List.find?_eq_none]
        intro x hx
        simp at hx
        rw [hasKey_iff_sameKey, hx.2]; simp
      rw [h1]
      simp [hasKey_self]
    rw [this]
  · intro hm hf
    unfold DynReader.get
    have hm' : mapperErr (DynReader.del st gk ns name) gk = none := hm
    have hf' : failOf (DynReader.del st gk ns name).fails .get gk = none := hf
    rw [hm', hf']
    simp only
    have : (DynReader.del st gk ns name).objs.find? (hasKey gk ns name) = none := by
      unfold DynReader.del
      simp only
      rw [List.find?_eq_none]
      intro x hx
      simp at hx
      simp [hx.2]
    rw [this]

/-- the lists answer the current content: exactly the objects that are in the cluster NOW, of that kind, in that namespace
(all namespaces for "" / ListClusterScoped) and matching the selector as it travels in the request
(`wireSel`: `labels.Nothing()` prints as "" and therefore selects everything) -/
theorem dyn_list_current (st : DynReader.St) (gk : GK) (ns : String) (sel : Sel)
    (hm : mapperErr st gk = none) (hf : failOf st.fails .list gk = none) :
    ∃ l, DynReader.listNs st gk ns sel = .items l ∧
      ∀ o, o ∈ l ↔ o ∈ st.objs ∧ o.gk = gk ∧ (ns = "" ∨ o.ns = ns) ∧ (wireSel sel).matches o = true := by
  unfold DynReader.listNs
  rw [hm, hf]
  refine ⟨_, rfl, ?_⟩
  intro o
  simp [List.mem_filter, and_assoc]

/-- a mapper error or a failing request is returned as the error it is — never a silent empty answer -/
theorem dyn_errors_surface (st : DynReader.St) (gk : GK) (ns name : String) (sel : Sel) (e : Err) :
    (mapperErr st gk = some e → DynReader.get st gk ns name = .err e ∧ DynReader.listNs st gk ns sel = .err e) ∧
    (mapperErr st gk = none → failOf st.fails .get gk = some e → DynReader.get st gk ns name = .err e) ∧
    (mapperErr st gk = none → failOf st.fails .list gk = some e → DynReader.listNs st gk ns sel = .err e) := by
  refine ⟨?_, ?_, ?_⟩
  · intro h; unfold DynReader.get DynReader.listNs; rw [h]; exact ⟨rfl, rfl⟩
  · intro h1 h2; unfold DynReader.get; rw [h1, h2]
  · intro h1 h2; unfold DynReader.listNs; rw [h1, h2]

end Dyn

/-! ### the hypotheses are satisfiable: a concrete script -/

section Examples

private def dep : Obj := { gk := gkDeployment, ns := "ns1", name := "a", gen := 2, labels := [("app", "x")] }
private def pod1 : Obj := { gk := gkPod, ns := "ns1", name := "a", gen := 1, labels := [("app", "x")] }
private def pod2 : Obj := { gk := gkPod, ns := "ns1", name := "ab", gen := 1, labels := [("app", "y")] }
private def pod3 : Obj := { gk := gkPod, ns := "ns2", name := "b", gen := 1, labels := [] }
private def table : List (GK × Scope) :=
  [(gkDeployment, .namespaced), (gkReplicaSet, .namespaced), (gkPod, .namespaced)]
private def st0 : St := init [(gkDeployment, "ns1")] table
/-- first poll: Pods are listed one per page -/
private def inA : SyncIn :=
  { cluster := [dep, pod1, pod2, pod3], scopes := table, outcomes := [((gkPod, "ns1"), { page := 1 })] }
/-- second poll: pod1 is gone; the ReplicaSet LIST fails -/
private def inB : SyncIn :=
  { cluster := [dep, pod2], scopes := table,
    outcomes := [((gkReplicaSet, "ns1"), { failAt := some 0, fail := .other, text := "boom" })] }
/-- third poll: the context ends while Pods are listed (second page) -/
private def inC : SyncIn :=
  { cluster := [pod1, pod2], scopes := table,
    outcomes := [((gkPod, "ns1"), { page := 1, failAt := some 1, fail := .deadline })] }

example : st0.tracked = [(gkDeployment, "ns1"), (gkReplicaSet, "ns1"), (gkPod, "ns1")] := by decide
example : (sync st0 inA).2 = none := by decide
example : get (sync st0 inA).1 gkPod "ns1" "ab" = .found pod2 := by decide
example : get (sync st0 inA).1 gkPod "ns1" "abc" = .err .notFound := by decide
example : listNs (sync st0 inA).1 gkPod "ns1" (.eq "app" "x") = .items [pod1] := by decide
example : listNs (sync st0 inA).1 gkPod "ns2" .all = .err .notInCache := by decide
-- replaced, not merged: pod1 is gone after the second Sync; the failed LIST is local to the ReplicaSets
example : get (sync (sync st0 inA).1 inB).1 gkPod "ns1" "a" = .err .notFound := by decide
example : listNs (sync (sync st0 inA).1 inB).1 gkReplicaSet "ns1" .all = .err (.list "boom" false) := by decide
example : get (sync (sync st0 inA).1 inB).1 gkDeployment "ns1" "a" = .found dep := by decide
-- the context error aborts the third Sync and the cache of the second one stays
example : (sync (sync (sync st0 inA).1 inB).1 inC).2 = some .ctxDeadline := by decide
example : listNs (sync (sync (sync st0 inA).1 inB).1 inC).1 gkPod "ns1" .all = .items [pod2] := by decide

-- the dynamic reader: a write is visible to the next read; Nothing selects everything on the wire
private def dst : DynReader.St := DynReader.put (DynReader.put (DynReader.init table) pod1) pod2
example : DynReader.get dst gkPod "ns1" "ab" = .found pod2 := by decide
example : DynReader.get (DynReader.del dst gkPod "ns1" "ab") gkPod "ns1" "ab" = .err .notFound := by decide
example : DynReader.listNs dst gkPod "ns1" (.eq "app" "y") = .items [pod2] := by decide
example : DynReader.listNs dst gkPod "ns1" .nothing = .items [pod1, pod2] := by decide

end Examples

end CliUtils.Props.C17
