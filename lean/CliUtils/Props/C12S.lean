import CliUtils.Lemmas.SyncL
import CliUtils.Props.C12
/-
  C12, the race at the sync event — `Sys.runOneAtSync`.

  The caller's cancellation and the watcher's sync event become ready together; Go's `select` may take either.
  `syncFirst = false`: the cancellation is seen first, nothing is started (`atSync_cancel_first`: this is `CancelAt.beforeSync`).
  `syncFirst = true`: the first task is started with the cancellation pending.  The flag `cancelled` never goes back
  (`cancelled_stays`), so exactly that one task runs, it is finished, and the run ends with one error event — the context error
  unless the task itself failed (`atSync_sync_first_stops_after_first_task`); every mutating request of the run was issued by
  that task (`atSync_sync_first_requests_in_first_task`).

  The terms `runOneAtSync c run true` computes are named in `CliUtils/Lemmas/SyncL.lean` (`syncPrune`: first inventory read and
  the GETs of the prune candidates; `syncPlan`; `syncPrepared`: the state in which the runner takes the sync event, with
  `cancelled := true`; `syncLocalNs`); `SyncL.runOneAtSync_true_unfold` (by `rfl`) ties them to the definition.
-/
namespace CliUtils.Props.C12
open CliUtils CliUtils.Sys CliUtils.SyncL

/-- **cancelled_stays**: the flag `cancelled` is monotone through a task, whatever the task -/
theorem cancelled_stays (s : St) (t : Task) (pruneObjs : List Live) (localNs : List String) (hc : s.cancelled = true) :
    (runTask s t pruneObjs localNs).1.cancelled = true :=
  runTask_cancelled s t pruneObjs localNs hc

/-- … and through every step a task is made of: a mutating request, an inventory read, one apply, one prune, the inventory
tasks, a status delivery, a wait phase -/
theorem cancelled_stays_steps (s : St) (hc : s.cancelled = true) :
    (∀ verb id dry pre prop eff, (s.mutReq verb id dry pre prop eff).1.cancelled = true) ∧
    s.invRead.1.cancelled = true ∧
    (∀ g id, (applyOne g s id).cancelled = true) ∧
    (∀ g uids localNs live, (pruneOne g uids localNs s live).cancelled = true) ∧
    (∀ ids, (mergeInv s ids).1.cancelled = true) ∧ (∀ ids, (runInvAdd s ids).1.cancelled = true) ∧
    (∀ objs, (replaceInv s objs).1.cancelled = true) ∧ (deleteInv s).1.cancelled = true ∧
    (∀ prev prevErr, (runInvSet s prev prevErr).1.cancelled = true) ∧
    (∀ g w n0, (flushWait g s w n0).cancelled = true) ∧
    (∀ g ids cond, (runWait g s ids cond).1.cancelled = true) :=
  ⟨fun _ _ _ _ _ _ => mutReq_cancelled s _ _ _ _ _ _ hc, (invRead_cancelled s).trans hc,
   fun g id => applyOne_cancelled g s id hc, fun g uids localNs live => pruneOne_cancelled g uids localNs s live hc,
   fun ids => mergeInv_cancelled s ids hc, fun ids => runInvAdd_cancelled s ids hc,
   fun objs => replaceInv_cancelled s objs hc, deleteInv_cancelled s hc,
   fun prev prevErr => runInvSet_cancelled s prev prevErr hc,
   fun g w n0 => (flushWait_cancelled g s w n0).trans hc,
   fun g ids cond => runWait_cancelled g s ids cond hc⟩

/-- … and through the status deliveries of a wait phase -/
theorem cancelled_stays_deliveries (group : String) (n : Nat) (ws : WaitSt) (hc : ws.s.cancelled = true) :
    (∀ d, (deliverOne group n ws d).1.s.cancelled = true) ∧ (∀ ds, (deliverChain group n ws ds).s.cancelled = true) :=
  ⟨fun d => deliverOne_cancelled group n ws d hc, fun ds => deliverChain_cancelled group n ds ws hc⟩

/-- **atSync_cancel_first**: the cancellation taken first is the cancellation before the sync event -/
theorem atSync_cancel_first (c : Cluster) (run : Run) :
    runOneAtSync c run false = runOne c { run with cancel := .beforeSync } := rfl

/-- the runner started with the cancellation pending runs exactly the first task of its list: the task is started and
finished, and the run ends with one error event — the context error if the task reported none, the task's own otherwise -/
theorem started_cancelled_stops_after_first_task (pruneObjs : List Live) (localNs : List String) (s : St) (t : Task)
    (ts : List Task) (hc : s.cancelled = true) :
    ((runTask (s.emit (.group t.name (t.action s.run.destroy) "Started")) t pruneObjs localNs).2 = none →
      runTasks pruneObjs localNs s (t :: ts) =
        ((runTask (s.emit (.group t.name (t.action s.run.destroy) "Started")) t pruneObjs localNs).1.emit
          (.group t.name (t.action s.run.destroy) "Finished")).emit (.error "canceled")) ∧
    (∀ k, (runTask (s.emit (.group t.name (t.action s.run.destroy) "Started")) t pruneObjs localNs).2 = some k →
      runTasks pruneObjs localNs s (t :: ts) =
        ((runTask (s.emit (.group t.name (t.action s.run.destroy) "Started")) t pruneObjs localNs).1.emit
          (.group t.name (t.action s.run.destroy) "Finished")).emit (.error k)) := by
  have h := runTasks_cancelled pruneObjs localNs s t ts hc
  constructor
  · intro he
    rw [h, he]
    rfl
  · intro k he
    rw [h, he]
    rfl

/-- **atSync_sync_first_stops_after_first_task**: the sync event taken first, outside dry-run.  If the first inventory read
(with the GETs of the prune candidates) succeeds, validation lets the run proceed and the plan's task list is `t :: ts`, then
exactly `t` runs, from the prepared state `syncPrepared c run pruneObjs` (in which `cancelled = true`): its group is started
and finished, and the run ends with the context error — or, if `t` itself reports error `k`, with `.error k`.  No task of `ts`
is started. -/
theorem atSync_sync_first_stops_after_first_task (c : Cluster) (run : Run) (pruneObjs : List Live) (t : Task) (ts : List Task)
    (hr : (syncPrune c run).2 = some pruneObjs)
    (hv : (!run.opts.skipInvalid && !(syncPlan c run pruneObjs).valErrors.isEmpty) = false)
    (hd : run.opts.dry = .none)
    (ht : (syncPlan c run pruneObjs).tasks = t :: ts) :
    (syncPrepared c run pruneObjs).cancelled = true ∧
    ((runTask ((syncPrepared c run pruneObjs).emit (.group t.name (t.action run.destroy) "Started")) t pruneObjs
        (syncLocalNs run)).2 = none →
      runOneAtSync c run true =
        ((runTask ((syncPrepared c run pruneObjs).emit (.group t.name (t.action run.destroy) "Started")) t pruneObjs
          (syncLocalNs run)).1.emit (.group t.name (t.action run.destroy) "Finished")).emit (.error "canceled")) ∧
    (∀ k, (runTask ((syncPrepared c run pruneObjs).emit (.group t.name (t.action run.destroy) "Started")) t pruneObjs
        (syncLocalNs run)).2 = some k →
      runOneAtSync c run true =
        ((runTask ((syncPrepared c run pruneObjs).emit (.group t.name (t.action run.destroy) "Started")) t pruneObjs
          (syncLocalNs run)).1.emit (.group t.name (t.action run.destroy) "Finished")).emit (.error k)) := by
  have h := started_cancelled_stops_after_first_task pruneObjs (syncLocalNs run) (syncPrepared c run pruneObjs) t ts
    (syncPrepared_cancelled c run pruneObjs)
  rw [syncPrepared_destroy] at h
  rw [runOneAtSync_true_eq c run pruneObjs hr hv hd, ht]
  exact ⟨syncPrepared_cancelled c run pruneObjs, h⟩

/-- the same in one equation: the error class of the closing event is the first task's own, "canceled" if it has none -/
theorem atSync_sync_first_stops_after_first_task_eq (c : Cluster) (run : Run) (pruneObjs : List Live) (t : Task) (ts : List Task)
    (hr : (syncPrune c run).2 = some pruneObjs)
    (hv : (!run.opts.skipInvalid && !(syncPlan c run pruneObjs).valErrors.isEmpty) = false)
    (hd : run.opts.dry = .none)
    (ht : (syncPlan c run pruneObjs).tasks = t :: ts) :
    runOneAtSync c run true =
      ((runTask ((syncPrepared c run pruneObjs).emit (.group t.name (t.action run.destroy) "Started")) t pruneObjs
        (syncLocalNs run)).1.emit (.group t.name (t.action run.destroy) "Finished")).emit
        (.error ((runTask ((syncPrepared c run pruneObjs).emit (.group t.name (t.action run.destroy) "Started")) t pruneObjs
          (syncLocalNs run)).2.getD "canceled")) := by
  have h := runTasks_cancelled pruneObjs (syncLocalNs run) (syncPrepared c run pruneObjs) t ts
    (syncPrepared_cancelled c run pruneObjs)
  rw [syncPrepared_destroy] at h
  rw [runOneAtSync_true_eq c run pruneObjs hr hv hd, ht, h]
  rfl

/-- **atSync_sync_first_requests_in_first_task**: under the same hypotheses every mutating request of the run was issued by the
first task (the prepared state has issued none: `atSync_prepared_no_requests`) -/
theorem atSync_sync_first_requests_in_first_task (c : Cluster) (run : Run) (pruneObjs : List Live) (t : Task) (ts : List Task)
    (hr : (syncPrune c run).2 = some pruneObjs)
    (hv : (!run.opts.skipInvalid && !(syncPlan c run pruneObjs).valErrors.isEmpty) = false)
    (hd : run.opts.dry = .none)
    (ht : (syncPlan c run pruneObjs).tasks = t :: ts) :
    (runOneAtSync c run true).muts =
      (runTask ((syncPrepared c run pruneObjs).emit (.group t.name (t.action run.destroy) "Started")) t pruneObjs
        (syncLocalNs run)).1.muts := by
  rw [atSync_sync_first_stops_after_first_task_eq c run pruneObjs t ts hr hv hd ht]
  simp only [emit_muts]

/-- nothing has been requested when the runner takes the sync event -/
theorem atSync_prepared_no_requests (c : Cluster) (run : Run) (pruneObjs : List Live) :
    (syncPrepared c run pruneObjs).muts = [] := by
  show (initialStatuses _).muts = []
  rw [CliUtils.ProvL.initialStatuses_muts, CliUtils.ProvL.prepare_muts]
  unfold syncRead2 syncPrune
  rw [CliUtils.OrderL.invRead_muts, CliUtils.OrderL.getPruneObjs_fst, CliUtils.OrderL.invRead_muts]
  rfl

/-- the other outcomes of `runOneAtSync … true`: a failed first read and a validation stop end the run before anything is
started, exactly as in `runOne` -/
theorem atSync_sync_first_nothing_started (c : Cluster) (run : Run) :
    ((syncPrune c run).2 = none → runOneAtSync c run true = (syncPrune c run).1.emit (.error "fault")) ∧
    (∀ pruneObjs, (syncPrune c run).2 = some pruneObjs →
      (!run.opts.skipInvalid && !(syncPlan c run pruneObjs).valErrors.isEmpty) = true →
      runOneAtSync c run true = (syncRead2 c run).1.emit (.error "other")) :=
  ⟨runOneAtSync_true_read_error c run, fun pruneObjs hr hv => runOneAtSync_true_invalid c run pruneObjs hr hv⟩

/-- under dry-run there is no race: the library's blind watcher is used and `runOneAtSync … true` is the uncancelled run -/
theorem atSync_sync_first_dry (c : Cluster) (run : Run) (hd : run.opts.dry ≠ .none) :
    runOneAtSync c run true = runOne c { run with cancel := .never } :=
  runOneAtSync_true_dry c run hd

/-! ### non-vacuity -/
section Examples

def syncCl : Cluster := { objs := [{ id := ⟨"", "ns1", "", "Namespace"⟩, uid := "u", gen := 1, owner := "" }] }
def syncEx : Run := { destroy := false, objs := [{ id := ⟨"ns1", "a", "", "ConfigMap"⟩ }], opts := {} }

def isGroupEv : Ev → Bool
  | .group .. => true
  | _ => false

-- sync first: exactly one group (the inventory-add task) is started and finished, the run ends with the context error, and
-- the one request of the run is that task's create of the inventory object
example : (runOneAtSync syncCl syncEx true).events.filter isGroupEv =
      [.group "inventory-add-0" "Inventory" "Finished", .group "inventory-add-0" "Inventory" "Started"] ∧
    (runOneAtSync syncCl syncEx true).events.take 2 = [.error "canceled", .group "inventory-add-0" "Inventory" "Finished"] ∧
    (runOneAtSync syncCl syncEx true).muts.map (fun m => (m.verb, m.id)) = [("create", invObjId)] ∧
    (runOneAtSync syncCl syncEx true).cl.inv = some [⟨"ns1", "a", "", "ConfigMap"⟩] := by decide

-- cancellation first: no group is started, no request, the run ends with the context error
example : (runOneAtSync syncCl syncEx false).events.filter isGroupEv = [] ∧
    (runOneAtSync syncCl syncEx false).events.head? = some (.error "canceled") ∧
    (runOneAtSync syncCl syncEx false).muts.length = 0 := by decide

-- without the race the same run starts (and finishes) four groups and reports no error
example : ((runOne syncCl syncEx).events.filter isGroupEv).length = 8 ∧
    (runOne syncCl syncEx).events.head? = some (.group "inventory-set-0" "Inventory" "Finished") := by decide

-- the hypotheses of `atSync_sync_first_stops_after_first_task` hold for it …
example : (syncPrune syncCl syncEx).2 = some [] ∧
    (!syncEx.opts.skipInvalid && !(syncPlan syncCl syncEx []).valErrors.isEmpty) = false ∧
    (syncPlan syncCl syncEx []).tasks.map (·.name) = ["inventory-add-0", "apply-0", "wait-0", "inventory-set-0"] := by decide

-- … and its conclusion is the concrete outcome
example (t : Task) (ts : List Task) (ht : (syncPlan syncCl syncEx []).tasks = t :: ts) :
    (runOneAtSync syncCl syncEx true).muts =
      (runTask ((syncPrepared syncCl syncEx []).emit (.group t.name (t.action false) "Started")) t [] (syncLocalNs syncEx)).1.muts :=
  atSync_sync_first_requests_in_first_task syncCl syncEx [] t ts (by decide) (by decide) rfl ht

-- a first task that reports an error of its own (the inventory create is rejected): the run ends with that error
example : (runOneAtSync syncCl { syncEx with failMut := [0] } true).events.take 2 =
      [.error "fault", .group "inventory-add-0" "Inventory" "Finished"] ∧
    (runOneAtSync syncCl { syncEx with failMut := [0] } true).events.filter isGroupEv =
      [.group "inventory-add-0" "Inventory" "Finished", .group "inventory-add-0" "Inventory" "Started"] := by decide

end Examples

end CliUtils.Props.C12
