import CliUtils.Lemmas.HistoryL
/-
  C01 over HISTORIES of runs: every run of a history of apply / destroy / dry runs, each started from the store the previous run
  left (plus the deletions another actor made in between, `run.envDel`), keeps the store orphan-free after every mutating request.

  * `runOne_storeWF`, `runOne_kindsKnown`: the store hypotheses of `no_orphan_run` are re-established by every run, in every mode
    and on every path (aborted runs included), with no side condition;
  * `runOne_noOrphan`: so is `NoOrphanCl` (first half of `Safe`);
  * `runOne_safe`: one run, dry or not, from a good store;
  * `no_orphan_history`: the induction over the history.  The inventory-namespace exception stays a hypothesis, per run
    (`NsBootstrapOK`), with the global form `no_orphan_history_noNs` as a corollary.
-/
namespace CliUtils.Props.C01
open CliUtils CliUtils.Sys CliUtils.FinalL CliUtils.HistoryL

/-- every stored object is of a kind the library knows (re-exported from `HistoryL`) -/
abbrev KindsKnown (c : Cluster) : Prop := HistoryL.KindsKnown c

/-! ### what a run hands over to the next run -/

/-- (a) a run leaves a well-formed store: one object per id, one id per uid, no stored uid that the server's counter will hand out
later — unconditionally (any mode, any failure, any cancellation) -/
theorem runOne_storeWF (c : Cluster) (run : Run) (hwf : StoreWF c) : StoreWF (runOne c run).cl :=
  (runOne_wfk (K := fun _ => True) c run trivial (fun _ _ _ => trivial) ⟨hwf, fun _ _ => trivial⟩).wf

/-- (c) a run only ever creates objects of known kinds (field validation rejects the others; the namespace bootstrap creates a
Namespace) -/
theorem runOne_kindsKnown (c : Cluster) (run : Run) (hwf : StoreWF c) (hk : KindsKnown c) : KindsKnown (runOne c run).cl :=
  (runOne_wfk (K := fun i => (scopeOf i.group i.kind).isSome = true) c run (by decide)
    (fun m _ hf => fieldValid_scope m hf) ⟨hwf, hk⟩).kinds

/-- "known kinds" gives the kind hypothesis of `no_orphan_run` -/
theorem kindsKnown_hk (c : Cluster) (run : Run) (hk : KindsKnown c) :
    ∀ o ∈ (startStore c run).objs, o.owner = invId →
      (scopeOf o.id.group o.id.kind).isSome ∨ (run.destroy = false ∧ ∃ m ∈ run.objs, m.id = o.id) := by
  intro o ho _
  exact Or.inl (hk o ((startStore_spec c run.envDel).1 o ho))

/-- the inventory-namespace hypothesis of one run started from `c` (only non-dry apply runs whose apply set contains the
inventory namespace are concerned) -/
def NsOK (c : Cluster) (run : Run) : Prop :=
  run.opts.dry = .none → run.destroy = false → (∃ m ∈ run.objs, m.id = nsInv) → ∃ o ∈ (startStore c run).objs, o.id = nsInv

/-- one run — real or dry — from an orphan-free, well-formed store with known kinds: no orphan at any request -/
theorem runOne_safe (c : Cluster) (run : Run) (h0 : NoOrphanCl c) (hwf : StoreWF c) (hk : KindsKnown c)
    (hdel : DelScriptsOK run) (hns : NsOK c run) : Safe (runOne c run) := by
  by_cases hd : run.opts.dry = .none
  · exact no_orphan_run c run h0 hwf hd (hns hd) (kindsKnown_hk c run hk) hdel
  · exact runOne_dry_safe c run hd h0

/-- (b) in particular the store a run leaves is orphan-free -/
theorem runOne_noOrphan (c : Cluster) (run : Run) (h0 : NoOrphanCl c) (hwf : StoreWF c) (hk : KindsKnown c)
    (hdel : DelScriptsOK run) (hns : NsOK c run) : NoOrphanCl (runOne c run).cl :=
  (runOne_safe c run h0 hwf hk hdel hns).1

/-- (d) a dry-run leaves the store exactly as it found it (after the environment's deletions) -/
theorem runOne_dry_store (c : Cluster) (run : Run) (hd : run.opts.dry ≠ .none) : (runOne c run).cl = startStore c run :=
  (CliUtils.Props.C10.run_dry_changes_nothing c run hd).1

/-! ### histories -/

/-- the final state of each run of a history; each run starts from the store the previous run left (its own `envDel` — what
another actor deleted in between — is applied by `runOne`) -/
def runHistory (c : Cluster) : List Run → List St
  | [] => []
  | r :: rs => runOne c r :: runHistory (runOne c r).cl rs

/-- the inventory-namespace hypothesis along a history: whenever a non-dry apply run has the inventory namespace in its apply
set, that namespace exists in the store the run starts from -/
def NsBootstrapOK (c : Cluster) : List Run → Prop
  | [] => True
  | r :: rs => NsOK c r ∧ NsBootstrapOK (runOne c r).cl rs

/-- **no orphan at any instant of any history of runs**: from an orphan-free, well-formed store with known kinds, for every
history of apply / destroy / dry runs (with arbitrary deletions by other actors in between), every run of the history keeps the
store orphan-free after EVERY one of its mutating requests and at its end -/
theorem no_orphan_history (c : Cluster) (runs : List Run) (h0 : NoOrphanCl c) (hwf : StoreWF c) (hkinds : KindsKnown c)
    (hdel : ∀ r ∈ runs, DelScriptsOK r) (hns : NsBootstrapOK c runs) :
    ∀ s ∈ runHistory c runs, Safe s := by
  induction runs generalizing c with
  | nil => intro s hs; cases hs
  | cons r rs ih =>
    intro s hs
    have hsafe := runOne_safe c r h0 hwf hkinds (hdel r (by simp)) hns.1
    simp only [runHistory, List.mem_cons] at hs
    rcases hs with rfl | hs
    · exact hsafe
    · exact ih (runOne c r).cl hsafe.1 (runOne_storeWF c r hwf) (runOne_kindsKnown c r hwf hkinds)
        (fun r' hr' => hdel r' (by simp [hr'])) hns.2 s hs

/-- the global form of the namespace hypothesis: no run of the history has the inventory namespace in its apply set -/
theorem nsBootstrapOK_of_noNs (c : Cluster) (runs : List Run) (h : ∀ r ∈ runs, ∀ m ∈ r.objs, m.id ≠ nsInv) :
    NsBootstrapOK c runs := by
  induction runs generalizing c with
  | nil => trivial
  | cons r rs ih =>
    refine ⟨?_, ih _ (fun r' hr' => h r' (by simp [hr']))⟩
    intro _ _ ⟨m, hm, hid⟩
    exact absurd hid (h r (by simp) m hm)

theorem no_orphan_history_noNs (c : Cluster) (runs : List Run) (h0 : NoOrphanCl c) (hwf : StoreWF c) (hkinds : KindsKnown c)
    (hdel : ∀ r ∈ runs, DelScriptsOK r) (hns : ∀ r ∈ runs, ∀ m ∈ r.objs, m.id ≠ nsInv) :
    ∀ s ∈ runHistory c runs, Safe s :=
  no_orphan_history c runs h0 hwf hkinds hdel (nsBootstrapOK_of_noNs c runs hns)

/-- the same, spelled out: every store snapshot of every run of the history is orphan-free -/
theorem no_orphan_history_snapshots (c : Cluster) (runs : List Run) (h0 : NoOrphanCl c) (hwf : StoreWF c) (hkinds : KindsKnown c)
    (hdel : ∀ r ∈ runs, DelScriptsOK r) (hns : NsBootstrapOK c runs) :
    ∀ s ∈ runHistory c runs, NoOrphanCl s.cl ∧ ∀ m ∈ s.muts, NoOrphanCl { objs := m.snap.objs, inv := m.snap.inv } :=
  no_orphan_history c runs h0 hwf hkinds hdel hns

/-! ### a concrete history -/
section Examples

theorem orphanFreeB_iff (c : Cluster) : orphanFreeB c = true ↔ NoOrphanCl c := by
  unfold orphanFreeB NoOrphanCl
  simp only [List.all_eq_true, Bool.or_eq_true, bne_iff_ne, ne_eq]
  constructor
  · intro h o ho hown
    rcases h o ho with h1 | h1
    · exact absurd hown h1
    · cases hi : c.inv with
      | none => rw [hi] at h1; simp at h1
      | some l => rw [hi] at h1; exact ⟨l, rfl, by simpa using h1⟩
  · intro h o ho
    by_cases hown : o.owner = invId
    · right
      obtain ⟨l, hl, hm⟩ := h o ho hown
      rw [hl]; simpa using hm
    · exact Or.inl hown

/-- executable form of `Safe` -/
def safeB (s : St) : Bool := orphanFreeB s.cl && s.muts.all (fun m => orphanFreeB { objs := m.snap.objs, inv := m.snap.inv })

theorem safeB_iff (s : St) : safeB s = true ↔ Safe s := by
  unfold safeB Safe
  simp only [Bool.and_eq_true, List.all_eq_true, orphanFreeB_iff]

def hA : Id := { ns := "ns1", name := "a", group := "", kind := "ConfigMap" }
def hB : Id := { ns := "ns1", name := "b", group := "apps", kind := "Deployment" }
def hC : Id := { ns := "ns1", name := "c", group := "", kind := "Secret" }

/-- apply {a, b ← a, c}; dry-run of a smaller set; apply {a} (b and c are pruned, c is held by a finalizer and another actor has
deleted a in between); destroy (one request fails) -/
def exHistory : List Run :=
  [ { destroy := false, objs := [{ id := hA }, { id := hB, deps := [hA] }, { id := hC }], opts := { timeout := true } },
    { destroy := false, objs := [{ id := hA }], opts := { timeout := true, dry := .server } },
    { destroy := false, objs := [{ id := hA, rev := 1 }], opts := { timeout := true }, del := [(hC, "finalizer")], envDel := [hA] },
    { destroy := true, objs := [], opts := { timeout := true }, failMut := [0], del := [(hC, "finalizer-gone")] } ]

theorem exHistory_del : ∀ r ∈ exHistory, DelScriptsOK r := by
  intro r hr id v h
  simp only [exHistory, List.mem_cons, List.not_mem_nil, or_false] at hr
  rcases hr with rfl | rfl | rfl | rfl <;> simp only [List.lookup] at h
  · cases h
  · cases h
  · split at h
    · simp only [Option.some.injEq] at h; exact Or.inr (Or.inl h.symm)
    · cases h
  · split at h
    · simp only [Option.some.injEq] at h; exact Or.inr (Or.inr h.symm)
    · cases h

theorem exHistory_noNs : ∀ r ∈ exHistory, ∀ m ∈ r.objs, m.id ≠ nsInv := by
  intro r hr m hm
  simp only [exHistory, List.mem_cons, List.not_mem_nil, or_false] at hr
  rcases hr with rfl | rfl | rfl | rfl <;> simp only [List.mem_cons, List.not_mem_nil, or_false] at hm
  · rcases hm with rfl | rfl | rfl <;> decide
  · subst hm; decide
  · subst hm; decide

theorem empty_good : NoOrphanCl {} ∧ StoreWF {} ∧ KindsKnown {} := by
  refine ⟨?_, ⟨?_, ?_, ?_⟩, ?_⟩ <;> intro o ho <;> cases ho

/-- the theorem applies to the history, started from the empty store -/
example : ∀ s ∈ runHistory {} exHistory, Safe s :=
  no_orphan_history_noNs {} exHistory empty_good.1 empty_good.2.1 empty_good.2.2 exHistory_del exHistory_noNs

/-- … and, evaluated: the four runs send 4, 1, 5 and 3 requests (the dry-run's is a dry-run patch, the store is untouched), every
snapshot of every run is orphan-free, and the stored inventory goes {a, b, c} → {a, b, c} → {a, c} (c kept: its delete wait timed out) → {c} (its delete request failed) -/
example : (runHistory {} exHistory).map (fun s => s.muts.length) = [4, 1, 5, 3] ∧
    (runHistory {} exHistory).all safeB = true ∧
    (runHistory {} exHistory).map (fun s => s.cl.inv.map (·.length)) = [some 3, some 3, some 2, some 1] := by
  decide

end Examples
end CliUtils.Props.C01
