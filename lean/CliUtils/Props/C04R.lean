import CliUtils.Lemmas.OrderL
import CliUtils.Spec.SysSpec
import CliUtils.Props.C13G
/-
  C04 / C05, whole run — every request of a run is preceded, in the run's own event stream, by the events that show
  its dependencies (apply) / dependents (delete) successfully actuated and — outside dry-run — reconciled.

  These are statements about `Sys.runOne c run` for EVERY cluster `c` and EVERY run `run` (apply or destroy, any options,
  injected faults, cancellation points, watcher errors): about the model's own request log `St.muts` (each entry carrying
  `evIdx`, the number of events emitted before the request) and event list `St.events` (newest first).  They are the
  predicate that the correspondence check evaluates on every observed run (`Spec.checkC04` main clause, `Spec.checkC05`),
  with the run's own dependency graph (`St.graph` / `St.edges`, set by `prepare` from `buildPlan`) as the dependency relation.

  The vocabulary (`eventsBefore`, `lastApplyResult`, `lastDeleteResult`, `lastWait`, `IsBootstrap`), the invariant and its
  preservation through every step are in `Lemmas/OrderL.lean`:
    `MgrEv`  the inventory manager agrees with the event list (successful actuation / reconcile recorded ⇒ the newest
             result / wait event for that object says `Successful`),
    `Inv`    `MgrEv` + every logged request satisfies its claim + run / graph / edges constant,
  carried through `applyOne`, `pruneOne`, the inventory tasks, `runWait` (start, every delivery, deadline), `runTasks`, `runOne`.
  The step-level gates (`apply_gate`, `delete_gate`) give the claim for a new request in the state the decision was taken in;
  old requests keep theirs because events are only ever appended.
-/
namespace CliUtils.Props.C04
open CliUtils CliUtils.Sys

/-- **C04, whole run**: every create / patch request `m` of a run — other than requests for the inventory object and the
bootstrap create of the inventory namespace — is preceded by an apply result for each dependency `d` of `m.id` (edge of the
run's graph: explicit depends-on, apply-time-mutation source, namespace, CRD) whose last one is `Successful`, and, outside
dry-run, the last wait event for `d` before the request is `Successful`.

Exclusions, as weak as the model allows: `m.id ≠ invObjId` (inventory writes are not object applies), and `¬ IsBootstrap s m`
where `IsBootstrap s m` says: `m` is a *create* of the inventory namespace `nsInv` AND the newest event before it is the
`Started` event of an inventory task — i.e. exactly the `ApplyInventoryNamespace` request that `InvAddTask` issues first,
before the inventory exists.  A create or patch of the inventory namespace issued by an apply task is NOT excluded (the
correspondence predicate `Spec.checkC04` excludes every create of that namespace; see `apply_requests_ordered_spec`). -/
theorem apply_requests_ordered (c : Cluster) (run : Run) :
    let s := runOne c run
    ∀ m ∈ s.muts, (m.verb = "create" ∨ m.verb = "patch") → m.id ≠ invObjId → ¬ IsBootstrap s m →
      ∀ d ∈ Graph.deps s.graph m.id,
        lastApplyResult (eventsBefore s m) d = some "Successful" ∧
        (run.opts.dry ≠ .none ∨ lastWait (eventsBefore s m) d = some "Successful") := by
  intro s m hm
  exact ((CliUtils.OrderL.runOne_inv c run).reqs m hm).2.1

/-- every logged request index points into the event list (so `eventsBefore` is a genuine prefix of the final stream) -/
theorem request_index_valid (c : Cluster) (run : Run) :
    ∀ m ∈ (runOne c run).muts, m.evIdx ≤ (runOne c run).events.length :=
  fun m hm => ((CliUtils.OrderL.runOne_inv c run).reqs m hm).1

/-- the same statement with the selectors and the (coarser) exclusion of the correspondence predicate `Spec.checkC04` (main
clause): on the model's own stream, for every create / patch request that is not for the inventory object and — if it is for
the inventory namespace — is a patch, `Spec.opResultBefore … ["apply"] d` and (outside dry-run) `Spec.lastWaitBefore … d` are
`Successful` for every dependency `d` in the run's graph -/
theorem apply_requests_ordered_spec (c : Cluster) (run : Run) :
    let s := runOne c run
    let es := s.events.reverse
    ∀ m ∈ s.muts, (m.verb = "patch" ∨ m.verb = "create") → m.id ≠ invObjId → (m.id = nsInv → m.verb = "patch") →
      ∀ d ∈ Graph.deps s.graph m.id,
        Spec.opResultBefore es m.evIdx ["apply"] d = some "Successful" ∧
        (run.opts.dry ≠ .none ∨ Spec.lastWaitBefore es m.evIdx d = some "Successful") := by
  intro s es m hm hv hinv hns d hd
  have hnb : ¬ IsBootstrap s m := by
    rintro ⟨h1, h2, _⟩
    have := hns h1
    rw [h2] at this
    exact absurd this (by decide)
  have h := apply_requests_ordered c run m hm hv.symm hinv hnb d hd
  simp only [es, CliUtils.OrderL.opResultBefore_eq, CliUtils.OrderL.lastWaitBefore_eq]
  exact h

/-! ### non-vacuity: a ConfigMap depending on its Namespace, applied to an empty cluster (the run of `Props/C13G.lean`) -/
section Examples
open CliUtils.Props.C13

example : ∀ m ∈ (runOne {} exRun).muts, (m.verb = "create" ∨ m.verb = "patch") → m.id ≠ invObjId → ¬ IsBootstrap (runOne {} exRun) m →
    ∀ d ∈ Graph.deps (runOne {} exRun).graph m.id,
      lastApplyResult (eventsBefore (runOne {} exRun) m) d = some "Successful" ∧
      (exRun.opts.dry ≠ .none ∨ lastWait (eventsBefore (runOne {} exRun) m) d = some "Successful") :=
  apply_requests_ordered {} exRun

-- the requests of that run (newest first) with their event indices; the ConfigMap's dependency in the run's graph is its Namespace
example : (runOne {} exRun).muts.map (fun m => (m.verb, m.id, m.evIdx)) =
    [("create", cmA, 12), ("create", nsX, 4), ("create", invObjId, 2)] := by decide
example : Graph.deps (runOne {} exRun).graph cmA = [nsX] := by decide
-- … and the 12 events before the create of the ConfigMap end with: Namespace applied Successful, Namespace reconciled Successful
example : lastApplyResult ((runOne {} exRun).events.reverse.take 12) nsX = some "Successful" ∧
          lastWait ((runOne {} exRun).events.reverse.take 12) nsX = some "Successful" ∧
          lastApplyResult ((runOne {} exRun).events.reverse.take 4) nsX = none := by decide

/-- why the bootstrap request is excluded: the inventory namespace, itself depending on a ClusterRole, is in the apply set -/
def crR : Id := { ns := "", name := "r", group := "rbac.authorization.k8s.io", kind := "ClusterRole" }
def exBoot : Run :=
  { destroy := false, objs := [{ id := nsInv, deps := [crR] }, { id := crR }], opts := { timeout := true } }

-- `InvAddTask` creates the namespace first (event index 2, nothing applied yet); the apply task later patches it (index 11)
example : (runOne {} exBoot).muts.map (fun m => (m.verb, m.id, m.evIdx)) =
    [("patch", nsInv, 11), ("create", crR, 4), ("create", invObjId, 2), ("create", nsInv, 2)] := by decide
example : Graph.deps (runOne {} exBoot).graph nsInv = [crR] := by decide
example : ((runOne {} exBoot).events.reverse.take 2).getLast? = some (.group "inventory-add-0" "Inventory" "Started") ∧
          lastApplyResult ((runOne {} exBoot).events.reverse.take 2) crR = none ∧
          lastApplyResult ((runOne {} exBoot).events.reverse.take 11) crR = some "Successful" ∧
          lastWait ((runOne {} exBoot).events.reverse.take 11) crR = some "Successful" := by decide
end Examples

end CliUtils.Props.C04

namespace CliUtils.Props.C05
open CliUtils CliUtils.Sys CliUtils.Props.C04

/-- **C05, whole run**: every delete request `m` of a run — other than the delete of the inventory object — is preceded by a
prune / delete result for each dependent `x` of `m.id` (every source of an edge into `m.id` in the run's graph, apply set and
stored inventory alike) whose last one is `Successful`, and, outside dry-run, the last wait event for `x` before the request
is `Successful` (observed gone).  No other exclusion is needed. -/
theorem delete_requests_ordered (c : Cluster) (run : Run) :
    let s := runOne c run
    ∀ m ∈ s.muts, m.verb = "delete" → m.id ≠ invObjId →
      ∀ x ∈ dependentsOrdered s.edges m.id,
        lastDeleteResult (eventsBefore s m) x = some "Successful" ∧
        (run.opts.dry ≠ .none ∨ lastWait (eventsBefore s m) x = some "Successful") := by
  intro s m hm
  exact ((CliUtils.OrderL.runOne_inv c run).reqs m hm).2.2

/-- the same statement with the selectors of the correspondence predicate `Spec.checkC05` -/
theorem delete_requests_ordered_spec (c : Cluster) (run : Run) :
    let s := runOne c run
    let es := s.events.reverse
    ∀ m ∈ s.muts, m.verb = "delete" → m.id ≠ invObjId →
      ∀ x ∈ dependentsOrdered s.edges m.id,
        Spec.opResultBefore es m.evIdx ["prune", "delete"] x = some "Successful" ∧
        (run.opts.dry ≠ .none ∨ Spec.lastWaitBefore es m.evIdx x = some "Successful") := by
  intro s es m hm hv hinv x hx
  have h := delete_requests_ordered c run m hm hv hinv x hx
  simp only [es, CliUtils.OrderL.opResultBefore_eq, CliUtils.OrderL.lastWaitBefore_eq]
  exact h

/-! ### non-vacuity: destroying a tracked ConfigMap and the Namespace it lives in -/
section Examples
open CliUtils.Props.C13

def liveNs : Live := { id := nsX, uid := "u1", gen := 1, owner := invId }
def liveCm : Live := { id := cmA, uid := "u2", gen := 1, owner := invId, deps := [nsX] }
def exCl : Cluster := { objs := [liveNs, liveCm], inv := some [cmA, nsX], invUid := "u0", nextUid := 2 }
def exDestroy : Run := { destroy := true, objs := [], opts := { timeout := true } }

example : ∀ m ∈ (runOne exCl exDestroy).muts, m.verb = "delete" → m.id ≠ invObjId →
    ∀ x ∈ dependentsOrdered (runOne exCl exDestroy).edges m.id,
      lastDeleteResult (eventsBefore (runOne exCl exDestroy) m) x = some "Successful" ∧
      (exDestroy.opts.dry ≠ .none ∨ lastWait (eventsBefore (runOne exCl exDestroy) m) x = some "Successful") :=
  delete_requests_ordered exCl exDestroy

-- the ConfigMap is deleted first; the Namespace (on which it depends) only after the ConfigMap was deleted and observed gone
example : (runOne exCl exDestroy).muts.map (fun m => (m.verb, m.id, m.evIdx)) =
    [("delete", invObjId, 16), ("delete", nsX, 9), ("delete", cmA, 2)] := by decide
example : dependentsOrdered (runOne exCl exDestroy).edges nsX = [cmA] := by decide
example : lastDeleteResult ((runOne exCl exDestroy).events.reverse.take 9) cmA = some "Successful" ∧
          lastWait ((runOne exCl exDestroy).events.reverse.take 9) cmA = some "Successful" ∧
          lastDeleteResult ((runOne exCl exDestroy).events.reverse.take 2) cmA = none := by decide
end Examples

end CliUtils.Props.C05
