import CliUtils.Model.Sys
import CliUtils.Lemmas.SysL
import CliUtils.Props.C19
/-
  C02 — every delete / apply request is authorised by ownership policy and lifecycle rules.
  Statements about `Sys.canApply`, `Sys.canPrune`, `Sys.pruneOne`, `Sys.applyOne`: the definitions executed by the
  driver against the real filters (domain `policy`, `depfilter`) and the real Applier/Destroyer (domain `sys`).
-/
namespace CliUtils.Props.C02
open CliUtils CliUtils.Sys

/-! ### the policy matrix -/

/-- CanApply: own objects always; un-owned objects unless the policy is MustMatch; foreign objects only under AdoptAll -/
theorem canApply_matrix (owner : String) (p : Nat) :
    canApply owner p = true ↔ (owner = invId ∨ (owner = "" ∧ p ≠ 0) ∨ (owner ≠ "" ∧ owner ≠ invId ∧ p = 2)) := by
  unfold canApply idMatch
  have hne : invId ≠ "" := by decide
  by_cases h1 : owner = ""
  · subst h1; simp [invId]
  · by_cases h2 : owner = invId
    · subst h2; simp [hne]
    · simp [h1, h2]

/-- CanPrune: own objects always; un-owned objects under AdoptIfNoInventory and AdoptAll; foreign objects only under AdoptAll -/
theorem canPrune_matrix (owner : String) (p : Nat) :
    canPrune owner p = true ↔ (owner = invId ∨ (owner = "" ∧ (p = 1 ∨ p = 2)) ∨ (owner ≠ "" ∧ owner ≠ invId ∧ p = 2)) := by
  unfold canPrune idMatch
  have hne : invId ≠ "" := by decide
  by_cases h1 : owner = ""
  · subst h1; simp [invId]
  · by_cases h2 : owner = invId
    · subst h2; simp [hne]
    · simp [h1, h2]

/-- an annotation prevents deletion exactly for the two documented key/value pairs -/
theorem noDeletion_iff (k v : String) :
    noDeletion k v = true ↔ (k = "client.lifecycle.config.k8s.io/deletion" ∧ v = "detach") ∨
                            (k = "cli-utils.sigs.k8s.io/on-remove" ∧ v = "keep") := by
  simp [noDeletion]

/-! ### deletes -/

/-- everything that must hold for a delete request to be sent for `live` -/
structure DeleteGuards (uids : List String) (localNs : List String) (s : St) (live : Live) : Prop where
  hasUid : live.uid ≠ ""
  notPrevented : live.keep = false ∧ live.detach = false
  policy : canPrune live.owner s.run.opts.policy = true
  nsFree : s.run.destroy = true ∨ namespaceInUse live.id localNs = false
  dependents : depFilter s.invalid s.mgr .delete (dryOf s) (dependentsOrdered s.edges live.id) = .pass
  notJustApplied : justApplied live.uid uids = false
  notDry : dryOf s = false

/-- the filter chain lets a delete through only if every guard holds -/
theorem delete_decision_guards (uids localNs : List String) (s : St) (live : Live)
    (h : pruneDecision uids localNs s live = .delete) : DeleteGuards uids localNs s live := by
  unfold pruneDecision at h
  split at h
  · cases h
  · rename_i huid
    split at h
    · split at h
      · cases h
      · split at h <;> cases h
    · rename_i hkd
      split at h
      · cases h
      · rename_i hpol
        split at h
        · cases h
        · rename_i hns
          split at h
          · cases h
          · cases h
          · rename_i hdep
            split at h
            · cases h
            · rename_i hja
              split at h
              · cases h
              · rename_i hdry
                exact {
                  hasUid := huid
                  notPrevented := by simpa using hkd
                  policy := by simpa using hpol
                  nsFree := by
                    by_cases hd : s.run.destroy = true
                    · exact Or.inl hd
                    · right; simp [hd] at hns; simpa using hns
                  dependents := hdep
                  notJustApplied := by simpa using hja
                  notDry := by simpa using hdry }

/-- **delete_authorised**: `pruneOne` sends at most one mutating request. If it is a delete, every guard held, it names
this object, carries the UID read at planning time as precondition and the configured propagation policy. The only
other request is the removal of the owning-inventory annotation from an object that carries a deletion-prevention
annotation (never under dry-run). -/
theorem delete_authorised (group : String) (uids localNs : List String) (s : St) (live : Live) :
    (pruneOne group uids localNs s live).muts = s.muts ∨
    ∃ m, (pruneOne group uids localNs s live).muts = m :: s.muts ∧ m.id = live.id ∧ m.dry = false ∧
      ((m.verb = "delete" ∧ DeleteGuards uids localNs s live ∧ m.precond = live.uid ∧ m.prop = propagationOf s) ∨
       (m.verb = "update" ∧ (live.keep = true ∨ live.detach = true) ∧ dryOf s = false)) := by
  cases hd : pruneDecision uids localNs s live with
  | failNoUid => left; simp [pruneOne, hd, pruneFail]
  | preventDry => left; simp [pruneOne, hd, pruneSkip]
  | preventNoAnnotation => left; simp [pruneOne, hd, pruneSkip]
  | skip r => left; simp [pruneOne, hd, pruneSkip]
  | fail r => left; simp [pruneOne, hd, pruneFail]
  | justApplied => left; simp only [pruneOne, hd, pruneSkip]; split <;> simp
  | deleteDry => left; simp [pruneOne, hd, pruneOk]
  | preventUpdate =>
    right
    have h := mutReq_spec s "update" live.id false "" "" (abandonEffect live)
    simp only [] at h
    obtain ⟨⟨m, hm, hv, hid, hdry, _⟩, _⟩ := h
    have hk : (live.keep = true ∨ live.detach = true) ∧ dryOf s = false := by
      unfold pruneDecision at hd
      split at hd
      · cases hd
      · split at hd
        · rename_i hkd
          split at hd
          · cases hd
          · rename_i hdr
            exact ⟨by simpa using hkd, by simpa using hdr⟩
        · repeat' split at hd
          all_goals cases hd
    refine ⟨m, ?_, hid, hdry, Or.inr ⟨hv, hk.1, hk.2⟩⟩
    simp only [pruneOne, hd]
    split <;> simp [pruneSkip, pruneFail, hm]
  | delete =>
    right
    have h := mutReq_spec s "delete" live.id false live.uid (propagationOf s)
      (deleteEffect (hasFinalizer s.run live.id) live)
    simp only [] at h
    obtain ⟨⟨m, hm, hv, hid, hdry, hpre, hprop, _⟩, _⟩ := h
    refine ⟨m, ?_, hid, hdry, Or.inl ⟨hv, delete_decision_guards uids localNs s live hd, hpre, hprop⟩⟩
    simp only [pruneOne, hd]
    split <;> simp [pruneOk, pruneFail, hm]

/-! ### spared objects -/

/-- an object spared because of a deletion-prevention annotation (outside dry-run, annotation removal accepted) loses the
owning-inventory annotation and is recorded as abandoned; it is reported Skipped -/
theorem prevented_is_abandoned (group : String) (uids localNs : List String) (s : St) (live : Live)
    (hd : pruneDecision uids localNs s live = .preventUpdate) (hok : s.mutIdx ∉ s.run.failMut)
    (cur : Live) (hcur : s.cl.find? live.id = some cur) :
    let s' := pruneOne group uids localNs s live
    live.id ∈ s'.abandoned ∧ (∃ n, s'.cl = s.cl.put n ∧ n.id = cur.id ∧ n.owner = "") ∧
    s'.mgr.isActuation live.id .delete .skipped = true := by
  intro s'
  have h := mutReq_spec s "update" live.id false "" "" (abandonEffect live)
  simp only [] at h
  obtain ⟨_, hcl, hres, _, hmgr, _, hab, _⟩ := h
  simp only [hok, if_false] at hcl hres
  have hres' : (s.mutReq "update" live.id false "" "" (abandonEffect live)).2 = "ok" := by
    rw [hres]; simp [abandonEffect, hcur]
  simp only [s', pruneOne, hd, hres', if_true, pruneSkip]
  refine ⟨by simp [hab], ?_, ?_⟩
  · simp only [emit_cl, hcl, abandonEffect, hcur]
    exact ⟨_, rfl, rfl, rfl⟩
  · exact isActuation_add _ _ _ _ _ _

/-- every other spared object (inventory policy, namespace in use, dependents) is recorded as a skipped delete and is
neither abandoned nor touched -/
theorem skipped_is_recorded (group : String) (uids localNs : List String) (s : St) (live : Live) (r : Reason)
    (hd : pruneDecision uids localNs s live = .skip r) :
    let s' := pruneOne group uids localNs s live
    s'.mgr.isActuation live.id .delete .skipped = true ∧ s'.abandoned = s.abandoned ∧ s'.cl = s.cl ∧ s'.muts = s.muts := by
  intro s'
  simp only [s', pruneOne, hd, pruneSkip]
  exact ⟨isActuation_add _ _ _ _ _ _, rfl, rfl, rfl⟩

/-! ### applies over existing objects -/

/-- an object that exists in the cluster is handed to kubectl only if the policy accepts its owning-inventory annotation
(under AdoptAll every object is accepted, and the object is not even read) -/
theorem apply_over_existing (s : St) (m : Manifest) (frm : Option String) (live : Live)
    (hgo : applyDecision s m = .go frm) (hget : s.get m.id = some (some live)) :
    s.run.opts.policy = 2 ∨ canApply live.owner s.run.opts.policy = true := by
  unfold applyDecision at hgo
  by_cases hinfo : m.id.kind ∈ s.run.failInfo
  · simp [hinfo] at hgo
  rw [if_neg hinfo] at hgo
  by_cases hp : s.run.opts.policy = 2
  · exact Or.inl hp
  · right
    have : policyApply s m.id = if canApply live.owner s.run.opts.policy then some none else some (some "policy") := by
      simp [policyApply, hp, hget]
    rw [this] at hgo
    by_cases hc : canApply live.owner s.run.opts.policy = true
    · exact hc
    · simp [hc] at hgo

/-- a skipped or failed object is never handed to kubectl: `applyOne` sends no mutating request for it -/
theorem not_go_no_request (group : String) (s : St) (id : Id) (m : Manifest) (hm : manifestOf s id = some m)
    (h : ∀ frm, applyDecision s m ≠ .go frm) : (applyOne group s id).muts = s.muts ∧ (applyOne group s id).cl = s.cl := by
  cases hd : applyDecision s m with
  | fail r => simp [applyOne, hm, hd, applyFail]
  | skip r => simp [applyOne, hm, hd, applySkip]
  | go frm => exact absurd hd (h frm)

/-! ### non-vacuity -/
example : canApply "" 0 = false ∧ canApply "" 1 = true ∧ canApply "other" 1 = false ∧ canApply "other" 2 = true ∧
          canPrune "" 0 = false ∧ canPrune "inv-1" 0 = true ∧ canPrune "other" 1 = false := by decide

end CliUtils.Props.C02
