import CliUtils.Model.Wait
import CliUtils.Lemmas.WaitL
/-
  C06 — reconcile success is reported only on fresh, matching status.
  All statements are about `Wait.start`, `Wait.statusUpdate`, `Wait.timeout`, `Wait.run`: the definitions the
  driver executes against the real WaitTask.
-/
namespace CliUtils.Props.C06
open CliUtils CliUtils.Wait

variable {α : Type} [DecidableEq α]

/-- "the observation satisfies the phase condition": Current at a generation not older than the applied one and an
unchanged UID for apply phases; NotFound (fresh) or a replaced UID for delete phases -/
def SuccessOK (c : Cond) (m : Mgr α) (o : Obs) (id : α) : Prop :=
  match c with
  | .allCurrent => reconciled c m o id = true ∧ changedUID m o id = false
  | .allNotFound => reconciled c m o id = true ∨ changedUID m o id = true

/-- `SuccessOK` spelled out for an apply phase, for a recorded object -/
theorem successOK_current_iff (m : Mgr α) (o : Obs) (id : α) (r : Rec α) (hr : m.find? id = some r) :
    SuccessOK .allCurrent m o id ↔
      o.status = .current ∧ r.gen ≤ (if o.hasRes then o.gen else 0) ∧
      ¬ (r.uid ≠ "" ∧ o.hasRes = true ∧ o.uid ≠ "" ∧ r.uid ≠ o.uid) := by
  simp only [SuccessOK, reconciled, changedUID, Mgr.appliedGen, hr, Bool.and_eq_true, decide_eq_true_eq,
    Bool.and_eq_false_iff, bne_iff_ne, ne_eq, Bool.not_eq_true]
  constructor
  · rintro ⟨⟨h1, h2⟩, h3⟩
    refine ⟨h1, h2, ?_⟩
    rintro ⟨a, b, c, d⟩
    simp_all
  · rintro ⟨h1, h2, h3⟩
    refine ⟨⟨h1, h2⟩, ?_⟩
    by_cases a : r.uid = "" <;> by_cases b : o.hasRes = true <;> by_cases c : o.uid = "" <;> by_cases d : r.uid = o.uid <;> simp_all

/-- the decision of one status update is sound: Successful only on an observation that satisfies the condition -/
theorem decide_success_sound (s : WState α) (id : α) (o : Obs) (h : decide? s id o = some .successful) :
    SuccessOK s.cond s.mgr o id := by
  unfold decide? at h
  unfold SuccessOK
  split at h
  · split at h
    · rename_i hch
      cases hc : s.cond <;> simp [hc] at h ⊢
      exact Or.inr hch
    · rename_i hch
      split at h
      · rename_i hr
        cases hc : s.cond <;> simp [hc] at hr ⊢
        · exact ⟨hr, by simpa using hch⟩
        · exact Or.inl hr
      · split at h <;> simp at h
  · split at h
    · simp at h
    · split at h
      · simp at h
      · split at h
        · split at h
          · rename_i hch
            cases hc : s.cond <;> simp [hc] at h ⊢
            exact Or.inr hch
          · rename_i hch
            split at h
            · rename_i hr
              cases hc : s.cond <;> simp [hc] at hr ⊢
              · exact ⟨hr, by simpa using hch⟩
              · exact Or.inl hr
            · split at h <;> simp at h
        · split at h <;> simp at h

theorem decide_never_skipped_timeout (s : WState α) (id : α) (o : Obs) (e : WEv) (h : decide? s id o = some e) :
    e ≠ .skipped ∧ e ≠ .timeout := by
  unfold decide? at h
  repeat' split at h
  all_goals (cases h <;> simp)

/-- **success_sound (updates)**: a status update emits at most one wait event, for the updated object, and a
Successful event only if the observation just received satisfies the phase condition -/
theorem update_success_sound (s : WState α) (id : α) (o : Obs) :
    ∃ l, (statusUpdate s id o).events = s.events ++ l ∧ l.length ≤ 1 ∧
      ∀ e ∈ l, e.1 = id ∧ (e.2 = .successful → SuccessOK s.cond s.mgr o id) ∧ e.2 ≠ .skipped ∧ e.2 ≠ .timeout := by
  unfold statusUpdate
  simp only []
  split
  · have h := inner_mgr_events (o := o) { s with cache := (id, o) :: s.cache } id (by simp)
    simp only [endIf_events, h.1]
    cases hd : decide? { s with cache := (id, o) :: s.cache } id o with
    | none => exact ⟨[], by simp, by simp, by simp⟩
    | some e =>
      refine ⟨[(id, e)], rfl, by simp, ?_⟩
      intro e' he'
      simp only [List.mem_singleton] at he'
      subst he'
      refine ⟨rfl, ?_, ?_⟩
      · intro hs; simp only at hs; subst hs
        exact decide_success_sound { s with cache := (id, o) :: s.cache } id o hd
      · exact decide_never_skipped_timeout _ id o e hd
  · exact ⟨[], by simp, by simp, by simp⟩

/-! ### phase start -/

/-- the single event `startInner` emits for one object -/
def startEv (c : Cond) (m : Mgr α) (o : Obs) (id : α) : WEv :=
  if skipped c m id then .skipped
  else if changedUID m o id then (match c with | .allNotFound => .successful | .allCurrent => .failed)
  else if reconciled c m o id then .successful
  else .pending

/-- two tables that every decision function reads alike -/
def MgrEquiv (m m' : Mgr α) : Prop :=
  ∀ c o x, skipped c m' x = skipped c m x ∧ changedUID m' o x = changedUID m o x ∧ reconciled c m' o x = reconciled c m o x

theorem MgrEquiv.refl (m : Mgr α) : MgrEquiv m m := fun _ _ _ => ⟨rfl, rfl, rfl⟩

theorem MgrEquiv.setRc (m m' : Mgr α) (h : MgrEquiv m m') (id : α) (rc : Reconcile) :
    MgrEquiv m ((m'.setReconcile id rc).getD m') := by
  intro c o x
  have h1 := decisions_setReconcile m' id rc c o x
  have h2 := h c o x
  exact ⟨h1.1.trans h2.1, h1.2.1.trans h2.2.1, h1.2.2.trans h2.2.2⟩

theorem startOne_spec (s : WState α) (id : α) :
    let e := startEv s.cond s.mgr (getObs s.cache id) id
    (startOne s id).events = s.events ++ [(id, e)] ∧
    (startOne s id).mgr = (s.mgr.setReconcile id (rcOfEv e)).getD s.mgr ∧
    (startOne s id).pending = (if e = .pending then s.pending ++ [id] else s.pending) ∧
    (startOne s id).cond = s.cond ∧ (startOne s id).cache = s.cache ∧ (startOne s id).ids = s.ids ∧
    (startOne s id).cancelled = s.cancelled ∧ (startOne s id).failed = s.failed := by
  unfold startOne startEv
  simp only [handleChangedUID_eq]
  split
  · simp
  · split
    · cases hc : s.cond <;> simp [hc]
    · split <;> simp

/-- invariant of the start loop -/
theorem start_fold (c : Cond) (m : Mgr α) (cache : List (α × Obs)) (l : List α) (s : WState α)
    (hc : s.cond = c) (hca : s.cache = cache) (hm : MgrEquiv m s.mgr) :
    let s' := l.foldl startOne s
    s'.events = s.events ++ l.map (fun id => (id, startEv c m (getObs cache id) id)) ∧
    s'.pending = s.pending ++ l.filter (fun id => startEv c m (getObs cache id) id = .pending) ∧
    s'.cond = c ∧ s'.cache = cache ∧ MgrEquiv m s'.mgr ∧ s'.cancelled = s.cancelled ∧ s'.failed = s.failed ∧ s'.ids = s.ids := by
  induction l generalizing s with
  | nil => simp [hc, hca, hm]
  | cons id rest ih =>
    have h1 := startOne_spec s id
    simp only [] at h1
    have hev : startEv s.cond s.mgr (getObs s.cache id) id = startEv c m (getObs cache id) id := by
      unfold startEv
      rw [hc, hca, (hm c (getObs cache id) id).1, (hm c (getObs cache id) id).2.1, (hm c (getObs cache id) id).2.2]
    rw [hev] at h1
    have ih' := ih (startOne s id) (h1.2.2.2.1.trans hc) (h1.2.2.2.2.1.trans hca)
      (by rw [h1.2.1]; exact MgrEquiv.setRc m s.mgr hm id _)
    simp only [List.foldl_cons] at ih' ⊢
    obtain ⟨e1, e2, e3, e4, e5, e6, e7, e8⟩ := ih'
    refine ⟨?_, ?_, e3, e4, e5, ?_, ?_, ?_⟩
    · rw [e1, h1.1]; simp
    · rw [e2, h1.2.2.1]
      by_cases hp : startEv c m (getObs cache id) id = .pending <;> simp [hp, List.filter_cons]
    · rw [e6]; exact h1.2.2.2.2.2.2.1
    · rw [e7]; exact h1.2.2.2.2.2.2.2
    · rw [e8]; exact h1.2.2.2.2.2.1

/-- the events, pending set and early end of `start`, in closed form -/
theorem start_spec (ids : List α) (c : Cond) (m : Mgr α) (cache : List (α × Obs)) :
    (start ids c m cache).events = ids.map (fun id => (id, startEv c m (getObs cache id) id)) ∧
    (start ids c m cache).pending = ids.filter (fun id => startEv c m (getObs cache id) id = .pending) ∧
    (start ids c m cache).cancelled = (start ids c m cache).pending.isEmpty := by
  unfold start
  have h := start_fold c m cache ids
    { ids := ids, cond := c, pending := [], failed := [], mgr := m, cache := cache, events := [], cancelled := false }
    rfl rfl (MgrEquiv.refl m)
  simp only [] at h
  refine ⟨by simpa using h.1, by simpa using h.2.1, ?_⟩
  rw [endIf_cancelled, endIf_pending, h.2.2.2.2.2.1]; simp

/-- **success_sound (start)**, **skipped**: at phase start every object gets exactly one event; it is Skipped exactly
for objects whose actuation failed or was skipped, and Successful only if the cached observation satisfies the
condition; the pending set is exactly the objects reported Pending -/
theorem start_success_sound (ids : List α) (c : Cond) (m : Mgr α) (cache : List (α × Obs)) (id : α) (e : WEv)
    (h : (id, e) ∈ (start ids c m cache).events) :
    id ∈ ids ∧ (e = .skipped ↔ skipped c m id = true) ∧
    (e = .successful → SuccessOK c m (getObs cache id) id) ∧ e ≠ .timeout ∧
    (e = .pending ↔ id ∈ (start ids c m cache).pending) := by
  rw [(start_spec ids c m cache).1] at h
  rw [(start_spec ids c m cache).2.1]
  simp only [List.mem_map, Prod.mk.injEq] at h
  obtain ⟨x, hx, rfl, rfl⟩ := h
  refine ⟨hx, ?_, ?_, ?_, ?_⟩
  · unfold startEv
    cases hs : skipped c m x
    · by_cases hch : changedUID m (getObs cache x) x = true <;>
        by_cases hr : reconciled c m (getObs cache x) x = true <;> cases c <;> simp [hch, hr]
    · simp
  · unfold startEv SuccessOK
    by_cases hs : skipped c m x = true
    · simp [hs]
    · simp only [hs, if_false]
      by_cases hch : changedUID m (getObs cache x) x = true
      · cases c <;> simp [hch]
      · by_cases hr : reconciled c m (getObs cache x) x = true
        · cases c <;> simp [hch, hr]
        · simp [hch, hr]
  · unfold startEv
    split
    · simp
    · split
      · cases c <;> simp
      · split <;> simp
  · simp [List.mem_filter, hx]

/-! ### the phase ends early only when nothing is pending -/

theorem start_early_end (ids : List α) (c : Cond) (m : Mgr α) (cache : List (α × Obs))
    (h : (start ids c m cache).cancelled = true) : (start ids c m cache).pending = [] := by
  rw [(start_spec ids c m cache).2.2] at h
  exact List.isEmpty_iff.mp h

theorem update_early_end (s : WState α) (id : α) (o : Obs) (h : (statusUpdate s id o).cancelled = true) :
    s.cancelled = true ∨ (statusUpdate s id o).pending = [] := by
  unfold statusUpdate at h ⊢
  simp only [] at h ⊢
  split at h
  · rename_i hin
    simp only [hin, if_true]
    rw [endIf_cancelled] at h
    rw [endIf_pending]
    have hc := (inner_mgr_events (o := o) { s with cache := (id, o) :: s.cache } id (by simp)).2.2.2.2.2
    rw [hc] at h
    simp only [Bool.or_eq_true] at h
    rcases h with h | h
    · exact Or.inl h
    · exact Or.inr (List.isEmpty_iff.mp h)
  · exact Or.inl h

def isUpdate : Op α → Bool
  | .update _ _ => true
  | _ => false

/-- **early_end**: unless a timeout fired or the run was cancelled, a phase that has ended went through a moment
(after the start or after some update) at which none of its objects was pending -/
theorem early_end (ids : List α) (c : Cond) (m : Mgr α) (cache : List (α × Obs)) (ops : List (Op α))
    (hops : ∀ op ∈ ops, isUpdate op = true) (h : (run ids c m cache ops).cancelled = true) :
    ∃ k, k ≤ ops.length ∧ (run ids c m cache (ops.take k)).pending = [] := by
  unfold run at h ⊢
  have key : ∀ (ops : List (Op α)) (s : WState α), (∀ op ∈ ops, isUpdate op = true) →
      (ops.foldl step s).cancelled = true →
      s.cancelled = true ∨ ∃ k, k ≤ ops.length ∧ 0 < k ∧ ((ops.take k).foldl step s).pending = [] := by
    intro ops
    induction ops with
    | nil => intro s _ h; exact Or.inl h
    | cons op rest ih =>
      intro s hops h
      simp only [List.foldl_cons] at h
      rcases ih (step s op) (fun o ho => hops o (by simp [ho])) h with h' | ⟨k, hk, _, hp⟩
      · have hop : isUpdate op = true := hops op (by simp)
        cases op with
        | update id o =>
          rcases update_early_end s id o h' with h'' | h''
          · exact Or.inl h''
          · exact Or.inr ⟨1, by simp, by omega, by simpa [step] using h''⟩
        | timeout => simp [isUpdate] at hop
        | cancel => simp [isUpdate] at hop
      · exact Or.inr ⟨k + 1, by simp; omega, by omega, by simpa using hp⟩
  rcases key ops _ hops h with h' | ⟨k, hk, _, hp⟩
  · exact ⟨0, by simp, by simpa using start_early_end ids c m cache h'⟩
  · exact ⟨k, hk, hp⟩

/-! ### failed-then-current, regress, timeout -/

/-- an object reported failed that later becomes Current (condition satisfied) is reported reconciled -/
theorem failed_then_current (s : WState α) (id : α) (o : Obs) (hids : id ∈ s.ids) (hp : id ∉ s.pending)
    (hf : id ∈ s.failed) (hs : skipped s.cond s.mgr id = false) (hu : changedUID s.mgr o id = false)
    (hr : reconciled s.cond s.mgr o id = true) :
    (statusUpdate s id o).events = s.events ++ [(id, .successful)] := by
  unfold statusUpdate
  simp only [hids, if_true]
  have h := inner_mgr_events (o := o) { s with cache := (id, o) :: s.cache } id (by simp)
  rw [endIf_events, h.1]
  simp [decide?, hp, hids, hs, hf, hu, hr]

/-- an object reported reconciled (or failed for a replaced UID) whose new status no longer satisfies the condition
is reported pending again, and is pending -/
theorem regress_pending (s : WState α) (id : α) (o : Obs) (hids : id ∈ s.ids) (hp : id ∉ s.pending)
    (hf : id ∉ s.failed) (hs : skipped s.cond s.mgr id = false) (hr : reconciled s.cond s.mgr o id = false) :
    (statusUpdate s id o).events = s.events ++ [(id, .pending)] ∧ id ∈ (statusUpdate s id o).pending := by
  unfold statusUpdate
  simp only [hids, if_true]
  have h := inner_mgr_events (o := o) { s with cache := (id, o) :: s.cache } id (by simp)
  rw [endIf_events, h.1, endIf_pending]
  refine ⟨by simp [decide?, hp, hids, hs, hf, hr], ?_⟩
  simp [statusUpdateInner, hp, hids, hs, hf, hr]

/-- an object reported failed whose new status is neither Failed nor satisfies the condition (Terminating, Unknown, InProgress,
NotFound in an apply phase …) is reported pending again and IS pending: the deadline's Timeout is for it too -/
theorem failed_then_unfailed_pending (s : WState α) (id : α) (o : Obs) (hids : id ∈ s.ids) (hp : id ∉ s.pending)
    (hf : id ∈ s.failed) (hs : skipped s.cond s.mgr id = false) (hu : changedUID s.mgr o id = false)
    (hr : reconciled s.cond s.mgr o id = false) (hst : o.status ≠ .failed) :
    (statusUpdate s id o).events = s.events ++ [(id, .pending)] ∧ id ∈ (statusUpdate s id o).pending := by
  unfold statusUpdate
  simp only [hids, if_true]
  have h := inner_mgr_events (o := o) { s with cache := (id, o) :: s.cache } id (by simp)
  rw [endIf_events, h.1, endIf_pending]
  refine ⟨by simp [decide?, hp, hids, hs, hf, hu, hr, hst], ?_⟩
  simp [statusUpdateInner, hp, hids, hs, hf, hu, hr, hst]

theorem timeout_fold (l : List α) (s : WState α) :
    (l.foldl (fun st id => emit st id .timeout) s).events = s.events ++ l.map (fun id => (id, WEv.timeout)) ∧
    (l.foldl (fun st id => emit st id .timeout) s).pending = s.pending := by
  induction l generalizing s with
  | nil => simp
  | cons x xs ih =>
    simp only [List.foldl_cons, List.map_cons]
    rw [(ih _).1, (ih _).2]; simp

/-- when the deadline fires, Timeout is reported for exactly the objects still pending, in order -/
theorem timeout_exactly_pending (s : WState α) :
    (timeout s).events = s.events ++ s.pending.map (fun id => (id, WEv.timeout)) ∧ (timeout s).cancelled = true := by
  unfold timeout
  exact ⟨(timeout_fold s.pending s).1, rfl⟩

/-! ### the recorded reconcile state equals the last wait event -/

/-- last event emitted for `id` -/
def lastEv (evs : List (α × WEv)) (id : α) : Option WEv := ((evs.filter (fun e => e.1 = id)).getLast?).map (·.2)

/-- invariant: for every recorded object that has received a wait event, the table's reconcile field is that of the last one -/
def LastEvInv (m : Mgr α) (evs : List (α × WEv)) : Prop :=
  ∀ id r e, m.find? id = some r → lastEv evs id = some e → r.reconcile = rcOfEv e

theorem lastEv_append_same (evs : List (α × WEv)) (id : α) (e : WEv) : lastEv (evs ++ [(id, e)]) id = some e := by
  simp [lastEv, List.filter_append]

theorem lastEv_append_other (evs : List (α × WEv)) (id x : α) (e : WEv) (h : x ≠ id) :
    lastEv (evs ++ [(id, e)]) x = lastEv evs x := by
  have : ¬ id = x := fun e => h e.symm
  simp [lastEv, List.filter_append, List.filter_cons, this]

theorem inv_emit (m : Mgr α) (evs : List (α × WEv)) (id : α) (e : WEv) (h : LastEvInv m evs) :
    LastEvInv ((m.setReconcile id (rcOfEv e)).getD m) (evs ++ [(id, e)]) := by
  intro x r e' hr he'
  rw [find_setReconcile_getD] at hr
  by_cases hx : x = id
  · subst hx
    rw [lastEv_append_same] at he'
    injection he' with he'; subst he'
    cases hf : m.find? x with
    | none => simp [hf] at hr
    | some r0 => simp [hf] at hr; subst hr; rfl
  · rw [lastEv_append_other _ _ _ _ hx] at he'
    cases hf : m.find? x with
    | none => simp [hf] at hr
    | some r0 =>
      simp [hf, hx] at hr; subst hr
      exact h x r0 e' hf he'

theorem inv_step (s : WState α) (op : Op α) (h : LastEvInv s.mgr s.events) :
    LastEvInv (step s op).mgr (step s op).events := by
  cases op with
  | update id o =>
    simp only [step, statusUpdate]
    split
    · have hi := inner_mgr_events (o := o) { s with cache := (id, o) :: s.cache } id (by simp)
      rw [endIf_mgr, endIf_events, hi.1, hi.2.1]
      cases decide? { s with cache := (id, o) :: s.cache } id o with
      | none => simpa using h
      | some e => exact inv_emit _ _ id e h
    · exact h
  | timeout =>
    simp only [step, timeout]
    suffices ∀ (l : List α) (st : WState α), LastEvInv st.mgr st.events →
        LastEvInv (l.foldl (fun st id => emit st id .timeout) st).mgr (l.foldl (fun st id => emit st id .timeout) st).events from
      this s.pending s h
    intro l
    induction l with
    | nil => intro st hst; exact hst
    | cons x xs ih => intro st hst; exact ih _ (inv_emit _ _ x _ hst)
  | cancel => exact h

theorem inv_start (ids : List α) (c : Cond) (m : Mgr α) (cache : List (α × Obs)) :
    LastEvInv (start ids c m cache).mgr (start ids c m cache).events := by
  unfold start
  rw [endIf_mgr, endIf_events]
  suffices ∀ (l : List α) (st : WState α), LastEvInv st.mgr st.events →
      LastEvInv (l.foldl startOne st).mgr (l.foldl startOne st).events from
    this ids _ (by intro id r e _ he; simp [lastEv] at he)
  intro l
  induction l with
  | nil => intro st hst; exact hst
  | cons x xs ih =>
    intro st hst
    apply ih
    have h1 := startOne_spec st x
    simp only [] at h1
    rw [h1.1, h1.2.1]
    exact inv_emit _ _ x _ hst

/-- **recorded_equals_last_event**: after the start and any sequence of status updates, deadline and cancellation, the
reconcile state recorded for each object equals the last wait event emitted for it -/
theorem recorded_equals_last_event (ids : List α) (c : Cond) (m : Mgr α) (cache : List (α × Obs)) (ops : List (Op α)) :
    LastEvInv (run ids c m cache ops).mgr (run ids c m cache ops).events := by
  unfold run
  suffices ∀ (ops : List (Op α)) (s : WState α), LastEvInv s.mgr s.events →
      LastEvInv (ops.foldl step s).mgr (ops.foldl step s).events from this ops _ (inv_start ids c m cache)
  intro ops
  induction ops with
  | nil => intro s hs; exact hs
  | cons op rest ih => intro s hs; exact ih _ (inv_step s op hs)

/-! ### non-vacuity (concrete runs; also the witness for the defect that was repaired) -/
section Examples
def r1 : Rec Nat := { id := 1, strategy := .apply, actuation := .succeeded, reconcile := .pending, uid := "u1", gen := 2 }
def oInProg : Obs := { status := .inProgress, hasRes := true, gen := 2, uid := "u1" }
def oFailed : Obs := { status := .failed, hasRes := true, gen := 2, uid := "u1" }
def oCurStale : Obs := { status := .current, hasRes := true, gen := 1, uid := "u1" }
def oCur : Obs := { status := .current, hasRes := true, gen := 2, uid := "u1" }
def oCurNewUid : Obs := { status := .current, hasRes := true, gen := 2, uid := "u2" }

-- stale Current is not success; fresh Current is; regress gives Pending again
example : (run [1] .allCurrent [r1] [(1, oInProg)] [.update 1 oCurStale, .update 1 oCur, .update 1 oInProg]).events =
    [(1, .pending), (1, .successful), (1, .pending)] := by decide
-- Failed (same UID) then Current with a NEW UID is not reported Successful (the repaired behaviour)
example : (run [1] .allCurrent [r1] [(1, oInProg)] [.update 1 oFailed, .update 1 oCurNewUid]).events =
    [(1, .pending), (1, .failed), (1, .failed)] := by decide
example : SuccessOK .allCurrent [r1] oCur 1 ∧ ¬ SuccessOK .allCurrent [r1] oCurNewUid 1 ∧ ¬ SuccessOK .allCurrent [r1] oCurStale 1 := by
  simp only [SuccessOK]; decide
end Examples

end CliUtils.Props.C06
