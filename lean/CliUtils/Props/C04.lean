import CliUtils.Model.Sys
import CliUtils.Lemmas.SysL
import CliUtils.Props.C02
/-
  C04 — an object is applied only after its dependencies were applied and reconciled.
  C05 — objects are deleted in reverse dependency order (the mirrored statements are in Props/C05.lean).
  The gate is `Sys.depFilter` (tied exhaustively to the real DependencyFilter by domain `depfilter`), used by
  `Sys.applyDecision` / `Sys.pruneDecision` (tied by domain `sys`).
-/
namespace CliUtils.Props.C04
open CliUtils CliUtils.Sys

/-- a relation lets the actuation through: same strategy, actuated successfully and (outside dry-run) reconciled -/
def RelationOk (invalid : List Id) (mgr : Mgr Id) (strategy : Strategy) (dry : Bool) (b : Id) : Prop :=
  b ∉ invalid ∧ ∃ r, mgr.find? b = some r ∧ r.strategy = strategy ∧ r.actuation = .succeeded ∧
    (dry = true ∨ r.reconcile = .succeeded)

theorem depRelation_pass_iff (invalid : List Id) (mgr : Mgr Id) (strategy : Strategy) (dry : Bool) (b : Id) :
    depRelation invalid mgr strategy dry b = .pass ↔ RelationOk invalid mgr strategy dry b := by
  unfold depRelation RelationOk
  by_cases hi : b ∈ invalid
  · simp [hi]
  · simp only [hi, if_false, not_false_eq_true, true_and]
    cases hf : mgr.find? b with
    | none => simp
    | some r =>
      simp only [Option.some.injEq, exists_eq_left']
      by_cases hs : r.strategy = strategy
      · simp only [hs, ne_eq, not_true_eq_false, if_false, true_and]
        cases ha : r.actuation <;> simp
        cases dry
        · cases hr : r.reconcile <;> simp
        · simp
      · simp [hs]

/-- **the gate**: the filter passes exactly when EVERY related object was actuated successfully with the same strategy
and, outside dry-run, reconciled -/
theorem depFilter_pass_iff (invalid : List Id) (mgr : Mgr Id) (strategy : Strategy) (dry : Bool) (bs : List Id) :
    depFilter invalid mgr strategy dry bs = .pass ↔ ∀ b ∈ bs, RelationOk invalid mgr strategy dry b := by
  induction bs with
  | nil => simp [depFilter]
  | cons b bs ih =>
    simp only [depFilter, List.mem_cons, forall_eq_or_imp]
    cases hr : depRelation invalid mgr strategy dry b with
    | pass =>
      simp only [ih]
      constructor
      · intro h; exact ⟨(depRelation_pass_iff _ _ _ _ _).mp hr, h⟩
      · intro h; exact h.2
    | skip r =>
      constructor
      · intro h; cases h
      · intro h; have := (depRelation_pass_iff _ _ _ _ _).mpr h.1; rw [hr] at this; cases this
    | fatal r =>
      constructor
      · intro h; cases h
      · intro h; have := (depRelation_pass_iff _ _ _ _ _).mpr h.1; rw [hr] at this; cases this

/-- **C04 gate**: an object is handed to kubectl only if each of its dependencies (explicit depends-on, apply-time
mutation source, its namespace, its CRD — the edges of the run's graph) has, at that moment, been applied successfully
and — outside dry-run — is recorded as reconciled (by C06: its last observation was Current at a generation not older than
the applied one) -/
theorem apply_gate (s : St) (m : Manifest) (frm : Option String) (h : applyDecision s m = .go frm) :
    ∀ b ∈ Graph.deps s.graph m.id, RelationOk s.invalid s.mgr .apply (dryOf s) b := by
  unfold applyDecision at h
  by_cases hinfo : m.id.kind ∈ s.run.failInfo
  · simp [hinfo] at h
  rw [if_neg hinfo] at h
  cases hp : policyApply s m.id with
  | none => simp [hp] at h
  | some o =>
    cases o with
    | some r => simp [hp] at h
    | none =>
      simp only [hp] at h
      cases hd : depFilter s.invalid s.mgr .apply (dryOf s) (Graph.deps s.graph m.id) with
      | pass => exact (depFilter_pass_iff _ _ _ _ _).mp hd
      | skip r => simp [hd] at h
      | fatal r => simp [hd] at h

/-- what blocks a dependent: the dependency is invalid, was never registered, is scheduled for deletion, its actuation
failed / was skipped / has not happened, or (outside dry-run) its reconcile failed, timed out, was skipped or is pending -/
def Blocking (invalid : List Id) (mgr : Mgr Id) (dry : Bool) (b : Id) : Prop :=
  b ∈ invalid ∨ mgr.find? b = none ∨
  ∃ r, mgr.find? b = some r ∧ (r.strategy = .delete ∨ r.actuation ≠ .succeeded ∨ (dry = false ∧ r.reconcile ≠ .succeeded))

/-- **C04 blocked**: if some dependency blocks, the dependent is never sent to the API server in that step: the store
and the request log are unchanged, and exactly one result event — Skipped or Failed — is emitted for it -/
theorem blocked_not_sent (group : String) (s : St) (id : Id) (m : Manifest) (hm : manifestOf s id = some m) (hid : m.id = id)
    (b : Id) (hb : b ∈ Graph.deps s.graph id) (hblock : Blocking s.invalid s.mgr (dryOf s) b) :
    (applyOne group s id).muts = s.muts ∧ (applyOne group s id).cl = s.cl ∧
    ∃ st r, (applyOne group s id).events = .op "apply" group id st r :: s.events ∧ (st = "Skipped" ∨ st = "Failed") := by
  have hnogo : ∀ frm, applyDecision s m ≠ .go frm := by
    intro frm hgo
    have := apply_gate s m frm hgo b (by rw [hid]; exact hb)
    obtain ⟨hni, r, hr, hs, ha, hrc⟩ := this
    rcases hblock with h | h | ⟨r', hr', h⟩
    · exact hni h
    · rw [hr] at h; cases h
    · rw [hr] at hr'; injection hr' with hr'; subst hr'
      rcases h with h | h | ⟨hd, h⟩
      · rw [hs] at h; cases h
      · exact h ha
      · rcases hrc with hrc | hrc
        · rw [hd] at hrc; cases hrc
        · exact h hrc
  have h1 := CliUtils.Props.C02.not_go_no_request group s id m hm hnogo
  refine ⟨h1.1, h1.2, ?_⟩
  cases hd : applyDecision s m with
  | fail r => exact ⟨"Failed", r, by simp [applyOne, hm, hd, applyFail], Or.inr rfl⟩
  | skip r => exact ⟨"Skipped", r, by simp [applyOne, hm, hd, applySkip], Or.inl rfl⟩
  | go frm => exact absurd hd (hnogo frm)

/-! non-vacuity: a dependency that is applied and reconciled lets the dependent through; a timed-out one does not -/
section Examples
def a : Id := { ns := "ns1", name := "a", group := "", kind := "ConfigMap" }
def recOk : Rec Id := { id := a, strategy := .apply, actuation := .succeeded, reconcile := .succeeded, uid := "u", gen := 1 }
def recTimeout : Rec Id := { recOk with reconcile := .timeout }
example : depFilter [] [recOk] .apply false [a] = .pass := by decide
example : depFilter [] [recTimeout] .apply false [a] = .skip "dep-blocked" := by decide
example : depFilter [] [recTimeout] .apply true [a] = .pass := by decide
example : depFilter [a] [recOk] .apply false [a] = .fatal "dep-invalid" := by decide
end Examples

end CliUtils.Props.C04
