import CliUtils.Lemmas.RunCorL
/-
  Run-level corollaries for C13 / C10 / C02 / C05 / C11 on the run model (`Sys.runOne c run`), for EVERY cluster `c` and run `run`.

  They settle the remaining whole-run clauses of the property texts from the whole-run theorems that exist already
  (`C03.completed_run_inventory`, `C13.run_stream_well_formed`, `C02.request_provenance`, `C05.delete_requests_ordered`, …) and from
  new facts about runs proved in `Lemmas/RunCorL.lean`:

    * `RunCorL.run_trace`        the events of a run without error event: brackets of every task in plan order, one result per object;
    * `RunCorL.run_ab_invalid`   abandoned ids are valid prune candidates, the invalid set is the plan's;
    * `RunCorL.run_delete_book`  delete-side bookkeeping: a delete request was sent only when all dependents were recorded as deleted and
                                 gone (and they stay so), a successful delete record means a request, every prune candidate is processed;
    * `RunCorL.run_inv_sub`      what the stored inventory may hold after ANY run.

  `NoErr` below always means `C13.NoError (runOne c run).events`: the stream of the run contains no error event.

  C13  `completed_run_all_groups`, `completed_run_every_object_reported` (+ `completed_run_result_sequence`)
  C10  `dry_run_events_cover_plan`
  C02  `abandoned_leave_inventory`, `spared_stay_in_inventory`, `prevented_objects_abandoned_in_run`, `abandoned_objects_unannotated`
  C05  `blocked_dependency_stays`, `dependency_of_applied_object_stays`
  C11  `tracked_invalid_stay_and_untouched`, `invalid_not_added`
-/

/-! # C13 -/
namespace CliUtils.Props.C13
open CliUtils CliUtils.Sys CliUtils.RunCorL CliUtils.Props.C02

/-- **completed_run_all_groups** — clause "a run that ends without error event executed its whole plan: every planned group was
started and finished, in plan order".

If the stream of a run contains no error event, the run built a plan, and the group events of its stream (`isGroupEv`: the
`Started` / `Finished` events), in stream order, are EXACTLY the `Started` event followed by the `Finished` event of each task of the
plan (by name and action), in plan order — nothing missing, nothing repeated, nothing else. -/
theorem completed_run_all_groups (c : Cluster) (run : Run) (hne : NoError (runOne c run).events) :
    ∃ plan, runPlan c run = some plan ∧
      (runOne c run).events.reverse.filter isGroupEv =
        plan.tasks.flatMap (fun t => [Ev.group t.name (t.action run.destroy) "Started", Ev.group t.name (t.action run.destroy) "Finished"]) := by
  obtain ⟨plan, hp, _, _, h, _⟩ := run_trace c run hne
  exact ⟨plan, hp, h⟩

/-- … in particular both group events of every task of the plan are in the stream -/
theorem completed_run_group_events_mem (c : Cluster) (run : Run) (hne : NoError (runOne c run).events) :
    ∃ plan, runPlan c run = some plan ∧ ∀ t ∈ plan.tasks,
      Ev.group t.name (t.action run.destroy) "Started" ∈ (runOne c run).events ∧
      Ev.group t.name (t.action run.destroy) "Finished" ∈ (runOne c run).events := by
  obtain ⟨plan, hp, h⟩ := completed_run_all_groups c run hne
  refine ⟨plan, hp, ?_⟩
  intro t ht
  have hmem : ∀ e ∈ [Ev.group t.name (t.action run.destroy) "Started", Ev.group t.name (t.action run.destroy) "Finished"],
      e ∈ (runOne c run).events := by
    intro e he
    have : e ∈ (runOne c run).events.reverse.filter isGroupEv := by
      rw [h]; exact List.mem_flatMap.mpr ⟨t, ht, he⟩
    exact List.mem_reverse.mp (List.mem_filter.mp this).1
  exact ⟨hmem _ (by simp), hmem _ (by simp)⟩

/-- **the result events of a completed run, in order** (the form from which the next theorem is read off): without error event, the
result events of the stream (`Ev.op`), reduced to (kind, group, object), are in stream order exactly: for each apply task of the plan,
in plan order, one `apply` result per object of the task in task order, naming the task; for each prune task one `prune` (`delete`
for a destroyer) result per object, naming the task. Every result event carries a result (Successful, Skipped or Failed). -/
theorem completed_run_result_sequence (c : Cluster) (run : Run) (hne : NoError (runOne c run).events) :
    ∃ plan, runPlan c run = some plan ∧
      (runOne c run).events.reverse.filterMap opKey = plan.tasks.flatMap (taskOps run) ∧
      ∀ k g i st r, Ev.op k g i st r ∈ (runOne c run).events → st = "Successful" ∨ st = "Skipped" ∨ st = "Failed" := by
  obtain ⟨plan, hp, h1, h2, _, _⟩ := run_trace c run hne
  exact ⟨plan, hp, h1, fun k g i st r he => h2 _ he⟩

/-- **completed_run_every_object_reported** — clause "… and every object of every apply / prune / delete group got exactly one
result event".

If the stream of a run contains no error event, then for every apply task of the run's plan and every object of it, the result events
of the stream for that object that name that group (`resultFor`) are exactly ONE event; it is an `apply` event and carries a result
(never Pending). The same for every prune task, with a `prune` event (`delete` for a destroyer). -/
theorem completed_run_every_object_reported (c : Cluster) (run : Run) (hne : NoError (runOne c run).events) :
    ∃ plan, runPlan c run = some plan ∧ ∀ t ∈ plan.tasks,
      (∀ ids, t.kind = .apply ids → ∀ id ∈ ids, ∃ st r,
        (runOne c run).events.filter (resultFor t.name id) = [Ev.op "apply" t.name id st r] ∧
        (st = "Successful" ∨ st = "Skipped" ∨ st = "Failed")) ∧
      (∀ ids, t.kind = .prune ids → ∀ id ∈ ids, ∃ st r,
        (runOne c run).events.filter (resultFor t.name id) = [Ev.op (if run.destroy then "delete" else "prune") t.name id st r] ∧
        (st = "Successful" ∨ st = "Skipped" ∨ st = "Failed")) := by
  obtain ⟨plan, hp, h⟩ := run_result_unique c run hne
  refine ⟨plan, hp, ?_⟩
  intro t ht
  constructor
  · intro ids hk id hid
    exact h t ht ("apply", t.name, id) (by simp only [taskOps, hk]; exact List.mem_map.mpr ⟨id, hid, rfl⟩)
  · intro ids hk id hid
    exact h t ht (if run.destroy then "delete" else "prune", t.name, id)
      (by simp only [taskOps, hk]; exact List.mem_map.mpr ⟨id, hid, rfl⟩)

/-! ### non-vacuity: the run of `Props/C13G.lean` (a ConfigMap depending on its Namespace, applied to an empty cluster) -/
section Examples
open CliUtils.Props.C03

example : noErrorB (runOne {} exRun).events = true ∧
    (runOne {} exRun).events.reverse.filter isGroupEv =
      [.group "inventory-add-0" "Inventory" "Started", .group "inventory-add-0" "Inventory" "Finished",
       .group "apply-0" "Apply" "Started", .group "apply-0" "Apply" "Finished",
       .group "wait-0" "Wait" "Started", .group "wait-0" "Wait" "Finished",
       .group "apply-1" "Apply" "Started", .group "apply-1" "Apply" "Finished",
       .group "wait-1" "Wait" "Started", .group "wait-1" "Wait" "Finished",
       .group "inventory-set-0" "Inventory" "Started", .group "inventory-set-0" "Inventory" "Finished"] ∧
    (runPlan {} exRun).map (fun p => p.tasks.map (·.name)) =
      some ["inventory-add-0", "apply-0", "wait-0", "apply-1", "wait-1", "inventory-set-0"] := by decide

example : ∃ plan, runPlan {} exRun = some plan ∧
    (runOne {} exRun).events.reverse.filter isGroupEv =
      plan.tasks.flatMap (fun t => [Ev.group t.name (t.action exRun.destroy) "Started", Ev.group t.name (t.action exRun.destroy) "Finished"]) :=
  completed_run_all_groups {} exRun ((noErrorB_iff _).mp (by decide))

-- the result events of that run: the Namespace in `apply-0`, then the ConfigMap in `apply-1`, one each
example : (runOne {} exRun).events.reverse.filterMap opKey = [("apply", "apply-0", nsX), ("apply", "apply-1", cmA)] ∧
    (runOne {} exRun).events.filter (resultFor "apply-1" cmA) = [.op "apply" "apply-1" cmA "Successful" ""] := by decide

example : ∃ plan, runPlan {} exRun = some plan ∧ ∀ t ∈ plan.tasks,
    (∀ ids, t.kind = .apply ids → ∀ id ∈ ids, ∃ st r,
      (runOne {} exRun).events.filter (resultFor t.name id) = [Ev.op "apply" t.name id st r] ∧
      (st = "Successful" ∨ st = "Skipped" ∨ st = "Failed")) ∧
    (∀ ids, t.kind = .prune ids → ∀ id ∈ ids, ∃ st r,
      (runOne {} exRun).events.filter (resultFor t.name id) = [Ev.op (if exRun.destroy then "delete" else "prune") t.name id st r] ∧
      (st = "Successful" ∨ st = "Skipped" ∨ st = "Failed")) :=
  completed_run_every_object_reported {} exRun ((noErrorB_iff _).mp (by decide))

/-- "no error event" is needed: the cancelled run of `Props/C02R.lean` stops after its apply task; the prune task and the final
inventory task of its plan have no group event -/
example : noErrorB (runOne CliUtils.Props.C05.exCl CliUtils.Props.C12.exCancel).events = false ∧
    (runOne CliUtils.Props.C05.exCl CliUtils.Props.C12.exCancel).events.reverse.filter isGroupEv =
      [.group "inventory-add-0" "Inventory" "Started", .group "inventory-add-0" "Inventory" "Finished",
       .group "apply-0" "Apply" "Started", .group "apply-0" "Apply" "Finished"] ∧
    (runPlan CliUtils.Props.C05.exCl CliUtils.Props.C12.exCancel).map (fun p => p.tasks.map (·.name)) =
      some ["inventory-add-0", "apply-0", "wait-0", "prune-0", "wait-1", "inventory-set-0"] := by decide
end Examples

end CliUtils.Props.C13

/-! # C10 -/
namespace CliUtils.Props.C10
open CliUtils CliUtils.Sys CliUtils.RunCorL CliUtils.Props.C02 CliUtils.Props.C13

/-- **dry_run_events_cover_plan** — clause "a dry-run changes nothing, but its events still cover every object of the plan".

For a dry-run (client or server) whose stream contains no error event: for every apply / prune task of the run's plan and every object of
it there is exactly one result event for that object naming that group, with a result — the conclusion of
`C13.completed_run_every_object_reported`, which holds for every run. (That the store is unchanged is `run_dry_changes_nothing`.) -/
theorem dry_run_events_cover_plan (c : Cluster) (run : Run) (_hdry : run.opts.dry ≠ .none) (hne : NoError (runOne c run).events) :
    ∃ plan, runPlan c run = some plan ∧ ∀ t ∈ plan.tasks,
      (∀ ids, t.kind = .apply ids → ∀ id ∈ ids, ∃ st r,
        (runOne c run).events.filter (resultFor t.name id) = [Ev.op "apply" t.name id st r] ∧
        (st = "Successful" ∨ st = "Skipped" ∨ st = "Failed")) ∧
      (∀ ids, t.kind = .prune ids → ∀ id ∈ ids, ∃ st r,
        (runOne c run).events.filter (resultFor t.name id) = [Ev.op (if run.destroy then "delete" else "prune") t.name id st r] ∧
        (st = "Successful" ∨ st = "Skipped" ∨ st = "Failed")) :=
  completed_run_every_object_reported c run hne

/-! ### non-vacuity: the run of `Props/C13G.lean` under client dry-run — nothing is stored, both objects are reported -/
section Examples
open CliUtils.Props.C03

def exDryRun : Run := { exRun with opts := { dry := .client } }

example : noErrorB (runOne {} exDryRun).events = true ∧ (runOne {} exDryRun).cl.objs = [] ∧ (runOne {} exDryRun).cl.inv = none ∧
    (runOne {} exDryRun).events.reverse.filterMap opKey = [("apply", "apply-0", nsX), ("apply", "apply-1", cmA)] ∧
    (runOne {} exDryRun).events.filter (resultFor "apply-0" nsX) = [.op "apply" "apply-0" nsX "Successful" ""] := by decide

example : ∃ plan, runPlan {} exDryRun = some plan ∧ ∀ t ∈ plan.tasks,
    (∀ ids, t.kind = .apply ids → ∀ id ∈ ids, ∃ st r,
      (runOne {} exDryRun).events.filter (resultFor t.name id) = [Ev.op "apply" t.name id st r] ∧
      (st = "Successful" ∨ st = "Skipped" ∨ st = "Failed")) ∧
    (∀ ids, t.kind = .prune ids → ∀ id ∈ ids, ∃ st r,
      (runOne {} exDryRun).events.filter (resultFor t.name id) =
        [Ev.op (if exDryRun.destroy then "delete" else "prune") t.name id st r] ∧
      (st = "Successful" ∨ st = "Skipped" ∨ st = "Failed")) :=
  dry_run_events_cover_plan {} exDryRun (by decide) ((noErrorB_iff _).mp (by decide))
end Examples

end CliUtils.Props.C10

/-! # C02 -/
namespace CliUtils.Props.C02
open CliUtils CliUtils.Sys CliUtils.RunCorL CliUtils.FinalL CliUtils.ConvergeL CliUtils.Props.C13 CliUtils.Props.C03 CliUtils.Props.C01

/-- **abandoned_leave_inventory** — clause "an object spared because of a deletion-prevention annotation (or because the run itself
just applied it) is abandoned: it leaves the inventory".

Outside dry-run, after a run without error event, no abandoned id is in the stored inventory. (Stronger than asked: the hypothesis
"not a destroy judged successful" is not needed — such a destroy deletes the inventory object, `RunCorL.destroy_success_inv_none`, and
`getD []` of a missing inventory is empty.)

An abandoned id is an id of a prune task, hence a valid prune candidate (`RunCorL.run_ab_invalid`), hence not invalid: the only summand
of the inventory formula that survives the subtraction of the abandoned set — tracked invalid ids — cannot contain it. -/
theorem abandoned_leave_inventory (c : Cluster) (run : Run) (hd : run.opts.dry = .none) (hne : NoError (runOne c run).events) :
    ∀ id ∈ (runOne c run).abandoned, id ∉ (runOne c run).cl.inv.getD [] := by
  intro id hab hin
  by_cases hnd : run.destroy = true ∧
      destroySuccessful (runOne c run).mgr (c.inv.getD []) (runOne c run).abandoned (runOne c run).invalid = true
  · rw [destroy_success_inv_none c run hd hne hnd.1 hnd.2] at hin
    cases hin
  · rcases (completed_run_inventory_mem c run hd hne hnd id).mp hin with ⟨_, h⟩ | ⟨_, hinv⟩
    · exact h hab
    · cases hp : runPlanObjs c run with
      | none =>
        obtain ⟨s, k, he⟩ := runOne_of_noPlan c run hp
        rw [he] at hne
        exact absurd rfl (hne _ (by simp) k)
      | some pp =>
        obtain ⟨plan, P⟩ := pp
        rcases runOne_of_plan c run plan P hp with ⟨s, k, he⟩ | heq
        · rw [he] at hne
          exact absurd rfl (hne _ (by simp) k)
        · obtain ⟨h1, h2⟩ := run_ab_invalid c run hd plan P hp heq
          rw [h1] at hinv
          exact (runPlan_pruneIds c run plan (by simp [runPlan, hp]) id (h2 id hab)).2.2.2 hinv

/-- **spared_stay_in_inventory** — clause "an object whose deletion was skipped (inventory policy, namespace in use, dependents) or
failed stays in the inventory".

Outside dry-run, after a run without error event that is not a destroy judged successful: an id whose final record in the actuation
table is a delete record with actuation skipped or failed, and that is not abandoned, is in the stored inventory. (That the id was tracked
before the run need not be assumed: delete records only exist for prune candidates, which are read from the stored inventory.) -/
theorem spared_stay_in_inventory (c : Cluster) (run : Run) (hd : run.opts.dry = .none) (hne : NoError (runOne c run).events)
    (hnd : ¬ (run.destroy = true ∧
      destroySuccessful (runOne c run).mgr (c.inv.getD []) (runOne c run).abandoned (runOne c run).invalid = true))
    (id : Id) (r : Rec Id) (hr : (runOne c run).mgr.find? id = some r) (hs : r.strategy = .delete)
    (ha : r.actuation = .skipped ∨ r.actuation = .failed) (hab : id ∉ (runOne c run).abandoned) :
    id ∈ (runOne c run).cl.inv.getD [] := by
  have hprev : id ∈ c.inv.getD [] := by
    rcases run_book c run hd with ⟨s, k, he, _⟩ | ⟨plan, P, hpl, x, _, _, _, hxP, _, hB⟩
    · rw [he] at hne
      exact absurd rfl (hne _ (by simp) k)
    · obtain ⟨hm, hid⟩ := find_mem _ _ _ hr
      obtain ⟨l, hl, hlid⟩ := hB.recP r hm hs
      rw [hxP] at hl
      obtain ⟨hg, _⟩ := runPlanObjs_some c run plan P hpl
      have := (CliUtils.ProvL.getPruneObjs_mem _ _ P hg l hl).1
      rw [CliUtils.ProvL.startSt_inv] at this
      rw [← hid, ← hlid]; exact this
  have hret : Retained (runOne c run).mgr id := by
    have hact := find_withActuation _ _ _ hr
    rw [hs] at hact
    rcases ha with ha | ha
    · rw [ha] at hact; exact Or.inr (Or.inr (Or.inr (Or.inl hact)))
    · rw [ha] at hact; exact Or.inr (Or.inr (Or.inl hact))
  exact (completed_run_inventory_mem c run hd hne hnd id).mpr (Or.inl ⟨Or.inr ⟨hprev, hret⟩, hab⟩)

/-- **prevented_objects_abandoned_in_run** — clause "an object spared because of a deletion-prevention annotation loses the
owning-inventory annotation and is abandoned", for the rest of the run (step level: `prevented_is_abandoned`).

Outside dry-run, at EVERY exit of a run (with or without error event): every accepted annotation removal of the request log — an
`update` request that is not for the inventory object and was answered `ok`: exactly the request of the deletion-prevention branch of
`Pruner.Prune` — is for an id that is in the final abandoned set: the abandoned set only grows. Hence (`abandoned_leave_inventory`) after
a run without error event the object is not in the stored inventory, and (`abandoned_objects_unannotated`) it is still un-annotated. -/
theorem prevented_objects_abandoned_in_run (c : Cluster) (run : Run) (hd : run.opts.dry = .none) :
    ∀ m ∈ (runOne c run).muts, m.verb = "update" → m.id ≠ invObjId → m.result = "ok" → m.id ∈ (runOne c run).abandoned :=
  fun m hm h1 h2 h3 => run_removals_abandoned c run hd m hm ⟨h1, h2, h3⟩

/-- **abandoned_objects_unannotated** — the run-level half of the clause "an object spared because of a deletion-prevention annotation
loses the owning-inventory annotation and is abandoned" (step level: `prevented_is_abandoned`): at the END of a run without error event,
no stored object named by an abandoned id carries this inventory's annotation — nothing re-annotated it.

Hypotheses as for `C01.no_orphan_run` / `C03.destroy_leaves_nothing` (the invariant `FinalL.G` is used): outside dry-run, an orphan-free
well-formed store, the inventory namespace (if it is applied) exists, annotated objects are of known kinds or in the apply set, and
the delete-wait scripts are the harness's. -/
theorem abandoned_objects_unannotated (c : Cluster) (run : Run) (h0 : NoOrphanCl c) (hwf : StoreWF c) (hd : run.opts.dry = .none)
    (hns : run.destroy = false → (∃ m ∈ run.objs, m.id = nsInv) → ∃ o ∈ (startStore c run).objs, o.id = nsInv)
    (hk : ∀ o ∈ (startStore c run).objs, o.owner = invId →
      (scopeOf o.id.group o.id.kind).isSome ∨ (run.destroy = false ∧ ∃ m ∈ run.objs, m.id = o.id))
    (hdel : DelScriptsOK run) (hne : NoError (runOne c run).events) :
    ∀ X ∈ (runOne c run).abandoned, ∀ o ∈ (runOne c run).cl.objs, o.id = X → o.owner ≠ invId := by
  refine run_plan c run h0 hwf hd hns hk hdel
    (fun final => NoError final.events → ∀ X ∈ final.abandoned, ∀ o ∈ final.cl.objs, o.id = X → o.owner ≠ invId) ?_ ?_ hne
  · intro s k hne'
    exact absurd rfl (hne' _ (by simp) k)
  · intro x ns s' prev pe _ _ _ _ _ hg hne'
    obtain ⟨_, heq⟩ := runTasks_final_noError x.P ns s' _ prev pe hne'
    rw [heq]
    have f := CliUtils.HistoryL.runInvSet_objsFrame
      (s'.emit (.group (if run.destroy then "inventory-delete-or-update-0" else "inventory-set-0") "Inventory" "Started")) prev pe
    simp only [emit_abandoned, emit_cl]
    rw [f.ab, f.objs]
    exact fun X hX => (hg.ab X hX).2

/-! ### non-vacuity: a tracked ConfigMap with the `on-remove: keep` annotation is no longer in the apply set -/
section Examples
open CliUtils.Props.C05

def exKeepCl : Cluster :=
  { objs := [{ id := cmA, uid := "u2", gen := 1, owner := invId, keep := true }, liveNs], inv := some [cmA, nsX], invUid := "u0", nextUid := 2 }
def exKeepRun : Run := { destroy := false, objs := [{ id := nsX }], opts := { timeout := true } }

-- the annotation is removed with an update request, the object is abandoned: it loses the annotation and leaves the inventory
example : noErrorB (runOne exKeepCl exKeepRun).events = true ∧ (runOne exKeepCl exKeepRun).abandoned = [cmA] ∧
    (runOne exKeepCl exKeepRun).cl.inv = some [nsX] ∧
    (runOne exKeepCl exKeepRun).muts.map (fun m => (m.verb, m.id)) =
      [("update", invObjId), ("update", cmA), ("patch", nsX), ("update", invObjId)] ∧
    (runOne exKeepCl exKeepRun).cl.objs.map (fun o => (o.id, o.owner)) = [(cmA, ""), (nsX, invId)] := by decide

example : (runOne exKeepCl exKeepRun).muts.map (fun m => (m.verb, m.id, m.result)) =
    [("update", invObjId, "ok"), ("update", cmA, "ok"), ("patch", nsX, "ok"), ("update", invObjId, "ok")] := by decide
example : ∀ m ∈ (runOne exKeepCl exKeepRun).muts, m.verb = "update" → m.id ≠ invObjId → m.result = "ok" →
    m.id ∈ (runOne exKeepCl exKeepRun).abandoned := prevented_objects_abandoned_in_run exKeepCl exKeepRun rfl

example : ∀ id ∈ (runOne exKeepCl exKeepRun).abandoned, id ∉ (runOne exKeepCl exKeepRun).cl.inv.getD [] :=
  abandoned_leave_inventory exKeepCl exKeepRun rfl ((noErrorB_iff _).mp (by decide))

-- … and at the end of the run it still carries no annotation
example : ∀ X ∈ (runOne exKeepCl exKeepRun).abandoned, ∀ o ∈ (runOne exKeepCl exKeepRun).cl.objs, o.id = X → o.owner ≠ invId := by
  refine abandoned_objects_unannotated exKeepCl exKeepRun ((orphanFreeB_iff exKeepCl).mp (by decide)) ?_ rfl ?_ ?_ ?_
    ((noErrorB_iff _).mp (by decide))
  · refine ⟨?_, ?_, ?_⟩
    · intro o ho o' ho' hid
      simp only [exKeepCl, List.mem_cons, List.not_mem_nil, or_false] at ho ho'
      rcases ho with rfl | rfl <;> rcases ho' with rfl | rfl <;> first | rfl | (exfalso; revert hid; decide)
    · intro o ho o' ho' hid
      simp only [exKeepCl, List.mem_cons, List.not_mem_nil, or_false] at ho ho'
      rcases ho with rfl | rfl <;> rcases ho' with rfl | rfl <;> first | rfl | (exfalso; revert hid; decide)
    · intro o ho k _
      simp only [exKeepCl, List.mem_cons, List.not_mem_nil, or_false] at ho
      rcases ho with rfl | rfl <;> exact uidOf_ne _ (by decide) k
  · intro _ ⟨m, hm, hid⟩
    simp only [exKeepRun, List.mem_cons, List.not_mem_nil, or_false] at hm
    subst hm
    revert hid; decide
  · intro o ho _
    have : startStore exKeepCl exKeepRun = exKeepCl := rfl
    rw [this] at ho
    simp only [exKeepCl, List.mem_cons, List.not_mem_nil, or_false] at ho
    rcases ho with rfl | rfl <;> exact Or.inl (by decide)
  · intro id v h
    simp [exKeepRun] at h

/-- the destroy of `Props/C04R.lean` with the ConfigMap held by a finalizer that never completes: its delete wait times out, the
Namespace it lives in is skipped (dependent not gone) — both stay in the inventory -/
def exBlocked : Run := { exDestroy with del := [(cmA, "finalizer")] }

example : noErrorB (runOne exCl exBlocked).events = true ∧
    (runOne exCl exBlocked).mgr.map (fun r => (r.id, r.strategy, r.actuation, r.reconcile)) =
      [(cmA, .delete, .succeeded, .timeout), (nsX, .delete, .skipped, .skipped)] ∧
    (runOne exCl exBlocked).cl.inv = some [cmA, nsX] ∧
    destroySuccessful (runOne exCl exBlocked).mgr (exCl.inv.getD []) (runOne exCl exBlocked).abandoned (runOne exCl exBlocked).invalid = false := by
  decide

example : nsX ∈ (runOne exCl exBlocked).cl.inv.getD [] :=
  spared_stay_in_inventory exCl exBlocked rfl ((noErrorB_iff _).mp (by decide)) (by decide) nsX
    { id := nsX, strategy := .delete, actuation := .skipped, reconcile := .skipped } (by decide) rfl (Or.inl rfl) (by decide)
end Examples

end CliUtils.Props.C02

/-! # C05 -/
namespace CliUtils.Props.C05
open CliUtils CliUtils.Sys CliUtils.RunCorL CliUtils.FinalL CliUtils.ConvergeL CliUtils.Props.C13 CliUtils.Props.C02

/-- **blocked_dependency_stays** — clause "a dependency outlives its dependents: while an object that depends on `d` has not been
deleted and observed gone (its delete failed, was skipped, timed out, or it is being applied), `d` is not deleted and stays in the
inventory".

Outside dry-run, after a run without error event. Let `d ≠` the inventory object's id be a valid prune candidate of the run's plan and
let `x` be a dependent of `d` in the run's graph (`x ∈ dependentsOrdered s.edges d`: every source of an edge into `d`, apply set and
stored inventory alike). If the FINAL record of `x` in the actuation table is not (delete, succeeded, reconcile succeeded) — in
particular if `x` has no record, an apply record, a skipped / failed delete, or a delete whose wait failed or timed out — then

* no delete request for `d` is in the request log of the run, and
* if the run is not a destroy judged successful and `d` was not abandoned, `d` is in the stored inventory.

The literal "`d` is in the stored inventory" is FALSE without "`d` was not abandoned": the deletion-prevention filter runs before the
dependency filter, so a `d` carrying `on-remove: keep` is abandoned (and leaves the inventory) whatever its dependents do — see the
example below. `d ≠ invObjId` is needed only because the request log cannot tell a delete of a tracked object with that id from the
delete of the inventory object itself.

Proof: `RunCorL.run_delete_book` — when a delete request for `d` was sent, every dependent had the record (delete, succeeded,
succeeded) (`C05.delete_gate`), and such a record is never written again (each object is pruned by one task and waited for by one
task). Without a request `d`'s record is a skipped or failed delete (a successful one means a request), which retains it
(`C02.spared_stay_in_inventory`). -/
theorem blocked_dependency_stays (c : Cluster) (run : Run) (hd : run.opts.dry = .none) (hne : NoError (runOne c run).events)
    (plan : Plan) (hp : runPlan c run = some plan) (d x : Id) (hdp : d ∈ plan.pruneIds) (hdi : d ≠ invObjId)
    (hx : x ∈ dependentsOrdered (runOne c run).edges d)
    (hblock : ∀ r, (runOne c run).mgr.find? x = some r →
      ¬ (r.strategy = .delete ∧ r.actuation = .succeeded ∧ r.reconcile = .succeeded)) :
    (∀ m ∈ (runOne c run).muts, m.verb = "delete" → m.id ≠ d) ∧
    (¬ (run.destroy = true ∧
        destroySuccessful (runOne c run).mgr (c.inv.getD []) (runOne c run).abandoned (runOne c run).invalid = true) →
      d ∉ (runOne c run).abandoned → d ∈ (runOne c run).cl.inv.getD []) := by
  obtain ⟨plan', P, hpl, hedges, hdep, hreq, hdone, _⟩ := run_delete_book c run hd hne
  have hpe : plan' = plan := by
    have : runPlan c run = some plan' := by simp [runPlan, hpl]
    rw [hp] at this
    injection this with this
    exact this.symm
  subst hpe
  have hnoreq : ∀ m ∈ (runOne c run).muts, m.verb = "delete" → m.id ≠ d := by
    intro m hm hv hmd
    rw [hedges] at hx
    obtain ⟨r, hr, h1, h2, h3⟩ := hdep m hm hv (by rw [hmd]; exact hdi) x (by rw [hmd]; exact hx)
    exact hblock r hr ⟨h1, h2, h3⟩
  refine ⟨hnoreq, ?_⟩
  intro hnd hab
  obtain ⟨r, hr, hs, hnp⟩ := hdone d hdp
  have hns : r.actuation ≠ .succeeded := by
    intro ha
    obtain ⟨m, hm, hv, hid⟩ := hreq d r hr hs ha
    exact hnoreq m hm hv hid
  have ha : r.actuation = .skipped ∨ r.actuation = .failed := by
    cases hact : r.actuation with
    | pending => exact absurd hact hnp
    | succeeded => exact absurd hact hns
    | skipped => exact Or.inl rfl
    | failed => exact Or.inr rfl
  exact spared_stay_in_inventory c run hd hne hnd d r hr hs ha hab

/-- … in particular when the dependent is (still) a valid object of the apply set: it is registered with an apply record, which blocks
the delete of everything it depends on -/
theorem dependency_of_applied_object_stays (c : Cluster) (run : Run) (hd : run.opts.dry = .none) (hne : NoError (runOne c run).events)
    (plan : Plan) (hp : runPlan c run = some plan) (d x : Id) (hdp : d ∈ plan.pruneIds) (hdi : d ≠ invObjId)
    (hx : x ∈ dependentsOrdered (runOne c run).edges d) (hxa : x ∈ plan.applyIds) :
    (∀ m ∈ (runOne c run).muts, m.verb = "delete" → m.id ≠ d) ∧
    (¬ (run.destroy = true ∧
        destroySuccessful (runOne c run).mgr (c.inv.getD []) (runOne c run).abandoned (runOne c run).invalid = true) →
      d ∉ (runOne c run).abandoned → d ∈ (runOne c run).cl.inv.getD []) := by
  refine blocked_dependency_stays c run hd hne plan hp d x hdp hdi hx ?_
  intro r hr ⟨hs, _, _⟩
  rcases run_book c run hd with ⟨s, k, he, _⟩ | ⟨plan', P, hpl, x', hx', _, hxA, _, _, hB⟩
  · rw [he] at hne
    exact absurd rfl (hne _ (by simp) k)
  · have hpe : plan' = plan := by
      have : runPlan c run = some plan' := by simp [runPlan, hpl]
      rw [hp] at this
      injection this with this
      exact this.symm
    subst hpe
    obtain ⟨hm, hid⟩ := find_mem _ _ _ hr
    obtain ⟨l, hl, hlid⟩ := hB.recP r hm hs
    exact hx'.disj x (by rw [hxA]; exact hxa) l hl (hlid.trans hid)

/-! ### non-vacuity -/
section Examples
open CliUtils.Props.C03

-- the destroy `C02.exBlocked`: the ConfigMap is held by a finalizer, its delete wait times out; the Namespace it lives in …
example : dependentsOrdered (runOne exCl exBlocked).edges nsX = [cmA] ∧
    ((runOne exCl exBlocked).mgr.find? cmA).map (fun r => (r.strategy, r.actuation, r.reconcile)) = some (.delete, .succeeded, .timeout) ∧
    (runPlan exCl exBlocked).map (·.pruneIds) = some [cmA, nsX] := by decide
-- … is not deleted and stays in the inventory
example : (∀ m ∈ (runOne exCl exBlocked).muts, m.verb = "delete" → m.id ≠ nsX) ∧ nsX ∈ (runOne exCl exBlocked).cl.inv.getD [] := by
  obtain ⟨plan, hp⟩ : ∃ plan, runPlan exCl exBlocked = some plan := ⟨_, rfl⟩
  have h := blocked_dependency_stays exCl exBlocked rfl ((noErrorB_iff _).mp (by decide)) plan hp nsX cmA
    (by have : (runPlan exCl exBlocked).map (·.pruneIds) = some [cmA, nsX] := by decide
        rw [hp] at this; simp only [Option.map_some, Option.some.injEq] at this; rw [this]; decide)
    (by decide) (by decide)
    (by
      intro r hr ⟨_, _, h3⟩
      have hrc : ((runOne exCl exBlocked).mgr.find? cmA).map (·.reconcile) = some .timeout := by decide
      rw [hr] at hrc
      simp only [Option.map_some, Option.some.injEq] at hrc
      rw [hrc] at h3
      cases h3)
  exact ⟨h.1, h.2 (by decide) (by decide)⟩
example : (runOne exCl exBlocked).muts.map (fun m => (m.verb, m.id)) = [("delete", cmA)] := by decide

/-- "`d` was not abandoned" is needed for the second conclusion: here the Namespace carries `on-remove: keep`; its dependent is not
gone, no delete request is sent for it — but the deletion-prevention filter comes first: the Namespace is abandoned and leaves the
inventory -/
def exClKeepNs : Cluster := { exCl with objs := [{ liveNs with keep := true }, liveCm] }
example : noErrorB (runOne exClKeepNs exBlocked).events = true ∧ (runOne exClKeepNs exBlocked).abandoned = [nsX] ∧
    (runOne exClKeepNs exBlocked).cl.inv = some [cmA] ∧
    (runOne exClKeepNs exBlocked).muts.map (fun m => (m.verb, m.id)) = [("update", invObjId), ("update", nsX), ("delete", cmA)] := by decide
end Examples

end CliUtils.Props.C05

/-! # C11 -/
namespace CliUtils.Props.C11
open CliUtils CliUtils.Sys CliUtils.RunCorL CliUtils.Props.C13 CliUtils.Props.C02 CliUtils.Props.C03

/-- **tracked_invalid_stay_and_untouched** — clause "with the skip-invalid policy an invalid object that is tracked stays in the
inventory and is not touched".

Outside dry-run, after a run without error event that is not a destroy judged successful: every id of `plan.invalid` that was in the
stored inventory before the run is in the stored inventory afterwards, and (unless it is the id of the inventory object itself) no request
of the run is for it. `run.opts.skipInvalid = true` need not be assumed: under the exit-early policy a run with an invalid object ends
with an error event (`C11.exit_early_no_mutation`), so the statement is about skip-invalid runs only. -/
theorem tracked_invalid_stay_and_untouched (c : Cluster) (run : Run) (hd : run.opts.dry = .none) (hne : NoError (runOne c run).events)
    (hnd : ¬ (run.destroy = true ∧
      destroySuccessful (runOne c run).mgr (c.inv.getD []) (runOne c run).abandoned (runOne c run).invalid = true)) :
    ∃ plan, runPlan c run = some plan ∧ (runOne c run).invalid = plan.invalid ∧
      ∀ id ∈ plan.invalid, id ∈ c.inv.getD [] →
        id ∈ (runOne c run).cl.inv.getD [] ∧ (id ≠ invObjId → ∀ m ∈ (runOne c run).muts, m.id ≠ id) := by
  cases hp : runPlanObjs c run with
  | none =>
    obtain ⟨s, k, he⟩ := runOne_of_noPlan c run hp
    rw [he] at hne
    exact absurd rfl (hne _ (by simp) k)
  | some pp =>
    obtain ⟨plan, P⟩ := pp
    rcases runOne_of_plan c run plan P hp with ⟨s, k, he⟩ | heq
    · rw [he] at hne
      exact absurd rfl (hne _ (by simp) k)
    · obtain ⟨h1, _⟩ := run_ab_invalid c run hd plan P hp heq
      have hrp : runPlan c run = some plan := by simp [runPlan, hp]
      refine ⟨plan, hrp, h1, ?_⟩
      intro id hinv hprev
      refine ⟨(completed_run_inventory_mem c run hd hne hnd id).mpr (Or.inr ⟨hprev, by rw [h1]; exact hinv⟩), ?_⟩
      intro hne' m hm hmid
      obtain ⟨plan', hp', hv⟩ := invalid_never_sent c run m hm (by rw [hmid]; exact hne')
      rw [hrp] at hp'
      injection hp' with hp'
      subst hp'
      exact hv (by rw [hmid]; exact hinv)

/-- **invalid_not_added** — clause "an invalid object that is not tracked is not added to the inventory".

After ANY run (dry or not, with or without error event, whatever fails or is cancelled): an id of `plan.invalid` that was not in the stored
inventory before the run is not in the stored inventory afterwards. The inventory-add task stores the previous ids and the valid apply
ids (`C11.merged_ids_valid`), the final task the inventory formula, whose members are successfully applied (hence valid) ids and previous
ids (`C03.final_inventory_sub`); nothing else writes the inventory (`RunCorL.run_inv_sub`). -/
theorem invalid_not_added (c : Cluster) (run : Run) (plan : Plan) (hp : runPlan c run = some plan) (id : Id) (hinv : id ∈ plan.invalid)
    (hprev : id ∉ c.inv.getD []) : id ∉ (runOne c run).cl.inv.getD [] := by
  intro hin
  cases hl : (runOne c run).cl.inv with
  | none => rw [hl] at hin; cases hin
  | some l =>
    rw [hl] at hin
    rcases run_inv_sub c run l hl id hin with h | ⟨plan', hp', h⟩
    · exact hprev h
    · rw [hp] at hp'
      injection hp' with hp'
      subst hp'
      exact (runPlan_applyIds c run plan hp id h).2.2 hinv

/-! ### non-vacuity: the mixed run of `Props/C02R.lean` (a ConfigMap without namespace fails field validation, skip-invalid) -/
section Examples
open CliUtils.Props.C05

-- over a store whose inventory tracks the invalid object: it stays, and nothing is sent for it
def exClBad : Cluster := { exCl with inv := some [cmA, nsX, badId] }

example : noErrorB (runOne exClBad exMixed).events = true ∧ (runPlan exClBad exMixed).map (·.invalid) = some [badId] ∧
    (runOne exClBad exMixed).cl.inv = some [nsX, badId] ∧
    (runOne exClBad exMixed).muts.map (fun m => (m.verb, m.id)) =
      [("update", invObjId), ("delete", cmA), ("patch", nsX), ("update", invObjId)] := by decide

example : ∃ plan, runPlan exClBad exMixed = some plan ∧ (runOne exClBad exMixed).invalid = plan.invalid ∧
    ∀ id ∈ plan.invalid, id ∈ exClBad.inv.getD [] →
      id ∈ (runOne exClBad exMixed).cl.inv.getD [] ∧ (id ≠ invObjId → ∀ m ∈ (runOne exClBad exMixed).muts, m.id ≠ id) :=
  tracked_invalid_stay_and_untouched exClBad exMixed rfl ((noErrorB_iff _).mp (by decide)) (by decide)

-- over the store of `Props/C04R.lean`, which does not track it: it is not added — also when the run is cancelled half-way
example : (runOne exCl exMixed).cl.inv = some [nsX] ∧ (runOne exCl CliUtils.Props.C12.exCancel).cl.inv = some [cmA, nsX] := by decide

example : badId ∉ (runOne exCl CliUtils.Props.C12.exCancel).cl.inv.getD [] := by
  obtain ⟨plan, hp⟩ : ∃ plan, runPlan exCl CliUtils.Props.C12.exCancel = some plan := ⟨_, rfl⟩
  refine invalid_not_added exCl CliUtils.Props.C12.exCancel plan hp badId ?_ (by decide)
  have : (runPlan exCl CliUtils.Props.C12.exCancel).map (·.invalid) = some [badId] := by decide
  rw [hp] at this
  simp only [Option.map_some, Option.some.injEq] at this
  rw [this]; decide
end Examples

end CliUtils.Props.C11
