import CliUtils.Model.Status
import CliUtils.Spec.Status
import CliUtils.Lemmas.StatusGeneric
import CliUtils.Lemmas.StatusShape
import CliUtils.Lemmas.StatusKinds
/-
  C08 — built-in kinds are Current exactly when their status shows the rollout complete.
  The rollout predicates (`Spec.KStatus.deploymentRolledOut`, `stsRolledOut`, …, `failureEvidence`, `lagging`) are written
  from the API semantics over unbounded `Int` field values, independently of the rule functions of `Model.Status`; the
  theorems say that the model of each rule returns Current exactly when the predicate holds, Failed exactly on failure
  evidence, InProgress otherwise — for every JSON tree without generic signal, every clock bit.
  `kubectl*` are transcriptions of kubectl's rollout-status viewers (tied to the real viewers by the `kubectl` domain).
-/
namespace CliUtils.Props.C08
open CliUtils CliUtils.J CliUtils.KStatus CliUtils.Spec.KStatus

/-- the general statement, for every built-in kind `k` (any key that `legacyTypes` maps to `k`): without generic signal
the computed status is Current iff the kind's rollout predicate holds (and there is no failure evidence), Failed iff
there is failure evidence — hence InProgress in every other case -/
theorem current_iff_rolledOut (key : String) (k : Kind) (w : Bool) (o : J) (r : Result)
    (hk : legacy key = some k) (hn : noGenericSignal o = true) (h : computeK key w o = .ok r) :
    (r.status = .current ↔ rolledOut k o = true ∧ failureEvidence k w o = false) ∧
    (r.status = .failed ↔ failureEvidence k w o = true) ∧
    (r.status = .inProgress ↔ ¬ (rolledOut k o = true ∧ failureEvidence k w o = false) ∧ failureEvidence k w o = false) := by
  rw [computeK_of_noGeneric key k w o hn hk] at h
  obtain ⟨h1, h2⟩ := kind_iff k w o r hn h
  refine ⟨h1, h2, ?_⟩
  have hsh := kindFn_shaped k w o r h
  constructor
  · intro hi
    refine ⟨fun hc => ?_, ?_⟩
    · have := h1.2 hc; rw [hi] at this; cases this
    · cases hf : failureEvidence k w o with
      | false => rfl
      | true => have := h2.2 hf; rw [hi] at this; cases this
  · rintro ⟨hnc, hnf⟩
    rcases hsh with ⟨hs, _⟩ | ⟨hs, _⟩ | ⟨hs, _⟩ | ⟨hs, _⟩
    · exact hs
    · have := h2.1 hs; rw [hnf] at this; cases this
    · exact absurd (h1.1 hs) hnc
    · exact absurd hs (kindFn_not_terminating k w o r h)

/-- the executable C08 predicate (the one the driver evaluates on the implementation's status) holds of every result of
the model, for every key, object and clock bit -/
theorem c08_holds (key : String) (w : Bool) (o : J) (r : Result) (h : computeK key w o = .ok r) :
    c08Holds key w o r.status = true := by
  unfold c08Holds
  cases hk : legacy key with
  | none => rfl
  | some k =>
    simp only []
    cases hn : noGenericSignal o with
    | false => simp
    | true =>
      rw [computeK_of_noGeneric key k w o hn hk] at h
      obtain ⟨h1, h2⟩ := kind_iff k w o r hn h
      simp only [if_true, Bool.and_eq_true, beq_iff_eq, Bool.or_eq_true, Bool.not_eq_true', decide_eq_true_eq]
      refine ⟨⟨?_, ?_⟩, ?_⟩
      · by_cases hc : r.status = .current
        · have := h1.1 hc; simp [hc, this.1, this.2]
        · have : ¬ (rolledOut k o = true ∧ failureEvidence k w o = false) := fun hx => hc (h1.2 hx)
          cases hr : rolledOut k o <;> cases hf : failureEvidence k w o <;> simp_all
      · by_cases hc : r.status = .failed
        · simp [hc, h2.1 hc]
        · cases hf : failureEvidence k w o with
          | false => simp [hc]
          | true => exact absurd (h2.2 hf) hc
      · cases hl : lagging k o with
        | false => left; rfl
        | true =>
          right
          intro hc
          have := (h1.1 hc).1
          rw [lagging_not_rolledOut k o hl] at this
          cases this

/-- a workload is never Current while any replica count lags its desired count
(Deployment, StatefulSet, DaemonSet, ReplicaSet; see `Spec.KStatus.lagging` for the counts of each kind) -/
theorem never_current_while_lagging (key : String) (k : Kind) (w : Bool) (o : J) (r : Result)
    (hk : legacy key = some k) (hn : noGenericSignal o = true) (h : computeK key w o = .ok r)
    (hl : lagging k o = true) : r.status ≠ .current := by
  intro hc
  have := ((current_iff_rolledOut key k w o r hk hn h).1.1 hc).1
  rw [lagging_not_rolledOut k o hl] at this
  cases this

/-! ### the per-kind instances (the dispatch keys are the ones of `legacyTypes`) -/

/-- Deployment: Current iff all desired replicas are updated, available and ready, none surplus, Available=True and the
new ReplicaSet is reported complete (or no deadline applies); Failed iff a Progressing condition says ProgressDeadlineExceeded -/
theorem deployment_current_iff (w : Bool) (o : J) (r : Result) (hn : noGenericSignal o = true)
    (h : computeK "apps/Deployment" w o = .ok r) :
    (r.status = .current ↔ deploymentRolledOut o = true) ∧ (r.status = .failed ↔ deploymentFailed o = true) := by
  rw [computeK_of_noGeneric "apps/Deployment" .deployment w o hn rfl] at h
  exact deployment_iff o r hn h

/-- StatefulSet: Current iff OnDelete, or the desired replicas exist and are ready and the (partitioned) update is
complete; never Failed -/
theorem sts_current_iff (w : Bool) (o : J) (r : Result) (hn : noGenericSignal o = true)
    (h : computeK "apps/StatefulSet" w o = .ok r) :
    (r.status = .current ↔ stsRolledOut o = true) ∧ r.status ≠ .failed := by
  rw [computeK_of_noGeneric "apps/StatefulSet" .sts w o hn rfl] at h
  have := sts_iff o r h
  exact ⟨this.1, fun hf => this.2.1 hf⟩

/-- DaemonSet: Current iff both generations and the desired number are reported and the scheduled, updated, available
and ready numbers have reached it; never Failed -/
theorem ds_current_iff (w : Bool) (o : J) (r : Result) (hn : noGenericSignal o = true)
    (h : computeK "apps/DaemonSet" w o = .ok r) :
    (r.status = .current ↔ dsRolledOut o = true) ∧ r.status ≠ .failed := by
  rw [computeK_of_noGeneric "apps/DaemonSet" .ds w o hn rfl] at h
  have := ds_iff o r h
  exact ⟨this.1, fun hf => this.2.1 hf⟩

/-- ReplicaSet: Current iff no ReplicaFailure and the desired replicas are labelled, available and ready, none surplus;
never Failed -/
theorem rs_current_iff (w : Bool) (o : J) (r : Result) (hn : noGenericSignal o = true)
    (h : computeK "apps/ReplicaSet" w o = .ok r) :
    (r.status = .current ↔ rsRolledOut o = true) ∧ r.status ≠ .failed := by
  rw [computeK_of_noGeneric "apps/ReplicaSet" .rs w o hn rfl] at h
  have := rs_iff o r hn h
  exact ⟨this.1, fun hf => this.2.1 hf⟩

/-- Pod: Current iff completed or running and Ready; Failed iff a container crash-loops (running, not Ready) or the pod
is Unschedulable beyond the grace window -/
theorem pod_current_iff (w : Bool) (o : J) (r : Result) (hn : noGenericSignal o = true)
    (h : computeK "Pod" w o = .ok r) :
    (r.status = .current ↔ podRolledOut o = true) ∧ (r.status = .failed ↔ podFailed w o = true) := by
  rw [computeK_of_noGeneric "Pod" .pod w o hn rfl] at h
  exact pod_iff w o r hn h

/-- Job: Current iff Complete=True comes first, or (no verdict yet) it has started; Failed iff Failed=True comes first -/
theorem job_current_iff (w : Bool) (o : J) (r : Result) (hn : noGenericSignal o = true)
    (h : computeK "batch/Job" w o = .ok r) :
    (r.status = .current ↔ jobRolledOut o = true ∧ jobFailed o = false) ∧ (r.status = .failed ↔ jobFailed o = true) := by
  rw [computeK_of_noGeneric "batch/Job" .job w o hn rfl] at h
  exact job_iff o r hn h

/-- PersistentVolumeClaim: Current iff Bound; never Failed -/
theorem pvc_current_iff (w : Bool) (o : J) (r : Result) (hn : noGenericSignal o = true)
    (h : computeK "PersistentVolumeClaim" w o = .ok r) :
    (r.status = .current ↔ pvcRolledOut o = true) ∧ r.status ≠ .failed := by
  rw [computeK_of_noGeneric "PersistentVolumeClaim" .pvc w o hn rfl] at h
  have := pvc_iff o r h
  exact ⟨this.1, fun hf => this.2.1 hf⟩

/-- Service: Current unless it is a LoadBalancer without cluster IP; never Failed -/
theorem service_current_iff (w : Bool) (o : J) (r : Result) (hn : noGenericSignal o = true)
    (h : computeK "Service" w o = .ok r) :
    (r.status = .current ↔ serviceRolledOut o = true) ∧ r.status ≠ .failed := by
  rw [computeK_of_noGeneric "Service" .service w o hn rfl] at h
  have := service_iff o r h
  exact ⟨this.1, fun hf => this.2.1 hf⟩

/-- CustomResourceDefinition: Current iff Established=True settles it first; Failed iff NamesAccepted=False or a failed
Established (reason other than Installing) does -/
theorem crd_current_iff (w : Bool) (o : J) (r : Result) (hn : noGenericSignal o = true)
    (h : computeK "apiextensions.k8s.io/CustomResourceDefinition" w o = .ok r) :
    (r.status = .current ↔ crdRolledOut o = true) ∧ (r.status = .failed ↔ crdFailed o = true) := by
  rw [computeK_of_noGeneric "apiextensions.k8s.io/CustomResourceDefinition" .crd w o hn rfl] at h
  exact crd_iff o r hn h

/-! ### against kubectl's own rollout check (`kubectl rollout status`)
Hypotheses as in the property: no generic signal, generation fields present (hence equal), generation ≥ 1, rolling-update
strategy, partition ≥ 0, and the optional integer fields kubectl converts are integers when present. -/

/-- a rolled-out Deployment (in the sense of C08) passes kubectl's rollout-status check -/
theorem deployment_rolledOut_kubectl_done (o : J) (g og : Int) (hn : noGenericSignal o = true)
    (hg : nestedInt64 o ["metadata", "generation"] = .found g)
    (hog : nestedInt64 o ["status", "observedGeneration"] = .found og)
    (hwt : intIfPresent o ["spec", "replicas"] = true)
    (hro : deploymentRolledOut o = true) : kubectlDeployment o = some true := by
  have e := generations_equal o g og hn hg hog
  subst e
  unfold deploymentRolledOut at hro
  norm_all
  obtain ⟨⟨⟨⟨⟨⟨hnf, h1⟩, h2⟩, h3⟩, h4⟩, _⟩, _⟩ := hro
  have hcounts : kubectlDeployment.kubectlDeploymentCounts o (getIntField o ["status", "updatedReplicas"] 0) = some true := by
    unfold kubectlDeployment.kubectlDeploymentCounts
    have hp : ¬ (present o ["spec", "replicas"] = true ∧
        getIntField o ["status", "updatedReplicas"] 0 < getIntField o ["spec", "replicas"] 0) := by
      rintro ⟨hp, hlt⟩
      have := getIntField_default_irrelevant o ["spec", "replicas"] 0 1 (intIfPresent_elim o _ hwt hp)
      omega
    simp only [fInt, hp, if_false]
    have h5 : ¬ getIntField o ["status", "replicas"] 0 > getIntField o ["status", "updatedReplicas"] 0 := by omega
    have h6 : ¬ getIntField o ["status", "availableReplicas"] 0 < getIntField o ["status", "updatedReplicas"] 0 := by omega
    simp only [h5, h6, if_false]
  unfold kubectlDeployment
  simp only [fInt, getIntField_of_found o _ g 0 hg, getIntField_of_found o _ g 0 hog, Int.le_refl, if_true]
  cases hf : (condsOf o).find? (fun c => decide (c.type = "Progressing")) with
  | none => simpa using hcounts
  | some c =>
    have hmem := List.mem_of_find?_eq_some hf
    have htype : c.type = "Progressing" := by simpa using List.find?_some hf
    have hne : ¬ c.reason = "ProgressDeadlineExceeded" := by
      intro hr
      have : (condsOf o).any isPDE = true := List.any_eq_true.mpr ⟨c, hmem, by simp [isPDE, htype, hr]⟩
      simp [deploymentFailed, this] at hnf
    simpa [hne] using hcounts

/-- a rolled-out DaemonSet passes kubectl's rollout-status check (rolling-update strategy) -/
theorem ds_rolledOut_kubectl_done (o : J) (g og : Int) (hn : noGenericSignal o = true)
    (hg : nestedInt64 o ["metadata", "generation"] = .found g)
    (hog : nestedInt64 o ["status", "observedGeneration"] = .found og)
    (hstrat : getStringField o ["spec", "updateStrategy", "type"] "" = "RollingUpdate")
    (hro : dsRolledOut o = true) : kubectlDaemonSet o = some true := by
  have e := generations_equal o g og hn hg hog
  subst e
  unfold dsRolledOut at hro
  norm_all
  obtain ⟨⟨⟨⟨⟨_, hd⟩, h1⟩, h2⟩, h3⟩, h4⟩ := hro
  have hd0 := getIntField_ne_default o ["status", "desiredNumberScheduled"] (-1) 0 hd
  unfold kubectlDaemonSet
  simp only [fStr, fInt, hstrat, ne_eq, not_true_eq_false, if_false, getIntField_of_found o _ g 0 hg,
    getIntField_of_found o _ g 0 hog, Int.le_refl, if_true, hd0]
  have h5 : ¬ getIntField o ["status", "updatedNumberScheduled"] 0 < getIntField o ["status", "desiredNumberScheduled"] (-1) := by omega
  have h6 : ¬ getIntField o ["status", "numberAvailable"] 0 < getIntField o ["status", "desiredNumberScheduled"] (-1) := by omega
  simp only [h5, h6, if_false]

/-- a rolled-out StatefulSet passes kubectl's rollout-status check (rolling-update strategy, generation ≥ 1, partition ≥ 0) -/
theorem sts_rolledOut_kubectl_done (o : J) (g og : Int) (hn : noGenericSignal o = true)
    (hg : nestedInt64 o ["metadata", "generation"] = .found g)
    (hog : nestedInt64 o ["status", "observedGeneration"] = .found og)
    (hg1 : 1 ≤ g)
    (hstrat : getStringField o ["spec", "updateStrategy", "type"] "" = "RollingUpdate")
    (hwt : intIfPresent o ["spec", "replicas"] = true)
    (hpt : intIfPresent o ["spec", "updateStrategy", "rollingUpdate", "partition"] = true)
    (hp0 : 0 ≤ getIntField o ["spec", "updateStrategy", "rollingUpdate", "partition"] 0)
    (hro : stsRolledOut o = true) : kubectlStatefulSet o = some true := by
  have e := generations_equal o g og hn hg hog
  subst e
  unfold stsRolledOut at hro
  have hnod : ¬ getStringField o ["spec", "updateStrategy", "type"] "" = "OnDelete" := by rw [hstrat]; decide
  norm_all
  rcases hro with hro | ⟨⟨h1, h2⟩, h3⟩
  · exact absurd hro hnod
  unfold kubectlStatefulSet
  have hgen : ¬ (g = 0 ∨ g > g) := by omega
  have hready : ¬ (present o ["spec", "replicas"] = true ∧
      getIntField o ["status", "readyReplicas"] 0 < getIntField o ["spec", "replicas"] 0) := by
    rintro ⟨hp, hlt⟩
    have := getIntField_default_irrelevant o ["spec", "replicas"] 0 1 (intIfPresent_elim o _ hwt hp)
    omega
  simp only [fStr, fInt, hstrat, ne_eq, not_true_eq_false, if_false, getIntField_of_found o _ g 0 hg,
    getIntField_of_found o _ g 0 hog, hgen, hready]
  by_cases hru : present o ["spec", "updateStrategy", "rollingUpdate"] = true
  · simp only [hru, if_true]
    have hpart : ¬ (present o ["spec", "replicas"] = true ∧
        present o ["spec", "updateStrategy", "rollingUpdate", "partition"] = true ∧
        getIntField o ["status", "updatedReplicas"] 0 <
          getIntField o ["spec", "replicas"] 0 - getIntField o ["spec", "updateStrategy", "rollingUpdate", "partition"] 0) := by
      rintro ⟨hp, hpp, hlt⟩
      have e1 := getIntField_default_irrelevant o ["spec", "replicas"] 0 1 (intIfPresent_elim o _ hwt hp)
      have e2 := getIntField_default_irrelevant o ["spec", "updateStrategy", "rollingUpdate", "partition"] 0 (-1) (intIfPresent_elim o _ hpt hpp)
      have hne : ¬ getIntField o ["spec", "updateStrategy", "rollingUpdate", "partition"] (-1) = -1 := by omega
      simp only [hne, not_false_eq_true, if_true, decide_eq_true_eq] at h3
      omega
    simp only [hpart, if_false]
  · have hru' : present o ["spec", "updateStrategy", "rollingUpdate"] = false := by
      cases hx : present o ["spec", "updateStrategy", "rollingUpdate"] with
      | false => rfl
      | true => exact absurd hx hru
    have hm1 : getIntField o ["spec", "updateStrategy", "rollingUpdate", "partition"] (-1) = -1 :=
      getIntField_under_absent o ["spec", "updateStrategy", "rollingUpdate"] "partition" (-1) hru'
    simp only [hm1, not_true_eq_false, if_false, Bool.and_eq_true, decide_eq_true_eq, beq_iff_eq] at h3
    simp only [hru', Bool.false_eq_true, if_false]
    have : ¬ getStringField o ["status", "updateRevision"] "" ≠ getStringField o ["status", "currentRevision"] "" := by
      rw [h3.2]; simp
    simp only [ne_eq] at this
    simp only [this, if_false]


/-- a Deployment that kubectl's rollout check still considers in progress (or failed) is never Current -/
theorem current_implies_kubectl_done_deployment (key : String) (w : Bool) (o : J) (r : Result) (g og : Int)
    (hk : legacy key = some .deployment) (hn : noGenericSignal o = true)
    (hg : nestedInt64 o ["metadata", "generation"] = .found g)
    (hog : nestedInt64 o ["status", "observedGeneration"] = .found og)
    (hwt : intIfPresent o ["spec", "replicas"] = true)
    (h : computeK key w o = .ok r) (hc : r.status = .current) : kubectlDeployment o = some true := by
  have := ((current_iff_rolledOut key .deployment w o r hk hn h).1.1 hc).1
  exact deployment_rolledOut_kubectl_done o g og hn hg hog hwt this

/-- a StatefulSet that kubectl's rollout check still considers in progress is never Current -/
theorem current_implies_kubectl_done_sts (key : String) (w : Bool) (o : J) (r : Result) (g og : Int)
    (hk : legacy key = some .sts) (hn : noGenericSignal o = true)
    (hg : nestedInt64 o ["metadata", "generation"] = .found g)
    (hog : nestedInt64 o ["status", "observedGeneration"] = .found og)
    (hg1 : 1 ≤ g)
    (hstrat : getStringField o ["spec", "updateStrategy", "type"] "" = "RollingUpdate")
    (hwt : intIfPresent o ["spec", "replicas"] = true)
    (hpt : intIfPresent o ["spec", "updateStrategy", "rollingUpdate", "partition"] = true)
    (hp0 : 0 ≤ getIntField o ["spec", "updateStrategy", "rollingUpdate", "partition"] 0)
    (h : computeK key w o = .ok r) (hc : r.status = .current) : kubectlStatefulSet o = some true := by
  have := ((current_iff_rolledOut key .sts w o r hk hn h).1.1 hc).1
  exact sts_rolledOut_kubectl_done o g og hn hg hog hg1 hstrat hwt hpt hp0 this

/-- a DaemonSet that kubectl's rollout check still considers in progress is never Current -/
theorem current_implies_kubectl_done_ds (key : String) (w : Bool) (o : J) (r : Result) (g og : Int)
    (hk : legacy key = some .ds) (hn : noGenericSignal o = true)
    (hg : nestedInt64 o ["metadata", "generation"] = .found g)
    (hog : nestedInt64 o ["status", "observedGeneration"] = .found og)
    (hstrat : getStringField o ["spec", "updateStrategy", "type"] "" = "RollingUpdate")
    (h : computeK key w o = .ok r) (hc : r.status = .current) : kubectlDaemonSet o = some true := by
  have := ((current_iff_rolledOut key .ds w o r hk hn h).1.1 hc).1
  exact ds_rolledOut_kubectl_done o g og hn hg hog hstrat this

/-! ### the statements are not vacuous -/

private def cnd (t s r : String) : J := .obj [("type", .str t), ("status", .str s), ("reason", .str r)]

private def deployment (replicas updated ready available : Int) (conds : List J) : J :=
  .obj [("apiVersion", .str "apps/v1"), ("kind", .str "Deployment"),
        ("metadata", .obj [("generation", .num 2)]),
        ("spec", .obj [("replicas", .num 3)]),
        ("status", .obj [("observedGeneration", .num 2), ("replicas", .num replicas), ("updatedReplicas", .num updated),
                         ("readyReplicas", .num ready), ("availableReplicas", .num available), ("conditions", .arr conds)])]

example : deploymentRolledOut (deployment 3 3 3 3 [cnd "Available" "True" "x", cnd "Progressing" "True" "NewReplicaSetAvailable"]) = true ∧
    (compute false (deployment 3 3 3 3 [cnd "Available" "True" "x", cnd "Progressing" "True" "NewReplicaSetAvailable"])).toOption
      = some currentR ∧
    kubectlDeployment (deployment 3 3 3 3 [cnd "Available" "True" "x", cnd "Progressing" "True" "NewReplicaSetAvailable"]) = some true := by
  decide

example : deploymentLagging (deployment 3 3 2 3 [cnd "Available" "True" "x"]) = true ∧
    (compute false (deployment 3 3 2 3 [cnd "Available" "True" "x"])).toOption = some (inProgressR "LessReady") := by decide

example : deploymentFailed (deployment 3 3 3 3 [cnd "Progressing" "False" "ProgressDeadlineExceeded"]) = true ∧
    ((compute false (deployment 3 3 3 3 [cnd "Progressing" "False" "ProgressDeadlineExceeded"])).toOption.map (·.status)) = some .failed ∧
    kubectlDeployment (deployment 3 3 3 3 [cnd "Progressing" "False" "ProgressDeadlineExceeded"]) = none := by decide

example : noGenericSignal (deployment 3 3 3 3 []) = true := by decide

end CliUtils.Props.C08
