import CliUtils.Model.Sys
import CliUtils.Lemmas.WaitL
import CliUtils.Lemmas.GraphL
import CliUtils.Lemmas.FinalL
/-
  C05D — a delete wait and an object that was deleted and re-created by another client ("replaced"): the watcher delivers the
  NEW object (new UID); `WaitTask.changedUID` / `handleChangedUID` report the old one reconciled (Successful), whatever the
  delivered status is (the scripted delete behaviour "replaced" of `Sys.scriptFor` delivers Current).
-/
namespace CliUtils.Props.C05
open CliUtils CliUtils.Wait

variable {α : Type} [DecidableEq α]

/-- the model's condition (`Wait.changedUID`), spelled out: the id has a record with a non-empty recorded uid, the delivered
observation carries the object, with a non-empty uid that differs from the recorded one -/
theorem changedUID_of_uids (m : Mgr α) (o : Obs) (id : α) (r : Rec α) (hr : m.find? id = some r) (hru : r.uid ≠ "")
    (hres : o.hasRes = true) (hou : o.uid ≠ "") (hne : o.uid ≠ r.uid) : changedUID m o id = true := by
  have hne' : r.uid ≠ o.uid := fun e => hne e.symm
  simp [changedUID, hr, hru, hres, hou, hne']

/-- what `statusUpdate` does in a delete wait with a pending id whose uid has changed, as equations: one `Successful` event, the
reconcile status of the (first) record set to `succeeded`, `ObjMetadataSet.Remove` on the pending set, nothing else -/
theorem replaced_delivery_update (w : WState α) (id : α) (o : Obs) (hcond : w.cond = .allNotFound) (hids : id ∈ w.ids)
    (hpend : id ∈ w.pending) (hch : changedUID w.mgr o id = true) :
    (statusUpdate w id o).events = w.events ++ [(id, .successful)] ∧
    (statusUpdate w id o).pending = IdSet.remove w.pending id ∧
    (statusUpdate w id o).mgr = (w.mgr.setReconcile id .succeeded).getD w.mgr ∧
    (statusUpdate w id o).failed = w.failed ∧ (statusUpdate w id o).ids = w.ids ∧ (statusUpdate w id o).cond = w.cond ∧
    (statusUpdate w id o).cache = (id, o) :: w.cache := by
  unfold statusUpdate
  simp only [hids, if_true, endIf_events, endIf_pending, endIf_mgr, endIf_failed, endIf_ids, endIf_cond, endIf_cache]
  unfold statusUpdateInner
  simp only [getObs_cons_self, hpend, if_true, hch, handleChangedUID_eq, hcond]
  exact ⟨rfl, trivial, rfl, rfl, rfl, rfl, rfl⟩

/-- **replaced_delivery_reconciles_delete**: in a delete wait (`allNotFound`), a status delivery for an object that is pending in the
wait (a waited id, pending held without repeats — as `Wait.start` builds it from distinct ids) which carries the object
(`hasRes`) with a non-empty uid different from the non-empty uid recorded at the delete, is taken as "the object was deleted and
replaced": whatever the delivered status (Current for the re-created object), the id is no longer pending, the last event is
`Successful` for it, and its record says reconcile `succeeded` (so it leaves the inventory: C01/C03).
The model's exact condition is `Wait.changedUID w.mgr o id` = recorded uid ≠ "" ∧ o.hasRes ∧ o.uid ≠ "" ∧ recorded uid ≠ o.uid:
besides the prompt's "recorded uid non-empty", the DELIVERED uid must be non-empty too. -/
theorem replaced_delivery_reconciles_delete (w : WState α) (id : α) (o : Obs) (r : Rec α)
    (hcond : w.cond = .allNotFound) (hids : id ∈ w.ids) (hpend : id ∈ w.pending) (hnd : w.pending.Nodup)
    (hr : w.mgr.find? id = some r) (hru : r.uid ≠ "") (hres : o.hasRes = true) (hou : o.uid ≠ "") (hne : o.uid ≠ r.uid) :
    id ∉ (statusUpdate w id o).pending ∧
    (∀ p ∈ w.pending, p ≠ id → p ∈ (statusUpdate w id o).pending) ∧
    (statusUpdate w id o).events.getLast? = some (id, .successful) ∧
    (statusUpdate w id o).events = w.events ++ [(id, .successful)] ∧
    (statusUpdate w id o).mgr.find? id = some { r with reconcile := .succeeded } ∧
    (statusUpdate w id o).mgr.isReconcile id .succeeded = true := by
  obtain ⟨hev, hp, hm, _⟩ := replaced_delivery_update w id o hcond hids hpend (changedUID_of_uids w.mgr o id r hr hru hres hou hne)
  have hfind : (statusUpdate w id o).mgr.find? id = some { r with reconcile := .succeeded } := by
    rw [hm, find_setReconcile_getD, hr]; simp
  refine ⟨?_, ?_, ?_, hev, hfind, ?_⟩
  · rw [hp, CliUtils.Graph.mem_remove_of_nodup _ hnd]
    exact fun h => h.2 rfl
  · intro p hpp hne'
    rw [hp, CliUtils.Graph.mem_remove_of_nodup _ hnd]
    exact ⟨hpp, hne'⟩
  · rw [hev]; simp
  · simp [Mgr.isReconcile, hfind]

/-- the last pending object replaced: the phase ends (`cancelFunc` is called) -/
theorem replaced_delivery_ends_wait (w : WState α) (id : α) (o : Obs) (hcond : w.cond = .allNotFound) (hids : id ∈ w.ids)
    (hpend : w.pending = [id]) (hch : changedUID w.mgr o id = true) : (statusUpdate w id o).cancelled = true := by
  have hp := (replaced_delivery_update w id o hcond hids (by rw [hpend]; simp) hch).2.1
  unfold statusUpdate
  simp only [hids, if_true]
  rw [endIf_cancelled]
  unfold statusUpdate at hp
  simp only [hids, if_true, endIf_pending] at hp
  rw [hp, hpend]
  simp [IdSet.remove]

/-- without a changed uid the same delivery (status Current, not NotFound) leaves the object pending: it is the uid, not the status,
that ends the wait -/
theorem same_uid_current_stays_pending (w : WState α) (id : α) (o : Obs) (hcond : w.cond = .allNotFound) (hids : id ∈ w.ids)
    (hpend : id ∈ w.pending) (hch : changedUID w.mgr o id = false) (hst : o.status = .current) :
    (statusUpdate w id o).pending = w.pending ∧ (statusUpdate w id o).events = w.events := by
  unfold statusUpdate
  simp only [hids, if_true, endIf_events, endIf_pending]
  unfold statusUpdateInner
  simp [getObs_cons_self, hpend, hch, hcond, reconciled, hst]

/-! ### the scripted feed: the delete behaviour "replaced" -/

open CliUtils.Sys in
/-- the delete script "replaced" is the one delivery of the apply script "replaced": Current, with the object, new uid -/
theorem scriptFor_del_replaced (run : Run) (id : Id) (h : run.del.lookup id = some "replaced") :
    scriptFor run .allNotFound id = [[⟨id, .current, true, 0, true, false⟩]] := by
  simp [scriptFor, h]

open CliUtils.Sys in
/-- what that delivery puts in the cache for an object the store (still / again) holds: the object, under the uid "uid-replaced" -/
theorem obsOf_replaced (c : Cluster) (id : Id) (l : Live) (h : c.find? id = some l) :
    obsOf c ⟨id, .current, true, 0, true, false⟩ = { status := .current, hasRes := true, gen := l.gen, uid := "uid-replaced" } := by
  simp [obsOf, h]

open CliUtils.Sys in
/-- the scripted "replaced" delivery on a delete wait: reconciled, if the delete recorded a uid other than "uid-replaced" -/
theorem scripted_replaced_reconciles (w : WState Id) (c : Cluster) (id : Id) (l : Live) (r : Rec Id)
    (hcond : w.cond = .allNotFound) (hids : id ∈ w.ids) (hpend : id ∈ w.pending) (hnd : w.pending.Nodup)
    (hl : c.find? id = some l) (hr : w.mgr.find? id = some r) (hru : r.uid ≠ "") (hne : r.uid ≠ "uid-replaced") :
    id ∉ (statusUpdate w id (obsOf c ⟨id, .current, true, 0, true, false⟩)).pending ∧
    (statusUpdate w id (obsOf c ⟨id, .current, true, 0, true, false⟩)).events.getLast? = some (id, .successful) := by
  rw [obsOf_replaced c id l hl]
  have := replaced_delivery_reconciles_delete w id { status := .current, hasRes := true, gen := l.gen, uid := "uid-replaced" } r
    hcond hids hpend hnd hr hru rfl (by simp) (fun e => hne e.symm)
  exact ⟨this.1, this.2.2.1⟩

/-! ### non-vacuity -/

/-- a tiny delete wait: `x` deleted (uid "u1" recorded) and pending, `y` pending too; the watcher delivers `x` as Current with
uid "u2".  All hypotheses of `replaced_delivery_reconciles_delete` hold, and so do its conclusions (computed) -/
example :
    let x : Id := ⟨"ns", "x", "", "ConfigMap"⟩
    let y : Id := ⟨"ns", "y", "", "ConfigMap"⟩
    let r : Rec Id := { id := x, strategy := .delete, actuation := .succeeded, reconcile := .pending, uid := "u1" }
    let w : WState Id := {
      ids := [x, y], cond := .allNotFound, pending := [x, y], failed := [],
      mgr := [r, { id := y, strategy := .delete, actuation := .succeeded, reconcile := .pending, uid := "u9" }],
      cache := [], events := [(x, .pending), (y, .pending)], cancelled := false }
    let o : Obs := { status := .current, hasRes := true, gen := 1, uid := "u2" }
    (w.cond = .allNotFound ∧ x ∈ w.ids ∧ x ∈ w.pending ∧ w.pending.Nodup ∧ w.mgr.find? x = some r ∧ r.uid ≠ "" ∧
      o.hasRes = true ∧ o.uid ≠ "" ∧ o.uid ≠ r.uid) ∧
    (statusUpdate w x o).pending = [y] ∧
    (statusUpdate w x o).events = [(x, .pending), (y, .pending), (x, .successful)] ∧
    (statusUpdate w x o).mgr.isReconcile x .succeeded = true ∧ (statusUpdate w x o).cancelled = false ∧
    -- the same observation under the recorded uid: nothing happens
    (statusUpdate w x { o with uid := "u1" }).pending = [x, y] ∧
    -- an apply wait takes the same replacement as a failure
    (statusUpdate { w with cond := .allCurrent } x o).events.getLast? = some (x, .failed) := by decide

open CliUtils.Sys in
/-- the script: a run that scripts "replaced" for `x` is not `DelScriptsOK`-conformant, and gets the one Current delivery -/
example :
    let x : Id := ⟨"ns", "x", "", "ConfigMap"⟩
    let run : Run := { (default : Run) with del := [(x, "replaced")] }
    scriptFor run .allNotFound x = [[⟨x, .current, true, 0, true, false⟩]] ∧ ¬ CliUtils.FinalL.DelScriptsOK run := by
  refine ⟨scriptFor_del_replaced _ _ rfl, fun h => ?_⟩
  have := h ⟨"ns", "x", "", "ConfigMap"⟩ "replaced" rfl
  revert this
  decide

end CliUtils.Props.C05
