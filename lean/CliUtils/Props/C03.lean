import CliUtils.Model.Sys
import CliUtils.Lemmas.SysL
import CliUtils.Props.C19
/-
  C03 — repeated apply/destroy runs converge to the declared set.
  The inventory formula as an explicit membership characterisation of `Sys.finalInventory`, the no-op conditions of the
  inventory writes and of kubectl's client-side apply (fixpoint), and the emptiness of the retained set when a destroy
  succeeds.
-/
namespace CliUtils.Props.C03
open CliUtils CliUtils.Sys CliUtils.Props.C19

/-- the retention classes of a previously tracked object: its apply or delete failed or was skipped, or its reconcile
failed or timed out -/
def Retained (mgr : Mgr Id) (id : Id) : Prop :=
  id ∈ mgr.withActuation .apply .failed ∨ id ∈ mgr.withActuation .apply .skipped ∨
  id ∈ mgr.withActuation .delete .failed ∨ id ∈ mgr.withActuation .delete .skipped ∨
  id ∈ mgr.withReconcile .failed ∨ id ∈ mgr.withReconcile .timeout

/-- **the inventory formula**: the stored inventory after a run that ends without error holds exactly the successfully
applied objects plus the previously tracked objects in a retention class, minus detached (abandoned) objects, plus the
previously tracked invalid objects -/
theorem final_inventory_mem (mgr : Mgr Id) (prev abandoned invalid : List Id) (id : Id) :
    id ∈ finalInventory mgr prev abandoned invalid ↔
      ((id ∈ mgr.withActuation .apply .succeeded ∨ (id ∈ prev ∧ Retained mgr id)) ∧ id ∉ abandoned) ∨
      (id ∈ prev ∧ id ∈ invalid) := by
  unfold finalInventory Retained
  simp only [mem_union, mem_inter, mem_diff, List.not_mem_nil, false_or]
  constructor
  · rintro (⟨h, ha⟩ | h)
    · left
      refine ⟨?_, ha⟩
      rcases h with ((((((h | h) | h) | h) | h) | h) | h)
      · exact Or.inl h
      · exact Or.inr ⟨h.1, Or.inl h.2⟩
      · exact Or.inr ⟨h.1, Or.inr (Or.inl h.2)⟩
      · exact Or.inr ⟨h.1, Or.inr (Or.inr (Or.inl h.2))⟩
      · exact Or.inr ⟨h.1, Or.inr (Or.inr (Or.inr (Or.inl h.2)))⟩
      · exact Or.inr ⟨h.1, Or.inr (Or.inr (Or.inr (Or.inr (Or.inl h.2))))⟩
      · exact Or.inr ⟨h.1, Or.inr (Or.inr (Or.inr (Or.inr (Or.inr h.2))))⟩
    · exact Or.inr h
  · rintro (⟨h, ha⟩ | h)
    · left
      refine ⟨?_, ha⟩
      rcases h with h | ⟨hp, h | h | h | h | h | h⟩
      · exact Or.inl (Or.inl (Or.inl (Or.inl (Or.inl (Or.inl h)))))
      · exact Or.inl (Or.inl (Or.inl (Or.inl (Or.inl (Or.inr ⟨hp, h⟩)))))
      · exact Or.inl (Or.inl (Or.inl (Or.inl (Or.inr ⟨hp, h⟩))))
      · exact Or.inl (Or.inl (Or.inl (Or.inr ⟨hp, h⟩)))
      · exact Or.inl (Or.inl (Or.inr ⟨hp, h⟩))
      · exact Or.inl (Or.inr ⟨hp, h⟩)
      · exact Or.inr ⟨hp, h⟩
    · exact Or.inr h

/-- the stored inventory has no repeats -/
theorem final_inventory_nodup (mgr : Mgr Id) (prev abandoned invalid : List Id) :
    (finalInventory mgr prev abandoned invalid).Nodup := by
  unfold finalInventory
  exact (results_nodup _ _).1

/-- it never holds an object that was neither applied successfully in this run nor tracked before -/
theorem final_inventory_sub (mgr : Mgr Id) (prev abandoned invalid : List Id) (id : Id)
    (h : id ∈ finalInventory mgr prev abandoned invalid) : id ∈ mgr.withActuation .apply .succeeded ∨ id ∈ prev := by
  rcases (final_inventory_mem mgr prev abandoned invalid id).mp h with ⟨h | h, _⟩ | h
  · exact Or.inl h
  · exact Or.inr h.1
  · exact Or.inr h.1

/-- **destroy empties**: when a destroy is judged successful (and the run only deleted: every record is a delete),
nothing is left to retain, so deleting the inventory object loses nothing -/
theorem destroy_successful_nothing_retained (mgr : Mgr Id) (prev abandoned invalid : List Id)
    (hd : destroySuccessful mgr prev abandoned invalid = true) (hall : ∀ r ∈ mgr, r.strategy = .delete) :
    finalInventory mgr prev abandoned invalid = [] := by
  apply List.eq_nil_iff_forall_not_mem.mpr
  intro id hid
  have noApply : ∀ a, mgr.withActuation .apply a = [] := by
    intro a
    unfold Mgr.withActuation
    rw [List.map_eq_nil_iff, List.filter_eq_nil_iff]
    intro r hr
    have := hall r hr
    simp [this]
  simp only [destroySuccessful, Bool.and_eq_true, List.isEmpty_iff] at hd
  obtain ⟨⟨⟨⟨h1, h2⟩, h3⟩, h4⟩, h5⟩ := hd
  rcases (final_inventory_mem mgr prev abandoned invalid id).mp hid with ⟨h | ⟨hp, h⟩, hab⟩ | ⟨hp, hi⟩
  · rw [noApply] at h; cases h
  · rcases h with h | h | h | h | h | h
    · rw [noApply] at h; cases h
    · rw [noApply] at h; cases h
    · rw [h1] at h; cases h
    · have : id ∈ IdSet.diff (mgr.withActuation .delete .skipped) abandoned := (mem_diff _ _ _).mpr ⟨h, hab⟩
      rw [h4] at this; cases this
    · rw [h2] at h; cases h
    · rw [h3] at h; cases h
  · have : id ∈ IdSet.inter prev invalid := (mem_inter _ _ _).mpr ⟨hp, hi⟩
    rw [h5] at this; cases this

/-! ### fixpoint: nothing is written when nothing changed -/

/-- kubectl's client-side apply of a manifest over the object it last applied (same content, own annotation, nothing
drifted) sends no request and leaves the store alone -/
theorem csa_unchanged_no_request (group : String) (s : St) (m : Manifest) (frm : Option String) (old : Live)
    (hget : s.get m.id = some (some old)) (hla : old.lastApplied = some (contentOf m frm)) (hown : old.owner = invId)
    (hsame : patchLive m frm true old = old) :
    (csaApply group s m frm).muts = s.muts ∧ (csaApply group s m frm).cl = s.cl := by
  unfold csaApply
  simp only [hget, hla, hown, hsame, decide_true, Bool.and_self, Bool.true_or, if_true]
  simp

/-- the inventory is not rewritten by the merge when the apply set equals the stored set (inventory client with
StatusPolicyNone; with StatusPolicyAll it is rewritten every time, to refresh the stored object statuses) -/
theorem merge_noop_when_equal (s : St) (ids l : List Id) (hinv : s.cl.inv = some l) (hnof : s.invReads ∉ s.run.failInvRead)
    (hnof2 : s.invReads + 1 ∉ s.run.failInvRead) (hst : storable (IdSet.union l ids) = true) (heq : IdSet.equal ids l = true)
    (hsp : s.run.opts.statusAll = false) :
    (mergeInv s ids).1.muts = s.muts ∧ (mergeInv s ids).1.cl = s.cl ∧ (mergeInv s ids).2 = none := by
  unfold mergeInv
  have r1 : s.invRead = ({ s with invReads := s.invReads + 1 }, some (some l)) := by
    simp [St.invRead, hnof, hinv]
  have r2 : ({ s with invReads := s.invReads + 1 } : St).invRead = ({ s with invReads := s.invReads + 2 }, some (some l)) := by
    simp [St.invRead, hnof2, hinv]
  simp [r1, r2, hst, heq, hsp]

/-- … nor by the final replace when the computed inventory equals the stored one -/
theorem replace_noop_when_equal (s : St) (objs l : List Id) (hinv : s.cl.inv = some l) (hnof : s.invReads ∉ s.run.failInvRead)
    (hnof2 : s.invReads + 1 ∉ s.run.failInvRead) (hst : storable objs = true) (heq : IdSet.equal objs l = true)
    (hsp : s.run.opts.statusAll = false) :
    (replaceInv s objs).1.muts = s.muts ∧ (replaceInv s objs).1.cl = s.cl ∧ (replaceInv s objs).2 = none := by
  unfold replaceInv
  have r1 : s.invRead = ({ s with invReads := s.invReads + 1 }, some (some l)) := by
    simp [St.invRead, hnof, hinv]
  have r2 : ({ s with invReads := s.invReads + 1 } : St).invRead = ({ s with invReads := s.invReads + 2 }, some (some l)) := by
    simp [St.invRead, hnof2, hinv]
  split
  · exact ⟨rfl, rfl, rfl⟩
  · simp [r1, r2, hst, heq, hsp]

/-! non-vacuity -/
section Examples
def a : Id := { ns := "ns1", name := "a", group := "", kind := "ConfigMap" }
def b : Id := { ns := "ns1", name := "b", group := "", kind := "ConfigMap" }
def c : Id := { ns := "ns1", name := "c", group := "", kind := "ConfigMap" }
def mgrEx : Mgr Id := [
  { id := a, strategy := .apply, actuation := .succeeded, reconcile := .succeeded, uid := "u1", gen := 1 },
  { id := b, strategy := .delete, actuation := .skipped, reconcile := .skipped },
  { id := c, strategy := .delete, actuation := .succeeded, reconcile := .succeeded, uid := "u3" }]
-- a applied, b tracked and skipped, c deleted and gone: inventory = {a, b}
example : finalInventory mgrEx [b, c] [] [] = [a, b] := by decide
-- b abandoned (detached) instead: it leaves the inventory
example : finalInventory mgrEx [b, c] [b] [] = [a] := by decide
end Examples

end CliUtils.Props.C03
