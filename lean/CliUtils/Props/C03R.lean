import CliUtils.Lemmas.ConvergeL
import CliUtils.Props.C04R
import CliUtils.Props.C02R
import CliUtils.Props.C01H
/-
  C03, whole run — convergence theorems on the run model (`Sys.runOne`), outside dry-run.

  * `applied_objects_live`   : an object whose apply succeeded is in the final store and carries the inventory's annotation
  * `deleted_objects_gone`   : an object whose delete succeeded and reconciled is not in the final store
  * `completed_run_inventory`: after a run without error event (that is not a destroy judged successful) the stored inventory is
                               the inventory formula `finalInventory` of the final actuation table
  * `destroy_leaves_nothing` : after a destroy without error event that is judged successful, neither the inventory object nor an
                               annotated object is left
  * `reapply_is_fixpoint…`   : re-running an apply after a clean run

  Helper lemmas: `CliUtils/Lemmas/ConvergeL.lean`.
-/
namespace CliUtils.Props.C03
open CliUtils CliUtils.Sys CliUtils.FinalL CliUtils.ConvergeL CliUtils.Props.C01 CliUtils.TimeoutL

/-! ## 1. applied objects are live and annotated -/

/-- **applied_objects_live**: outside dry-run, at the end of EVERY run (whatever request fails, whatever the status feed reports,
whenever the run is cancelled): if the actuation table records a successful apply for `id` (by `OrderL.MgrEv`, the newest apply
result event for `id` is then `Successful`), the store holds an object named `id` that carries this inventory's owning
annotation. -/
theorem applied_objects_live (c : Cluster) (run : Run) (hd : run.opts.dry = .none) (id : Id) (r : Rec Id)
    (hr : (runOne c run).mgr.find? id = some r) (hs : r.strategy = .apply) (ha : r.actuation = .succeeded) :
    ∃ o ∈ (runOne c run).cl.objs, o.id = id ∧ o.owner = invId := by
  rcases run_light c run hd with ⟨s, k, he, hno⟩ | ⟨x, _, _, hL, _⟩
  · rw [he] at hr
    exact absurd ha (hno r (find_mem _ _ _ hr).1)
  · obtain ⟨o, ho, hown⟩ := hL.t.live id r hr hs ha
    obtain ⟨hmem, hid⟩ := find_some_mem _ _ _ ho
    exact ⟨o, hmem, hid, hown⟩

/-- … in the form the inventory formula uses: every id of `withActuation .apply .succeeded` — the first summand of `finalInventory` — is
live and annotated (the table of a run has one record per id: `ConvergeL.run_oneRec`) -/
theorem applied_set_live (c : Cluster) (run : Run) (hd : run.opts.dry = .none) :
    ∀ id ∈ (runOne c run).mgr.withActuation .apply .succeeded, ∃ o ∈ (runOne c run).cl.objs, o.id = id ∧ o.owner = invId := by
  intro id hid
  have hf := (CliUtils.Props.C19.is_iff_listed (runOne c run).mgr (run_oneRec c run hd) id .apply .succeeded).mpr hid
  unfold Mgr.isActuation at hf
  cases hfind : (runOne c run).mgr.find? id with
  | none => rw [hfind] at hf; cases hf
  | some r' =>
    rw [hfind] at hf
    simp only [decide_eq_true_eq] at hf
    exact applied_objects_live c run hd id r' hfind hf.1 hf.2

/-! ## 2. completed deletes are gone -/

/-- **deleted_objects_gone**: outside dry-run, with the delete-wait scripts of the harness (`DelScriptsOK`: the feed reports NotFound
only for an object without finalizer or one the environment has just removed), at the end of EVERY run: if the actuation table
records for `id` a successful delete whose reconcile succeeded, no object named `id` is in the store. -/
theorem deleted_objects_gone (c : Cluster) (run : Run) (hd : run.opts.dry = .none) (hdel : DelScriptsOK run) (id : Id) (r : Rec Id)
    (hr : (runOne c run).mgr.find? id = some r) (hs : r.strategy = .delete) (ha : r.actuation = .succeeded)
    (hrc : r.reconcile = .succeeded) : ∀ o ∈ (runOne c run).cl.objs, o.id ≠ id := by
  rcases run_light c run hd with ⟨s, k, he, hno⟩ | ⟨x, _, hxr, _, hG⟩
  · rw [he] at hr
    exact absurd ha (hno r (find_mem _ _ _ hr).1)
  · exact find_none_no_obj _ _ ((hG hdel).t.gone id r hr hs ha (Or.inl hrc))

/-- a successful delete of an object without finalizer removes it at once, whatever the wait reports -/
theorem deleted_without_finalizer_gone (c : Cluster) (run : Run) (hd : run.opts.dry = .none) (hdel : DelScriptsOK run) (id : Id) (r : Rec Id)
    (hr : (runOne c run).mgr.find? id = some r) (hs : r.strategy = .delete) (ha : r.actuation = .succeeded)
    (hfin : hasFinalizer run id = false) : ∀ o ∈ (runOne c run).cl.objs, o.id ≠ id := by
  rcases run_light c run hd with ⟨s, k, he, hno⟩ | ⟨x, _, hxr, _, hG⟩
  · rw [he] at hr
    exact absurd ha (hno r (find_mem _ _ _ hr).1)
  · exact find_none_no_obj _ _ ((hG hdel).t.gone id r hr hs ha (Or.inr (by rw [hxr]; exact hfin)))

/-! ## 3. the stored inventory after a run without error event -/

theorem destroySuccessful_nil (ab inv : List Id) : destroySuccessful ([] : Mgr Id) [] ab inv = true := by
  simp [destroySuccessful, Mgr.withActuation, Mgr.withReconcile, IdSet.diff, IdSet.inter, dedup]

/-- **completed_run_inventory**: outside dry-run, if the event stream of a run contains no error event and the run is not a destroy
that was judged successful (`destroySuccessful` on the final actuation table — that one deletes the inventory object instead,
`destroy_leaves_nothing`), then afterwards the inventory object exists and the stored inventory has exactly the members of the
inventory formula `finalInventory` (`final_inventory_mem` spells them out) evaluated on the final actuation table, the inventory
stored when the run started (`c.inv`; the environment's own deletions do not touch it), and the final abandoned / invalid sets.
The final inventory task ran in a state with this table and these sets (`ConvergeL.run_final`), it only writes the inventory. -/
theorem completed_run_inventory (c : Cluster) (run : Run) (hd : run.opts.dry = .none)
    (hne : CliUtils.Props.C13.NoError (runOne c run).events)
    (hnd : ¬ (run.destroy = true ∧
      destroySuccessful (runOne c run).mgr (c.inv.getD []) (runOne c run).abandoned (runOne c run).invalid = true)) :
    ∃ l, (runOne c run).cl.inv = some l ∧
      ∀ i, i ∈ l ↔ i ∈ finalInventory (runOne c run).mgr (c.inv.getD []) (runOne c run).abandoned (runOne c run).invalid := by
  obtain ⟨s', name, hok, heq, hrun, hi1, hi2, hm0⟩ := run_final c run hd hne
  have f := CliUtils.HistoryL.runInvSet_objsFrame (s'.emit (.group name "Inventory" "Started")) (c.inv.getD []) false
  have em : (runOne c run).mgr = s'.mgr := by rw [heq]; exact f.mgr
  have ea : (runOne c run).abandoned = s'.abandoned := by rw [heq]; exact f.ab
  have ei : (runOne c run).invalid = s'.invalid := by rw [heq]; exact f.inval
  rw [em, ea, ei] at hnd ⊢
  have hdry : dryOf (s'.emit (.group name "Inventory" "Started")) = false := by
    unfold dryOf; simp [hrun, hd]
  have hds : ¬ ((s'.emit (.group name "Inventory" "Started")).run.destroy = true ∧
      destroySuccessful (s'.emit (.group name "Inventory" "Started")).mgr (c.inv.getD [])
        (s'.emit (.group name "Inventory" "Started")).abandoned (s'.emit (.group name "Inventory" "Started")).invalid = true) := by
    simpa [hrun] using hnd
  have hinv : (s'.emit (.group name "Inventory" "Started")).cl.inv ≠ none := by
    cases hdes : run.destroy with
    | false => exact hi1 hdes
    | true =>
      cases hci : c.inv with
      | some l0 => exact hi2 (by rw [hci]; simp)
      | none =>
        exfalso
        apply hnd
        rw [hm0 hdes hci, hci]
        exact ⟨hdes, destroySuccessful_nil _ _⟩
  obtain ⟨⟨l, hl, hmem⟩, _⟩ := final_task_writes_formula _ (c.inv.getD []) false hdry rfl hds hinv hok
  exact ⟨l, by rw [heq]; exact hl, hmem⟩

/-- the same statement in the existential form: the final task ran in a state `s'` (same table, abandoned and invalid sets as
the final state) with the inventory stored at the start as previous inventory -/
theorem completed_run_inventory' (c : Cluster) (run : Run) (hd : run.opts.dry = .none)
    (hne : CliUtils.Props.C13.NoError (runOne c run).events)
    (hnd : ¬ (run.destroy = true ∧
      destroySuccessful (runOne c run).mgr (c.inv.getD []) (runOne c run).abandoned (runOne c run).invalid = true)) :
    ∃ (s' : St) (prev l : List Id), prev = (startStore c run).inv.getD [] ∧ s'.mgr = (runOne c run).mgr ∧
      s'.abandoned = (runOne c run).abandoned ∧ s'.invalid = (runOne c run).invalid ∧ (runOne c run).cl.inv = some l ∧
      ∀ i, i ∈ l ↔ i ∈ finalInventory s'.mgr prev s'.abandoned s'.invalid := by
  obtain ⟨l, h1, h2⟩ := completed_run_inventory c run hd hne hnd
  refine ⟨runOne c run, c.inv.getD [], l, ?_, rfl, rfl, rfl, h1, h2⟩
  rw [show (startStore c run).inv = c.inv from (startStore_spec c run.envDel).2.2]

/-- corollary (with `final_inventory_mem`): what is and what is not in the stored inventory after such a run -/
theorem completed_run_inventory_mem (c : Cluster) (run : Run) (hd : run.opts.dry = .none)
    (hne : CliUtils.Props.C13.NoError (runOne c run).events)
    (hnd : ¬ (run.destroy = true ∧
      destroySuccessful (runOne c run).mgr (c.inv.getD []) (runOne c run).abandoned (runOne c run).invalid = true)) (id : Id) :
    id ∈ (runOne c run).cl.inv.getD [] ↔
      ((id ∈ (runOne c run).mgr.withActuation .apply .succeeded ∨ (id ∈ c.inv.getD [] ∧ Retained (runOne c run).mgr id)) ∧
        id ∉ (runOne c run).abandoned) ∨ (id ∈ c.inv.getD [] ∧ id ∈ (runOne c run).invalid) := by
  obtain ⟨l, h1, h2⟩ := completed_run_inventory c run hd hne hnd
  rw [h1, Option.getD_some, h2, final_inventory_mem]

/-! ## 4. a successful destroy leaves nothing -/

theorem deleteInv_ok (s : St) (hd : dryOf s = false) (hok : (deleteInv s).2 = none) :
    (deleteInv s).1.cl.inv = none ∧ (deleteInv s).1.cl.objs = s.cl.objs := by
  unfold deleteInv at hok ⊢
  simp only [] at hok ⊢
  rw [invRead_snd] at hok ⊢
  have hcl1 : s.invRead.1.cl = s.cl := by simp
  have hd1 : dryOf s.invRead.1 = false := by unfold dryOf at *; simpa using hd
  by_cases hf1 : s.invReads ∈ s.run.failInvRead
  · simp [hf1] at hok
  · simp only [hf1, if_false] at hok ⊢
    generalize s.invRead.1 = t1 at *
    cases hinv : s.cl.inv with
    | none => simp only []; rw [hcl1]; exact ⟨hinv, rfl⟩
    | some l =>
      simp only [hinv, hd1, Bool.false_eq_true, if_false] at hok ⊢
      rcases mutReq_cases t1 "delete" invObjId false "" "" (fun c => ({ c with inv := none }, "ok")) with hc | hc
      · rw [hc.2] at hok; simp at hok
      · rw [hc.1, hcl1]; exact ⟨rfl, rfl⟩

/-- **destroy_leaves_nothing**: outside dry-run, from an orphan-free, well-formed store in which every annotated object is of a known
kind, with the delete-wait scripts of the harness: if a destroy run ends without error event and the destroy was judged successful
(`destroySuccessful` on the final actuation table, the inventory stored at the start and the final abandoned / invalid sets — every
delete succeeded and reconciled, nothing was skipped except detached objects, nothing tracked was invalid), then afterwards the
inventory object is gone and no object of the store carries this inventory's owning annotation. -/
theorem destroy_leaves_nothing (c : Cluster) (run : Run) (h0 : NoOrphanCl c) (hwf : StoreWF c) (hd : run.opts.dry = .none)
    (hk : ∀ o ∈ (startStore c run).objs, o.owner = invId → (scopeOf o.id.group o.id.kind).isSome)
    (hdel : DelScriptsOK run) (hdes : run.destroy = true)
    (hne : CliUtils.Props.C13.NoError (runOne c run).events)
    (hsucc : destroySuccessful (runOne c run).mgr (c.inv.getD []) (runOne c run).abandoned (runOne c run).invalid = true) :
    (runOne c run).cl.inv = none ∧ ∀ o ∈ (runOne c run).cl.objs, o.owner ≠ invId := by
  refine run_plan c run h0 hwf hd (fun h => by rw [hdes] at h; cases h) (fun o ho hown => Or.inl (hk o ho hown)) hdel
    (fun final => CliUtils.Props.C13.NoError final.events →
      destroySuccessful final.mgr (c.inv.getD []) final.abandoned final.invalid = true →
      final.cl.inv = none ∧ ∀ o ∈ final.cl.objs, o.owner ≠ invId) ?_ ?_ hne hsucc
  · intro s k hne' _
    exact absurd rfl (hne' _ (by simp) k)
  · intro x ns s' prev pe hx hxr hxp hxA hpv hg hne' hsucc'
    simp only [hdes, if_true] at hne' hsucc' ⊢
    obtain ⟨hok, heq⟩ := runTasks_final_noError x.P ns s' _ prev pe hne'
    have hpe : pe = false := by
      cases hpe : pe with
      | false => rfl
      | true => rw [hpe] at hok; simp [runInvSet] at hok
    subst hpe
    have hp := hpv rfl
    subst hp
    rw [heq] at hsucc' ⊢
    generalize hs1 : s'.emit (.group "inventory-delete-or-update-0" "Inventory" "Started") = s1 at hok hsucc' ⊢
    have hs1m : s1.mgr = s'.mgr := by rw [← hs1]; rfl
    have hs1a : s1.abandoned = s'.abandoned := by rw [← hs1]; rfl
    have hs1i : s1.invalid = s'.invalid := by rw [← hs1]; rfl
    have hs1c : s1.cl = s'.cl := by rw [← hs1]; rfl
    have hs1r : s1.run = run := by rw [← hs1]; exact hg.run.trans hxr
    have f := CliUtils.HistoryL.runInvSet_objsFrame s1 (c.inv.getD []) false
    simp only [emit_mgr, emit_abandoned, emit_invalid, emit_cl] at hsucc' ⊢
    rw [f.mgr, f.ab, f.inval] at hsucc'
    have hrun : runInvSet s1 (c.inv.getD []) false = deleteInv s1 := by
      unfold runInvSet
      simp [hs1r, hdes, hsucc']
    rw [hrun] at hok ⊢
    obtain ⟨e1, e2⟩ := deleteInv_ok s1 (by unfold dryOf; simp [hs1r, hd]) hok
    refine ⟨e1, ?_⟩
    rw [e2, hs1c]
    rw [hs1m, hs1a, hs1i] at hsucc'
    have hret : CliUtils.Props.C01.Retained s' (c.inv.getD []) := by
      rw [← hxp]; exact tracked_retained hx s' hg
    exact destroy_successful_nothing_annotated s' (c.inv.getD []) hret (G_onlyDeletes s' [] [] [] hg (hxA hdes)) hsucc'

/-! ## 5. re-running an apply after a clean run -/

theorem not_retained_of_all_succeeded (mgr : Mgr Id) (h : ∀ r ∈ mgr, r.actuation = .succeeded ∧ r.reconcile = .succeeded) (id : Id) :
    ¬ Retained mgr id := by
  have hact : ∀ s a, a ≠ Actuation.succeeded → id ∉ mgr.withActuation s a := by
    intro s a ha hmem
    unfold Mgr.withActuation at hmem
    obtain ⟨r, hr, _⟩ := List.mem_map.mp hmem
    obtain ⟨hm, hc⟩ := List.mem_filter.mp hr
    simp only [decide_eq_true_eq] at hc
    exact ha (hc.2.symm.trans (h r hm).1)
  have hrc : ∀ rc, rc ≠ Reconcile.succeeded → id ∉ mgr.withReconcile rc := by
    intro rc ha hmem
    unfold Mgr.withReconcile at hmem
    obtain ⟨r, hr, _⟩ := List.mem_map.mp hmem
    obtain ⟨hm, hc⟩ := List.mem_filter.mp hr
    simp only [decide_eq_true_eq] at hc
    exact ha (hc.symm.trans (h r hm).2)
  unfold Retained
  intro hret
  rcases hret with h1 | h1 | h1 | h1 | h1 | h1
  · exact hact _ _ (by simp) h1
  · exact hact _ _ (by simp) h1
  · exact hact _ _ (by simp) h1
  · exact hact _ _ (by simp) h1
  · exact hrc _ (by simp) h1
  · exact hrc _ (by simp) h1

/-- **after a clean apply run the inventory is the apply set, and the apply set is live**: outside dry-run, if an apply run ends
without error event, every record of its final actuation table is a successful actuation that reconciled (nothing failed, was
skipped or timed out) and nothing was invalid, then the stored inventory has exactly the valid apply ids of the run's plan as
members, and each of them names a stored object that carries the inventory's annotation. -/
theorem clean_run_inventory_is_apply_set (c : Cluster) (run : Run) (hd : run.opts.dry = .none) (happly : run.destroy = false)
    (hne : CliUtils.Props.C13.NoError (runOne c run).events)
    (hall : ∀ r ∈ (runOne c run).mgr, r.actuation = .succeeded ∧ r.reconcile = .succeeded)
    (hinval : (runOne c run).invalid = []) :
    ∃ plan l, CliUtils.Props.C02.runPlan c run = some plan ∧ (runOne c run).cl.inv = some l ∧ (∀ i, i ∈ l ↔ i ∈ plan.applyIds) ∧
      ∀ i ∈ l, ∃ o, (runOne c run).cl.find? i = some o ∧ o.owner = invId := by
  obtain ⟨l, hl, hmem⟩ := completed_run_inventory c run hd hne (by rw [happly]; simp)
  rcases run_book c run hd with ⟨s, k, he, _⟩ | ⟨plan, P, hpl, x, hx, _, hxA, _, hL, hB⟩
  · rw [he] at hne
    exact absurd rfl (hne _ (by simp) k)
  · -- every valid apply id has a successful apply record at the end
    have hrec : ∀ i ∈ x.A, ∃ r, (runOne c run).mgr.find? i = some r ∧ r.strategy = .apply ∧ r.actuation = .succeeded := by
      intro i hi
      obtain ⟨r, hr⟩ := hB.hasA i hi
      obtain ⟨hm, hrid⟩ := find_mem _ _ _ hr
      refine ⟨r, hr, ?_, (hall r hm).1⟩
      cases hs : r.strategy with
      | apply => rfl
      | delete =>
        obtain ⟨l0, hl0, hlid⟩ := hB.recP r hm hs
        exact absurd (hlid.trans hrid) (hx.disj i hi l0 hl0)
    have hiff : ∀ i, i ∈ l ↔ i ∈ plan.applyIds := by
      intro i
      rw [hmem i, final_inventory_mem, ← hxA]
      constructor
      · rintro (⟨h1 | ⟨_, h1⟩, _⟩ | ⟨_, h1⟩)
        · unfold Mgr.withActuation at h1
          obtain ⟨r, hr, hrid⟩ := List.mem_map.mp h1
          obtain ⟨hm, hc⟩ := List.mem_filter.mp hr
          simp only [decide_eq_true_eq] at hc
          rw [← hrid]
          exact hL.t.recA r hm hc.1
        · exact absurd h1 (not_retained_of_all_succeeded _ hall i)
        · rw [hinval] at h1; cases h1
      · intro hi
        obtain ⟨r, hr, hs, ha⟩ := hrec i hi
        have hact := find_withActuation _ _ _ hr
        rw [hs, ha] at hact
        refine Or.inl ⟨Or.inl hact, ?_⟩
        intro hab
        obtain ⟨l0, hl0, hlid⟩ := hB.abP i hab
        exact hx.disj i hi l0 hl0 hlid
    refine ⟨plan, l, by simp [CliUtils.Props.C02.runPlan, hpl], hl, hiff, ?_⟩
    intro i hi
    obtain ⟨r, hr, hs, ha⟩ := hrec i (by rw [hxA]; exact (hiff i).mp hi)
    exact hL.t.live i r hr hs ha

/-- **reapply_is_fixpoint** (partial: the re-run is assumed to validate the same apply ids; patches and inventory reads are not
excluded). Let `run` be an apply run, outside dry-run, with the StatusPolicyNone inventory client, that ends without error event
and in which nothing failed, was skipped, timed out or was invalid (every record of the final actuation table is a successful
actuation that reconciled). Let `run2` be ANY apply run over the resulting store with the same options and no environment deletion
(injected faults, cancellation, controller scripts are arbitrary) whose plan has the same valid apply ids as the plan of `run`
(`reapply_is_fixpoint_noprune` discharges this for the same objects when the first run had nothing to prune).
Then `run2` sends no delete request, no create request other than the bootstrap create of the inventory namespace (sent, and
answered AlreadyExists, whenever that namespace is in the apply set), and leaves the stored inventory unchanged — at every exit. -/
theorem reapply_is_fixpoint_partial (c : Cluster) (run run2 : Run) (hd : run.opts.dry = .none) (happly : run.destroy = false)
    (hsa : run.opts.statusAll = false)
    (hne : CliUtils.Props.C13.NoError (runOne c run).events)
    (hall : ∀ r ∈ (runOne c run).mgr, r.actuation = .succeeded ∧ r.reconcile = .succeeded)
    (hinval : (runOne c run).invalid = [])
    (h2opts : run2.opts = run.opts) (h2des : run2.destroy = false) (h2env : run2.envDel = [])
    (hplan : ∀ plan1 plan2, CliUtils.Props.C02.runPlan c run = some plan1 →
      CliUtils.Props.C02.runPlan (runOne c run).cl run2 = some plan2 → ∀ i, i ∈ plan2.applyIds ↔ i ∈ plan1.applyIds) :
    (∀ m ∈ (runOne (runOne c run).cl run2).muts, m.verb ≠ "delete" ∧ (m.verb = "create" → m.id = nsInv)) ∧
    (runOne (runOne c run).cl run2).cl.inv = (runOne c run).cl.inv := by
  obtain ⟨plan1, l, hp1, hl, hiff, hlive⟩ := clean_run_inventory_is_apply_set c run hd happly hne hall hinval
  rw [hl]
  refine rerun_quiet (runOne c run).cl run2 l (by rw [h2opts]; exact hd) h2des h2env (by rw [h2opts]; exact hsa) hl ?_
    (fun i hi => let ⟨o, ho, _⟩ := hlive i hi; ⟨o, ho⟩)
  intro plan2 P2 hp2 i
  rw [hiff i]
  exact hplan plan1 plan2 hp1 (by simp [CliUtils.Props.C02.runPlan, hp2]) i

/-- the valid apply ids of a plan only depend on the manifests, the prune objects and whether the run is a destroy -/
theorem buildPlan_applyIds_indep (run run' : Run) (ms : List Manifest) (P : List Live) (prev prev' : List Id) (pe pe' : Bool)
    (h : run'.destroy = run.destroy) : (buildPlan run' ms P prev' pe').applyIds = (buildPlan run ms P prev pe).applyIds := by
  unfold buildPlan
  simp only [h]

open CliUtils.Props.C02 in
/-- **reapply_is_fixpoint, when the first run had nothing to prune**: if moreover every id tracked before the first run is in
its apply set and the re-run has the same objects, the hypothesis on the plans holds: the re-run plans the same valid apply ids. -/
theorem reapply_is_fixpoint_noprune (c : Cluster) (run run2 : Run) (hd : run.opts.dry = .none) (happly : run.destroy = false)
    (hsa : run.opts.statusAll = false)
    (hne : CliUtils.Props.C13.NoError (runOne c run).events)
    (hall : ∀ r ∈ (runOne c run).mgr, r.actuation = .succeeded ∧ r.reconcile = .succeeded)
    (hinval : (runOne c run).invalid = [])
    (hnoprune : ∀ i ∈ c.inv.getD [], i ∈ run.objs.map (·.id))
    (h2objs : run2.objs = run.objs) (h2opts : run2.opts = run.opts) (h2des : run2.destroy = false) (h2env : run2.envDel = []) :
    (∀ m ∈ (runOne (runOne c run).cl run2).muts, m.verb ≠ "delete" ∧ (m.verb = "create" → m.id = nsInv)) ∧
    (runOne (runOne c run).cl run2).cl.inv = (runOne c run).cl.inv := by
  refine reapply_is_fixpoint_partial c run run2 hd happly hsa hne hall hinval h2opts h2des h2env ?_
  intro plan1 plan2 hp1 hp2 i
  obtain ⟨plan1', l, hp1', hl, hiff, _⟩ := clean_run_inventory_is_apply_set c run hd happly hne hall hinval
  rw [hp1] at hp1'
  injection hp1' with hp1'
  subst hp1'
  have hset : applySet run = run.objs := by unfold applySet; simp [happly]
  have hset2 : applySet run2 = run.objs := by unfold applySet; simp [h2des, h2objs]
  obtain ⟨P1, hpo1⟩ := runPlan_eq_some c run plan1 hp1
  obtain ⟨hg1, prev1, pe1, e1⟩ := runPlanObjs_some c run plan1 P1 hpo1
  obtain ⟨P2, hpo2⟩ := runPlan_eq_some _ run2 plan2 hp2
  obtain ⟨hg2, prev2, pe2, e2⟩ := runPlanObjs_some _ run2 plan2 P2 hpo2
  have hP1 : P1 = [] := by
    apply List.eq_nil_iff_forall_not_mem.mpr
    intro o ho
    obtain ⟨a, b, _⟩ := CliUtils.ProvL.getPruneObjs_mem _ _ P1 hg1 o ho
    rw [CliUtils.ProvL.startSt_inv] at a
    rw [hset] at b
    exact b (hnoprune o.id a)
  have hP2 : P2 = [] := by
    apply List.eq_nil_iff_forall_not_mem.mpr
    intro o ho
    obtain ⟨a, b, _⟩ := CliUtils.ProvL.getPruneObjs_mem _ _ P2 hg2 o ho
    rw [CliUtils.ProvL.startSt_inv, hl] at a
    rw [hset2] at b
    have := (runPlan_applyIds c run plan1 hp1 o.id ((hiff o.id).mp a)).2.1
    exact b this
  subst hP1 hP2
  rw [e1, e2, hset, hset2]
  rw [buildPlan_applyIds_indep run run2 run.objs [] prev1 prev2 pe1 pe2 (h2des.trans happly.symm)]

/-! ## non-vacuity, and the hypotheses are needed -/
section Examples
open CliUtils.Props.C13 CliUtils.Props.C05 CliUtils.Props.C04 CliUtils.Props.C02 CliUtils.Props.C12

/-- executable form of `C13.NoError` -/
def noErrorB (l : List Ev) : Bool := l.all (fun e => match e with | .error _ => false | _ => true)

theorem noErrorB_iff (l : List Ev) : noErrorB l = true ↔ NoError l := by
  unfold noErrorB NoError
  simp only [List.all_eq_true]
  constructor
  · intro h e he k hk
    subst hk
    simpa using h _ he
  · intro h e he
    cases e <;> first | rfl | exact absurd rfl (h _ he _)

/-! ### 1. `applied_objects_live` -/

-- the run of `Props/C13G.lean` (a ConfigMap depending on its Namespace, applied to an empty cluster): both applies succeed …
example : (runOne {} C13.exRun).mgr.isActuation cmA .apply .succeeded = true ∧
    (runOne {} C13.exRun).mgr.isActuation nsX .apply .succeeded = true := by decide
-- … so both objects are live and annotated
example : ∀ id r, (runOne {} C13.exRun).mgr.find? id = some r → r.strategy = .apply → r.actuation = .succeeded →
    ∃ o ∈ (runOne {} C13.exRun).cl.objs, o.id = id ∧ o.owner = invId := applied_objects_live {} C13.exRun rfl
example : ((runOne {} C13.exRun).cl.find? cmA).map (·.owner) = some invId := by decide
-- the run of `Props/C01F.lean` (one create fails, one object is pruned behind a finalizer): the patched object is live, the failed one
-- has no successful record
example : (runOne C01.exStore C01.exRun).mgr.isActuation C01.exA .apply .succeeded = true ∧
    ((runOne C01.exStore C01.exRun).cl.find? C01.exA).map (·.owner) = some invId ∧
    (runOne C01.exStore C01.exRun).mgr.withActuation .apply .failed = [{ ns := "ns1", name := "d", group := "", kind := "ConfigMap" }] := by
  decide
/-- `run.opts.dry = .none` is needed: under client dry-run the apply is recorded as successful and nothing is stored -/
example : (runOne {} { C13.exRun with opts := { dry := .client } }).mgr.isActuation cmA .apply .succeeded = true ∧
    (runOne {} { C13.exRun with opts := { dry := .client } }).cl.objs = [] := by decide

/-! ### 2. `deleted_objects_gone` -/

theorem exDestroy_del : DelScriptsOK exDestroy := by
  intro id v h
  simp [exDestroy] at h

-- the destroy of `Props/C04R.lean`: both deletes succeed and reconcile, both objects are gone
example : (runOne exCl exDestroy).mgr.map (fun r => (r.strategy, r.actuation, r.reconcile)) =
    [(.delete, .succeeded, .succeeded), (.delete, .succeeded, .succeeded)] ∧ (runOne exCl exDestroy).cl.objs = [] := by decide
example : ∀ id r, (runOne exCl exDestroy).mgr.find? id = some r → r.strategy = .delete → r.actuation = .succeeded →
    r.reconcile = .succeeded → ∀ o ∈ (runOne exCl exDestroy).cl.objs, o.id ≠ id :=
  deleted_objects_gone exCl exDestroy rfl exDestroy_del
-- an object held by a finalizer that the environment completes during the wait ("finalizer-gone") is gone as well
example : (runOne exCl { exDestroy with del := [(cmA, "finalizer-gone")] }).mgr.isReconcile cmA .succeeded = true ∧
    (runOne exCl { exDestroy with del := [(cmA, "finalizer-gone")] }).cl.find? cmA = none := by decide
/-- `DelScriptsOK`: an unknown script value now means "no finalizer, the feed reports NotFound" (`hasFinalizer` names the finalizer
scripts explicitly), so the conclusion holds there too; the hypothesis stays because it excludes the script "replaced", under which a
delete wait reports an object reconciled that is still stored (`C05.scripted_replaced_reconciles`) -/
example : ((runOne exCl { exDestroy with del := [(cmA, "weird")] }).mgr.find? cmA).map (fun r => (r.strategy, r.actuation, r.reconcile)) =
      some (.delete, .succeeded, .succeeded) ∧
    ((runOne exCl { exDestroy with del := [(cmA, "weird")] }).cl.find? cmA).isSome = false := by decide

/-! ### 3. `completed_run_inventory` -/

-- the mixed run of `Props/C02R.lean` (the Namespace applied again, the ConfigMap pruned, an invalid object skipped): no error event,
-- the stored inventory is the formula
example : noErrorB (runOne exCl exMixed).events = true ∧ (runOne exCl exMixed).cl.inv = some [nsX] ∧
    finalInventory (runOne exCl exMixed).mgr (exCl.inv.getD []) (runOne exCl exMixed).abandoned (runOne exCl exMixed).invalid = [nsX] := by
  decide
example : ∃ l, (runOne exCl exMixed).cl.inv = some l ∧
    ∀ i, i ∈ l ↔ i ∈ finalInventory (runOne exCl exMixed).mgr (exCl.inv.getD []) (runOne exCl exMixed).abandoned (runOne exCl exMixed).invalid :=
  completed_run_inventory exCl exMixed rfl ((noErrorB_iff _).mp (by decide)) (by decide)
-- the run of `Props/C01F.lean` (a failed create, a prune held by a finalizer whose wait times out): the pruned object stays listed
example : noErrorB (runOne C01.exStore C01.exRun).events = true ∧ (runOne C01.exStore C01.exRun).cl.inv = some [C01.exA, C01.exB] := by decide
/-- "no error event" is needed: the cancelled run of `Props/C02R.lean` stops after its apply task; the stored inventory is the merge
result, not the formula -/
example : noErrorB (runOne exCl exCancel).events = false ∧ (runOne exCl exCancel).cl.inv = some [cmA, nsX] ∧
    finalInventory (runOne exCl exCancel).mgr (exCl.inv.getD []) (runOne exCl exCancel).abandoned (runOne exCl exCancel).invalid = [nsX] := by
  decide
/-- `run.opts.dry = .none` is needed: a dry-run writes no inventory -/
example : noErrorB (runOne {} { C13.exRun with opts := { dry := .client } }).events = true ∧
    (runOne {} { C13.exRun with opts := { dry := .client } }).cl.inv = none := by decide
/-- "not a destroy judged successful" is needed: that one deletes the inventory object -/
example : noErrorB (runOne exCl exDestroy).events = true ∧ (runOne exCl exDestroy).cl.inv = none ∧
    destroySuccessful (runOne exCl exDestroy).mgr (exCl.inv.getD []) (runOne exCl exDestroy).abandoned (runOne exCl exDestroy).invalid = true := by
  decide

/-! ### 4. `destroy_leaves_nothing` -/

theorem exCl_noOrphan : NoOrphanCl exCl := (CliUtils.Props.C01.orphanFreeB_iff exCl).mp (by decide)

theorem exCl_wf : StoreWF exCl := by
  refine ⟨?_, ?_, ?_⟩
  · intro o ho o' ho' hid
    simp only [exCl, List.mem_cons, List.not_mem_nil, or_false] at ho ho'
    rcases ho with rfl | rfl <;> rcases ho' with rfl | rfl <;> first | rfl | (exfalso; revert hid; decide)
  · intro o ho o' ho' hid
    simp only [exCl, List.mem_cons, List.not_mem_nil, or_false] at ho ho'
    rcases ho with rfl | rfl <;> rcases ho' with rfl | rfl <;> first | rfl | (exfalso; revert hid; decide)
  · intro o ho k _
    simp only [exCl, List.mem_cons, List.not_mem_nil, or_false] at ho
    rcases ho with rfl | rfl <;> exact CliUtils.Props.C01.uidOf_ne _ (by decide) k

example : (runOne exCl exDestroy).cl.inv = none ∧ ∀ o ∈ (runOne exCl exDestroy).cl.objs, o.owner ≠ invId := by
  refine destroy_leaves_nothing exCl exDestroy exCl_noOrphan exCl_wf rfl ?_ exDestroy_del rfl ((noErrorB_iff _).mp (by decide)) (by decide)
  intro o ho _
  have : startStore exCl exDestroy = exCl := rfl
  rw [this] at ho
  simp only [exCl, List.mem_cons, List.not_mem_nil, or_false] at ho
  rcases ho with rfl | rfl <;> decide

section Necessity
open CliUtils.Props.C01
def destroyAll : Run := { destroy := true, objs := [], opts := { timeout := true } }
/-- does the store still hold an annotated object? -/
def annotatedB (c : Cluster) : Bool := c.objs.any (fun o => o.owner == invId)
/-- `NoOrphanCl`: an annotated object that the inventory does not list is not a prune candidate; the destroy is judged successful,
the inventory object is deleted, the object keeps the annotation -/
example : noErrorB (runOne (stOf [{ id := exA, uid := "u1", gen := 1, owner := invId }] []) destroyAll).events = true ∧
    (runOne (stOf [{ id := exA, uid := "u1", gen := 1, owner := invId }] []) destroyAll).cl.inv = none ∧
    annotatedB (runOne (stOf [{ id := exA, uid := "u1", gen := 1, owner := invId }] []) destroyAll).cl = true := by decide
/-- known kinds: a listed, annotated object of an unknown kind is skipped by `getPruneObjs` -/
example : noErrorB (runOne (stOf [{ id := exW, uid := "u1", gen := 1, owner := invId }] [exW]) destroyAll).events = true ∧
    (runOne (stOf [{ id := exW, uid := "u1", gen := 1, owner := invId }] [exW]) destroyAll).cl.inv = none ∧
    annotatedB (runOne (stOf [{ id := exW, uid := "u1", gen := 1, owner := invId }] [exW]) destroyAll).cl = true := by decide
/-- `StoreWF.idsInj`: two stored objects with one id (impossible in a real store) -/
example : (runOne (stOf [{ id := exA, uid := "u1", gen := 1, owner := "", keep := true }, { id := exA, uid := "u2", gen := 1, owner := invId }] [exA])
      destroyAll).cl.inv = none ∧
    annotatedB (runOne (stOf [{ id := exA, uid := "u1", gen := 1, owner := "", keep := true }, { id := exA, uid := "u2", gen := 1, owner := invId }] [exA])
      destroyAll).cl = true := by decide
/-- `DelScriptsOK`: (see above) an unknown script value is harmless now: nothing annotated is left behind -/
example : noErrorB (runOne exCl { exDestroy with del := [(cmA, "weird")] }).events = true ∧
    (runOne exCl { exDestroy with del := [(cmA, "weird")] }).cl.inv = none ∧
    annotatedB (runOne exCl { exDestroy with del := [(cmA, "weird")] }).cl = false := by decide
end Necessity

/-! ### 5. `reapply_is_fixpoint` -/

-- the run of `Props/C04R.lean` whose apply set contains the inventory namespace, applied to an empty cluster and then again
example : (∀ m ∈ (runOne (runOne {} exBoot).cl exBoot).muts, m.verb ≠ "delete" ∧ (m.verb = "create" → m.id = nsInv)) ∧
    (runOne (runOne {} exBoot).cl exBoot).cl.inv = (runOne {} exBoot).cl.inv :=
  reapply_is_fixpoint_noprune {} exBoot exBoot rfl rfl rfl ((noErrorB_iff _).mp (by decide)) (by decide) (by decide)
    (by intro i hi; cases hi) rfl rfl rfl rfl
/-- the literal statement "no create request" is FALSE in the model (and in the library) when the inventory namespace is in the apply
set: `InvAddTask` sends its bootstrap create every time; the server answers AlreadyExists — this is the only request of the re-run -/
example : (runOne (runOne {} exBoot).cl exBoot).muts.map (fun m => (m.verb, m.id, m.result)) = [("create", nsInv, "exists")] := by decide
-- without the inventory namespace in the apply set the re-run sends nothing at all (client-side apply: no patch either)
example : (runOne (runOne {} C13.exRun).cl C13.exRun).muts.map (fun m => (m.verb, m.id)) = [] ∧
    (runOne (runOne {} C13.exRun).cl C13.exRun).cl.inv = (runOne {} C13.exRun).cl.inv := by decide
/-- "no environment deletion in the re-run" is needed: a deleted object is created again -/
example : (runOne (runOne {} exBoot).cl { exBoot with envDel := [crR] }).muts.map (fun m => (m.verb, m.id)) =
    [("create", crR), ("create", nsInv)] := by decide
-- the first half of the theorem on the same run: the stored inventory is the apply set, and the apply set is live
example : ∃ plan l, runPlan {} exBoot = some plan ∧ (runOne {} exBoot).cl.inv = some l ∧ (∀ i, i ∈ l ↔ i ∈ plan.applyIds) ∧
    ∀ i ∈ l, ∃ o, (runOne {} exBoot).cl.find? i = some o ∧ o.owner = invId :=
  clean_run_inventory_is_apply_set {} exBoot rfl rfl ((noErrorB_iff _).mp (by decide)) (by decide) (by decide)

end Examples

end CliUtils.Props.C03
