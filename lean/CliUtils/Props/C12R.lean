import CliUtils.Lemmas.TimeoutL
import CliUtils.Props.C03
import CliUtils.Props.C12
import CliUtils.Props.C13G
/-
  C12, run level — timeouts and cancellation on the run model (`Sys.runOne`, `Sys.runWait`, `Sys.runTasks`), and the final
  inventory write (C03) that a timed-out run still reaches.

  A wait phase of the model is `runWait group s ids cond`.  `TimeoutL.waitEnd group s ids cond` is its state after `Start`,
  the whole scripted status feed and the cancellation point "at the end of the script"; `runWait` is literally a three-way
  branch on it (`TimeoutL.runWait_eq`, by `rfl`): phase over (all objects reconciled, or cancelled / watcher failed) — no
  deadline configured ("hang") — the deadline fires.  "Before that time has elapsed" is, in the model, "before the scripted
  feed is exhausted": the model has no clock, the deadline is the last thing that can happen in a phase (that Go's
  `context.WithTimeout` does not fire early is observed by the harness only, see `Props/C12.lean`).

  Helper lemmas: `CliUtils/Lemmas/TimeoutL.lean`.
-/
namespace CliUtils.Props.C12
open CliUtils CliUtils.Sys CliUtils.TimeoutL

/-- **timeout_only_if_configured**: a run without a configured reconcile / prune timeout (`run.opts.timeout = false`) never
reports Timeout for any object of any wait group — whatever the cluster, the objects, the scripted controller behaviour,
injected faults, cancellation point or watcher error. -/
theorem timeout_only_if_configured (c : Cluster) (run : Run) (ht : run.opts.timeout = false) :
    ∀ e ∈ (runOne c run).events, ∀ g id, e ≠ .wait g id "Timeout" :=
  (runOne_noTO c run ht).2

/-- **no_timeout_before_deadline**: whatever is configured, everything a wait phase emits up to the end of its scripted feed
(`waitEnd`: phase start, every status delivery, cancellation, watcher failure) is not a Timeout event: Timeout can only come
from the deadline branch, which is the last step of the phase. -/
theorem no_timeout_before_deadline (group : String) (s : St) (ids : List Id) (cond : Wait.Cond) :
    ∃ l, (waitEnd group s ids cond).s.events = l ++ s.events ∧ ∀ e ∈ l, ∀ g id, e ≠ .wait g id "Timeout" :=
  (waitEnd_noTO group s ids cond).2

/-- **timeout_for_exactly_pending_in_run**: when a wait phase is still running after its scripted feed
(`(waitEnd …).w.cancelled = false`: not all objects reconciled, not cancelled, watcher alive) and a timeout is configured, the
deadline fires, and with `ws := waitEnd group s ids cond` the phase
* appends to the run's event list (newest first) exactly one `Timeout` wait event per object pending at that moment, in the
  order of the pending list, naming the phase's group — and nothing else;
* reports no error;
* records reconcile `timeout` in the inventory manager for exactly the pending objects (every other record, and every
  other field of a pending object's record, is unchanged);
* has at least one such object (`ws.w.pending ≠ []`), all of them objects of the phase;
* leaves cluster, request log and abort flags alone. -/
theorem timeout_for_exactly_pending_in_run (group : String) (s : St) (ids : List Id) (cond : Wait.Cond)
    (hrun : (waitEnd group s ids cond).w.cancelled = false) (ht : s.run.opts.timeout = true) :
    (runWait group s ids cond).1.events =
      ((waitEnd group s ids cond).w.pending.map (fun id => Ev.wait group id "Timeout")).reverse ++
        (waitEnd group s ids cond).s.events ∧
    (runWait group s ids cond).2 = none ∧
    (∀ id, (runWait group s ids cond).1.mgr.find? id =
      ((waitEnd group s ids cond).s.mgr.find? id).map
        (fun r => if id ∈ (waitEnd group s ids cond).w.pending then { r with reconcile := .timeout } else r)) ∧
    (waitEnd group s ids cond).w.pending ≠ [] ∧
    (∀ id ∈ (waitEnd group s ids cond).w.pending, id ∈ ids) ∧
    (runWait group s ids cond).1.cl = (waitEnd group s ids cond).s.cl ∧
    (runWait group s ids cond).1.muts = (waitEnd group s ids cond).s.muts ∧
    (runWait group s ids cond).1.cancelled = (waitEnd group s ids cond).s.cancelled ∧
    (runWait group s ids cond).1.watcherFailed = (waitEnd group s ids cond).s.watcherFailed := by
  rw [runWait_deadline group s ids cond hrun ht]
  refine ⟨rfl, rfl, fun id => find_markTimeout _ _ id, ?_, (waitEnd_winv group s ids cond).2.2, rfl, rfl, rfl, rfl⟩
  intro hp
  have := waitEnd_pendInv group s ids cond hp
  rw [hrun] at this
  cases this

/-- the converse reading: when the phase is over after its feed (`(waitEnd …).w.cancelled = true`: every object reconciled, or
the phase was cancelled / the watcher failed) the deadline never fires — the phase adds nothing to what `waitEnd` emitted, so
(by `no_timeout_before_deadline`) it reports no Timeout at all. -/
theorem ended_phase_no_timeout (group : String) (s : St) (ids : List Id) (cond : Wait.Cond)
    (hend : (waitEnd group s ids cond).w.cancelled = true) :
    runWait group s ids cond = ((waitEnd group s ids cond).s, none) := by
  rw [runWait_eq, hend]
  rfl

/-- **timeout_is_not_an_error**: a wait phase that starts in a run that is neither cancelled nor has lost its watcher, and for
which the run has no cancellation point (`cancel ≠ .wait waitIdx _`) and no watcher error (`watchErr ≠ (waitIdx, _)`), ends
with the run still not cancelled and the watcher alive; it issues no request (request log and request counter unchanged, so
a `.mut k` cancellation cannot strike either); its error class is `none` or `"hang"`, and `"hang"` is impossible when a
timeout is configured: a deadline that fires is not an error. -/
theorem timeout_is_not_an_error (group : String) (s : St) (ids : List Id) (cond : Wait.Cond)
    (hcn : s.cancelled = false) (hwf : s.watcherFailed = false)
    (hc : ∀ j, s.run.cancel ≠ .wait s.waitIdx j) (hw : ∀ k, s.run.watchErr ≠ some (s.waitIdx, k)) :
    (runWait group s ids cond).1.cancelled = false ∧ (runWait group s ids cond).1.watcherFailed = false ∧
    ((runWait group s ids cond).2 = none ∨ (runWait group s ids cond).2 = some "hang") ∧
    (s.run.opts.timeout = true → (runWait group s ids cond).2 = none) ∧
    (runWait group s ids cond).1.muts = s.muts ∧ (runWait group s ids cond).1.mutIdx = s.mutIdx := by
  have h := runWait_calm group s ids cond hcn hwf hc hw
  have e := runWait_err group s ids cond
  exact ⟨h.canc, h.wf, e.1, e.2, h.muts, h.mutIdx⟩

/-- **timeout_run_continues**: with a timeout configured, a wait task under the hypotheses of `timeout_is_not_an_error` —
whether its objects reconcile or the deadline fires — is followed by its Finished event and then by the remaining tasks
`ts` of the plan: the run continues with the later phases (in particular it reaches the final inventory task). -/
theorem timeout_run_continues (pruneObjs : List Live) (localNs : List String) (s : St) (name : String) (ids : List Id)
    (cond : Wait.Cond) (ts : List Task)
    (hcn : s.cancelled = false) (hwf : s.watcherFailed = false)
    (hc : ∀ j, s.run.cancel ≠ .wait s.waitIdx j) (hw : ∀ k, s.run.watchErr ≠ some (s.waitIdx, k))
    (ht : s.run.opts.timeout = true) :
    runTasks pruneObjs localNs s (⟨name, .wait ids cond⟩ :: ts) =
      runTasks pruneObjs localNs
        ((runWait name (s.emit (.group name "Wait" "Started")) ids cond).1.emit (.group name "Wait" "Finished")) ts := by
  obtain ⟨h1, h2, _, h4, _⟩ := timeout_is_not_an_error name (s.emit (.group name "Wait" "Started")) ids cond hcn hwf hc hw
  have h4 := h4 ht
  conv => lhs; unfold runTasks
  simp only [runTask, Task.action]
  have ew : ∀ (s : St) (e : Ev), (s.emit e).watcherFailed = s.watcherFailed := fun _ _ => rfl
  simp only [h4, ew, emit_cancelled, h1, h2]
  simp

/-- **cancel_stops_wait_deliveries**: once the caller's context was cancelled or the watcher failed during a wait phase
(`ws.stopped`), no further scripted status event is delivered: every remaining delivery attempt, chain and script leaves
the state exactly as it is — no event, no manager update, no Timeout. (`stopped` is only ever set together with the
cancellation of the wait task and one of the run's two abort flags: `stopped_means_aborted`.) -/
theorem cancel_stops_wait_deliveries (group : String) (n : Nat) (ws : WaitSt) (h : ws.stopped = true) :
    (∀ d, deliverOne group n ws d = (ws, false)) ∧ (∀ ds, deliverChain group n ws ds = ws) ∧
    (∀ chains : List (List Delivery), chains.foldl (deliverChain group n) ws = ws) :=
  ⟨fun d => deliverOne_stopped group n ws d h, fun ds => deliverChain_stopped group n ws ds h,
   fun chains => deliverChains_stopped group n chains ws h⟩

/-- a wait phase whose feed was stopped has cancelled its wait task and set `cancelled` or `watcherFailed` on the run: the
phase returns without Timeout (`ended_phase_no_timeout`) and `runTasks` ends the run after it (`cancel_no_new_phase`) -/
theorem stopped_means_aborted (group : String) (s : St) (ids : List Id) (cond : Wait.Cond)
    (h : (waitEnd group s ids cond).stopped = true) :
    (waitEnd group s ids cond).w.cancelled = true ∧
    ((runWait group s ids cond).1.cancelled = true ∨ (runWait group s ids cond).1.watcherFailed = true) := by
  obtain ⟨h1, h2⟩ := waitEnd_stopInv group s ids cond h
  rw [ended_phase_no_timeout group s ids cond h1]
  exact ⟨h1, h2⟩

/-! ### non-vacuity: the run of `Props/C13G.lean` (a ConfigMap depending on its Namespace, empty cluster) with a Namespace whose
controller never reports Current -/
section Examples
open CliUtils.Props.C13

/-- reconcile timeout configured -/
def toRun : Run :=
  { destroy := false, objs := [{ id := cmA, deps := [nsX] }, { id := nsX }], opts := { timeout := true },
    ctrl := [(nsX, "never")] }
/-- the same run without a timeout -/
def noToRun : Run := { toRun with opts := {} }
/-- the same run, cancelled during the first wait group instead of its first status delivery -/
def cancelRun : Run := { toRun with cancel := .wait 0 (some 0) }

def isTimeoutEv : Ev → Bool
  | .wait _ _ st => st == "Timeout"
  | _ => false

-- with the timeout: exactly one Timeout event (the Namespace, in its wait group) …
example : (runOne {} toRun).events.filter isTimeoutEv = [.wait "wait-0" nsX "Timeout"] := by decide
-- … and the run continues: every planned group is started and finished in plan order (the dependent ConfigMap is skipped), no error
example : Spec.finishedGroups ((runOne {} toRun).events.reverse.map Spec.toEvent) =
    ["inventory-add-0", "apply-0", "wait-0", "apply-1", "wait-1", "inventory-set-0"] := by decide
example : (runOne {} toRun).events.head? = some (.group "inventory-set-0" "Inventory" "Finished") := by decide
-- the timed-out Namespace (applied, live) is in the stored inventory at the end
example : (runOne {} toRun).cl.inv = some [nsX] ∧ (runOne {} toRun).mgr.withReconcile .timeout = [nsX] := by decide

-- without the timeout: no Timeout event (`timeout_only_if_configured`); the model reports the phase as hanging
example : ∀ e ∈ (runOne {} noToRun).events, ∀ g id, e ≠ .wait g id "Timeout" := timeout_only_if_configured {} noToRun rfl
example : (runOne {} noToRun).events.head? = some (.error "hang") ∧ (runOne {} noToRun).events.filter isTimeoutEv = [] := by decide

-- cancelled during the wait group: the group is finished, one context error closes the stream, no Timeout, nothing after it;
-- the stored inventory still lists both objects of the apply set
example : (runOne {} cancelRun).events.take 2 = [.error "canceled", .group "wait-0" "Wait" "Finished"] ∧
    (runOne {} cancelRun).events.filter isTimeoutEv = [] ∧ (runOne {} cancelRun).cl.inv = some [cmA, nsX] := by decide

/-- a state shaped like the one in which the first wait task of `toRun` starts (Namespace applied, ConfigMap planned): same
cluster, run configuration and manager table; event list and counters reset -/
def sWait : St :=
  { cl := { objs := [{ id := nsX, uid := "uid-2", gen := 1, owner := invId }], inv := some [cmA, nsX], invUid := "uid-1", nextUid := 2 },
    run := toRun,
    mgr := [{ id := cmA, strategy := .apply, actuation := .pending, reconcile := .pending },
            { id := nsX, strategy := .apply, actuation := .succeeded, reconcile := .pending, uid := "uid-2", gen := 1 }] }

-- after the feed the Namespace is still pending and the phase still running: the hypotheses of
-- `timeout_for_exactly_pending_in_run` hold, and its conclusion is the concrete outcome
example : (waitEnd "wait-0" sWait [nsX] .allCurrent).w.cancelled = false ∧
    (waitEnd "wait-0" sWait [nsX] .allCurrent).w.pending = [nsX] := by decide
example : (runWait "wait-0" sWait [nsX] .allCurrent).1.events =
    ([nsX].map (fun id => Ev.wait "wait-0" id "Timeout")).reverse ++ (waitEnd "wait-0" sWait [nsX] .allCurrent).s.events :=
  (timeout_for_exactly_pending_in_run "wait-0" sWait [nsX] .allCurrent (by decide) rfl).1
example : (runWait "wait-0" sWait [nsX] .allCurrent).1.events = [.wait "wait-0" nsX "Timeout", .wait "wait-0" nsX "Pending"] ∧
    (runWait "wait-0" sWait [nsX] .allCurrent).1.mgr.isReconcile nsX .timeout = true ∧
    (runWait "wait-0" sWait [nsX] .allCurrent).1.mgr.isReconcile cmA .pending = true := by decide

-- `timeout_is_not_an_error` / `timeout_run_continues` apply to it: the rest of the plan is run
example (ts : List Task) : runTasks [] [] sWait (⟨"wait-0", .wait [nsX] .allCurrent⟩ :: ts) =
    runTasks [] [] ((runWait "wait-0" (sWait.emit (.group "wait-0" "Wait" "Started")) [nsX] .allCurrent).1.emit
      (.group "wait-0" "Wait" "Finished")) ts :=
  timeout_run_continues [] [] sWait "wait-0" [nsX] .allCurrent ts rfl rfl (by intro j h; cases h) (by intro k h; cases h) rfl

-- the cancelled variant of the same state: the feed stops at once, no Timeout, the run is marked cancelled
example : (waitEnd "wait-0" { sWait with run := cancelRun } [nsX] .allCurrent).stopped = true ∧
    (runWait "wait-0" { sWait with run := cancelRun } [nsX] .allCurrent).1.cancelled = true ∧
    (runWait "wait-0" { sWait with run := cancelRun } [nsX] .allCurrent).1.events = [.wait "wait-0" nsX "Pending"] := by decide
end Examples

end CliUtils.Props.C12

namespace CliUtils.Props.C03
open CliUtils CliUtils.Sys CliUtils.TimeoutL

/-- outside a successful destroy and without a read error at planning time, the final inventory task is the replace of the
stored inventory by the inventory formula -/
theorem runInvSet_eq_replace (s : St) (prev : List Id) (prevErr : Bool) (hpe : prevErr = false)
    (hds : ¬ (s.run.destroy = true ∧ destroySuccessful s.mgr prev s.abandoned s.invalid = true)) :
    runInvSet s prev prevErr = replaceInv s (finalInventory s.mgr prev s.abandoned s.invalid) := by
  have hb : (s.run.destroy && destroySuccessful s.mgr prev s.abandoned s.invalid) = false := by
    cases h1 : s.run.destroy <;> cases h2 : destroySuccessful s.mgr prev s.abandoned s.invalid <;> simp_all
  unfold runInvSet
  simp [hpe, hb]

/-- the members of the stored inventory after a final inventory task that reports no error are exactly those of the inventory
formula — also when there was no inventory object and nothing had to be written (then there still is none) -/
theorem final_task_writes_formula_members (s : St) (prev : List Id) (prevErr : Bool)
    (hd : dryOf s = false) (hpe : prevErr = false)
    (hds : ¬ (s.run.destroy = true ∧ destroySuccessful s.mgr prev s.abandoned s.invalid = true))
    (hok : (runInvSet s prev prevErr).2 = none) :
    (∀ i, i ∈ (runInvSet s prev prevErr).1.cl.inv.getD [] ↔ i ∈ finalInventory s.mgr prev s.abandoned s.invalid) ∧
    (runInvSet s prev prevErr).1.cl.objs = s.cl.objs := by
  rw [runInvSet_eq_replace s prev prevErr hpe hds] at hok ⊢
  obtain ⟨h1, h2⟩ := replaceInv_ok_cases s _ hd hok
  refine ⟨?_, h1⟩
  rcases h2 with ⟨e1, e2, _⟩ | ⟨e1, _⟩
  · rw [e1]
    intro i
    exact ((CliUtils.Props.C19.equal_iff_same_members _ _).mp e2 i).symm
  · rw [e1]
    intro i
    simp

/-- **final_task_writes_formula**: outside dry-run, if the inventory at planning time could be read (`prevErr = false`), the
run is not a destroy that was judged successful (that one deletes the inventory object instead), the inventory object
exists (`s.cl.inv ≠ none` — the inventory-add task created it; a replace against a missing object fails with NotFound unless
there is nothing to write), and the final inventory task reports no error, then afterwards the stored inventory exists and
its members are exactly those of the inventory formula `finalInventory` (`final_inventory_mem` spells them out), and no
object of the cluster was touched.  Two sub-cases in `ClusterClient.Replace`: nothing is written because the stored set
already has these members (`IdSet.equal`, client without stored statuses), or the update request succeeded. -/
theorem final_task_writes_formula (s : St) (prev : List Id) (prevErr : Bool)
    (hd : dryOf s = false) (hpe : prevErr = false)
    (hds : ¬ (s.run.destroy = true ∧ destroySuccessful s.mgr prev s.abandoned s.invalid = true))
    (hinv : s.cl.inv ≠ none)
    (hok : (runInvSet s prev prevErr).2 = none) :
    (∃ l, (runInvSet s prev prevErr).1.cl.inv = some l ∧
      ∀ i, i ∈ l ↔ i ∈ finalInventory s.mgr prev s.abandoned s.invalid) ∧
    (runInvSet s prev prevErr).1.cl.objs = s.cl.objs := by
  obtain ⟨h1, h2⟩ := final_task_writes_formula_members s prev prevErr hd hpe hds hok
  refine ⟨?_, h2⟩
  rw [runInvSet_eq_replace s prev prevErr hpe hds] at hok h1 ⊢
  obtain ⟨_, h3⟩ := replaceInv_ok_cases s _ hd hok
  have hsome : (replaceInv s (finalInventory s.mgr prev s.abandoned s.invalid)).1.cl.inv ≠ none := by
    rcases h3 with ⟨e1, _⟩ | ⟨e1, _⟩
    · rw [e1]; exact hinv
    · rw [e1]; simp
  cases hl : (replaceInv s (finalInventory s.mgr prev s.abandoned s.invalid)).1.cl.inv with
  | none => exact absurd hl hsome
  | some l =>
    rw [hl] at h1
    exact ⟨l, rfl, by simpa using h1⟩

/-- … in particular a previously tracked object whose reconcile timed out (C12) is still listed after the final task, unless it
was explicitly detached -/
theorem timed_out_object_stays (s : St) (prev : List Id) (prevErr : Bool)
    (hd : dryOf s = false) (hpe : prevErr = false)
    (hds : ¬ (s.run.destroy = true ∧ destroySuccessful s.mgr prev s.abandoned s.invalid = true))
    (hok : (runInvSet s prev prevErr).2 = none)
    (id : Id) (hp : id ∈ prev) (hto : id ∈ s.mgr.withReconcile .timeout) (hab : id ∉ s.abandoned) :
    id ∈ (runInvSet s prev prevErr).1.cl.inv.getD [] := by
  rw [(final_task_writes_formula_members s prev prevErr hd hpe hds hok).1 id]
  exact (final_inventory_mem _ _ _ _ _).mpr
    (Or.inl ⟨Or.inr ⟨hp, Or.inr (Or.inr (Or.inr (Or.inr (Or.inr hto))))⟩, hab⟩)

/-! ### non-vacuity: the final task of the timed-out run of `Props/C12R.lean` (C12 examples) -/
section Examples
open CliUtils.Props.C13 CliUtils.Props.C12

/-- a state shaped like the one in which the final inventory task of `toRun` starts (Namespace applied and timed out,
ConfigMap skipped): same cluster, run configuration and manager table; event list reset -/
def sFinal : St :=
  { cl := { objs := [{ id := nsX, uid := "uid-2", gen := 1, owner := invId }], inv := some [cmA, nsX], invUid := "uid-1", nextUid := 2 },
    run := toRun, invReads := 5,
    mgr := [{ id := cmA, strategy := .apply, actuation := .skipped, reconcile := .skipped },
            { id := nsX, strategy := .apply, actuation := .succeeded, reconcile := .timeout, uid := "uid-2", gen := 1 }] }

example : (runInvSet sFinal [] false).2 = none ∧ (runInvSet sFinal [] false).1.cl.inv = some [nsX] ∧
    finalInventory sFinal.mgr [] sFinal.abandoned sFinal.invalid = [nsX] := by decide
example : (∃ l, (runInvSet sFinal [] false).1.cl.inv = some l ∧
      ∀ i, i ∈ l ↔ i ∈ finalInventory sFinal.mgr [] sFinal.abandoned sFinal.invalid) ∧
    (runInvSet sFinal [] false).1.cl.objs = sFinal.cl.objs :=
  final_task_writes_formula sFinal [] false (by decide) rfl (by decide) (by decide) (by decide)

-- a second run over the same cluster (both objects tracked before): the ConfigMap is tracked and skipped, the Namespace tracked
-- and timed out — both stay listed
example : (runInvSet sFinal [cmA, nsX] false).2 = none ∧ (runInvSet sFinal [cmA, nsX] false).1.cl.inv = some [cmA, nsX] := by decide
example : nsX ∈ (runInvSet sFinal [cmA, nsX] false).1.cl.inv.getD [] :=
  timed_out_object_stays sFinal [cmA, nsX] false (by decide) rfl (by decide) (by decide) nsX (by decide) (by decide) (by decide)
end Examples

end CliUtils.Props.C03
