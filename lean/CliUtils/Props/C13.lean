import CliUtils.Model.Sys
import CliUtils.Lemmas.SysL
import CliUtils.Lemmas.WaitL
import CliUtils.Props.C06
import CliUtils.Props.C01
/-
  C13 — the event stream is well-formed, terminal and always closed.
  C12 — (event side) an error event occurs once and last; nothing is started after an abort.

  Proved for the run model: every step function emits only item events (apply/prune/delete results, wait events, forwarded
  status events) — exactly one non-pending result per object for apply and prune steps, at least one wait event per object at
  the start of a wait phase — and `runTasks` wraps each task in started/finished, emits at most one error event and only as the
  very last event, and starts nothing after an abort.  The run model is a total function, so every run terminates with its
  stream complete (the `closed` flag of the correspondence is what is observed of the real channel).
  The full grammar (`Spec.eventsWellFormed`) is evaluated on every stream of the implementation and of the model (domain
  sys-C13); its acceptance for ALL model runs is `run_stream_well_formed` in `Props/C13G.lean` (helpers: `Lemmas/GrammarL.lean`).
-/
namespace CliUtils.Props.C13
open CliUtils CliUtils.Sys

/-- item events: what a task may emit between its started and finished events -/
def Item : Ev → Prop
  | .op .. => True
  | .wait .. => True
  | .status .. => True
  | _ => False

/-- a step only appended item events -/
def OnlyItems (s s' : St) : Prop := ∃ l, s'.events = l ++ s.events ∧ ∀ e ∈ l, Item e

theorem OnlyItems.refl (s : St) : OnlyItems s s := ⟨[], rfl, by simp⟩
theorem OnlyItems.trans {a b c : St} (h1 : OnlyItems a b) (h2 : OnlyItems b c) : OnlyItems a c := by
  obtain ⟨l1, e1, p1⟩ := h1
  obtain ⟨l2, e2, p2⟩ := h2
  refine ⟨l2 ++ l1, by rw [e2, e1, List.append_assoc], ?_⟩
  intro e he
  rcases List.mem_append.mp he with h | h
  · exact p2 e h
  · exact p1 e h
theorem onlyItems_of_eq (s s' : St) (h : s'.events = s.events) : OnlyItems s s' := ⟨[], by simp [h], by simp⟩
theorem onlyItems_one (s s' : St) (e : Ev) (h : s'.events = e :: s.events) (he : Item e) : OnlyItems s s' :=
  ⟨[e], by simp [h], by intro x hx; simp at hx; subst hx; exact he⟩

theorem mutReq_events (s : St) (verb : String) (id : Id) (dry : Bool) (pre prop : String) (eff : Cluster → Cluster × String) :
    (s.mutReq verb id dry pre prop eff).1.events = s.events := by
  have h := mutReq_spec s verb id dry pre prop eff
  simp only [] at h
  exact h.2.2.2.1

/-! ### apply and prune steps: exactly one result event, never Pending -/

/-- **exactly one result per object (apply)**: `applyOne` emits exactly one apply event for the object, with status
Successful, Skipped or Failed, naming the task's group -/
theorem applyOne_one_event (group : String) (s : St) (id : Id) (m : Manifest) (hm : manifestOf s id = some m) (hid : m.id = id) :
    ∃ st r, (applyOne group s id).events = .op "apply" group id st r :: s.events ∧
      (st = "Successful" ∨ st = "Skipped" ∨ st = "Failed") := by
  unfold applyOne
  rw [hm]
  simp only []
  cases hd : applyDecision s m with
  | fail r => exact ⟨"Failed", r, by simp [applyFail], by simp⟩
  | skip r => exact ⟨"Skipped", r, by simp [applySkip], by simp⟩
  | go frm =>
    simp only [kubectlApply]
    subst hid
    split
    · unfold ssaApply
      simp only []
      split
      · exact ⟨"Failed", "fault", by simp [applyFail, mutReq_events], by simp⟩
      · split
        · split
          · exact ⟨"Successful", "", by simp [applyOk, mutReq_events], by simp⟩
          · split <;> exact ⟨"Successful", "", by simp [applyOk, mutReq_events], by simp⟩
        · exact ⟨"Successful", "", by simp [applyOk, mutReq_events], by simp⟩
    · unfold csaApply
      simp only []
      cases hg : s.get m.id with
      | none => exact ⟨"Failed", "fault", by simp [applyFail], by simp⟩
      | some o =>
        cases o with
        | none =>
          simp only []
          split
          · exact ⟨"Successful", "", by simp [applyOk], by simp⟩
          · split
            · exact ⟨"Failed", "fault", by simp [applyFail, mutReq_events], by simp⟩
            · split <;> exact ⟨"Successful", "", by simp [applyOk, mutReq_events], by simp⟩
        | some old =>
          simp only []
          split
          · exact ⟨"Successful", "", by simp [applyOk], by simp⟩
          · split
            · exact ⟨"Failed", "fault", by simp [applyFail, mutReq_events], by simp⟩
            · exact ⟨"Successful", "", by simp [applyOk, mutReq_events], by simp⟩

/-- **exactly one result per object (prune / delete)** -/
theorem pruneOne_one_event (group : String) (uids localNs : List String) (s : St) (live : Live) :
    ∃ st r, (pruneOne group uids localNs s live).events = .op (opKind s) group live.id st r :: s.events ∧
      (st = "Successful" ∨ st = "Skipped" ∨ st = "Failed") := by
  cases hd : pruneDecision uids localNs s live <;> simp only [pruneOne, hd]
  · exact ⟨"Failed", "notfound", by simp [pruneFail], by simp⟩
  · exact ⟨"Skipped", "prevent-remove", by simp [pruneSkip], by simp⟩
  · exact ⟨"Skipped", "prevent-remove", by simp [pruneSkip], by simp⟩
  · split
    · exact ⟨"Skipped", "prevent-remove", by simp [pruneSkip, mutReq_events], by simp⟩
    · exact ⟨"Failed", _, by simp only [pruneFail, emit_events, mutReq_events]; rfl, by simp⟩
  · rename_i r; exact ⟨"Skipped", r, by simp [pruneSkip], by simp⟩
  · rename_i r; exact ⟨"Failed", r, by simp [pruneFail], by simp⟩
  · exact ⟨"Skipped", "just-applied", by simp only [pruneSkip]; split <;> simp, by simp⟩
  · exact ⟨"Successful", "", by simp [pruneOk], by simp⟩
  · split
    · exact ⟨"Successful", "", by simp [pruneOk, mutReq_events], by simp⟩
    · exact ⟨"Failed", _, by simp only [pruneFail, emit_events, mutReq_events]; rfl, by simp⟩

theorem applyOne_onlyItems (group : String) (s : St) (id : Id) : OnlyItems s (applyOne group s id) := by
  cases hm : manifestOf s id with
  | none => exact onlyItems_of_eq _ _ (by simp [applyOne, hm])
  | some m =>
    by_cases hid : m.id = id
    · obtain ⟨st, r, h, _⟩ := applyOne_one_event group s id m hm hid
      exact onlyItems_one _ _ _ h trivial
    · -- `manifestOf` finds the manifest by its id
      exfalso
      unfold manifestOf at hm
      have := List.find?_some hm
      simp at this; exact hid this

theorem pruneOne_onlyItems (group : String) (uids localNs : List String) (s : St) (live : Live) :
    OnlyItems s (pruneOne group uids localNs s live) := by
  obtain ⟨st, r, h, _⟩ := pruneOne_one_event group uids localNs s live
  exact onlyItems_one _ _ _ h trivial

theorem fold_onlyItems {β : Type} (f : St → β → St) (hf : ∀ s b, OnlyItems s (f s b)) (l : List β) (s : St) :
    OnlyItems s (l.foldl f s) := by
  induction l generalizing s with
  | nil => exact OnlyItems.refl s
  | cons b bs ih => exact OnlyItems.trans (hf s b) (ih (f s b))

/-! ### inventory tasks emit nothing -/

theorem invRead_events (s : St) : s.invRead.1.events = s.events := by unfold St.invRead; simp only []; split <;> rfl

theorem mergeInv_events (s : St) (ids : List Id) : (mergeInv s ids).1.events = s.events := by
  unfold mergeInv
  simp only []
  repeat' split
  all_goals simp [invRead_events, mutReq_events]

theorem runInvAdd_events (s : St) (ids : List Id) : (runInvAdd s ids).1.events = s.events := by
  unfold runInvAdd
  split
  · simp only []
    split
    · simp [mutReq_events]
    · simp [mergeInv_events, mutReq_events]
  · exact mergeInv_events s ids

theorem runInvSet_events (s : St) (prev : List Id) (pe : Bool) : (runInvSet s prev pe).1.events = s.events := by
  unfold runInvSet
  split
  · rfl
  · split
    · unfold deleteInv
      simp only []
      repeat' split
      all_goals simp [invRead_events, mutReq_events]
    · unfold replaceInv
      simp only []
      repeat' split
      all_goals simp [invRead_events, mutReq_events]

/-! ### wait phases emit wait events and forwarded status events -/

theorem flushWait_onlyItems (group : String) (s : St) (w : Wait.WState Id) (n0 : Nat) : OnlyItems s (flushWait group s w n0) := by
  unfold flushWait
  generalize w.events.drop n0 = l
  induction l generalizing s with
  | nil => exact OnlyItems.refl s
  | cons e es ih =>
    simp only [List.foldl_cons]
    exact OnlyItems.trans (onlyItems_one _ _ (.wait group e.1 (wevName e.2)) rfl trivial) (ih _)

theorem deliverState_onlyItems (s : St) (d : Delivery) : OnlyItems s (deliverState s d) := by
  unfold deliverState
  simp only []
  split
  · exact onlyItems_one _ _ (.status d.id (kstatusName d.status)) rfl trivial
  · exact onlyItems_of_eq _ _ rfl

theorem deliverOne_onlyItems (group : String) (n : Nat) (ws : WaitSt) (d : Delivery) :
    OnlyItems ws.s (deliverOne group n ws d).1.s := by
  unfold deliverOne
  simp only []
  split
  · exact OnlyItems.refl _
  · split
    · exact onlyItems_of_eq _ _ rfl
    · split
      · exact onlyItems_of_eq _ _ rfl
      · exact OnlyItems.trans (deliverState_onlyItems ws.s d)
          (OnlyItems.trans (onlyItems_of_eq _ _ rfl) (flushWait_onlyItems group _ _ _))

theorem deliverChain_onlyItems (group : String) (n : Nat) (ds : List Delivery) (ws : WaitSt) :
    OnlyItems ws.s (deliverChain group n ws ds).s := by
  induction ds generalizing ws with
  | nil => exact OnlyItems.refl _
  | cons d ds ih =>
    simp only [deliverChain]
    split
    · exact OnlyItems.trans (deliverOne_onlyItems group n ws d) (ih _)
    · exact deliverOne_onlyItems group n ws d

theorem runWait_onlyItems (group : String) (s : St) (ids : List Id) (cond : Wait.Cond) :
    OnlyItems s (runWait group s ids cond).1 := by
  unfold runWait
  simp only []
  have e0 : OnlyItems s (flushWait group { { s with waitIdx := s.waitIdx + 1 } with mgr := (Wait.start ids cond s.mgr s.cache).mgr }
      (Wait.start ids cond s.mgr s.cache) 0) :=
    OnlyItems.trans (onlyItems_of_eq _ _ rfl) (flushWait_onlyItems group _ _ 0)
  have efold : ∀ (chains : List (List Delivery)) (ws : WaitSt), OnlyItems s ws.s →
      OnlyItems s (chains.foldl (deliverChain group s.waitIdx) ws).s := by
    intro chains
    induction chains with
    | nil => intro ws h; exact h
    | cons c cs ih => intro ws h; exact ih _ (OnlyItems.trans h (deliverChain_onlyItems group s.waitIdx c ws))
  have e1 := efold (ids.flatMap (scriptFor s.run cond))
    { s := flushWait group { { s with waitIdx := s.waitIdx + 1 } with mgr := (Wait.start ids cond s.mgr s.cache).mgr }
        (Wait.start ids cond s.mgr s.cache) 0, w := Wait.start ids cond s.mgr s.cache } e0
  generalize (ids.flatMap (scriptFor s.run cond)).foldl (deliverChain group s.waitIdx) _ = ws at e1
  have e2 : OnlyItems s (if !ws.stopped && !ws.w.cancelled && !ws.w.pending.isEmpty && decide (ws.s.run.cancel = CancelAt.wait s.waitIdx none) then
      ({ ws with s := { ws.s with cancelled := true }, w := Wait.cancel ws.w, stopped := true } : WaitSt) else ws).s := by
    split
    · exact OnlyItems.trans e1 (onlyItems_of_eq _ _ rfl)
    · exact e1
  generalize (if !ws.stopped && !ws.w.cancelled && !ws.w.pending.isEmpty && decide (ws.s.run.cancel = CancelAt.wait s.waitIdx none) then
      ({ ws with s := { ws.s with cancelled := true }, w := Wait.cancel ws.w, stopped := true } : WaitSt) else ws) = ws2 at e2
  split
  · exact e2
  · split
    · exact e2
    · exact OnlyItems.trans e2 (OnlyItems.trans (onlyItems_of_eq _ _ rfl) (flushWait_onlyItems group _ _ _))

/-- every object of a wait group gets at least one wait event: the phase start emits exactly one per object (C06 `start_spec`) -/
theorem wait_start_one_event_each (ids : List Id) (c : Wait.Cond) (m : Mgr Id) (cache : List (Id × Wait.Obs)) :
    (Wait.start ids c m cache).events.map (·.1) = ids := by
  rw [(CliUtils.Props.C06.start_spec ids c m cache).1]
  simp [List.map_map, Function.comp_def]

/-! ### the runner: brackets, a single final error event, nothing after an abort -/

theorem runTask_onlyItems (s : St) (t : Task) (pruneObjs : List Live) (localNs : List String) :
    OnlyItems s (runTask s t pruneObjs localNs).1 := by
  unfold runTask
  cases t.kind with
  | invAdd ids => exact onlyItems_of_eq _ _ (runInvAdd_events s ids)
  | apply ids => exact fold_onlyItems _ (fun s b => applyOne_onlyItems t.name s b) ids s
  | prune ids => exact fold_onlyItems _ (fun s b => pruneOne_onlyItems t.name _ localNs s b) _ s
  | wait ids c => exact runWait_onlyItems t.name s ids c
  | invSet prev pe => exact onlyItems_of_eq _ _ (runInvSet_events s prev pe)

/-- events a run of the task list may add: started / finished brackets and items — and, only as the very last one, an error -/
def Tail : List Ev → Prop
  | [] => True
  | .error _ :: rest => ∀ e ∈ rest, ∀ k, e ≠ .error k
  | _ :: rest => ∀ e ∈ rest, ∀ k, e ≠ .error k

def NoError (l : List Ev) : Prop := ∀ e ∈ l, ∀ k, e ≠ .error k

theorem item_not_error (e : Ev) (h : Item e) : ∀ k, e ≠ .error k := by
  intro k hk; subst hk; exact h

/-- **error at most once and only last**: if the stream had no error event before the tasks started, then after running any
task list at most one error event exists and it is the newest (last) event -/
theorem runTasks_error_last (pruneObjs : List Live) (localNs : List String) (ts : List Task) (s : St) (h : NoError s.events) :
    NoError (runTasks pruneObjs localNs s ts).events ∨
    ∃ k rest, (runTasks pruneObjs localNs s ts).events = .error k :: rest ∧ NoError rest := by
  induction ts generalizing s with
  | nil => left; simpa [runTasks] using h
  | cons t ts ih =>
    unfold runTasks
    simp only []
    have hstart : NoError (s.emit (.group t.name (t.action s.run.destroy) "Started")).events := by
      intro e he k
      simp only [emit_events, List.mem_cons] at he
      rcases he with he | he
      · subst he; simp
      · exact h e he k
    obtain ⟨l, hl, hitems⟩ := runTask_onlyItems (s.emit (.group t.name (t.action s.run.destroy) "Started")) t pruneObjs localNs
    have hafter : NoError (runTask (s.emit (.group t.name (t.action s.run.destroy) "Started")) t pruneObjs localNs).1.events := by
      intro e he k
      rw [hl] at he
      rcases List.mem_append.mp he with he | he
      · exact item_not_error e (hitems e he) k
      · exact hstart e he k
    generalize runTask (s.emit (.group t.name (t.action s.run.destroy) "Started")) t pruneObjs localNs = r at hafter ⊢
    have hfin : NoError (r.1.emit (.group t.name (t.action s.run.destroy) "Finished")).events := by
      intro e he k
      simp only [emit_events, List.mem_cons] at he
      rcases he with he | he
      · subst he; simp
      · exact hafter e he k
    split
    · right; exact ⟨_, _, rfl, hfin⟩
    · split
      · right; exact ⟨_, _, rfl, hfin⟩
      · split
        · right; exact ⟨_, _, rfl, hfin⟩
        · exact ih _ hfin

end CliUtils.Props.C13
