import CliUtils.Lemmas.FinalL
/-
  C01 (continued) — the final inventory task, and no orphan at any instant of a whole run.

  Layer 1: `final_task_safe` — the final task (`runInvSet`: report / delete the inventory object / replace the stored set) keeps
           `Safe` when every live annotated object is `Retained` (and, for the delete branch, the run recorded only deletes).
  Layer 2: `Tracked` (= `FinalL.G`) is an invariant of the run: established by `prepare` / `initialStatuses` (`FinalL.G_init`),
           preserved by the inventory-add task (`invAdd_step`), every apply step (`G_applyOne`), every prune step (`G_pruneOne`) and
           every wait task incl. the scripted environment (`G_runWait`), and it gives `Retained` at the final task
           (`tracked_retained`).  `plan_safe` runs every plan `planTasks` can build; `no_orphan_run` is the statement for `runOne`.
  The `Necessity` section shows (by evaluation) that each hypothesis of `no_orphan_run` is needed in the model.
-/
namespace CliUtils.Props.C01
open CliUtils CliUtils.Sys CliUtils.Props.C19 CliUtils.Props.C03 CliUtils.FinalL

/-! ## Layer 1: the final task is safe if everything annotated is retained -/

/-- every live annotated object is in the inventory the final task is about to write -/
def Retained (s : St) (prev : List Id) : Prop :=
  ∀ o ∈ s.cl.objs, o.owner = invId → o.id ∈ finalInventory s.mgr prev s.abandoned s.invalid

/-- a destroy run only ever records deletes in the actuation table -/
def DestroyOnlyDeletes (s : St) : Prop := s.run.destroy = true → ∀ r ∈ s.mgr, r.strategy = .delete

/-- if the destroy is judged successful (and the run only deleted) and everything annotated is retained, nothing annotated
is left: the retained set is empty (`C03.destroy_successful_nothing_retained`) -/
theorem destroy_successful_nothing_annotated (s : St) (prev : List Id) (hr : Retained s prev)
    (hall : ∀ r ∈ s.mgr, r.strategy = .delete)
    (hd : destroySuccessful s.mgr prev s.abandoned s.invalid = true) : ∀ o ∈ s.cl.objs, o.owner ≠ invId := by
  intro o ho hown
  have := hr o ho hown
  rw [destroy_successful_nothing_retained _ _ _ _ hd hall] at this
  cases this

/-- **the final inventory task never creates an orphan** when every live annotated object is retained by the inventory
formula (and, for the branch that deletes the inventory object, the run recorded only deletes): the store is orphan-free after
the task and in the snapshot of its (single) mutating request -/
theorem final_task_safe (s : St) (prev : List Id) (prevErr : Bool) (hs : Safe s) (hr : Retained s prev)
    (hall : DestroyOnlyDeletes s) : Safe (runInvSet s prev prevErr).1 := by
  unfold runInvSet
  split
  · exact hs
  · split
    · rename_i hc
      simp only [Bool.and_eq_true] at hc
      exact deleteInv_safe s hs (destroy_successful_nothing_annotated s prev hr (hall hc.1) hc.2)
    · exact replaceInv_safe s _ hs hr

/-- variant: when the previous inventory could not be read the task only reports the error, so nothing is needed -/
theorem final_task_safe' (s : St) (prev : List Id) (prevErr : Bool) (hs : Safe s)
    (hr : prevErr = false → Retained s prev ∧ DestroyOnlyDeletes s) : Safe (runInvSet s prev prevErr).1 := by
  cases prevErr with
  | true => simpa [runInvSet] using hs
  | false => exact final_task_safe s prev false hs (hr rfl).1 (hr rfl).2

/-- `destroySuccessful → finalInventory = []` does NOT hold for an arbitrary actuation table: a successful *apply* record is
invisible to `destroySuccessful` but retained by `finalInventory` (no destroy run has such a record: `DestroyOnlyDeletes`) -/
example :
    let a : Id := { ns := "ns1", name := "a", group := "", kind := "ConfigMap" }
    let mgr : Mgr Id := [{ id := a, strategy := .apply, actuation := .succeeded, reconcile := .succeeded }]
    destroySuccessful mgr [a] [] [] = true ∧ finalInventory mgr [a] [] [] = [a] := by decide


/-! ## Layer 2: `Retained` is what the run invariant gives at the final task -/

/-- **the run invariant** (`FinalL.G`), relating the store to the actuation table: for the fixed context `x` (run, start store,
valid apply ids `A`, prune objects `P`, previous inventory, invalid ids), the ids `RA` / `RP` still to be applied / pruned and the ids
`W` whose delete wait comes next, every live annotated object `o` is tracked:
`o.id ∈ prev ∩ invalid`, or its first record in the table is
* apply succeeded (and `o.id ∈ prev` or it will not be applied again), apply pending with `o.id ∈ prev ∩ RA`, apply failed/skipped with `o.id ∈ prev`,
* delete pending with `o.id ∈ RP`, delete failed/skipped, or delete succeeded on an object kept by a finalizer whose reconcile is
  failed / timeout / (pending and `o.id ∈ W`);
delete records only exist for objects of `P` (all in `prev`), abandoned ids have lost the annotation, and side conditions on uids and
the status cache make the delete waits sound. -/
abbrev Tracked (x : Ctx) (s : St) (RA RP W : List Id) : Prop := G x s RA RP W

/-- `Tracked ⇒ Retained` once nothing is left to apply, prune or wait for -/
theorem tracked_retained {x : Ctx} (hx : CtxOK x) (s : St) (h : Tracked x s [] [] []) : Retained s x.prev :=
  G_final hx s h

/-- the final task at the end of a plan -/
theorem final_step {x : Ctx} (hx : CtxOK x) (ns : List String) (name : String) (prev : List Id) (pe : Bool)
    (hprev : pe = false → prev = x.prev) (hdes : x.run.destroy = true → x.A = []) :
    ∀ s, Ph x s [] [] → Safe (runTasks x.P ns s [⟨name, .invSet prev pe⟩]) := by
  intro s h
  generalize hact : (⟨name, .invSet prev pe⟩ : Task).action s.run.destroy = act
  have hs1 : Safe (s.emit (.group name act "Started")) := safe_emit h.safe _
  have hg1 : G x (s.emit (.group name act "Started")) [] [] [] := h.g.emit _
  refine runTasks_cons_safe' x.P ns s ⟨name, .invSet prev pe⟩ [] (runInvSet (s.emit (.group name act "Started")) prev pe)
    (by simp only [hact]; rfl) ?_ ?_
  · refine final_task_safe' _ prev pe hs1 (fun hpe => ⟨?_, ?_⟩)
    · rw [hprev hpe]; exact tracked_retained hx _ hg1
    · intro hd
      exact G_onlyDeletes _ _ _ _ hg1 (hdes (by rw [← hg1.run]; exact hd))
  · intro _ _ _
    have hsafe : Safe (runInvSet (s.emit (.group name act "Started")) prev pe).1 := by
      refine final_task_safe' _ prev pe hs1 (fun hpe => ⟨?_, ?_⟩)
      · rw [hprev hpe]; exact tracked_retained hx _ hg1
      · intro hd
        exact G_onlyDeletes _ _ _ _ hg1 (hdes (by rw [← hg1.run]; exact hd))
    unfold runTasks
    exact safe_emit hsafe _

/-- the ids the apply layers / prune layers of a plan still have to process when the first task starts -/
def planRA (A : List Id) (layers : List (List Id)) : List Id :=
  (Graph.hydrate Ordering.less (fun v => decide (v ∈ A)) layers).flatten
def planRP (run : Run) (pruneIds : List Id) (layers : List (List Id)) : List Id :=
  if (run.destroy || !run.opts.noPrune) && !pruneIds.isEmpty then
    (Graph.reverseSetList (Graph.hydrate Ordering.less (fun v => decide (v ∈ pruneIds)) layers)).flatten
  else []

/-- **every plan of the task builder**: from a state that satisfies the invariant for the plan's layers, the whole task list
(inventory-add, apply/wait layers, prune/wait layers, final inventory task) keeps the store orphan-free at every request -/
theorem plan_safe {x : Ctx} (hx : CtxOK x) (ns : List String) (pruneIds : List Id) (layers : List (List Id)) (prev : List Id) (pe : Bool)
    (s : St) (hprev : pe = false → prev = x.prev) (hdes : x.run.destroy = true → x.A = [])
    (hlay : layers.flatten.Nodup) (hAobj : ∀ i ∈ x.A, ∃ m ∈ x.run.objs, m.id = i) (hPids : ∀ i ∈ pruneIds, ∃ o ∈ x.P, o.id = i)
    (hns : nsInv ∈ x.A → ∃ o ∈ s.cl.objs, o.id = nsInv) (hs : Safe s)
    (hg : Tracked x s (planRA x.A layers) (planRP x.run pruneIds layers) []) :
    Safe (runTasks x.P ns s (planTasks x.run x.A pruneIds layers prev pe)) := by
  have hdry : decide (x.run.opts.dry ≠ Dry.none) = false := by rw [hx.dry]; rfl
  -- the apply layers
  obtain ⟨hLAnd, hLAmem⟩ := hydrate_flatten Ordering.less x.A layers hlay
  have hLA : ∀ l ∈ Graph.hydrate Ordering.less (fun v => decide (v ∈ x.A)) layers, ∀ i ∈ l, i ∈ x.A ∧ ∃ m ∈ x.run.objs, m.id = i := by
    intro l hl i hi
    have : i ∈ x.A := ((hLAmem i).mp (List.mem_flatten.mpr ⟨l, hl, hi⟩)).2
    exact ⟨this, hAobj i this⟩
  -- the prune layers
  obtain ⟨_, hLPmem⟩ := hydrate_flatten Ordering.less pruneIds layers hlay
  have hLP : ∀ l ∈ Graph.reverseSetList (Graph.hydrate Ordering.less (fun v => decide (v ∈ pruneIds)) layers), ∀ i ∈ l, ∃ o ∈ x.P, o.id = i := by
    intro l hl i hi
    have : i ∈ (Graph.reverseSetList (Graph.hydrate Ordering.less (fun v => decide (v ∈ pruneIds)) layers)).flatten :=
      List.mem_flatten.mpr ⟨l, hl, hi⟩
    rw [Graph.reverseSetList_flatten, List.mem_reverse] at this
    exact hPids i ((hLPmem i).mp this).2
  unfold planTasks
  simp only [hdry]
  -- after the optional inventory-add task
  have hmid : ∀ s', Ph x s' (planRA x.A layers) (planRP x.run pruneIds layers) →
      Safe (runTasks x.P ns s'
        ((if x.A.isEmpty then (([] : List Task), 0) else layerTasks true false (Graph.hydrate Ordering.less (fun v => decide (v ∈ x.A)) layers) 0 0).1 ++
          ((if (x.run.destroy || !x.run.opts.noPrune) && !pruneIds.isEmpty then
              layerTasks false false (Graph.reverseSetList (Graph.hydrate Ordering.less (fun v => decide (v ∈ pruneIds)) layers)) 0
                (if x.A.isEmpty then (([] : List Task), 0) else layerTasks true false (Graph.hydrate Ordering.less (fun v => decide (v ∈ x.A)) layers) 0 0).2
            else ([], (if x.A.isEmpty then (([] : List Task), 0) else layerTasks true false (Graph.hydrate Ordering.less (fun v => decide (v ∈ x.A)) layers) 0 0).2)).1 ++
            [⟨if x.run.destroy then "inventory-delete-or-update-0" else "inventory-set-0", .invSet prev pe⟩]))) := by
    intro s' h'
    have hfin := final_step hx ns (if x.run.destroy then "inventory-delete-or-update-0" else "inventory-set-0") prev pe hprev hdes
    -- the prune part
    have hprune : ∀ w s'', Ph x s'' [] (planRP x.run pruneIds layers) → Safe (runTasks x.P ns s''
        ((if (x.run.destroy || !x.run.opts.noPrune) && !pruneIds.isEmpty then
            layerTasks false false (Graph.reverseSetList (Graph.hydrate Ordering.less (fun v => decide (v ∈ pruneIds)) layers)) 0 w
          else ([], w)).1 ++
          [⟨if x.run.destroy then "inventory-delete-or-update-0" else "inventory-set-0", .invSet prev pe⟩])) := by
      intro w s'' h''
      unfold planRP at h''
      split
      · rename_i hc
        rw [if_pos hc] at h''
        exact prune_phase hx ns _ hfin _ 0 w s'' hLP h''
      · rename_i hc
        rw [if_neg hc] at h''
        simpa using hfin s'' h''
    by_cases hAe : x.A.isEmpty = true
    · simp only [hAe, if_true, List.nil_append]
      have hRA : planRA x.A layers = [] := by
        apply List.eq_nil_iff_forall_not_mem.mpr
        intro i hi
        have := ((hLAmem i).mp hi).2
        rw [List.isEmpty_iff.mp hAe] at this; cases this
      rw [hRA] at h'
      exact hprune 0 s' h'
    · simp only [hAe, if_false]
      exact apply_phase hx ns _ _ (fun s'' h'' => hprune _ s'' h'') _ 0 0 s' hLA hLAnd h'
  by_cases hd : x.run.destroy = true
  · -- destroy: no inventory-add task, nothing to apply
    simp only [hd, if_true, List.nil_append, List.append_assoc]
    have := hmid s ⟨hs, hg, by rw [hdes hd]; intro i hi; cases hi⟩
    simpa [hd, List.append_assoc] using this
  · simp only [hd, if_false, List.append_assoc, List.singleton_append, List.cons_append, List.nil_append]
    generalize hact : (⟨"inventory-add-0", .invAdd x.A⟩ : Task).action s.run.destroy = act
    have hs1 : Safe (s.emit (.group "inventory-add-0" act "Started")) := safe_emit hs _
    have hg1 : G x (s.emit (.group "inventory-add-0" act "Started")) (planRA x.A layers) (planRP x.run pruneIds layers) [] := hg.emit _
    have hd1 : dryOf (s.emit (.group "inventory-add-0" act "Started")) = false := by
      unfold dryOf; rw [hg1.run, hx.dry]; simp
    have hstep := invAdd_step (s.emit (.group "inventory-add-0" act "Started")) x.A _ _ hs1 hg1 hd1 hns
    refine runTasks_cons_safe' x.P ns s ⟨"inventory-add-0", .invAdd x.A⟩ _ (runInvAdd (s.emit (.group "inventory-add-0" act "Started")) x.A)
      (by simp only [hact]; rfl) hstep.1 ?_
    intro he _ _
    obtain ⟨hg2, hl2⟩ := hstep.2 he
    have := hmid _ ⟨safe_emit hstep.1 (.group "inventory-add-0" act "Finished"), hg2.emit _, hl2⟩
    simpa [hd, hact, List.append_assoc] using this

/-! ## the headline -/

theorem getPruneObjs_fst (s : St) (ids : List Id) : (getPruneObjs s ids).1 = s.invRead.1 := by
  unfold getPruneObjs
  simp only []
  cases h : s.invRead.2 <;> rfl


/-- the store the run starts from: the given store after the environment's own deletions -/
def startStore (c : Cluster) (run : Run) : Cluster := run.envDel.foldl (fun c i => c.remove i) c

theorem startStore_spec (c : Cluster) (l : List Id) :
    (∀ o ∈ (l.foldl (fun c i => c.remove i) c).objs, o ∈ c.objs) ∧ (l.foldl (fun c i => c.remove i) c).nextUid = c.nextUid ∧
    (l.foldl (fun c i => c.remove i) c).inv = c.inv := by
  induction l generalizing c with
  | nil => exact ⟨fun _ h => h, rfl, rfl⟩
  | cons i is ih =>
    simp only [List.foldl_cons]
    obtain ⟨h1, h2, h3⟩ := ih (c.remove i)
    exact ⟨fun o ho => (mem_remove _ _ _ (h1 o ho)).1, h2, h3⟩

/-- well-formedness of a store (true of every API-server store): one object per id, one id per uid, and no uid of the form the
server will hand out later -/
structure StoreWF (c : Cluster) : Prop where
  idsInj : ∀ o ∈ c.objs, ∀ o' ∈ c.objs, o.id = o'.id → o = o'
  uidInj : ∀ o ∈ c.objs, ∀ o' ∈ c.objs, o.uid = o'.uid → o.id = o'.id
  fresh : ∀ o ∈ c.objs, ∀ k, c.nextUid < k → o.uid ≠ uidOf k

/-- **no orphan at any instant of a whole apply/destroy run** (outside dry-run): if the start store is orphan-free and well-formed,
the inventory namespace is not created by this run, every annotated object outside the apply set is of a known kind, and the delete-wait
scripts are the ones the harness can produce, then after EVERY mutating request of the run (the snapshot taken after each one) and at
the end, every live object annotated with this inventory is listed in the stored inventory — whatever request fails, whatever the
status feed reports, whenever the run is cancelled -/
theorem no_orphan_run (c : Cluster) (run : Run) (h0 : NoOrphanCl c) (hwf : StoreWF c) (hd : run.opts.dry = .none)
    (hns : run.destroy = false → (∃ m ∈ run.objs, m.id = nsInv) → ∃ o ∈ (startStore c run).objs, o.id = nsInv)
    (hk : ∀ o ∈ (startStore c run).objs, o.owner = invId →
      (scopeOf o.id.group o.id.kind).isSome ∨ (run.destroy = false ∧ ∃ m ∈ run.objs, m.id = o.id))
    (hdel : DelScriptsOK run) :
    Safe (runOne c run) := by
  unfold startStore at hns hk
  obtain ⟨hsub, hnu, hinv0⟩ := startStore_spec c run.envDel
  have hc0 : NoOrphanCl (run.envDel.foldl (fun c i => c.remove i) c) := by
    intro o ho hown
    obtain ⟨l, hl, hm⟩ := h0 o (hsub o ho) hown
    exact ⟨l, by rw [hinv0]; exact hl, hm⟩
  unfold runOne
  simp only []
  generalize hc0' : run.envDel.foldl (fun c i => c.remove i) c = c0 at *
  generalize hs0 : ({ cl := c0, run := run } : St) = s0
  have hr0 : s0.run = run := by rw [← hs0]
  have hcl0 : s0.cl = c0 := by rw [← hs0]
  have hm0 : s0.muts = [] := by rw [← hs0]
  have hmg0 : s0.mgr = [] := by rw [← hs0]
  have hab0 : s0.abandoned = [] := by rw [← hs0]
  have hca0 : s0.cache = [] := by rw [← hs0]
  have hsafe0 : Safe s0 := ⟨by rw [hcl0]; exact hc0, by rw [hm0]; intro m hm; cases hm⟩
  generalize happ : (if run.destroy then [] else run.objs) = applyMs
  have happ1 : ∀ m ∈ applyMs, m ∈ run.objs ∧ run.destroy = false := by
    intro m hm
    rw [← happ] at hm
    split at hm
    · cases hm
    · rename_i hdes; exact ⟨hm, by simpa using hdes⟩
  have happ2 : run.destroy = false → applyMs = run.objs := by
    intro hdes; rw [← happ]; simp [hdes]
  have hfst := getPruneObjs_fst s0 (applyMs.map (·.id))
  have hspec := getPruneObjs_spec s0 (applyMs.map (·.id))
  obtain ⟨i1, i2, i3, i4, i5, i6, i7⟩ := invRead_frame s0
  generalize hr1 : getPruneObjs s0 (applyMs.map (·.id)) = r1 at hfst hspec ⊢
  have hsafe1 : Safe r1.1 := by rw [hfst]; exact safe_of_eq _ _ hsafe0 i1 i7
  cases hp : r1.2 with
  | none => exact safe_emit hsafe1 _
  | some P =>
    simp only []
    obtain ⟨_, hP1, hP2⟩ := hspec P hp
    obtain ⟨j1, j2, j3, j4, j5, j6, j7⟩ := invRead_frame r1.1
    have hsnd := invRead_snd r1.1
    generalize hr2 : r1.1.invRead = r2 at j1 j2 j3 j4 j5 j6 j7 hsnd ⊢
    have hsafe2 : Safe r2.1 := safe_of_eq _ _ hsafe1 j1 j7
    -- the rest of the run, for whatever previous inventory `Build` has read
    have key : ∀ prev : List Id, (r2.2.isNone = false → prev = c0.inv.getD []) →
        Safe (if (!run.opts.skipInvalid && !(buildPlan run applyMs P prev r2.2.isNone).valErrors.isEmpty) = true then
            r2.1.emit (.error "other")
          else if (decide (run.cancel = CancelAt.beforeSync) && decide (run.opts.dry = Dry.none)) = true then
            (initialStatuses (prepare r2.1 (buildPlan run applyMs P prev r2.2.isNone) P)).emit (.error "canceled")
          else runTasks P (localNamespaces (applyMs.map (·.id)))
            (initialStatuses (prepare r2.1 (buildPlan run applyMs P prev r2.2.isNone) P))
            (buildPlan run applyMs P prev r2.2.isNone).tasks) := by
      intro prev hprev
      obtain ⟨layers, pf1, pf2, pf3, pf4, pf5, pf6⟩ := plan_facts run applyMs P prev r2.2.isNone
      generalize hplan : buildPlan run applyMs P prev r2.2.isNone = plan at pf1 pf3 pf4 pf5 pf6 ⊢
      split
      · exact safe_emit hsafe2 _
      · obtain ⟨p1, p2, p3, p4, p5, p6, p7⟩ := prepare_frame r2.1 plan P (by rw [j3, hfst, i3, hmg0])
        have hci : CacheInit (prepare r2.1 plan P) := by
          intro e he
          rw [p5, j6, hfst, i6, hca0] at he; cases he
        obtain ⟨q1, q2, q3, q4, q5, q6, q7⟩ := initialStatuses_spec (prepare r2.1 plan P) hci
        generalize hs : initialStatuses (prepare r2.1 plan P) = s at q1 q2 q3 q4 q5 q6 q7 ⊢
        have hscl : s.cl = c0 := by rw [q1, p1, j1, hfst, i1, hcl0]
        have hsrun : s.run = run := by rw [q2, p2, j2, hfst, i2, hr0]
        have hsafe : Safe s := ⟨by rw [hscl]; exact hc0, by rw [q6, p6, j7, hfst, i7, hm0]; intro m hm; cases hm⟩
        split
        · exact safe_emit hsafe _
        · -- the context of the run
          let x : Ctx := { run := run, c0 := c0, A := plan.applyIds, P := P, prev := c0.inv.getD [], invalid := plan.invalid }
          have hPc0 : ∀ l ∈ P, l ∈ c0.objs ∧ l.id ∈ c0.inv.getD [] ∧ l.id ∉ applyMs.map (·.id) := by
            intro l hl; have := hP1 l hl; rw [hcl0] at this; exact this
          have hAapp : ∀ i ∈ plan.applyIds, ∃ m ∈ applyMs, m.id = i := fun i hi => ((pf5 i).mp hi).1
          have hx : CtxOK x := by
            refine ⟨hd, ?_, fun l hl => (hPc0 l hl).1, fun l hl => (hPc0 l hl).2.1, ?_, ?_, ?_, hdel⟩
            · intro i hi l hl hlid
              obtain ⟨m, hm, hmid⟩ := hAapp i hi
              exact (hPc0 l hl).2.2 (List.mem_map.mpr ⟨m, hm, hmid.trans hlid.symm⟩)
            · exact fun o ho o' ho' => hwf.idsInj o (hsub o ho) o' (hsub o' ho')
            · exact fun o ho o' ho' => hwf.uidInj o (hsub o ho) o' (hsub o' ho')
            · intro o ho k hk'
              exact hwf.fresh o (hsub o ho) k (by rw [← hnu]; exact hk')
          have hdes : x.run.destroy = true → x.A = [] := by
            intro hdes
            apply List.eq_nil_iff_forall_not_mem.mpr
            intro i hi
            obtain ⟨m, hm, _⟩ := hAapp i hi
            have := (happ1 m hm).2
            rw [this] at hdes; cases hdes
          -- the invariant at the first task
          obtain ⟨_, hLAmem⟩ := hydrate_flatten Ordering.less plan.applyIds layers pf2
          obtain ⟨_, hLPmem⟩ := hydrate_flatten Ordering.less plan.pruneIds layers pf2
          have hg : Tracked x s (planRA x.A layers) (planRP x.run plan.pruneIds layers) [] := by
            refine G_init x hx s plan _ _ hsrun (by rw [q5, p7]) hscl (by rw [q3, p3, j2, hfst, i2, hr0]) (by rw [q4, p4, j4, hfst, i4, hab0]) q7
              rfl rfl ?_ ?_ pf6 ?_
            · intro i hi
              exact (hLAmem i).mpr ⟨pf3 i hi, hi⟩
            · intro hb i hi
              have hne : plan.pruneIds.isEmpty = false := by
                cases hpp : plan.pruneIds with
                | nil => rw [hpp] at hi; cases hi
                | cons a as => rfl
              unfold planRP
              have hb' : (run.destroy || !run.opts.noPrune) = true := hb
              simp only [x, hb', hne, Bool.not_false, Bool.and_self, if_true]
              rw [Graph.reverseSetList_flatten, List.mem_reverse]
              exact (hLPmem i).mpr ⟨pf4 i hi, hi⟩
            · intro o ho hown
              obtain ⟨l, hl, hm⟩ := hc0 o ho hown
              refine ⟨by simp only [x, hl, Option.getD_some]; exact hm, ?_⟩
              by_cases happid : ∃ m ∈ applyMs, m.id = o.id
              · by_cases hiv : o.id ∈ plan.invalid
                · exact Or.inr (Or.inl hiv)
                · exact Or.inl ((pf5 o.id).mpr ⟨happid, hiv⟩)
              · right; right
                have hscope : (scopeOf o.id.group o.id.kind).isSome = true := by
                  rcases hk o ho hown with h | ⟨hdf, hm'⟩
                  · exact h
                  · rw [happ2 hdf] at happid; exact absurd hm' happid
                have hnin : o.id ∉ applyMs.map (·.id) := by
                  intro hmm
                  obtain ⟨m, hm1, hm2⟩ := List.mem_map.mp hmm
                  exact happid ⟨m, hm1, hm2⟩
                exact hP2 o.id (by rw [hcl0, hl]; exact hm) hnin hscope (by rw [hcl0]; exact ⟨o, ho, rfl⟩)
          have := plan_safe hx (localNamespaces (applyMs.map (·.id))) plan.pruneIds layers prev r2.2.isNone s hprev hdes pf2
            (by
              intro i hi
              obtain ⟨m, hm, hmid⟩ := hAapp i hi
              exact ⟨m, (happ1 m hm).1, hmid⟩)
            (fun i hi => ((pf6 i).mp hi).1)
            (by
              intro hin
              obtain ⟨m, hm, hmid⟩ := hAapp nsInv hin
              rw [hscl]
              exact hns (happ1 m hm).2 ⟨m, (happ1 m hm).1, hmid⟩)
            hsafe hg
          rw [pf1]
          exact this
    have hcl1 : r1.1.cl.inv = c0.inv := by rw [hfst, i1, hcl0]
    by_cases hf : r1.1.invReads ∈ r1.1.run.failInvRead
    · rw [if_pos hf] at hsnd
      have := key [] (by rw [hsnd]; intro h; simp at h)
      rw [hsnd] at this ⊢
      exact this
    · rw [if_neg hf, hcl1] at hsnd
      cases hci : c0.inv with
      | none =>
        rw [hci] at hsnd
        have := key [] (by intro _; rw [hci]; rfl)
        rw [hsnd] at this ⊢
        exact this
      | some l =>
        rw [hci] at hsnd
        have := key l (by intro _; rw [hci]; rfl)
        rw [hsnd] at this ⊢
        exact this

section Examples
def exA : Id := { ns := "ns1", name := "a", group := "", kind := "ConfigMap" }
def exB : Id := { ns := "ns1", name := "b", group := "", kind := "ConfigMap" }
def exC : Id := { ns := "ns1", name := "c", group := "", kind := "Secret" }

/-- a store left by an earlier run: `a` and `b` annotated and listed, `c` foreign -/
def exStore : Cluster :=
  { objs := [{ id := exA, uid := "u1", gen := 1, owner := invId }, { id := exB, uid := "u2", gen := 1, owner := invId },
             { id := exC, uid := "u3", gen := 1, owner := "" }],
    inv := some [exA, exB], invUid := "u0", nextUid := 7 }

/-- apply `a` (changed) and a new `c`-dependent object, prune `b` which is kept by a finalizer; one request fails, a deadline is set -/
def exRun : Run :=
  { destroy := false,
    objs := [{ id := exA, rev := 2 }, { id := { ns := "ns1", name := "d", group := "", kind := "ConfigMap" }, deps := [exA] }],
    opts := { timeout := true, policy := 0 }, failMut := [2], del := [(exB, "finalizer")] }

theorem uidOf_ne (u : String) (h : u.toList.take 4 ≠ ['u', 'i', 'd', '-']) (k : Nat) : u ≠ uidOf k := by
  intro e
  apply h
  rw [e]
  unfold uidOf
  simp [toString, String.toList_append]


theorem exStore_start : startStore exStore exRun = exStore := rfl

theorem exStore_noOrphan : NoOrphanCl exStore := by
  intro o ho hown
  refine ⟨[exA, exB], rfl, ?_⟩
  simp only [exStore, List.mem_cons, List.not_mem_nil, or_false] at ho
  rcases ho with rfl | rfl | rfl
  · simp
  · simp
  · simp [invId] at hown

theorem exStore_wf : StoreWF exStore := by
  refine ⟨?_, ?_, ?_⟩
  · intro o ho o' ho' hid
    simp only [exStore, List.mem_cons, List.not_mem_nil, or_false] at ho ho'
    rcases ho with rfl | rfl | rfl <;> rcases ho' with rfl | rfl | rfl <;> first | rfl | (exfalso; revert hid; decide)
  · intro o ho o' ho' hid
    simp only [exStore, List.mem_cons, List.not_mem_nil, or_false] at ho ho'
    rcases ho with rfl | rfl | rfl <;> rcases ho' with rfl | rfl | rfl <;> first | rfl | (exfalso; revert hid; decide)
  · intro o ho k _
    simp only [exStore, List.mem_cons, List.not_mem_nil, or_false] at ho
    rcases ho with rfl | rfl | rfl <;> exact uidOf_ne _ (by decide) k

theorem exRun_del : DelScriptsOK exRun := by
  intro id v h
  simp only [exRun, List.lookup] at h
  split at h
  · simp only [Option.some.injEq] at h; exact Or.inr (Or.inl h.symm)
  · cases h

/-- the hypotheses of `no_orphan_run` are satisfiable on a run that applies, prunes an object held by a finalizer, waits with a
deadline and has a failing request: the theorem applies to it -/
example : Safe (runOne exStore exRun) := by
  refine no_orphan_run exStore exRun exStore_noOrphan exStore_wf rfl ?_ ?_ exRun_del
  · intro _ h
    exfalso
    obtain ⟨m, hm, hid⟩ := h
    simp only [exRun, List.mem_cons, List.not_mem_nil, or_false] at hm
    rcases hm with rfl | rfl <;> (revert hid; decide)
  · intro o ho _
    rw [exStore_start] at ho
    simp only [exStore, List.mem_cons, List.not_mem_nil, or_false] at ho
    rcases ho with rfl | rfl | rfl <;> exact Or.inl (by decide)

/-- … and the run is not trivial: it sends requests (an inventory update, a patch, a create, a delete, the final update), the delete
wait times out, and the pruned object `b`, still held by its finalizer, stays in the stored inventory -/
example : (runOne exStore exRun).muts.length = 5 ∧ (runOne exStore exRun).cl.inv.map (fun l => decide (exB ∈ l)) = some true := by
  decide

end Examples

/-! ### the hypotheses of `no_orphan_run` are needed (in the model): one orphan-producing run for each -/
section Necessity
/-- executable form of `NoOrphanCl` -/
def orphanFreeB (c : Cluster) : Bool :=
  c.objs.all (fun o => o.owner != invId || (match c.inv with | some l => decide (o.id ∈ l) | none => false))
def exW : Id := { ns := "ns1", name := "w", group := "example.com", kind := "Widget" }
def stOf (objs : List Live) (inv : List Id) : Cluster := { objs := objs, inv := some inv, invUid := "u0", nextUid := 7 }
def runA : Run := { destroy := false, objs := [{ id := exA }], opts := { timeout := true } }
/-- `DelScriptsOK`: since `hasFinalizer` names the two finalizer scripts explicitly, an unknown script value means "no finalizer,
the feed reports NotFound" (the default) and produces no orphan any more; the hypothesis is kept because the proofs go through the
shapes of the three OK scripts, and because the fourth script, "replaced" (a Current report with a new UID), is excluded on purpose:
with it a delete wait reports an object reconciled that is still there (`C05.scripted_replaced_reconciles`) -/
example : orphanFreeB (stOf [{ id := exA, uid := "u1", gen := 1, owner := invId }, { id := exB, uid := "u2", gen := 1, owner := invId }] [exA, exB]) = true ∧
    orphanFreeB (runOne (stOf [{ id := exA, uid := "u1", gen := 1, owner := invId }, { id := exB, uid := "u2", gen := 1, owner := invId }] [exA, exB])
      { runA with del := [(exB, "weird")] }).cl = true := by decide
/-- known kinds: a listed, annotated object of an unknown kind outside the apply set is skipped by `getPruneObjs` and dropped -/
example : orphanFreeB (stOf [{ id := exA, uid := "u1", gen := 1, owner := invId }, { id := exW, uid := "u2", gen := 1, owner := invId }] [exA, exW]) = true ∧
    orphanFreeB (runOne (stOf [{ id := exA, uid := "u1", gen := 1, owner := invId }, { id := exW, uid := "u2", gen := 1, owner := invId }] [exA, exW]) runA).cl = false := by
  decide
/-- `StoreWF.uidInj`: two ids sharing a uid — the pruned one is taken for "just applied" (CurrentUIDFilter), skipped and abandoned -/
example : orphanFreeB (stOf [{ id := exA, uid := "u1", gen := 1, owner := invId }, { id := exB, uid := "u1", gen := 1, owner := invId }] [exA, exB]) = true ∧
    orphanFreeB (runOne (stOf [{ id := exA, uid := "u1", gen := 1, owner := invId }, { id := exB, uid := "u1", gen := 1, owner := invId }] [exA, exB]) runA).cl = false := by
  decide
/-- `StoreWF.idsInj`: two stored objects with one id (impossible in a real store) -/
example : orphanFreeB (stOf [{ id := exA, uid := "u1", gen := 1, owner := "", keep := true }, { id := exA, uid := "u2", gen := 1, owner := invId }] [exA]) = true ∧
    orphanFreeB (runOne (stOf [{ id := exA, uid := "u1", gen := 1, owner := "", keep := true }, { id := exA, uid := "u2", gen := 1, owner := invId }] [exA])
      { destroy := true, objs := [], opts := { timeout := true } }).cl = false := by decide
/-- `StoreWF.fresh`: a stored uid that the server's counter hands out again -/
example : orphanFreeB { objs := [{ id := exB, uid := "uid-1", gen := 1, owner := invId }], inv := some [exB], invUid := "u0", nextUid := 0 } = true ∧
    orphanFreeB (runOne { objs := [{ id := exB, uid := "uid-1", gen := 1, owner := invId }], inv := some [exB], invUid := "u0", nextUid := 0 } runA).cl = false := by
  decide
end Necessity

end CliUtils.Props.C01
