import CliUtils.Model.IdSet
import CliUtils.Model.Manager
import CliUtils.Lemmas.ListL
/-
  C19 — identifier sets and the actuation table behave like their abstract models.
  Property theorems only; helper lemmas live in `Lemmas/`.
-/
namespace CliUtils.Props.C19
open CliUtils CliUtils.IdSet

variable {α : Type} [DecidableEq α]

/-! ### identifier sets: set semantics regardless of order and repeats -/

theorem mem_union (a b : List α) (x : α) : x ∈ union a b ↔ x ∈ a ∨ x ∈ b := by
  simp [union]

theorem mem_inter (a b : List α) (x : α) : x ∈ inter a b ↔ x ∈ a ∧ x ∈ b := by
  simp [inter]

theorem mem_diff (a b : List α) (x : α) : x ∈ diff a b ↔ x ∈ a ∧ x ∉ b := by
  simp [diff]

theorem mem_unique (a : List α) (x : α) : x ∈ unique a ↔ x ∈ a := by
  simp [unique]

theorem contains_iff (a : List α) (x : α) : contains a x = true ↔ x ∈ a := by
  simp [contains]

theorem equal_iff_same_members (a b : List α) : equal a b = true ↔ ∀ x, x ∈ a ↔ x ∈ b := by
  simp only [equal, Bool.and_eq_true, List.all_eq_true, decide_eq_true_eq]
  constructor
  · rintro ⟨h1, h2⟩ x; exact ⟨h1 x, h2 x⟩
  · intro h; exact ⟨fun x hx => (h x).1 hx, fun x hx => (h x).2 hx⟩

/-- results never contain repeats -/
theorem results_nodup (a b : List α) :
    (union a b).Nodup ∧ (inter a b).Nodup ∧ (diff a b).Nodup ∧ (unique a).Nodup :=
  ⟨nodup_dedup _, nodup_dedup _, nodup_dedup _, nodup_dedup _⟩

/-- order / duplicate independence: equal operands (as sets) give equal results (as sets) -/
theorem ops_respect_equal (a a' b b' : List α) (ha : equal a a' = true) (hb : equal b b' = true) :
    equal (union a b) (union a' b') = true ∧ equal (inter a b) (inter a' b') = true ∧
    equal (diff a b) (diff a' b') = true ∧ equal (unique a) (unique a') = true ∧
    (∀ x, contains a x = contains a' x) := by
  rw [equal_iff_same_members] at ha hb
  refine ⟨?_, ?_, ?_, ?_, ?_⟩
  · rw [equal_iff_same_members]; intro x; simp [mem_union, ha x, hb x]
  · rw [equal_iff_same_members]; intro x; simp [mem_inter, ha x, hb x]
  · rw [equal_iff_same_members]; intro x; simp [mem_diff, ha x, hb x]
  · rw [equal_iff_same_members]; intro x; simp [mem_unique, ha x]
  · intro x; simp [contains, ha x]

/-- `equal` is an equivalence relation -/
theorem equal_equivalence (a b c : List α) :
    equal a a = true ∧ (equal a b = true → equal b a = true) ∧
    (equal a b = true → equal b c = true → equal a c = true) := by
  refine ⟨?_, ?_, ?_⟩
  · rw [equal_iff_same_members]; intro x; exact Iff.rfl
  · rw [equal_iff_same_members, equal_iff_same_members]; intro h x; exact (h x).symm
  · rw [equal_iff_same_members, equal_iff_same_members, equal_iff_same_members]
    intro h1 h2 x; exact (h1 x).trans (h2 x)

/-- a repeat-free operand comes back unchanged from `unique` (first-seen order is kept) -/
theorem unique_of_nodup (a : List α) (h : a.Nodup) : unique a = a := dedup_eq_self_of_nodup a h

/-- the explicit remove operation removes nothing but `x`, and exactly one slot -/
theorem mem_of_mem_remove (a : List α) (x z : α) : z ∈ remove a x → z ∈ a := by
  induction a with
  | nil => simp [remove]
  | cons y ys ih =>
    simp only [remove]
    split
    · cases hl : ys.getLast? with
      | none => simp
      | some l =>
        simp only [List.mem_cons]
        rintro (h | h)
        · subst h; right; exact List.mem_of_getLast? hl
        · right; exact mem_of_mem_dropLast' _ _ h
    · simp only [List.mem_cons]
      rintro (h | h)
      · exact Or.inl h
      · exact Or.inr (ih h)

theorem remove_length (a : List α) (x : α) :
    (remove a x).length = if x ∈ a then a.length - 1 else a.length := by
  induction a with
  | nil => simp [remove]
  | cons y ys ih =>
    simp only [remove]
    by_cases h : y = x
    · simp only [h, if_true, List.mem_cons, true_or]
      cases hl : ys.getLast? with
      | none => simp [List.getLast?_eq_none_iff.mp hl]
      | some l =>
        have : ys ≠ [] := by intro e; simp [e] at hl
        simp only [List.length_cons, List.length_dropLast]
        have := List.length_pos_iff.mpr this
        omega
    · have hxy : ¬ x = y := fun e => h e.symm
      simp only [h, if_false, List.length_cons, ih, List.mem_cons, hxy, false_or]
      split
      · rename_i hm
        have := List.length_pos_of_mem hm
        omega
      · rfl

theorem remove_nodup_mem (a : List α) (x z : α) (h : a.Nodup) :
    z ∈ remove a x ↔ z ∈ a ∧ z ≠ x := by
  induction a with
  | nil => simp [remove]
  | cons y ys ih =>
    rw [List.nodup_cons] at h
    simp only [remove]
    by_cases hy : y = x
    · subst hy
      simp only [if_true]
      cases hl : ys.getLast? with
      | none =>
        have : ys = [] := List.getLast?_eq_none_iff.mp hl
        subst this; simp
      | some l =>
        have hne : ys ≠ [] := by intro e; simp [e] at hl
        have hdl : ys = ys.dropLast ++ [l] := by
          exact (dropLast_append_of_getLast? ys l hl).symm
        constructor
        · simp only [List.mem_cons]
          rintro (hz | hz)
          · subst hz
            have hm : z ∈ ys := List.mem_of_getLast? hl
            exact ⟨Or.inr hm, fun e => h.1 (e ▸ hm)⟩
          · have hm : z ∈ ys := mem_of_mem_dropLast' _ _ hz
            exact ⟨Or.inr hm, fun e => h.1 (e ▸ hm)⟩
        · rintro ⟨hz, hne'⟩
          simp only [List.mem_cons] at hz ⊢
          rcases hz with hz | hz
          · exact absurd hz hne'
          · rw [hdl] at hz
            simp only [List.mem_append, List.mem_singleton] at hz
            rcases hz with hz | hz
            · exact Or.inr hz
            · exact Or.inl hz
    · simp only [hy, if_false, List.mem_cons, ih h.2]
      constructor
      · rintro (hz | ⟨hz, hne⟩)
        · subst hz; exact ⟨Or.inl rfl, hy⟩
        · exact ⟨Or.inr hz, hne⟩
      · rintro ⟨hz | hz, hne⟩
        · exact Or.inl hz
        · exact Or.inr ⟨hz, hne⟩

/-! ### the actuation table -/

/-- the invariant: at most one record per object reference -/
def OneRecordPerId (m : Mgr α) : Prop := (m.map (·.id)).Nodup

theorem ids_set (m : Mgr α) (r : Rec α) :
    (Mgr.set m r).map (·.id) = if r.id ∈ m.map (·.id) then m.map (·.id) else m.map (·.id) ++ [r.id] := by
  induction m with
  | nil => simp [Mgr.set]
  | cons x xs ih =>
    simp only [Mgr.set]
    by_cases h : x.id = r.id
    · simp [h]
    · have h' : ¬ r.id = x.id := fun e => h e.symm
      simp only [h, if_false, List.map_cons, ih, List.mem_cons, h', false_or]
      split <;> simp

theorem set_preserves_inv (m : Mgr α) (r : Rec α) (h : OneRecordPerId m) : OneRecordPerId (m.set r) := by
  unfold OneRecordPerId at *
  rw [ids_set]
  split
  · exact h
  · rename_i hn
    rw [List.nodup_append]
    refine ⟨h, by simp, ?_⟩
    intro a ha b hb
    simp only [List.mem_singleton] at hb
    subst hb
    intro e; subst e; exact hn ha

theorem ids_setReconcile (m m' : Mgr α) (id : α) (rc : Reconcile) (h : m.setReconcile id rc = some m') :
    m'.map (·.id) = m.map (·.id) := by
  induction m generalizing m' with
  | nil => simp [Mgr.setReconcile] at h
  | cons x xs ih =>
    simp only [Mgr.setReconcile] at h
    split at h
    · injection h with h; subst h; simp
    · cases hs : Mgr.setReconcile xs id rc with
      | none => simp [hs] at h
      | some xs' =>
        simp only [hs] at h
        injection h with h; subst h
        simp [ih xs' hs]

/-- operations of the table (record an actuation outcome / set a reconcile outcome) -/
inductive Op (α : Type)
  | add (id : α) (s : Strategy) (a : Actuation) (uid : String) (gen : Int)
  | setRc (id : α) (rc : Reconcile)

def stepOp (m : Mgr α) : Op α → Mgr α
  | .add id s a uid gen => m.add id s a uid gen
  | .setRc id rc => (m.setReconcile id rc).getD m   -- error branch: table unchanged

/-- exactly one record per object after any sequence of operations -/
theorem one_record_per_id (ops : List (Op α)) : OneRecordPerId (ops.foldl stepOp ([] : Mgr α)) := by
  suffices ∀ m : Mgr α, OneRecordPerId m → OneRecordPerId (ops.foldl stepOp m) from
    this [] (by simp [OneRecordPerId])
  induction ops with
  | nil => intro m h; exact h
  | cons op ops ih =>
    intro m h
    apply ih
    cases op with
    | add id s a uid gen => exact set_preserves_inv m _ h
    | setRc id rc =>
      simp only [stepOp]
      cases hs : m.setReconcile id rc with
      | none => simpa using h
      | some m' =>
        simp only [Option.getD_some]
        unfold OneRecordPerId at *
        rw [ids_setReconcile m m' id rc hs]; exact h

/-- a lookup after recording returns exactly what was recorded (latest outcome) -/
theorem find_set_same (m : Mgr α) (r : Rec α) : (m.set r).find? r.id = some r := by
  induction m with
  | nil => simp [Mgr.set, Mgr.find?]
  | cons x xs ih =>
    simp only [Mgr.set]
    by_cases h : x.id = r.id
    · simp [h, Mgr.find?]
    · simp only [h, if_false, Mgr.find?, List.find?_cons, decide_false]
      exact ih

/-- … and lookups of every other object are unaffected -/
theorem find_set_other (m : Mgr α) (r : Rec α) (id : α) (h : id ≠ r.id) :
    (m.set r).find? id = m.find? id := by
  induction m with
  | nil =>
    have h2 : ¬ r.id = id := fun e => h e.symm
    simp [Mgr.set, Mgr.find?, List.find?_cons, h2]
  | cons x xs ih =>
    simp only [Mgr.set]
    by_cases hx : x.id = r.id
    · have : ¬ x.id = id := fun e => h (e ▸ hx ▸ rfl)
      have h2 : ¬ r.id = id := fun e => h e.symm
      simp [hx, Mgr.find?, h2]
    · simp only [hx, if_false, Mgr.find?, List.find?_cons]
      split
      · rfl
      · exact ih

theorem find_setReconcile (m m' : Mgr α) (id : α) (rc : Reconcile) (h : m.setReconcile id rc = some m') :
    ∃ r, m.find? id = some r ∧ m'.find? id = some { r with reconcile := rc } := by
  induction m generalizing m' with
  | nil => simp [Mgr.setReconcile] at h
  | cons x xs ih =>
    simp only [Mgr.setReconcile] at h
    by_cases hx : x.id = id
    · simp only [hx, if_true] at h
      injection h with h; subst h
      exact ⟨x, by simp [Mgr.find?, hx], by simp [Mgr.find?, hx]⟩
    · simp only [hx, if_false] at h
      cases hs : Mgr.setReconcile xs id rc with
      | none => simp [hs] at h
      | some xs' =>
        simp only [hs] at h
        injection h with h; subst h
        obtain ⟨r, h1, h2⟩ := ih xs' hs
        exact ⟨r, by simpa [Mgr.find?, List.find?_cons, hx] using h1,
                  by simpa [Mgr.find?, List.find?_cons, hx] using h2⟩

/-- setting a reconcile outcome fails exactly for unknown objects (they are "simply not found") -/
theorem setReconcile_none_iff (m : Mgr α) (id : α) (rc : Reconcile) :
    m.setReconcile id rc = none ↔ m.find? id = none := by
  induction m with
  | nil => simp [Mgr.setReconcile, Mgr.find?]
  | cons x xs ih =>
    simp only [Mgr.setReconcile, Mgr.find?, List.find?_cons]
    by_cases hx : x.id = id
    · simp [hx]
    · simp only [hx, if_false, decide_false]
      cases hs : Mgr.setReconcile xs id rc with
      | none => simpa [Mgr.find?] using ih.mp hs
      | some xs' =>
        simp only [reduceCtorEq, false_iff]
        intro hn
        have := ih.mpr (by simpa [Mgr.find?] using hn)
        rw [hs] at this; cases this

/-- every query is total and unknown objects are simply "not found" (false / not ok) -/
theorem queries_unknown (m : Mgr α) (id : α) (h : m.find? id = none) (s : Strategy) (a : Actuation) (rc : Reconcile) :
    m.isActuation id s a = false ∧ m.isReconcile id rc = false ∧
    m.appliedUID id = ("", false) ∧ m.appliedGen id = (0, false) := by
  simp [Mgr.isActuation, Mgr.isReconcile, Mgr.appliedUID, Mgr.appliedGen, h]

omit [DecidableEq α] in
/-- per-outcome queries partition the recorded objects: each recorded object is returned by exactly the
query of its own (strategy, actuation) pair and exactly the query of its own reconcile status -/
theorem outcome_queries_partition (m : Mgr α) (h : OneRecordPerId m) (r : Rec α) (hr : r ∈ m)
    (s : Strategy) (a : Actuation) (rc : Reconcile) :
    (r.id ∈ m.withActuation s a ↔ (s = r.strategy ∧ a = r.actuation)) ∧
    (r.id ∈ m.withReconcile rc ↔ rc = r.reconcile) := by
  have uniq : ∀ r' ∈ m, r'.id = r.id → r' = r := by
    intro r' hr' hid
    unfold OneRecordPerId at h
    induction m with
    | nil => cases hr
    | cons x xs ih =>
      simp only [List.map_cons, List.nodup_cons, List.mem_map, not_exists, not_and] at h
      rcases List.mem_cons.mp hr with e | hr1 <;> rcases List.mem_cons.mp hr' with e' | hr1'
      · rw [e, e']
      · subst e; exact absurd hid (h.1 r' hr1')
      · subst e'; exact absurd hid.symm (h.1 r hr1)
      · exact ih h.2 hr1 hr1'
  constructor
  · simp only [Mgr.withActuation, List.mem_map, List.mem_filter, decide_eq_true_eq]
    constructor
    · rintro ⟨r', ⟨hr', hs, ha⟩, hid⟩
      have := uniq r' hr' hid; subst this; exact ⟨hs.symm, ha.symm⟩
    · rintro ⟨hs, ha⟩; exact ⟨r, ⟨hr, hs.symm, ha.symm⟩, rfl⟩
  · simp only [Mgr.withReconcile, List.mem_map, List.mem_filter, decide_eq_true_eq]
    constructor
    · rintro ⟨r', ⟨hr', hrc⟩, hid⟩
      have := uniq r' hr' hid; subst this; exact hrc.symm
    · intro hrc; exact ⟨r, ⟨hr, hrc.symm⟩, rfl⟩

omit [DecidableEq α] in
/-- and only recorded objects are ever returned -/
theorem queries_only_recorded (m : Mgr α) (id : α) (s : Strategy) (a : Actuation) (rc : Reconcile) :
    (id ∈ m.withActuation s a → id ∈ m.ids) ∧ (id ∈ m.withReconcile rc → id ∈ m.ids) := by
  simp only [Mgr.withActuation, Mgr.withReconcile, Mgr.ids, List.mem_map, List.mem_filter]
  exact ⟨fun ⟨r, ⟨hr, _⟩, e⟩ => ⟨r, hr, e⟩, fun ⟨r, ⟨hr, _⟩, e⟩ => ⟨r, hr, e⟩⟩

/-- the boolean `Is…` queries agree with the list queries (under the invariant) -/
theorem is_iff_listed (m : Mgr α) (h : OneRecordPerId m) (id : α) (s : Strategy) (a : Actuation) :
    m.isActuation id s a = true ↔ id ∈ m.withActuation s a := by
  induction m with
  | nil => simp [Mgr.isActuation, Mgr.find?, Mgr.withActuation]
  | cons x xs ih =>
    unfold OneRecordPerId at h
    simp only [List.map_cons, List.nodup_cons, List.mem_map, not_exists, not_and] at h
    by_cases hx : x.id = id
    · subst hx
      simp only [Mgr.isActuation, Mgr.find?, List.find?_cons, decide_true, Mgr.withActuation,
        List.mem_map, List.mem_filter, List.mem_cons, decide_eq_true_eq]
      constructor
      · intro hh; exact ⟨x, ⟨Or.inl rfl, by simpa using hh⟩, rfl⟩
      · rintro ⟨r', ⟨hr' | hr', hsa⟩, hid⟩
        · subst hr'; simpa using hsa
        · exact absurd hid (h.1 r' hr')
    · have ih' := ih h.2
      simp only [Mgr.isActuation, Mgr.find?, List.find?_cons, hx, decide_false] at ih' ⊢
      rw [ih']
      simp only [Mgr.withActuation, List.mem_map, List.mem_filter, List.mem_cons]
      constructor
      · rintro ⟨r', ⟨hr', hsa⟩, hid⟩; exact ⟨r', ⟨Or.inr hr', hsa⟩, hid⟩
      · rintro ⟨r', ⟨hr' | hr', hsa⟩, hid⟩
        · subst hr'; exact absurd hid hx
        · exact ⟨r', ⟨hr', hsa⟩, hid⟩

/-! ### non-vacuity -/
private def OneRecordPerId' (m : Mgr Nat) : Bool := decide ((m.map (·.id)).Nodup)
example : equal [1, 2, 2] [2, 1] = true ∧ union [1, 2, 2] [3, 1] = [1, 2, 3] ∧ inter [1, 2, 2] [2, 3] = [2]
    ∧ diff [1, 2, 2, 4] [2] = [1, 4] ∧ remove [1, 2, 3, 2] 2 = [1, 2, 3] := by decide

example : OneRecordPerId' ([Op.add 1 .apply .succeeded "u" 1, .setRc 1 .succeeded, .add 2 .delete .failed "" 0,
    .add 1 .apply .failed "" 0].foldl stepOp ([] : Mgr Nat)) ∧
    ([Op.add 1 .apply .succeeded "u" 1, .setRc 1 .succeeded, .add 2 .delete .failed "" 0,
    .add 1 .apply .failed "" 0].foldl stepOp ([] : Mgr Nat)).length = 2 := by decide

end CliUtils.Props.C19
