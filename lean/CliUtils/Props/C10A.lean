import CliUtils.Drv.Apisvc
/-
  C10 for the `apisvc` table (the APIService retry path the whole-run model does not contain): whatever the combination of
  server-side apply, stream error and pre-existence, the table the implementation is compared with sends, under a dry-run
  strategy, only requests carrying the dry-run directive (none under client dry-run) and never changes the store.  So agreement
  with the table under a dry-run strategy implies C10 for that run; the predicate of the handler judges the implementation's own
  output as well.
-/
namespace CliUtils.Props.C10
open Lean CliUtils.Drv.Apisvc

/-- the dry-run flag of a request record `[verb, id, dry, result]` -/
def reqDry (r : Json) : Bool :=
  match r with
  | .arr a => (match a[2]! with | .bool b => b | _ => false)
  | _ => false

theorem apisvc_client_dry_sends_nothing (ssa se ex rf : Bool) :
    (expected 1 ssa se ex rf).1 = [] ∧ (expected 1 ssa se ex rf).2.2 = false := by
  simp [expected]

theorem apisvc_dry_only_flagged (dry : Nat) (ssa se ex rf : Bool) (h : dry ≠ 0) :
    (expected dry ssa se ex rf).1.all reqDry = true ∧ (expected dry ssa se ex rf).2.2 = false := by
  match dry, h with
  | 1, _ => simp [expected]
  | n + 2, _ =>
    cases ssa <;> cases se <;> cases rf <;> simp [expected, reqDry, req]

/-- non-vacuity: the server dry-run row with a stream error under SSA really retries (two flagged requests) -/
example : ((expected 2 true true false).1.length = 2) := by simp [expected]

end CliUtils.Props.C10
