import CliUtils.Model.Status
import CliUtils.Spec.Status
import CliUtils.Lemmas.StatusShape
/-
  C09 — status computation is total, pure and well-formed.
  The model `KStatus.compute` is a total Lean function into `Except Err Result`, so "returns a result or an error, never
  panics" and "equal answers for equal inputs" hold of the model by construction; what carries content for the CODE is the
  correspondence run (real `Compute` under recover(), called twice, input deep-compared, outputs compared with this model).
  The model implements `getCrashLoopingContainers` with CHECKED type assertions (the repair of the C09 finding).
  The theorems below are the well-formedness half: for every JSON tree, every dispatch key, every clock bit.
-/
namespace CliUtils.Props.C09
open CliUtils CliUtils.J CliUtils.KStatus CliUtils.Spec.KStatus

/-- totality: for any object whatsoever the computation yields a result or an error (no third outcome exists) -/
theorem compute_total (w : Bool) (o : J) : (∃ r, compute w o = .ok r) ∨ (∃ e, compute w o = .error e) := by
  cases h : compute w o with
  | ok r => exact Or.inl ⟨r, rfl⟩
  | error e => exact Or.inr ⟨e, rfl⟩

/-- strong shape, for every dispatch key: InProgress carries exactly the one true Reconciling condition, Failed exactly
the one true Stalled condition, Current and Terminating carry no condition at all -/
theorem result_shape_strong (key : String) (w : Bool) (o : J) (r : Result) (h : computeK key w o = .ok r) :
    (r.status = .inProgress ∧ ∃ reason, r.conditions = [{ type := "Reconciling", status := "True", reason := reason }]) ∨
    (r.status = .failed ∧ ∃ reason, r.conditions = [{ type := "Stalled", status := "True", reason := reason }]) ∨
    (r.status = .current ∧ r.conditions = []) ∨
    (r.status = .terminating ∧ r.conditions = []) :=
  computeK_shaped key w o r h

/-- the executable C09 shape predicate (the one the driver evaluates on the implementation's results) holds of every
result of the model: exactly one true Reconciling when InProgress, exactly one true Stalled when Failed, none otherwise -/
theorem result_shape (w : Bool) (o : J) (r : Result) (h : compute w o = .ok r) : resultShape r = true := by
  rcases computeK_shaped _ w o r h with ⟨hs, reason, hc⟩ | ⟨hs, reason, hc⟩ | ⟨hs, hc⟩ | ⟨hs, hc⟩ <;>
    simp [resultShape, hs, hc, countCond, reconcilingCond, stalledCond]

/-- the same for an arbitrary dispatch key -/
theorem result_shape_every_key (key : String) (w : Bool) (o : J) (r : Result) (h : computeK key w o = .ok r) :
    resultShape r = true := by
  rcases computeK_shaped key w o r h with ⟨hs, reason, hc⟩ | ⟨hs, reason, hc⟩ | ⟨hs, hc⟩ | ⟨hs, hc⟩ <;>
    simp [resultShape, hs, hc, countCond, reconcilingCond, stalledCond]

/-- a result's status is one of InProgress, Failed, Current, Terminating (NotFound / Unknown are never computed) -/
theorem status_four_values (w : Bool) (o : J) (r : Result) (_ : compute w o = .ok r) :
    r.status = .inProgress ∨ r.status = .failed ∨ r.status = .current ∨ r.status = .terminating := by
  cases r.status <;> simp

/-- a true Reconciling and a true Stalled condition never occur together in one result -/
theorem never_both (w : Bool) (o : J) (r : Result) (h : compute w o = .ok r) :
    countCond r.conditions "Reconciling" + countCond r.conditions "Stalled" ≤ 1 := by
  rcases computeK_shaped _ w o r h with ⟨_, reason, hc⟩ | ⟨_, reason, hc⟩ | ⟨_, hc⟩ | ⟨_, hc⟩ <;>
    simp [hc, countCond, reconcilingCond, stalledCond]

/-- purity: the answer is a function of the object and the one clock bit -/
theorem pure (w w' : Bool) (o o' : J) (ho : o = o') (hw : w = w') : compute w o = compute w' o' := by
  subst ho; subst hw; rfl

/-- the clock bit is consulted for Pending Pods only (the documented grace window for unschedulable pods) -/
theorem clock_only_for_pending_pods (key : String) (o : J)
    (h : legacy key ≠ some .pod ∨ getStringField o ["status", "phase"] "" ≠ "Pending") :
    computeK key true o = computeK key false o := by
  unfold computeK
  split
  · rfl
  · rfl
  · split
    · rename_i k hk
      cases k <;> simp only [kindFn]
      rcases h with h | h
      · exact absurd hk h
      · unfold podConditions
        split
        · rfl
        · simp only []
          have hp : ¬ (getStringField o ["status", "phase"] "" = "Pending") := h
          simp only [hp, if_false]
    · rfl

/-! ### the statements are not vacuous: concrete results of every shape -/

private def podWith (cs : J) : J :=
  .obj [("apiVersion", .str "v1"), ("kind", .str "Pod"),
        ("status", .obj [("phase", .str "Running"), ("containerStatuses", cs)])]

/-- the witness of the C09 finding under the repaired reading: a non-map entry is skipped, no crash loop is reported -/
example : (compute false (podWith (.arr [.str "x"]))).toOption = some (inProgressR "PodRunningNotReady") := by decide

/-- a well-formed crash-looping entry next to malformed ones is still found -/
example : (compute false (podWith (.arr [.null, .num 7,
    .obj [("name", .str "a"), ("state", .obj [("waiting", .obj [("reason", .str "CrashLoopBackOff")])])]]))).toOption =
    some (failedR "ContainerCrashLooping") := by decide

/-- name of the wrong type: skipped -/
example : (compute false (podWith (.arr [
    .obj [("name", .num 1), ("state", .obj [("waiting", .obj [("reason", .str "CrashLoopBackOff")])])]]))).toOption =
    some (inProgressR "PodRunningNotReady") := by decide

example : (compute false (.obj [("metadata", .obj [("deletionTimestamp", .str "2020-01-01T00:00:00Z")])])).toOption =
    some terminatingR := by decide

example : (compute false (.obj [("kind", .str "Foo")])).toOption = some currentR := by decide

/-- a malformed object gives an error (not a result) -/
example : (compute false (.obj [("metadata", .str "x")])).toOption = none := by decide

end CliUtils.Props.C09
