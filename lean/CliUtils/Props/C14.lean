import CliUtils.Model.Graph
import CliUtils.Spec.Graph
import CliUtils.Lemmas.GraphL
import CliUtils.Lemmas.OrderingL
/-
  C14 — dependency sort is a correct, deterministic layering; cycles are reported exactly.

  Property theorems only; helper lemmas live in `Lemmas/GraphL.lean` and `Lemmas/OrderingL.lean`, the vocabulary
  (`Edge`, `Walk`, `Reach`, `OnCycle`, `HasChain`, `InLayer`, `StrictTotal`, `Sorted`) in `Spec/Graph.lean`.

  All statements are about the functions the driver runs (`Graph.build`, `Graph.sort`, `Graph.hydrate`,
  `Graph.cycleIds`, `Graph.reverseSetList`, `Graph.sortObjs`, `Graph.reverseSortObjs`, `Ordering.less`), for every
  vertex type with decidable equality, every vertex list and every edge list — no bound on sizes.

  `KeysNodup g` / `Closed g` are the two invariants of Go's `Graph` (a map has unique keys; `AddEdge` adds both
  endpoints); `build_wellformed` shows every graph made with `AddVertex`/`AddEdge` has them.
-/
namespace CliUtils.Props.C14
open CliUtils CliUtils.Graph CliUtils.Ordering

variable {α : Type} [DecidableEq α]

/-! ### the graphs client code can build -/

/-- a graph built with `AddVertex`/`AddEdge` has unique keys and is closed; its vertices are the added vertices
plus all edge endpoints, its edge relation is exactly the list of added edges (repeats are absorbed). -/
theorem build_wellformed (vs : List α) (es : List (α × α)) :
    KeysNodup (build vs es) ∧ Closed (build vs es) ∧
    (∀ x, x ∈ verts (build vs es) ↔ x ∈ vs ∨ ∃ e ∈ es, x = e.1 ∨ x = e.2) ∧
    (∀ a b, Edge (build vs es) a b ↔ (a, b) ∈ es) :=
  build_spec vs es

/-- why the model may treat `removeVertex` as filtering: adjacency lists of a built graph never hold repeats
(the `isAdjacent` guard), this survives every round of the loop, and on a repeat-free list the swap-and-shrink
`ObjMetadataSet.Remove` deletes exactly the element. (Without the guard one copy would survive `Remove` and an
acyclic graph would be reported cyclic — the correspondence run catches that mutant.) -/
theorem removeVertex_is_filter (vs : List α) (es : List (α × α)) :
    AdjNodup (build vs es) ∧
    (∀ (g : Adj α) (ls : List α), AdjNodup g → AdjNodup (removeVs g ls)) ∧
    (∀ (l : List α) (x z : α), l.Nodup → (z ∈ IdSet.remove l x ↔ z ∈ l.filter (fun d => decide (d ∉ [x])))) := by
  refine ⟨adjNodup_build vs es, fun g ls h => adjNodup_removeVs h ls, ?_⟩
  intro l x z hn
  rw [mem_remove_of_nodup l hn, List.mem_filter]
  simp

/-! ### layering -/

/-- **partition**: the layers and the remaining (cyclic) vertices together are a rearrangement of the vertex
set — every vertex is in exactly one layer or in the remaining set, nothing else is, nothing occurs twice. -/
theorem sort_partition (g : Adj α) (h : KeysNodup g) :
    ((sort g).1.flatten ++ verts (sort g).2).Perm (verts g) :=
  sortAux_perm _ g h

/-- corollary of `sort_partition`: no repeats anywhere, no empty layer. -/
theorem sort_nodup (g : Adj α) (h : KeysNodup g) :
    ((sort g).1.flatten ++ verts (sort g).2).Nodup ∧ ∀ l ∈ (sort g).1, l ≠ [] :=
  ⟨(sort_partition g h).nodup_iff.mpr h, layers_ne_nil _ g⟩

/-- corollary of `sort_partition`: a vertex is in some layer or remaining, never both, and in one layer only. -/
theorem sort_exactly_one (g : Adj α) (h : KeysNodup g) {v : α} (hv : v ∈ verts g) :
    ((∃ i, InLayer (sort g).1 i v) ∨ v ∈ verts (sort g).2) ∧
    ¬ ((∃ i, InLayer (sort g).1 i v) ∧ v ∈ verts (sort g).2) ∧
    (∀ i j, InLayer (sort g).1 i v → InLayer (sort g).1 j v → i = j) := by
  have hp := sort_partition g h
  have hnd := (sort_nodup g h).1
  refine ⟨?_, ?_, ?_⟩
  · rcases List.mem_append.mp (hp.mem_iff.mpr hv) with h1 | h1
    · exact Or.inl (mem_flatten_iff_inLayer.mp h1)
    · exact Or.inr h1
  · rintro ⟨h1, h2⟩
    exact (List.nodup_append.mp hnd).2.2 v (mem_flatten_iff_inLayer.mpr h1) v h2 rfl
  · intro i j hi hj
    have ci := inLayer_hasChain _ g h hi
    have ni := inLayer_no_longer_chain _ g h hi
    have cj := inLayer_hasChain _ g h hj
    have nj := inLayer_no_longer_chain _ g h hj
    rcases Nat.lt_trichotomy i j with hlt | heq | hgt
    · exact absurd (hasChain_le (by omega) cj) ni
    · exact heq
    · exact absurd (hasChain_le (by omega) ci) nj

/-- **strictness**: every dependency of a vertex in layer `i` lies in a layer `j < i`. -/
theorem sort_edges_strict (g : Adj α) (h : KeysNodup g) {i : Nat} {v d : α}
    (hv : InLayer (sort g).1 i v) (he : Edge g v d) : ∃ j, j < i ∧ InLayer (sort g).1 j d :=
  sortAux_strict _ g h hv he

/-- **minimality**: a vertex in layer `k+1` has a dependency in layer `k`, so it could not be placed earlier. -/
theorem sort_minimal (g : Adj α) (h : KeysNodup g) {k : Nat} {v : α}
    (hv : InLayer (sort g).1 (k + 1) v) : ∃ d, InLayer (sort g).1 k d ∧ Edge g v d :=
  sortAux_minimal _ g h hv

/-- **longest-path layering**: the layer number of a vertex is the length of the longest dependency chain
starting at it (a chain of that length exists, no longer one does). -/
theorem layer_is_longest_chain (g : Adj α) (h : KeysNodup g) {i : Nat} {v : α}
    (hv : InLayer (sort g).1 i v) : HasChain g v i ∧ ¬ HasChain g v (i + 1) :=
  ⟨inLayer_hasChain _ g h hv, inLayer_no_longer_chain _ g h hv⟩

/-- the fuel of the model's loop is sufficient: when it stops, no leaf is left (Go: `len(leafVertices) == 0`
or `len(edges) == 0`). -/
theorem sort_rest_no_leaves (g : Adj α) : leaves (sort g).2 = [] :=
  rest_no_leaves _ g (Nat.le_refl _)

/-! ### the cycle set -/

/-- every remaining vertex has a dependency that is also remaining (so arbitrarily long chains start there),
and no layered vertex has a remaining dependency. -/
theorem cycle_set_closed (g : Adj α) (h : KeysNodup g) (hc : Closed g) :
    (∀ v, v ∈ verts (sort g).2 → ∃ d, d ∈ verts (sort g).2 ∧ Edge g v d) ∧
    (∀ i v d, InLayer (sort g).1 i v → Edge g v d → d ∉ verts (sort g).2) := by
  refine ⟨fun v hv => rest_has_dep _ g hc (Nat.le_refl _) hv, ?_⟩
  intro i v d hv he hd
  obtain ⟨j, _, hj⟩ := sort_edges_strict g h hv he
  exact (sort_exactly_one g h (hc v d he)).2.1 ⟨⟨j, hj⟩, hd⟩

/-- infinite-path form: the remaining vertices are exactly those from which dependency chains of every length start. -/
theorem cycle_set_chains (g : Adj α) (h : KeysNodup g) (hc : Closed g) {v : α} (hv : v ∈ verts g) :
    v ∈ verts (sort g).2 ↔ ∀ k, HasChain g v k :=
  mem_rest_iff _ g h hc (Nat.le_refl _) hv

/-- **cycles reported exactly** (pigeonhole form): the vertices left over by `Sort` — the ids named by the
cyclic-dependency error — are exactly the vertices that lie on a cycle or (transitively) depend on one. -/
theorem cycle_set_exact (g : Adj α) (h : KeysNodup g) (hc : Closed g) (v : α) :
    v ∈ verts (sort g).2 ↔ v ∈ verts g ∧ ∃ c, Reach g v c ∧ OnCycle g c := by
  constructor
  · intro hr
    have hv : v ∈ verts g := (sort_partition g h).mem_iff.mp (List.mem_append_right _ hr)
    exact ⟨hv, hasChain_all_iff_reaches_cycle.mp ((cycle_set_chains g h hc hv).mp hr)⟩
  · rintro ⟨hv, hx⟩
    exact (cycle_set_chains g h hc hv).mpr (hasChain_all_iff_reaches_cycle.mpr hx)

/-- no error ⇔ the graph is acyclic: `Sort` orders everything iff no vertex lies on a cycle. -/
theorem no_error_iff_acyclic (g : Adj α) (h : KeysNodup g) (hc : Closed g) :
    (sort g).2 = [] ↔ ∀ c, c ∈ verts g → ¬ OnCycle g c := by
  constructor
  · intro he c hcv hcy
    have : c ∈ verts (sort g).2 := (cycle_set_exact g h hc c).mpr ⟨hcv, c, ⟨[], Walk.nil c⟩, hcy⟩
    rw [he] at this; cases this
  · intro hno
    cases hr : (sort g).2 with
    | nil => rfl
    | cons p r =>
      exfalso
      have hp : p.1 ∈ verts (sort g).2 := by rw [hr]; simp [verts]
      obtain ⟨_, c, _, hcy⟩ := (cycle_set_exact g h hc p.1).mp hp
      obtain ⟨l, hne, w⟩ := hcy
      cases w with
      | nil => exact hne rfl
      | cons he _ => exact hno c he.src_mem ⟨_, hne, Walk.cons he ‹_›⟩

/-- the edges named by the error are exactly the edges between remaining vertices. -/
theorem cycle_edges_exact (g : Adj α) (h : KeysNodup g) (hc : Closed g) (a b : α) :
    (a, b) ∈ edgesOf (sort g).2 ↔ Edge g a b ∧ a ∈ verts (sort g).2 ∧ b ∈ verts (sort g).2 := by
  rw [mem_edgesOf]
  exact rest_edge_iff _ g h hc

/-- the ids in the error (`edgeMapKeys`, sorted) are a rearrangement of the remaining vertices. -/
theorem cycleIds_perm (lt : α → α → Bool) (r : Adj α) : (cycleIds lt r).Perm (verts r) :=
  isort_perm lt _

/-! ### uniqueness of the layering ⇒ independence of the presentation -/

/-- **layering uniqueness**: two well-formed graphs with the same vertex set and the same edge relation
(whatever the order of keys and adjacency lists) get the same number of layers, the same members in each layer
and the same remaining set. -/
theorem layering_unique (g g' : Adj α) (h : KeysNodup g) (h' : KeysNodup g') (hc : Closed g) (hc' : Closed g')
    (hv : ∀ v, v ∈ verts g ↔ v ∈ verts g') (he : ∀ v d, Edge g v d ↔ Edge g' v d) :
    (sort g).1.length = (sort g').1.length ∧
    (∀ i v, InLayer (sort g).1 i v ↔ InLayer (sort g').1 i v) ∧
    (∀ v, v ∈ verts (sort g).2 ↔ v ∈ verts (sort g').2) := by
  have t1 : ∀ i v, InLayer (sort g).1 i v → InLayer (sort g').1 i v := fun i v hi =>
    inLayer_transfer h h' hc' (Nat.le_refl _) (fun v => (hv v).mp) he hi
  have t2 : ∀ i v, InLayer (sort g').1 i v → InLayer (sort g).1 i v := fun i v hi =>
    inLayer_transfer h' h hc (Nat.le_refl _) (fun v => (hv v).mpr) (fun v d => (he v d).symm) hi
  refine ⟨Nat.le_antisymm (layers_length_le t1) (layers_length_le t2), fun i v => ⟨t1 i v, t2 i v⟩, ?_⟩
  intro v
  have chain_iff : ∀ k, HasChain g v k ↔ HasChain g' v k := fun k =>
    ⟨fun c => c.mono (fun a b e => (he a b).mp e), fun c => c.mono (fun a b e => (he a b).mpr e)⟩
  constructor
  · intro hr
    have hvg : v ∈ verts g := (sort_partition g h).mem_iff.mp (List.mem_append_right _ hr)
    exact (cycle_set_chains g' h' hc' ((hv v).mp hvg)).mpr
      (fun k => (chain_iff k).mp ((cycle_set_chains g h hc hvg).mp hr k))
  · intro hr
    have hvg : v ∈ verts g' := (sort_partition g' h').mem_iff.mp (List.mem_append_right _ hr)
    exact (cycle_set_chains g h hc ((hv v).mpr hvg)).mpr
      (fun k => (chain_iff k).mpr ((cycle_set_chains g' h' hc' hvg).mp hr k))

/-- **permutation invariance** of `Sort`: presenting the same vertices and edges in any other order
(or with repeats) gives the same layers as sets and the same cycle set. -/
theorem sort_perm_invariant (vs vs' : List α) (es es' : List (α × α))
    (hv : ∀ x, x ∈ vs ↔ x ∈ vs') (he : ∀ e, e ∈ es ↔ e ∈ es') :
    (sort (build vs es)).1.length = (sort (build vs' es')).1.length ∧
    (∀ i v, InLayer (sort (build vs es)).1 i v ↔ InLayer (sort (build vs' es')).1 i v) ∧
    (∀ v, v ∈ verts (sort (build vs es)).2 ↔ v ∈ verts (sort (build vs' es')).2) := by
  obtain ⟨k, c, mv, me⟩ := build_spec vs es
  obtain ⟨k', c', mv', me'⟩ := build_spec vs' es'
  apply layering_unique _ _ k k' c c'
  · intro v
    rw [mv, mv', hv]
    constructor
    · rintro (h | ⟨e, h1, h2⟩)
      · exact Or.inl h
      · exact Or.inr ⟨e, (he e).mp h1, h2⟩
    · rintro (h | ⟨e, h1, h2⟩)
      · exact Or.inl h
      · exact Or.inr ⟨e, (he e).mpr h1, h2⟩
  · intro v d
    rw [me, me', he]

/-- in particular for permutations of the two input lists. -/
theorem sort_perm_invariant' (vs vs' : List α) (es es' : List (α × α)) (hv : vs.Perm vs') (he : es.Perm es') :
    (sort (build vs es)).1.length = (sort (build vs' es')).1.length ∧
    (∀ i v, InLayer (sort (build vs es)).1 i v ↔ InLayer (sort (build vs' es')).1 i v) ∧
    (∀ v, v ∈ verts (sort (build vs es)).2 ↔ v ∈ verts (sort (build vs' es')).2) :=
  sort_perm_invariant vs vs' es es' (fun _ => hv.mem_iff) (fun _ => he.mem_iff)

/-! ### the order inside a layer -/

/-- **`ordering.less` is a strict total order on ids** (kind-table position, group, kind, namespace, name). -/
theorem less_strict_total : StrictTotal Ordering.less := less_strictTotal

/-- `less` spelled as the lexicographic comparison of the documented key. -/
theorem less_is_lexicographic (a b : Id) :
    Ordering.less a b = true ↔
      lexProd ILt (lexProd SLt (lexProd SLt (lexProd SLt SLt)))
        (kindIndex a.group a.kind, a.group, a.kind, a.ns, a.name)
        (kindIndex b.group b.kind, b.group, b.kind, b.ns, b.name) :=
  less_iff_key a b

/-- the order used for the edges of the cycle error is a strict total order too. -/
theorem edgeLess_strict_total : StrictTotal Ordering.edgeLess := edgeLess_strictTotal

/-- **hydrate is deterministic**: under a strict total order a sorted rearrangement is unique, so *any* correct
sorting routine (Go's unstable `sort.Sort` included) returns what the model's insertion sort returns, and the
result does not depend on the order in which the layer came out of the map. -/
theorem hydrate_deterministic {lt : α → α → Bool} (h : StrictTotal lt) :
    (∀ l s : List α, s.Perm l → Sorted lt s → s = isort lt l) ∧
    (∀ l l' : List α, l.Perm l' → isort lt l = isort lt l') :=
  ⟨fun l _ hp hs => sorted_perm_unique h hs (isort_sorted h l) (hp.trans (isort_perm lt l).symm),
   fun _ _ hp => isort_eq_of_perm h hp⟩

/-- the hydrated layers of two presentations of one graph are *identical lists*, and so are the sorted cycle ids. -/
theorem hydrate_perm_invariant {lt : α → α → Bool} (hlt : StrictTotal lt) (p : α → Bool)
    (vs vs' : List α) (es es' : List (α × α)) (hv : ∀ x, x ∈ vs ↔ x ∈ vs') (he : ∀ e, e ∈ es ↔ e ∈ es') :
    hydrate lt p (sort (build vs es)).1 = hydrate lt p (sort (build vs' es')).1 ∧
    cycleIds lt (sort (build vs es)).2 = cycleIds lt (sort (build vs' es')).2 := by
  obtain ⟨hlen, hin, hrest⟩ := sort_perm_invariant vs vs' es es' hv he
  obtain ⟨k, -, -, -⟩ := build_spec vs es
  obtain ⟨k', -, -, -⟩ := build_spec vs' es'
  constructor
  · apply hydrate_congr hlt p hlen
    intro i l l' h1 h2
    apply (List.perm_ext_iff_of_nodup (layers_nodup _ _ k l (List.mem_of_getElem? h1))
      (layers_nodup _ _ k' l' (List.mem_of_getElem? h2))).mpr
    intro a
    constructor
    · intro ha
      obtain ⟨l2, e2, m2⟩ := (hin i a).mp ⟨l, h1, ha⟩
      rw [h2] at e2; injection e2 with e2; subst e2; exact m2
    · intro ha
      obtain ⟨l2, e2, m2⟩ := (hin i a).mpr ⟨l', h2, ha⟩
      rw [h1] at e2; injection e2 with e2; subst e2; exact m2
  · unfold cycleIds
    apply isort_eq_of_perm hlt
    exact (List.perm_ext_iff_of_nodup (rest_keysNodup _ _ k) (rest_keysNodup _ _ k')).mpr hrest

/-- `SortObjs` gives the same layers (as lists) and the same error ids for every presentation of the objects. -/
theorem sortObjs_perm_invariant {lt : α → α → Bool} (hlt : StrictTotal lt) (elt : α × α → α × α → Bool)
    (vs vs' : List α) (es es' : List (α × α)) (hv : ∀ x, x ∈ vs ↔ x ∈ vs') (he : ∀ e, e ∈ es ↔ e ∈ es') :
    (sortObjs lt elt vs es).layers = (sortObjs lt elt vs' es').layers ∧
    (sortObjs lt elt vs es).cycle = (sortObjs lt elt vs' es').cycle := by
  have hp : (fun v => decide (v ∈ vs)) = (fun v => decide (v ∈ vs')) := by
    funext v; simp [hv v]
  have hnil : vs = [] ↔ vs' = [] := by
    constructor
    · intro e; subst e
      cases vs' with
      | nil => rfl
      | cons x _ => exact absurd ((hv x).mpr List.mem_cons_self) (by simp)
    · intro e; subst e
      cases vs with
      | nil => rfl
      | cons x _ => exact absurd ((hv x).mp List.mem_cons_self) (by simp)
  obtain ⟨h1, h2⟩ := hydrate_perm_invariant hlt (fun v => decide (v ∈ vs)) vs vs' es es' hv he
  unfold sortObjs
  by_cases hvs : vs = []
  · have hvs' := hnil.mp hvs
    simp [hvs, hvs']
  · have hvs' : vs' ≠ [] := fun e => hvs (hnil.mpr e)
    simp only [hvs, hvs', ↓reduceIte]
    exact ⟨by rw [h1, hp], h2⟩

/-! ### delete order -/

/-- **reverse is the exact reverse**: read as one sequence, the delete order is the apply order backwards; the
layer structure is mirrored; reversing twice gives the apply order back. -/
theorem reverse_is_reverse (L : List (List α)) :
    (reverseSetList L).flatten = L.flatten.reverse ∧
    (reverseSetList L).length = L.length ∧
    (∀ i v, i < L.length → (InLayer (reverseSetList L) i v ↔ InLayer L (L.length - 1 - i) v)) ∧
    reverseSetList (reverseSetList L) = L :=
  ⟨reverseSetList_flatten L, reverseSetList_length L, fun _ _ hi => inLayer_reverseSetList hi,
   reverseSetList_involutive L⟩

/-- `ReverseSortObjs` is `SortObjs` followed by `ReverseSetList`, with the same error content — also when
`SortObjs` reports a cycle. -/
theorem reverseSortObjs_is_reverse (lt : α → α → Bool) (elt : α × α → α × α → Bool) (vs : List α) (es : List (α × α)) :
    (reverseSortObjs lt elt vs es).layers = reverseSetList (sortObjs lt elt vs es).layers ∧
    (reverseSortObjs lt elt vs es).cycle = (sortObjs lt elt vs es).cycle ∧
    (reverseSortObjs lt elt vs es).cycleEdges = (sortObjs lt elt vs es).cycleEdges :=
  ⟨rfl, rfl, rfl⟩

/-- in the reversed list every vertex comes strictly *before* each of its dependencies (delete dependents first). -/
theorem reverse_edges_strict (g : Adj α) (h : KeysNodup g) {i : Nat} {v d : α}
    (hv : InLayer (reverseSetList (sort g).1) i v) (he : Edge g v d) :
    ∃ j, i < j ∧ InLayer (reverseSetList (sort g).1) j d := by
  have hi : i < (sort g).1.length := by
    have := hv.lt_length
    rwa [reverseSetList_length] at this
  have hv' := (inLayer_reverseSetList hi).mp hv
  obtain ⟨j, hj, hjd⟩ := sort_edges_strict g h hv' he
  have hjl := hjd.lt_length
  refine ⟨(sort g).1.length - 1 - j, by omega, ?_⟩
  apply (inLayer_reverseSetList (by omega)).mpr
  have : (sort g).1.length - 1 - ((sort g).1.length - 1 - j) = j := by omega
  rw [this]; exact hjd

/-! ### the statements are not vacuous: a graph with a self-loop and a vertex hanging off it -/

/-- vertices 1..6; 1→2, 1→3, 2→3; 4→4 (self-loop); 5→4 (hangs off the cycle); 6 isolated -/
def exampleGraph : Adj Nat := build [1, 2, 3, 4, 5, 6] [(1, 2), (1, 3), (2, 3), (4, 4), (5, 4)]

example : (sort exampleGraph).1 = [[3, 6], [2], [1]] ∧ verts (sort exampleGraph).2 = [4, 5] := by decide

/-- the same graph presented backwards, with a repeated vertex and a repeated edge: same layers as sets -/
example : (sort (build [6, 5, 4, 3, 2, 1, 6] [(5, 4), (4, 4), (2, 3), (1, 3), (1, 2), (5, 4)])).1 = [[6, 3], [2], [1]] := by
  decide

example : KeysNodup exampleGraph ∧ leaves (sort exampleGraph).2 = [] := by
  show (verts exampleGraph).Nodup ∧ _
  decide

example : reverseSetList (sort exampleGraph).1 = [[1], [2], [6, 3]] := by decide

/-- ids: the Namespace sorts before the ConfigMaps (kind table), ConfigMaps by namespace then name; the Deployment
depends on a ConfigMap and comes one layer later; the Secret with a self-loop is reported, not ordered. -/
def nsA : Id := ⟨"", "a", "", "Namespace"⟩
def cm1 : Id := ⟨"n1", "z", "", "ConfigMap"⟩
def cm2 : Id := ⟨"n2", "a", "", "ConfigMap"⟩
def dep : Id := ⟨"n1", "a", "apps", "Deployment"⟩
def sec : Id := ⟨"n1", "s", "", "Secret"⟩

example :
    sortObjs Ordering.less Ordering.edgeLess [dep, cm2, sec, cm1, nsA] [(dep, cm2), (sec, sec)] =
      ⟨[[nsA, cm1, cm2], [dep]], [sec], [(sec, sec)]⟩ := by decide

example :
    (reverseSortObjs Ordering.less Ordering.edgeLess [dep, cm2, sec, cm1, nsA] [(dep, cm2), (sec, sec)]).layers =
      [[dep], [cm2, cm1, nsA]] := by decide

end CliUtils.Props.C14
