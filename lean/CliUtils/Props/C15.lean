import CliUtils.Model.IdStr
import CliUtils.Lemmas.IdStrL
/-
  C15 — identifier encodings round-trip; a stored inventory is always readable.
-/
namespace CliUtils.Props.C15
open CliUtils CliUtils.IdStr

/-- the explicit well-formedness predicate: no field contains the field separator `_`
(Kubernetes namespaces, groups and kinds never do; names may contain `:` — RBAC — and are transcoded) -/
def WF (i : IdC) : Prop := '_' ∉ i.ns ∧ '_' ∉ i.name ∧ '_' ∉ i.group ∧ '_' ∉ i.kind

instance (i : IdC) : Decidable (WF i) := by unfold WF; exact inferInstance

/-- every well-formed identifier written to the inventory reads back as the identical identifier -/
theorem id_roundtrip (i : IdC) (h : WF i) : parse (format i) = some i := by
  obtain ⟨hns, hname, hgroup, hkind⟩ := h
  unfold parse format
  rw [splitFirst_append '_' _ _ hns]
  simp only []
  have e1 : ∀ n : Str, n ++ '_' :: (i.group ++ '_' :: i.kind) = (n ++ '_' :: i.group) ++ '_' :: i.kind := by
    intro n; simp
  rw [e1, splitLast_append '_' _ _ hkind]
  simp only []
  rw [splitLast_append '_' _ _ hgroup]
  simp only []
  split
  · rw [dec_enc _ hname]; simp [hname]
  · rw [dec_id _ hname]; simp [hname]

theorem roundTrips_of_WF (i : IdC) (h : WF i) : roundTrips i = true := by
  simp [roundTrips, id_roundtrip i h]

/-- distinct identifiers that are accepted never share a stored key -/
theorem id_injective_on_accepted (i j : IdC) (hi : roundTrips i = true) (hj : roundTrips j = true)
    (h : format i = format j) : i = j := by
  simp only [roundTrips, decide_eq_true_eq] at hi hj
  rw [h] at hi
  rw [hi] at hj
  injection hj

/-- an identifier that cannot be encoded losslessly is rejected before anything is written -/
theorem store_rejects_lossy (ids : List IdC) (i : IdC) (hi : i ∈ ids) (h : roundTrips i = false) :
    store ids = none := by
  unfold store
  have : ids.all roundTrips = false := by
    rw [List.all_eq_false]; exact ⟨i, hi, by simp [h]⟩
  simp [this]

/-- an inventory that was written can always be loaded, and yields the same set of identifiers -/
theorem load_store (ids : List IdC) (ks : List Str) (h : store ids = some ks) :
    ∃ l, load ks = some l ∧ ∀ x, x ∈ l ↔ x ∈ ids := by
  unfold store at h
  split at h
  · rename_i hall
    injection h with h
    subst h
    rw [List.all_eq_true] at hall
    -- mapM parse over keys that all parse
    have key : ∀ (ks : List Str), (∀ k ∈ ks, ∃ i ∈ ids, format i = k) →
        ∃ l, ks.mapM parse = some l ∧ (∀ x, x ∈ l → x ∈ ids) ∧ (∀ k ∈ ks, ∃ x ∈ l, format x = k) := by
      intro ks
      induction ks with
      | nil => intro _; exact ⟨[], rfl, by simp, by simp⟩
      | cons k ks ih =>
        intro hk
        obtain ⟨i, hi, hfi⟩ := hk k (by simp)
        obtain ⟨l, hl, hsub, hcov⟩ := ih (fun k' hk' => hk k' (by simp [hk']))
        have hp : parse k = some i := by
          have := hall i hi; simp only [roundTrips, decide_eq_true_eq] at this; rw [← hfi]; exact this
        refine ⟨i :: l, by simp [List.mapM_cons, hp, hl], ?_, ?_⟩
        · intro x hx; rcases List.mem_cons.mp hx with e | hx
          · subst e; exact hi
          · exact hsub x hx
        · intro k' hk'; rcases List.mem_cons.mp hk' with e | hk'
          · subst e; exact ⟨i, by simp, hfi⟩
          · obtain ⟨x, hx, hfx⟩ := hcov k' hk'; exact ⟨x, by simp [hx], hfx⟩
    obtain ⟨l, hl, hsub, hcov⟩ := key (dedup (ids.map format)) (by
      intro k hk; rw [mem_dedup, List.mem_map] at hk; exact hk)
    refine ⟨l, hl, fun x => ⟨hsub x, fun hx => ?_⟩⟩
    obtain ⟨y, hy, hfy⟩ := hcov (format x) (by rw [mem_dedup, List.mem_map]; exact ⟨x, hx, rfl⟩)
    have := id_injective_on_accepted y x (hall y (hsub y hy)) (hall x hx) hfy
    subst this; exact hy
  · cases h

/-- the stored keys are pairwise distinct and there is exactly one key per distinct identifier -/
theorem store_keys (ids : List IdC) (ks : List Str) (h : store ids = some ks) :
    ks.Nodup ∧ ks.length = (dedup ids).length := by
  unfold store at h
  split at h
  · rename_i hall
    injection h with h; subst h
    rw [List.all_eq_true] at hall
    refine ⟨nodup_dedup _, ?_⟩
    -- format is injective on ids, so dedup commutes with map
    have : ∀ l : List IdC, (∀ x ∈ l, x ∈ ids) → dedup (l.map format) = (dedup l).map format := by
      intro l
      induction l with
      | nil => intro _; rfl
      | cons x xs ih =>
        intro hsub
        have ih' := ih (fun y hy => hsub y (by simp [hy]))
        simp only [List.map_cons, dedup, ih', List.filter_map]
        congr 1
        congr 1
        apply List.filter_congr
        intro y hy
        have hy' : y ∈ ids := hsub y (by simp [(mem_dedup xs y).mp hy])
        have hx' : x ∈ ids := hsub x (by simp)
        simp only [Function.comp, decide_eq_decide]
        constructor
        · intro hne e; apply hne; rw [e]
        · intro hne e; apply hne; exact id_injective_on_accepted y x (hall y hy') (hall x hx') e
    rw [this ids (fun x hx => hx), List.length_map]
  · cases h

/-! ### depends-on references -/

/-- hypotheses under which a dependency reference is a valid one: fields free of the separators,
kind and name non-empty, no leading/trailing blanks on the formatted string -/
structure DepWF (i : IdC) : Prop where
  ns : '/' ∉ i.ns
  name : '/' ∉ i.name
  group : '/' ∉ i.group
  kind : '/' ∉ i.kind
  kind_ne : i.kind ≠ []
  name_ne : i.name ≠ []
  group_head : ∀ c, i.group.head? = some c → isSpace c = false
  name_last : ∀ c, i.name.getLast? = some c → isSpace c = false
  ns_marker : i.ns ≠ [] ∨ True   -- (no constraint; kept for symmetry of the record)

theorem slash_not_space : isSpace '/' = false := by decide

private theorem head_fmt (g rest : Str) (hg : ∀ c, g.head? = some c → isSpace c = false) :
    ∀ c, (g ++ '/' :: rest).head? = some c → isSpace c = false := by
  intro c hc
  cases g with
  | nil => simp at hc; subst hc; exact slash_not_space
  | cons x xs => simp at hc; subst hc; exact hg x rfl

private theorem last_fmt (pre n : Str) (hne : n ≠ []) (hn : ∀ c, n.getLast? = some c → isSpace c = false) :
    ∀ c, (pre ++ n).getLast? = some c → isSpace c = false := by
  intro c hc
  rw [List.getLast?_append] at hc
  cases hl : n.getLast? with
  | none => exact absurd (List.getLast?_eq_none_iff.mp hl) hne
  | some d => rw [hl] at hc; simp at hc; subst hc; exact hn d hl

/-- formatting a dependency reference and parsing it back yields the same reference -/
theorem dep_roundtrip (i : IdC) (h : DepWF i) : ∃ s, depFormat i = some s ∧ depParse s = some i := by
  unfold depFormat
  simp only [h.kind_ne, h.name_ne, if_false]
  by_cases hns : i.ns = []
  · simp only [hns, ne_eq, not_true_eq_false, if_false]
    refine ⟨_, rfl, ?_⟩
    unfold depParse
    rw [trimSpace_id]
    · rw [splitOn_append '/' _ _ h.group, splitOn_append '/' _ _ h.kind, splitOn_noSep '/' _ h.name]
      cases i; simp_all
    · exact head_fmt _ _ h.group_head
    · have e : i.group ++ '/' :: (i.kind ++ '/' :: i.name) = (i.group ++ '/' :: (i.kind ++ ['/'])) ++ i.name := by simp
      rw [e]; exact last_fmt _ _ h.name_ne h.name_last
  · simp only [ne_eq, hns, not_false_eq_true, if_true]
    refine ⟨_, rfl, ?_⟩
    unfold depParse
    have hnsf : '/' ∉ namespacesField := by decide
    rw [trimSpace_id]
    · rw [splitOn_append '/' _ _ h.group, splitOn_append '/' _ _ hnsf, splitOn_append '/' _ _ h.ns,
        splitOn_append '/' _ _ h.kind, splitOn_noSep '/' _ h.name]
      simp
    · exact head_fmt _ _ h.group_head
    · have e : i.group ++ '/' :: (namespacesField ++ '/' :: (i.ns ++ '/' :: (i.kind ++ '/' :: i.name))) =
          (i.group ++ '/' :: (namespacesField ++ '/' :: (i.ns ++ '/' :: (i.kind ++ ['/'])))) ++ i.name := by simp
      rw [e]; exact last_fmt _ _ h.name_ne h.name_last

/-- malformed references are rejected rather than misread: wrong number of fields -/
theorem dep_malformed_fieldcount (s : Str) (h3 : (splitOn '/' (trimSpace s)).length ≠ 3)
    (h5 : (splitOn '/' (trimSpace s)).length ≠ 5) : depParse s = none := by
  unfold depParse
  split
  · rename_i e; rw [e] at h3; simp at h3
  · rename_i e; rw [e] at h5; simp at h5
  · rfl

/-- … and a five-field reference whose second field is not the literal `namespaces` -/
theorem dep_malformed_marker (s : Str) (g m ns k n : Str) (h : splitOn '/' (trimSpace s) = [g, m, ns, k, n])
    (hm : m ≠ namespacesField) : depParse s = none := by
  unfold depParse; rw [h]; simp [hm]

/-- whatever `depParse` accepts is read field by field (never misread): the fields are the `/`-separated pieces -/
theorem dep_parse_sound (s : Str) (i : IdC) (h : depParse s = some i) :
    splitOn '/' (trimSpace s) = [i.group, i.kind, i.name] ∧ i.ns = [] ∨
    splitOn '/' (trimSpace s) = [i.group, namespacesField, i.ns, i.kind, i.name] := by
  unfold depParse at h
  split at h
  · rename_i g k n e; injection h with h; subst h; left; exact ⟨e, rfl⟩
  · rename_i g m ns k n e
    split at h
    · rename_i hm; injection h with h; subst h; right; rw [e, hm]
    · cases h
  · cases h

/-! ### non-vacuity: a well-formed RBAC id with colons, and one that is lossy -/
def ex1 : IdC := { ns := [], name := "system:node".toList, group := rbacGroup, kind := "ClusterRole".toList }
def ex2 : IdC := { ns := "ns".toList, name := "a_b".toList, group := [], kind := "ConfigMap".toList }
example : WF ex1 ∧ roundTrips ex1 = true ∧ format ex1 = "_system__node_rbac.authorization.k8s.io_ClusterRole".toList := by decide
example : ¬ WF ex2 ∧ roundTrips ex2 = false ∧ store [ex1, ex2] = none := by decide
example : store [ex1, ex1] = some [format ex1] ∧ load [format ex1] = some [ex1] := by decide
example : depParse "apps/namespaces/default/Deployment/web".toList =
    some { ns := "default".toList, name := "web".toList, group := "apps".toList, kind := "Deployment".toList } := by decide
example : depParse "apps/namespace/default/Deployment/web".toList = none ∧ depParse "a/b".toList = none := by decide

end CliUtils.Props.C15
