import CliUtils.Model.Scope
import CliUtils.Lemmas.ListL
/-
  C11 (scope part) — which objects fail the scope / namespace validation, over ALL mapper answers and ALL CRD lists.
  The functions are the ones the driver runs against the real `object.LookupResourceScope` and
  `validation.Validator.Validate` (domain `scope`).
-/
namespace CliUtils.Props.C11
open CliUtils CliUtils.Scope

/-! ### reading a well-formed CRD through `NestedField` -/

theorem nf_spec_field (top sp : List (String × J)) (f : String) (h : J.lookup "spec" top = some (.obj sp)) :
    nestedField (.obj top) [.k "spec", .k f] = (match J.lookup f sp with | none => .notFound | some v => .found v) := by
  simp only [nestedField, nestedFieldAux, h]
  cases J.lookup f sp <;> simp

theorem nf_names_kind (top sp nm : List (String × J)) (h : J.lookup "spec" top = some (.obj sp))
    (hn : J.lookup "names" sp = some (.obj nm)) :
    nestedField (.obj top) pNamesKind = (match J.lookup "kind" nm with | none => .notFound | some v => .found v) := by
  simp only [nestedField, pNamesKind, nestedFieldAux, h, hn]
  cases J.lookup "kind" nm <;> simp

/-- on a versions list all of whose items are maps with a string name the loop of `crdDefinesVersion` never fails and
answers "the version is one of the names" -/
theorem versionLoop_names (ver : String) (items : List J) (vs : List String) (i : Nat) (h : viewNames items = some vs) :
    versionLoop ver items i = .ok (decide (ver ∈ vs)) := by
  induction items generalizing vs i with
  | nil => simp [viewNames] at h; subst h; simp [versionLoop]
  | cons x rest ih =>
    cases x with
    | obj l =>
      simp only [viewNames] at h
      cases hl : J.lookup "name" l with
      | none => simp [hl] at h
      | some nv =>
        cases nv with
        | str s =>
          cases hr : viewNames rest with
          | none => simp [hl, hr] at h
          | some ss =>
            simp only [hl, hr, Option.some.injEq] at h
            subst h
            simp only [versionLoop, nestedFieldAux, hl, isStr]
            by_cases hs : s = ver
            · simp [hs]
            · have hs' : ¬ ver = s := fun e => hs e.symm
              simp [hs, hs', ih ss (i + 1) hr]
        | null => simp [hl] at h
        | bool b => simp [hl] at h
        | num n => simp [hl] at h
        | float r => simp [hl] at h
        | arr a => simp [hl] at h
        | obj o => simp [hl] at h
    | null => simp [viewNames] at h
    | bool b => simp [viewNames] at h
    | num n => simp [viewNames] at h
    | float r => simp [viewNames] at h
    | str s => simp [viewNames] at h
    | arr a => simp [viewNames] at h

/-- **one well-formed CRD**: the loop body of `LookupResourceScope` on a CRD that reads as `v` skips it unless group and kind
are the object's, answers "unknown type" when the version is not listed and the CRD's scope otherwise — it never fails -/
theorem crdStep_wellformed (g k ver : String) (c : J) (v : View) (h : view c = some v) :
    crdStep g k ver c =
      if v.group = g ∧ v.kind = k then (if ver ∈ v.versions then .scope v.namespaced else .unknown) else .next := by
  unfold view at h
  split at h
  · rename_i top
    split at h
    · rename_i sp hsp
      split at h
      · rename_i gs nm items sc hg hnm hvs hsc
        split at h
        · rename_i ks names hk hnames
          split at h
          · rename_i hcond
            obtain ⟨hg0, hk0, hv0, hsc0⟩ := hcond
            simp only [Option.some.injEq] at h
            subst h
            have e1 := nf_spec_field top sp "group" hsp
            have e2 := nf_names_kind top sp nm hsp hnm
            have e3 := nf_spec_field top sp "versions" hsp
            have e4 := nf_spec_field top sp "scope" hsp
            rw [hg] at e1; rw [hk] at e2; rw [hvs] at e3; rw [hsc] at e4
            have hitems : items.isEmpty = false := by
              cases items with
              | nil => simp [viewNames] at hnames; exact absurd hnames hv0
              | cons _ _ => rfl
            have hdef : crdDefinesVersion (.obj top) ver = .ok (decide (ver ∈ names)) := by
              unfold crdDefinesVersion
              rw [show pVersions = [Key.k "spec", Key.k "versions"] from rfl, e3]
              simp only [hitems]
              exact versionLoop_names ver items names 0 hnames
            unfold crdStep
            rw [show pGroup = [Key.k "spec", Key.k "group"] from rfl, e1, e2]
            simp only [isStr, hg0, hk0, decide_false, Bool.false_eq_true, if_false]
            by_cases hkk : ks = k
            · by_cases hgg : gs = g
              · simp only [hkk, hgg, decide_true, Bool.not_true, Bool.or_self, Bool.false_eq_true, if_false, and_self, if_true, hdef]
                rw [show pScope = [Key.k "spec", Key.k "scope"] from rfl, e4]
                by_cases hver : ver ∈ names
                · simp only [hver, decide_true, if_true]
                  rcases hsc0 with hs | hs
                  · simp [hs]
                  · simp [hs]
                · simp [hver]
              · simp [hkk, hgg]
            · simp [hkk]
          · cases h
        · cases h
      · cases h
    · cases h
  · cases h

/-! ### the lookup -/

/-- **mapper_hit_decides**: whatever the CRDs of the set say (well-formed or not, any number), a type the RESTMapper knows has
the scope the RESTMapper gives, and a mapper failure other than NoMatch is returned as it is: the mapper is consulted first -/
theorem mapper_hit_decides (g k ver : String) (crds : List J) :
    lookupScope .namespaced g k ver crds = .namespaced ∧
    lookupScope .root g k ver crds = .root ∧
    lookupScope .error g k ver crds = .error .mapper :=
  ⟨rfl, rfl, rfl⟩

/-- the CRDs are looked at only after a NoMatch answer, and then they alone decide -/
theorem crds_only_after_nomatch (m : MapAns) (g k ver : String) (crds crds' : List J) (h : m ≠ .noMatch) :
    lookupScope m g k ver crds = lookupScope m g k ver crds' := by
  cases m <;> first | rfl | exact absurd rfl h

/-- **lookup_wellformed**: for a list of well-formed CRDs (each reads as a `View`; any length) and a type unknown to the mapper,
the FIRST CRD with the object's group and kind decides: its scope if it lists the version, "unknown type" if it does not
(later CRDs for the same type are not consulted), and "unknown type" if there is none -/
theorem lookup_wellformed (g k ver : String) (crds : List J) (vs : List View) (h : crds.map view = vs.map some) :
    lookupScope .noMatch g k ver crds = viewsScope g k ver vs := by
  simp only [lookupScope]
  induction crds generalizing vs with
  | nil =>
    cases vs with
    | nil => rfl
    | cons _ _ => simp at h
  | cons c cs ih =>
    cases vs with
    | nil => simp at h
    | cons v vt =>
      simp only [List.map_cons, List.cons.injEq] at h
      have hstep := crdStep_wellformed g k ver c v h.1
      simp only [crdLoop, hstep, viewsScope, List.find?_cons]
      by_cases hm : v.group = g ∧ v.kind = k
      · have hb : View.isFor g k v = true := by simp [View.isFor, hm.1, hm.2]
        simp only [hm, and_self, if_true, hb]
        by_cases hver : ver ∈ v.versions
        · cases hn : v.namespaced <;> simp [hver]
        · simp [hver]
      · have hb : View.isFor g k v = false := by
          cases hd : View.isFor g k v with
          | false => rfl
          | true => simp [View.isFor] at hd; exact absurd hd hm
        simp only [hm, if_false, hb]
        have := ih vt h.2
        simpa [viewsScope] using this

/-- **unknown_type_iff**: over well-formed CRD lists of any length, a type is reported unknown exactly when the mapper answers
NoMatch and either no CRD of the list has this group and kind, or the first such CRD does not define the version -/
theorem unknown_type_iff (m : MapAns) (g k ver : String) (crds : List J) (vs : List View) (h : crds.map view = vs.map some) :
    lookupScope m g k ver crds = .unknownType ↔
      m = .noMatch ∧ ((∀ v ∈ vs, ¬ (v.group = g ∧ v.kind = k)) ∨
                      ∃ v, vs.find? (View.isFor g k) = some v ∧ ver ∉ v.versions) := by
  cases m with
  | namespaced => simp [lookupScope]
  | root => simp [lookupScope]
  | error => simp [lookupScope]
  | noMatch =>
    rw [lookup_wellformed g k ver crds vs h]
    simp only [viewsScope, true_and]
    cases hf : vs.find? (View.isFor g k) with
    | none =>
      simp only [true_iff]
      left
      intro v hv hm
      have := List.find?_eq_none.mp hf v hv
      simp [View.isFor, hm.1, hm.2] at this
    | some v =>
      have hv := List.find?_some hf
      have hmem := List.mem_of_find?_eq_some hf
      simp only [View.isFor, Bool.and_eq_true, decide_eq_true_eq] at hv
      by_cases hver : ver ∈ v.versions
      · simp only [hver, if_true]
        constructor
        · intro h'; cases hn : v.namespaced <;> simp [hn] at h'
        · rintro (hno | ⟨v', hv', hnot⟩)
          · exact absurd hv (hno v hmem)
          · simp only [Option.some.injEq] at hv'; subst hv'; exact absurd hver hnot
      · simp only [hver, if_false, true_iff]
        exact Or.inr ⟨v, rfl, hver⟩

/-- **crd_scope**: over well-formed CRD lists, a type unknown to the mapper gets scope `b` exactly when the first CRD with its
group and kind defines the version and has that scope -/
theorem crd_scope (g k ver : String) (crds : List J) (vs : List View) (h : crds.map view = vs.map some) (b : Bool) :
    lookupScope .noMatch g k ver crds = (if b then .namespaced else .root) ↔
      ∃ v, vs.find? (View.isFor g k) = some v ∧ ver ∈ v.versions ∧ v.namespaced = b := by
  rw [lookup_wellformed g k ver crds vs h]
  simp only [viewsScope]
  cases hf : vs.find? (View.isFor g k) with
  | none => cases b <;> simp
  | some v =>
    by_cases hver : ver ∈ v.versions
    · cases hn : v.namespaced <;> cases b <;> simp [hver, hn]
    · cases b <;> simp [hver]

/-- a well-formed CRD list never makes the lookup fail -/
theorem wellformed_never_errors (m : MapAns) (g k ver : String) (crds : List J) (vs : List View) (h : crds.map view = vs.map some)
    (hm : m ≠ .error) (e : LErr) : lookupScope m g k ver crds ≠ .error e := by
  cases m with
  | namespaced => simp [lookupScope]
  | root => simp [lookupScope]
  | error => exact absurd rfl hm
  | noMatch =>
    rw [lookup_wellformed g k ver crds vs h]
    simp only [viewsScope]
    cases vs.find? (View.isFor g k) with
    | none => simp
    | some v => by_cases hver : ver ∈ v.versions <;> cases hn : v.namespaced <;> simp [hver, hn]

/-- **malformed_crd_errors**: a CRD on which the loop body fails makes the whole lookup fail with that error as soon as every CRD
before it is for another type — whatever comes after it, even a CRD that defines the type -/
theorem malformed_crd_errors (g k ver : String) (pre post : List J) (c : J) (e : LErr)
    (hpre : ∀ x ∈ pre, crdStep g k ver x = .next) (hc : crdStep g k ver c = .fail e) :
    lookupScope .noMatch g k ver (pre ++ c :: post) = .error e := by
  simp only [lookupScope]
  induction pre with
  | nil => simp [crdLoop, hc]
  | cons x xs ih =>
    have hx := hpre x (List.mem_cons_self ..)
    simp only [List.cons_append, crdLoop, hx]
    exact ih (fun y hy => hpre y (List.mem_cons_of_mem _ hy))

/-- a CRD whose `spec` is a map without `group`, or with the empty group, fails the loop body with NotFound(spec.group) for every object -/
theorem crd_without_group_fails (g k ver : String) (top sp : List (String × J)) (h : J.lookup "spec" top = some (.obj sp))
    (hg : J.lookup "group" sp = none ∨ J.lookup "group" sp = some (.str "")) :
    crdStep g k ver (.obj top) = .fail (.notFound pGroup) := by
  have e1 := nf_spec_field top sp "group" h
  unfold crdStep
  rw [show pGroup = [Key.k "spec", Key.k "group"] from rfl, e1]
  rcases hg with hg | hg <;> simp [hg, isStr]

/-- the first decisive CRD wins: once a CRD of the list answers (scope / unknown / error), the rest of the list is irrelevant -/
theorem first_decisive_crd_wins (g k ver : String) (pre post post' : List J) (c : J)
    (hpre : ∀ x ∈ pre, crdStep g k ver x = .next) (hc : crdStep g k ver c ≠ .next) :
    lookupScope .noMatch g k ver (pre ++ c :: post) = lookupScope .noMatch g k ver (pre ++ c :: post') := by
  simp only [lookupScope]
  induction pre with
  | nil =>
    simp only [List.nil_append, crdLoop]
    cases hs : crdStep g k ver c with
    | next => exact absurd hs hc
    | fail e => rfl
    | unknown => rfl
    | scope b => cases b <;> rfl
  | cons x xs ih =>
    have hx := hpre x (List.mem_cons_self ..)
    simp only [List.cons_append, crdLoop, hx]
    exact ih (fun y hy => hpre y (List.mem_cons_of_mem _ hy))

/-! ### the validator, one object -/

/-- **validate_valid_iff**: `Validate` collects nothing for an object exactly when it has a kind and a name, its type's scope is
known (mapper or CRDs), and the namespace agrees with the scope: set for a namespaced type, empty for a cluster-scoped one -/
theorem validate_valid_iff (m : MapAns) (o : Obj) (crds : List J) :
    validateObj m o crds = [] ↔
      o.kind ≠ "" ∧ o.name ≠ "" ∧
      ((lookupScope m o.group o.kind o.version crds = .namespaced ∧ o.ns ≠ "") ∨
       (lookupScope m o.group o.kind o.version crds = .root ∧ o.ns = "")) := by
  unfold validateObj validateNamespace
  by_cases hk : o.kind = ""
  · simp [hk]
  · by_cases hn : o.name = ""
    · simp [hk, hn]
    · simp only [hk, hn, if_false, List.nil_append, ne_eq, not_false_eq_true, true_and]
      cases hs : lookupScope m o.group o.kind o.version crds with
      | namespaced => by_cases hns : o.ns = "" <;> simp [hns]
      | root => by_cases hns : o.ns = "" <;> simp [hns]
      | unknownType => simp
      | error e => simp

/-- **validate_names_every_defect**: every defect of an object is named in its error list — missing kind, missing name, and (for
an object with a kind) a missing namespace on a namespaced type, a namespace on a cluster-scoped type, an unknown type, and any
failure of the lookup itself -/
theorem validate_names_every_defect (m : MapAns) (o : Obj) (crds : List J) :
    (o.kind = "" → .kindRequired ∈ validateObj m o crds) ∧
    (o.name = "" → .nameRequired ∈ validateObj m o crds) ∧
    (o.kind ≠ "" → lookupScope m o.group o.kind o.version crds = .namespaced → o.ns = "" → .nsRequired ∈ validateObj m o crds) ∧
    (o.kind ≠ "" → lookupScope m o.group o.kind o.version crds = .root → o.ns ≠ "" → .nsMustBeEmpty ∈ validateObj m o crds) ∧
    (o.kind ≠ "" → lookupScope m o.group o.kind o.version crds = .unknownType → .unknownType ∈ validateObj m o crds) ∧
    (∀ e, o.kind ≠ "" → lookupScope m o.group o.kind o.version crds = .error e → .other e ∈ validateObj m o crds) := by
  unfold validateObj validateNamespace
  refine ⟨?_, ?_, ?_, ?_, ?_, ?_⟩
  · intro h; simp [h]
  · intro h; simp [h]
  · intro hk hs hns; simp [hk, hs, hns]
  · intro hk hs hns; simp [hk, hs, hns]
  · intro hk hs; simp [hk, hs]
  · intro e hk hs; simp [hk, hs]

/-- **validate_only_real_defects**: conversely every reported class is a real defect of the object (no false report) -/
theorem validate_only_real_defects (m : MapAns) (o : Obj) (crds : List J) :
    (.kindRequired ∈ validateObj m o crds → o.kind = "") ∧
    (.nameRequired ∈ validateObj m o crds → o.name = "") ∧
    (.nsRequired ∈ validateObj m o crds → o.kind ≠ "" ∧ lookupScope m o.group o.kind o.version crds = .namespaced ∧ o.ns = "") ∧
    (.nsMustBeEmpty ∈ validateObj m o crds → o.kind ≠ "" ∧ lookupScope m o.group o.kind o.version crds = .root ∧ o.ns ≠ "") ∧
    (.unknownType ∈ validateObj m o crds → o.kind ≠ "" ∧ lookupScope m o.group o.kind o.version crds = .unknownType) ∧
    (∀ e, .other e ∈ validateObj m o crds → o.kind ≠ "" ∧ lookupScope m o.group o.kind o.version crds = .error e) := by
  unfold validateObj validateNamespace
  by_cases hk : o.kind = "" <;> by_cases hn : o.name = "" <;>
    cases hs : lookupScope m o.group o.kind o.version crds <;>
    by_cases hns : o.ns = "" <;> simp [hk, hn, hns]

/-- an object of a type the mapper knows is judged without looking at the CRDs of the set -/
theorem validate_mapper_known (m : MapAns) (o : Obj) (crds crds' : List J) (h : m ≠ .noMatch) :
    validateObj m o crds = validateObj m o crds' := by
  unfold validateObj validateNamespace
  rw [crds_only_after_nomatch m _ _ _ crds crds' h]

/-! ### the validator, the whole set -/

/-- **invalid_iff**: an id is in `Collector.InvalidIds` after `Validate` exactly when some object of the set with this id has a
non-empty error list -/
theorem invalid_iff (t : MapTable) (objs : List Obj) (id : Id) :
    id ∈ invalidIds t objs ↔
      ∃ o ∈ objs, o.id = id ∧ validateObj (t.ans o.group o.kind o.version) o (findCRDs objs) ≠ [] := by
  unfold invalidIds validateAll
  rw [mem_dedup]
  simp only [List.mem_map, List.mem_filterMap]
  constructor
  · rintro ⟨e, ⟨o, ho, he⟩, rfl⟩
    by_cases hv : (validateObj (t.ans o.group o.kind o.version) o (findCRDs objs)).isEmpty = true
    · simp [hv] at he
    · simp only [hv] at he
      simp only [Bool.false_eq_true, if_false, Option.some.injEq] at he
      subst he
      refine ⟨o, ho, rfl, ?_⟩
      intro hnil; rw [hnil] at hv; simp at hv
  · rintro ⟨o, ho, rfl, hne⟩
    refine ⟨(o.id, validateObj (t.ans o.group o.kind o.version) o (findCRDs objs)), ⟨o, ho, ?_⟩, rfl⟩
    have : (validateObj (t.ans o.group o.kind o.version) o (findCRDs objs)).isEmpty = false := by
      cases hv : validateObj (t.ans o.group o.kind o.version) o (findCRDs objs) with
      | nil => exact absurd hv hne
      | cons _ _ => rfl
    simp [this]

/-- **scope_invalid_named**: every invalid id is named by a collected validation error with at least one cause, and every
collected error names an invalid id -/
theorem scope_invalid_named (t : MapTable) (objs : List Obj) (id : Id) :
    id ∈ invalidIds t objs ↔ ∃ e ∈ validateAll t objs, e.1 = id ∧ e.2 ≠ [] := by
  unfold invalidIds
  rw [mem_dedup, List.mem_map]
  constructor
  · rintro ⟨e, he, rfl⟩
    refine ⟨e, he, rfl, ?_⟩
    unfold validateAll at he
    simp only [List.mem_filterMap] at he
    obtain ⟨o, _, ho⟩ := he
    by_cases hv : (validateObj (t.ans o.group o.kind o.version) o (findCRDs objs)).isEmpty = true
    · simp [hv] at ho
    · simp only [hv, Bool.false_eq_true, if_false, Option.some.injEq] at ho
      subst ho
      intro hnil; simp only at hnil; rw [hnil] at hv; simp at hv
  · rintro ⟨e, he, rfl, _⟩
    exact ⟨e, he, rfl⟩

/-- a set all of whose objects are valid produces no validation error, and conversely -/
theorem no_errors_iff_all_valid (t : MapTable) (objs : List Obj) :
    validateAll t objs = [] ↔ ∀ o ∈ objs, validateObj (t.ans o.group o.kind o.version) o (findCRDs objs) = [] := by
  unfold validateAll
  simp only [List.filterMap_eq_nil_iff]
  constructor
  · intro h o ho
    have := h o ho
    cases hv : validateObj (t.ans o.group o.kind o.version) o (findCRDs objs) with
    | nil => rfl
    | cons a l => simp [hv] at this
  · intro h o ho
    simp [h o ho]

/-! ### examples: the hypotheses are satisfiable on concrete, non-trivial instances -/

def fooNs : View := { group := "ex.io", kind := "Foo", versions := ["v1", "v2"], namespaced := true }
def fooClusterV3 : View := { group := "ex.io", kind := "Foo", versions := ["v3"], namespaced := false }
def barCluster : View := { group := "ex.io", kind := "Bar", versions := ["v1"], namespaced := false }

/-- `mkCRD` builds well-formed CRDs -/
example : [mkCRD barCluster, mkCRD fooNs, mkCRD fooClusterV3].map view = [barCluster, fooNs, fooClusterV3].map some := by decide

/-- the first CRD for ex.io/Foo decides: v2 is namespaced, v3 (defined only by the second Foo CRD) is unknown -/
example : lookupScope .noMatch "ex.io" "Foo" "v2" [mkCRD barCluster, mkCRD fooNs, mkCRD fooClusterV3] = .namespaced := by decide
example : lookupScope .noMatch "ex.io" "Foo" "v3" [mkCRD barCluster, mkCRD fooNs, mkCRD fooClusterV3] = .unknownType := by decide
example : lookupScope .root "ex.io" "Foo" "v2" [mkCRD fooNs] = .root := by decide

/-- a CRD without `spec.group` in front of the defining CRD: the lookup fails although a later CRD defines the type -/
example : lookupScope .noMatch "ex.io" "Foo" "v1" [.obj [("spec", .obj [("scope", .str "Cluster")])], mkCRD fooNs]
    = .error (.notFound pGroup) := by decide

/-- a number in the place of the group is not an error: the CRD is simply for no type -/
example : lookupScope .noMatch "ex.io" "Foo" "v1"
    [.obj [("spec", .obj [("group", .num 5), ("names", .obj [("kind", .str "Foo")])])], mkCRD fooNs] = .namespaced := by decide

example : validateObj .noMatch { group := "ex.io", version := "v1", kind := "Foo", name := "a", ns := "" } [mkCRD fooNs]
    = [.nsRequired] := by decide
example : validateObj .noMatch { group := "ex.io", version := "v1", kind := "", name := "", ns := "x" } [mkCRD fooNs]
    = [.kindRequired, .nameRequired] := by decide
example : validateObj .noMatch { group := "ex.io", version := "v9", kind := "Foo", name := "a", ns := "x" } [mkCRD fooNs]
    = [.unknownType] := by decide
example : validateObj .noMatch { group := "ex.io", version := "v1", kind := "Bar", name := "a", ns := "x" } [mkCRD barCluster]
    = [.nsMustBeEmpty] := by decide

end CliUtils.Props.C11
