import CliUtils.Model.Sys
import CliUtils.Lemmas.SysL
import CliUtils.Props.C13
/-
  C13 (info side) — an object whose `Info` cannot be built at apply time.

  `ApplyTask.Start` calls `InfoHelper.BuildInfo(obj)` for every object BEFORE any filter; if that fails (no REST client for the
  kind / the kind is unmapped at apply time) it sends an apply event `Failed`, records a failed apply in the inventory manager
  and goes on with the next object.  In the model the failing kinds are `Run.failInfo`, and `applyDecision` answers
  `.fail "info"` for them before it looks at anything else.
-/
namespace CliUtils.Props.C13
open CliUtils CliUtils.Sys

/-- **info_failure_one_failed_event**: an object whose `BuildInfo` fails gets exactly one event — the apply event `Failed`
with reason "info", naming the task's group —; no request is sent for it (neither the request log nor the request counter
moves), the cluster is as before, nothing else of the state moves, and the manager records the object as a failed apply -/
theorem info_failure_one_failed_event (group : String) (s : St) (m : Manifest) (hm : manifestOf s m.id = some m)
    (hinfo : m.id.kind ∈ s.run.failInfo) :
    (applyOne group s m.id).events = .op "apply" group m.id "Failed" "info" :: s.events ∧
    (applyOne group s m.id).muts = s.muts ∧ (applyOne group s m.id).mutIdx = s.mutIdx ∧
    (applyOne group s m.id).cl = s.cl ∧
    (applyOne group s m.id).mgr.isActuation m.id .apply .failed = true ∧
    (applyOne group s m.id).mgr.find? m.id =
      some { id := m.id, strategy := .apply, actuation := .failed, reconcile := .pending, uid := "", gen := 0 } := by
  have hd : applyDecision s m = .fail "info" := applyDecision_info s m hinfo
  have e : applyOne group s m.id = applyFail group s m.id "info" := by
    unfold applyOne
    rw [hm]
    simp only [hd]
  rw [e]
  refine ⟨by simp [applyFail, St.emit], by simp [applyFail, St.emit], by simp [applyFail, St.emit],
    by simp [applyFail, St.emit], ?_, ?_⟩
  · simp only [applyFail]
    exact isActuation_add _ _ _ _ _ _
  · simp only [applyFail]
    exact find_add_same _ _ _ _ _ _

/-- the same step, whatever the filters and the mutation would have said: the decision does not depend on the policy, the
dependencies or the mutation source -/
theorem info_failure_before_filters (s : St) (m : Manifest) (hinfo : m.id.kind ∈ s.run.failInfo) :
    applyDecision s m = .fail "info" ∧ ∀ frm, applyDecision s m ≠ .go frm := by
  have hd := applyDecision_info s m hinfo
  exact ⟨hd, by intro frm h; rw [hd] at h; cases h⟩

/-! ### non-vacuity -/
section Examples
def exA : Id := ⟨"ns1", "a", "", "ConfigMap"⟩
def exB : Id := ⟨"ns1", "b", "", "Secret"⟩
/-- two objects, the REST client for Secrets cannot be built -/
def exInfoRun : Run := { destroy := false, objs := [{ id := exA }, { id := exB }], opts := {}, failInfo := ["Secret"] }
def exInfoCl : Cluster := { objs := [{ id := ⟨"", "ns1", "", "Namespace"⟩, uid := "u", gen := 1, owner := "" }] }

/-- the other object is applied (event, request, store, manager); the stream holds exactly one Failed apply event — the one of
the object with the failing kind, reason "info" —; no request was sent for that object and it is not in the cluster; the run
ends without an error event (its last event closes the final inventory task) -/
example :
    let s := runOne exInfoCl exInfoRun
    Ev.op "apply" "apply-0" exA "Successful" "" ∈ s.events ∧
    (s.cl.find? exA).isSome = true ∧
    s.mgr.isActuation exA .apply .succeeded = true ∧
    s.events.filter (fun e => match e with | .op "apply" _ _ "Failed" _ => true | _ => false) =
      [.op "apply" "apply-0" exB "Failed" "info"] ∧
    (s.muts.filter (fun r => r.id = exB)) = [] ∧
    (s.muts.filter (fun r => r.id = exA)).map (·.verb) = ["create"] ∧
    s.cl.find? exB = none ∧
    s.mgr.isActuation exB .apply .failed = true ∧
    s.events.all (fun e => match e with | .error _ => false | _ => true) = true ∧
    s.events.head? = some (.group "inventory-set-0" "Inventory" "Finished") := by
  decide

/-- without the failing kind the same run applies both objects -/
example :
    let s := runOne exInfoCl { exInfoRun with failInfo := [] }
    Ev.op "apply" "apply-0" exA "Successful" "" ∈ s.events ∧ Ev.op "apply" "apply-0" exB "Successful" "" ∈ s.events := by
  decide
end Examples

end CliUtils.Props.C13
