import CliUtils.Model.JTree
import CliUtils.Model.Mutate
import CliUtils.Lemmas.JTreeL
import CliUtils.Lemmas.StrL
/-
  Property C18 — "Apply-time mutation changes exactly the targeted field, from the source value".

  The theorems are about the executable model in Model/JTree.lean (`get`, `set`, `setT`) and Model/Mutate.lean
  (`replaceAll`, `valueToString`, `mutateOne`, `mutate`) — the very definitions the driver runs against the real
  `jsonpath.Get/Set` and `ApplyTimeMutator.Mutate` (Drv/C18.lean).  "Field" = concrete address (`List Nat`, child
  positions from the root); `resolve t p` lists the addresses a path expression denotes, `t.at? a` reads one.

  Known-finding region `C18.array-length` (ajson quirk, real behaviour modelled): a step `length` applied to an ARRAY
  matches a detached pseudo-node holding the array length.  `Get` returns the length, `Set` counts it as a match and
  writes nowhere.  Its complement is the decidable predicate `lenFree t p`; the read-back theorems carry it as a
  hypothesis (`…_partial`), the full statements are kept in comments and refuted on a witness.  Frame, skeleton and
  well-formedness theorems hold without it.
-/
namespace CliUtils.Props.C18
open CliUtils CliUtils.JV

/-! ## jsonpath.Set / jsonpath.Get -/

/-- `Set` reports the number of nodes the expression matches (what `Get` returns), and refuses only values of an
    unsupported type when there is something to write. -/
theorem set_found_eq_matches (t : JV) (p : Path) (v t' : JV) (n : Nat) (h : set t p v = .ok (t', n)) :
    n = (get t p).length ∧ t' = (if n = 0 then t else setT v p t) := by
  unfold set at h
  simp only at h
  split at h
  · rename_i h0
    injection h with h; injection h with h1 h2
    subst h1 h2; simp [h0]
  · rename_i h0
    split at h
    · cases h
    · injection h with h; injection h with h1 h2
      subst h1 h2; simp [h0]

/-- `Set` never creates a missing path: with no match it returns (0, nil) and the tree as it was, whatever the value. -/
theorem set_no_match_unchanged (t : JV) (p : Path) (v : JV) (h : get t p = []) : set t p v = .ok (t, 0) := by
  simp [set, h]

/-- rejection branch of `Set`: something matched and the value has an unsupported Go type -/
theorem set_rejects_unsupported (t : JV) (p : Path) (v : JV) (h : get t p ≠ []) (hv : writable v = false) :
    set t p v = .error .unsupportedType := by
  have : (get t p).length ≠ 0 := by simpa using h
  simp [set, this, hv]

/-- if no real node is matched the tree is returned unchanged (pseudo-nodes are not part of the tree) -/
theorem setT_eq_self_of_no_match (v : JV) (p : Path) (t : JV) (h : resolve t p = []) : setT v p t = t := by
  induction p generalizing t with
  | nil => simp [resolve] at h
  | cons s p ih =>
    rw [setT_cons]
    have hk : newKids v s p t = t.kids := by
      apply List.ext_getElem?
      intro i
      rw [newKids_getElem?]
      cases hc : t.kids[i]? with
      | none => rfl
      | some c =>
        simp only [Option.map_some]
        by_cases hi : i ∈ selIdx t s
        · simp only [hi, if_true]
          rw [resolve_cons, List.flatMap_eq_nil_iff] at h
          have := h i hi
          simp only [hc, List.map_eq_nil_iff] at this
          rw [ih c this]
        · simp [hi]
    rw [hk, setKids_kids]

/-- READ-BACK (`_partial`: outside the region `C18.array-length`).  After overwriting the matches of `p` with `v`,
    evaluating `p` again yields `v` once per match.
    Full statement (no `lenFree` hypothesis) is FALSE for the code as it is — see `set_get_fails_in_region`. -/
theorem set_get_partial (v : JV) (p : Path) (t : JV) (hl : lenFree t p = true) :
    get (setT v p t) p = List.replicate (get t p).length v := by
  induction p generalizing t with
  | nil => simp [get, setT]
  | cons s p ih =>
    simp only [lenFree, Bool.and_eq_true, Option.isNone_iff_eq_none, List.all_eq_true] at hl
    obtain ⟨hps, hall⟩ := hl
    rw [get_cons, get_cons, pseudoLen_setT_cons, selIdx_setT_cons, kids_setT_cons, hps]
    simp only [List.nil_append]
    apply flatMap_replicate_of
    intro i hi
    rw [newKids_getElem?]
    cases hc : t.kids[i]? with
    | none => simp
    | some c =>
      have hlc := hall i hi
      simp only [hc] at hlc
      simp only [Option.map_some, hi, if_true]
      exact ih c hlc

/-- READ-BACK for the case Mutate relies on: `Set` succeeded with exactly one match ⇒ `Get` yields exactly the
    written value (`_partial`: outside `C18.array-length`). -/
theorem set_get_one_partial (t : JV) (p : Path) (v t' : JV) (h : set t p v = .ok (t', 1))
    (hl : lenFree t p = true) : get t' p = [v] := by
  obtain ⟨h1, h2⟩ := set_found_eq_matches t p v t' 1 h
  simp at h2
  subst h2
  rw [set_get_partial v p t hl, ← h1]
  rfl

/-- the matched nodes now hold `v`, and below them the tree is `v`'s -/
theorem set_below_matches (v : JV) (p : Path) (t : JV) (a : List Nat) (ha : a ∈ resolve t p) (c : List Nat) :
    (setT v p t).at? (a ++ c) = v.at? c := by
  induction p generalizing t a with
  | nil =>
    simp [resolve] at ha
    subst ha
    simp [setT]
  | cons s p ih =>
    obtain ⟨i, ch, a', hi, hk, ha', rfl⟩ := mem_resolve_cons.mp ha
    rw [List.cons_append, at?_cons, kids_setT_cons, newKids_getElem?, hk]
    simp only [Option.map_some, hi, if_true]
    exact ih ch a' ha'

/-- every matched field holds the written value afterwards (no `lenFree` needed: real nodes only) -/
theorem set_at_matches (v : JV) (p : Path) (t : JV) (a : List Nat) (ha : a ∈ resolve t p) :
    (setT v p t).at? a = some v := by
  have := set_below_matches v p t a ha []
  simpa [JV.at?] using this

/-- FRAME.  Every field that is neither inside nor above a matched field is exactly what it was.
    (`b` ranges over all concrete addresses; the hypothesis is decidable.) -/
theorem set_frame (v : JV) (p : Path) (t : JV) (b : List Nat)
    (hb : ∀ a ∈ resolve t p, ¬ a <+: b ∧ ¬ b <+: a) : (setT v p t).at? b = t.at? b := by
  induction p generalizing t b with
  | nil =>
    have := hb [] (by simp [resolve])
    exact absurd (List.nil_prefix) this.1
  | cons s p ih =>
    cases b with
    | nil =>
      have hnil : resolve t (s :: p) = [] := by
        apply List.eq_nil_iff_forall_not_mem.mpr
        intro a ha
        exact (hb a ha).2 List.nil_prefix
      simp [JV.at?, setT_eq_self_of_no_match v (s :: p) t hnil]
    | cons j b' =>
      rw [at?_cons, at?_cons, kids_setT_cons, newKids_getElem?]
      cases hc : t.kids[j]? with
      | none => rfl
      | some c =>
        simp only [Option.map_some]
        by_cases hj : j ∈ selIdx t s
        · simp only [hj, if_true]
          apply ih
          intro a' ha'
          have hmem : (j :: a') ∈ resolve t (s :: p) := mem_resolve_cons.mpr ⟨j, c, a', hj, hc, ha', rfl⟩
          have := hb _ hmem
          simp only [List.cons_prefix_cons, true_and] at this
          exact this
        · simp [hj]

/-- SHAPE.  Every node that is not inside a matched field keeps its kind, its scalar value, its member names (in
    order) and its array length — in particular all containers above the matched fields. -/
theorem set_skeleton (v : JV) (p : Path) (t : JV) (b : List Nat)
    (hb : ∀ a ∈ resolve t p, ¬ a <+: b) : ((setT v p t).at? b).map JV.skel = (t.at? b).map JV.skel := by
  induction p generalizing t b with
  | nil => exact absurd (List.nil_prefix) (hb [] (by simp [resolve]))
  | cons s p ih =>
    cases b with
    | nil => simp [JV.at?, skel_setT_cons]
    | cons j b' =>
      rw [at?_cons, at?_cons, kids_setT_cons, newKids_getElem?]
      cases hc : t.kids[j]? with
      | none => rfl
      | some c =>
        simp only [Option.map_some]
        by_cases hj : j ∈ selIdx t s
        · simp only [hj, if_true]
          apply ih
          intro a' ha'
          have hmem : (j :: a') ∈ resolve t (s :: p) := mem_resolve_cons.mpr ⟨j, c, a', hj, hc, ha', rfl⟩
          have := hb _ hmem
          simpa only [List.cons_prefix_cons, true_and] using this
        · simp [hj]

/-- KEY UNIQUENESS.  Writing a well-formed value into a well-formed tree gives a well-formed tree. -/
theorem set_preserves_wf (v : JV) (p : Path) (t : JV) (ht : t.WF) (hv : v.WF) : (setT v p t).WF := by
  intro b c hbc
  by_cases hex : ∃ a ∈ resolve t p, a <+: b
  · obtain ⟨a, ha, d, rfl⟩ := hex
    rw [set_below_matches v p t a ha d] at hbc
    exact hv d c hbc
  · have hb : ∀ a ∈ resolve t p, ¬ a <+: b := fun a ha hp => hex ⟨a, ha, hp⟩
    have hs := set_skeleton v p t b hb
    rw [hbc] at hs
    cases ht0 : t.at? b with
    | none => simp [ht0] at hs
    | some c0 =>
      simp only [ht0, Option.map_some, Option.some.injEq] at hs
      have : c.keys = c0.keys := by rw [← keys_skel c, hs, keys_skel]
      rw [this]
      exact ht b c0 ht0

/-- `Get` returns exactly the nodes at the addresses `resolve` lists (`_partial`: outside `C18.array-length`, where
    `Get` additionally returns array lengths that are no nodes of the tree). -/
theorem get_eq_resolve_partial (t : JV) (p : Path) (hl : lenFree t p = true) :
    get t p = (resolve t p).filterMap t.at? := by
  induction p generalizing t with
  | nil => simp [get, resolve, JV.at?]
  | cons s p ih =>
    simp only [lenFree, Bool.and_eq_true, Option.isNone_iff_eq_none, List.all_eq_true] at hl
    obtain ⟨hps, hall⟩ := hl
    rw [get_cons, resolve_cons, hps, List.filterMap_flatMap]
    simp only [List.nil_append]
    apply flatMap_congr_mem
    intro i hi
    cases hc : t.kids[i]? with
    | none => simp
    | some c =>
      have hlc := hall i hi
      simp only [hc] at hlc
      simp only [List.filterMap_map]
      rw [ih c hlc]
      apply filterMap_congr_mem
      intro a _
      simp [at?_cons, hc]

/-- the number `Set` reports is the number of matched fields (`_partial`: outside `C18.array-length`) -/
theorem found_eq_fields_partial (t : JV) (p : Path) (hl : lenFree t p = true) :
    (get t p).length = (resolve t p).length := by
  induction p generalizing t with
  | nil => simp [get, resolve]
  | cons s p ih =>
    simp only [lenFree, Bool.and_eq_true, Option.isNone_iff_eq_none, List.all_eq_true] at hl
    obtain ⟨hps, hall⟩ := hl
    rw [get_cons, resolve_cons, hps]
    simp only [List.nil_append, List.length_flatMap]
    congr 1
    apply List.map_congr_left
    intro i hi
    cases hc : t.kids[i]? with
    | none => simp
    | some c =>
      have hlc := hall i hi
      simp only [hc] at hlc
      simp [ih c hlc]

/-! ## strings.ReplaceAll (non-empty token) -/
open Str

/-- `ReplaceAll(s, tok, v) = Join(Split(s, tok), v)` -/
theorem replaceAll_spec (tok v s : List Char) : replaceAllL tok v s = joinWith v (splitOnL tok s) :=
  replaceAux_eq_join_split tok v 0 s

/-- the pieces, joined by the token, are the original string: nothing but occurrences of the token is removed -/
theorem split_join (tok : List Char) (htok : tok ≠ []) (s : List Char) : joinWith tok (splitOnL tok s) = s := by
  rw [← replaceAll_spec]; exact replaceAllL_self tok htok s

/-- no piece contains the token: every (leftmost, non-overlapping) occurrence in `s` is cut out.
    NB the naive corollary "if `tok` does not occur in `v`, the result contains no `tok`" is FALSE for
    `strings.ReplaceAll` itself — juxtaposition can re-create the token, see `replaceAll_can_recreate_token`. -/
theorem split_pieces_tokfree (tok : List Char) (htok : tok ≠ []) (s : List Char) :
    ∀ p ∈ splitOnL tok s, ¬ tok <:+: p := by
  induction s using list_len_induction with
  | _ s ih =>
    intro p hp hinf
    cases s with
    | nil =>
      rw [splitOnL_nil] at hp
      simp at hp; subst hp
      exact htok (List.infix_nil.mp hinf)
    | cons c r =>
      by_cases hpre : tok <+: c :: r
      · obtain ⟨r', hr'⟩ := hpre
        have hlen : r'.length < (c :: r).length := by
          rw [← hr', List.length_append]
          have : 0 < tok.length := List.length_pos_iff.mpr htok
          omega
        rw [← hr', splitOnL_match tok htok r'] at hp
        rcases List.mem_cons.mp hp with rfl | hp'
        · exact htok (List.infix_nil.mp hinf)
        · exact ih r' hlen p hp' hinf
      · rw [splitOnL_nomatch tok c r hpre] at hp
        cases hq : splitOnL tok r with
        | nil => exact absurd hq (splitAux_ne_nil tok 0 r)
        | cons q qs =>
          rw [hq] at hp
          simp only [consHead, List.mem_cons] at hp
          rcases hp with rfl | hp'
          · rcases List.infix_cons_iff.mp hinf with h1 | h2
            · have hqr : q <+: r := by
                have := joinWith_head_prefix tok q qs
                rw [← hq, split_join tok htok r] at this
                exact this
              exact hpre (h1.trans ((List.prefix_cons_inj c).mpr hqr))
            · exact ih r (by simp) q (by rw [hq]; simp) h2
          · exact ih r (by simp) p (by rw [hq]; simp [hp']) hinf

/-- a string without the token is left as it is (the common case on updates) -/
theorem replaceAll_no_token_identity (tok v s : List Char) (h : ¬ tok <:+: s) : replaceAllL tok v s = s := by
  induction s with
  | nil => exact replaceAllL_nil tok v
  | cons c r ih =>
    have h1 : ¬ tok <+: c :: r := fun hp => h hp.isInfix
    have h2 : ¬ tok <:+: r := fun hp => h (List.infix_cons_iff.mpr (Or.inr hp))
    rw [replaceAllL_nomatch tok v c r h1, ih h2]

/-- leftmost-first, non-overlapping: if no occurrence of the token starts inside `a`, then
    `ReplaceAll(a ++ tok ++ b) = a ++ v ++ ReplaceAll(b)`.  With `replaceAll_no_token_identity` this determines the
    function completely. -/
theorem replaceAll_leftmost (tok v : List Char) (htok : tok ≠ []) (a b : List Char)
    (h : ∀ i, i < a.length → ¬ tok <+: (a ++ tok ++ b).drop i) :
    replaceAllL tok v (a ++ tok ++ b) = a ++ v ++ replaceAllL tok v b := by
  induction a with
  | nil => simpa using replaceAllL_match tok v htok b
  | cons c a ih =>
    have h0 := h 0 (by simp)
    simp only [List.drop_zero, List.cons_append] at h0
    have hrest : ∀ i, i < a.length → ¬ tok <+: (a ++ tok ++ b).drop i := by
      intro i hi
      have := h (i + 1) (by simp; omega)
      simpa using this
    simp only [List.cons_append, List.append_assoc] at h0 ⊢
    rw [replaceAllL_nomatch tok v c _ h0]
    have := ih hrest
    simp only [List.append_assoc] at this
    rw [this]

/-- the model's `replaceAll` on strings is `replaceAllL` on their characters -/
theorem replaceAll_toList (tok v s : String) :
    (replaceAll tok v s).toList = replaceAllL tok.toList v.toList s.toList := by
  simp [replaceAll, String.toList_ofList]

/-- string level: a target string without the token is unchanged by a substitution -/
theorem replaceAll_no_token_identity_str (tok v s : String) (h : ¬ tok.toList <:+: s.toList) :
    replaceAll tok v s = s := by
  unfold replaceAll
  rw [replaceAll_no_token_identity _ _ _ h, String.ofList_toList]

/-- string level: `ReplaceAll = Join ∘ Split` -/
theorem replaceAll_spec_str (tok v s : String) :
    replaceAll tok v s = String.ofList (joinWith v.toList (splitOnL tok.toList s.toList)) := by
  unfold replaceAll; rw [replaceAll_spec]

/-! ## ApplyTimeMutator.Mutate -/

theorem readField_some {o : JV} {p : Option Path} {v : JV} (h : readField o p = some v) :
    ∃ q, p = some q ∧ get o q = [v] := by
  cases p with
  | none => simp [readField] at h
  | some q =>
    refine ⟨q, rfl, ?_⟩
    simp only [readField] at h
    split at h
    · rename_i w hw; injection h with h; subst h; exact hw
    · cases h

theorem readField_none_of_matches {o : JV} {q : Path} (h : (get o q).length ≠ 1) : readField o (some q) = none := by
  simp only [readField]
  split
  · rename_i w hw; rw [hw] at h; simp at h
  · rfl

theorem writeField_some {o : JV} {p : Option Path} {v o' : JV} (h : writeField o p v = some o') :
    ∃ q, p = some q ∧ set o q v = .ok (o', 1) := by
  cases p with
  | none => simp [writeField] at h
  | some q =>
    refine ⟨q, rfl, ?_⟩
    simp only [writeField] at h
    split at h
    · rename_i w hw; injection h with h; subst h; exact hw
    · cases h

/-- SUCCESS characterises everything (contrapositive = every rejection branch): if one substitution succeeds then
    the source reference has a REST mapping, it is not the target itself (after namespace defaulting), the source
    object was found (cache-current or cluster), the target path and the source path each match exactly one node,
    a token is only used on a string target, the written value has a supported type — and the result is the target
    with the matches of the target path overwritten by the new value, nothing else. -/
theorem mutateOne_ok (env : Env) (tref : Ref) (obj : JV) (sub : Sub) (obj' : JV)
    (h : mutateOne env tref obj sub = .ok obj') :
    ∃ e srcObj tp sp tv sv nv,
      findMapping env.mapper sub.src = some e ∧
      tref.equal (defaultNs tref e sub.src) = false ∧
      (defaultNs tref e sub.src).name ≠ "" ∧ (defaultNs tref e sub.src).kind ≠ "" ∧
      env.lookup e.group (defaultNs tref e sub.src) = some srcObj ∧
      sub.tgtPath = some tp ∧ get obj tp = [tv] ∧
      sub.srcPath = some sp ∧ get srcObj sp = [sv] ∧
      newValue sub.token tv sv = .ok nv ∧ writable nv = true ∧
      obj' = setT nv tp obj := by
  unfold mutateOne at h
  split at h
  · cases h
  · rename_i e he
    simp only at h
    split at h
    · cases h
    · rename_i hself
      split at h
      · cases h
      · rename_i hname
        split at h
        · cases h
        · rename_i srcObj hsrc
          split at h
          · cases h
          · rename_i tv htv
            split at h
            · cases h
            · rename_i sv hsv
              split at h
              · cases h
              · rename_i nv hnv
                split at h
                · cases h
                · rename_i o' ho'
                  injection h with h; subst h
                  obtain ⟨tp, htp, hgt⟩ := readField_some htv
                  obtain ⟨sp, hsp, hgs⟩ := readField_some hsv
                  obtain ⟨tp', htp', hset⟩ := writeField_some ho'
                  rw [htp] at htp'; injection htp' with htp'; subst htp'
                  have hw : writable nv = true := by
                    cases hwv : writable nv with
                    | true => rfl
                    | false =>
                      have hne : get obj tp ≠ [] := by rw [hgt]; simp
                      rw [set_rejects_unsupported obj tp nv hne hwv] at hset
                      cases hset
                  obtain ⟨_, h2⟩ := set_found_eq_matches obj tp nv _ 1 hset
                  simp at h2
                  refine ⟨e, srcObj, tp, sp, tv, sv, nv, he, ?_, ?_, ?_, hsrc, htp, hgt, hsp, hgs, hnv, hw, h2⟩
                  · simpa using hself
                  · intro hn; exact hname (Or.inl hn)
                  · intro hn; exact hname (Or.inr hn)

/-- the value written: the source value itself, or the target string with every occurrence of the token replaced by
    the source value rendered as text -/
theorem newValue_ok {token : String} {tv sv nv : JV} (h : newValue token tv sv = .ok nv) :
    (token = "" ∧ nv = sv) ∨ (token ≠ "" ∧ ∃ s, tv = .str s ∧ nv = .str (replaceAll token (valueToString sv) s)) := by
  unfold newValue at h
  split at h
  · rename_i ht; injection h with h; exact Or.inl ⟨ht, h.symm⟩
  · rename_i ht
    split at h
    · rename_i s; injection h with h; exact Or.inr ⟨ht, s, rfl, h.symm⟩
    · cases h

/-! ### rejection branches, one by one (each yields an error, hence no object to apply) -/

/-- no REST mapping for the source reference -/
theorem mutate_rejects_no_mapping (env : Env) (tref : Ref) (obj : JV) (sub : Sub)
    (h : findMapping env.mapper sub.src = none) : mutateOne env tref obj sub = .error .mapping := by
  simp [mutateOne, h]

/-- self-reference, judged AFTER the source namespace has been defaulted to the target's -/
theorem mutate_rejects_self_reference (env : Env) (tref : Ref) (obj : JV) (sub : Sub) (e : MapEntry)
    (h : findMapping env.mapper sub.src = some e) (hs : tref.equal (defaultNs tref e sub.src) = true) :
    mutateOne env tref obj sub = .error .selfRef := by
  simp [mutateOne, h, hs]

/-- a self-reference written out in full anywhere in the annotation is rejected before anything is looked up,
    and the object is left as it was -/
theorem mutate_rejects_explicit_self_reference (env : Env) (tref : Ref) (obj : JV) (l : List Sub)
    (h : ∃ s ∈ l, tref.equal s.src = true) :
    mutate env tref obj (.subs l) = ⟨false, some .selfRef, obj⟩ := by
  have : l.any (fun s => tref.equal s.src) = true := by
    obtain ⟨s, hs, he⟩ := h
    exact List.any_eq_true.mpr ⟨s, hs, he⟩
  simp [mutate, this]

/-- the source object is neither cached with status Current nor present in the cluster (or has no name) -/
theorem mutate_rejects_missing_source (env : Env) (tref : Ref) (obj : JV) (sub : Sub) (e : MapEntry)
    (h : findMapping env.mapper sub.src = some e) (hs : tref.equal (defaultNs tref e sub.src) = false)
    (hm : (defaultNs tref e sub.src).name = "" ∨ env.lookup e.group (defaultNs tref e sub.src) = none) :
    mutateOne env tref obj sub = .error .sourceGet := by
  simp only [mutateOne, h, hs]
  rcases hm with hm | hm
  · simp [hm]
  · by_cases hn : (defaultNs tref e sub.src).name = "" ∨ (defaultNs tref e sub.src).kind = ""
    · simp [hn]
    · simp [hn, hm]

/-- the target path matches no or several nodes -/
theorem mutate_rejects_target_matches (env : Env) (tref : Ref) (obj : JV) (sub : Sub) (e : MapEntry) (srcObj : JV)
    (tp : Path) (h : findMapping env.mapper sub.src = some e) (hs : tref.equal (defaultNs tref e sub.src) = false)
    (hn : ¬ ((defaultNs tref e sub.src).name = "" ∨ (defaultNs tref e sub.src).kind = ""))
    (hl : env.lookup e.group (defaultNs tref e sub.src) = some srcObj)
    (htp : sub.tgtPath = some tp) (hm : (get obj tp).length ≠ 1) :
    mutateOne env tref obj sub = .error .targetRead := by
  simp [mutateOne, h, hs, hn, hl, htp, readField_none_of_matches hm]

/-- the source path matches no or several nodes -/
theorem mutate_rejects_source_matches (env : Env) (tref : Ref) (obj : JV) (sub : Sub) (e : MapEntry) (srcObj tv : JV)
    (sp : Path) (h : findMapping env.mapper sub.src = some e) (hs : tref.equal (defaultNs tref e sub.src) = false)
    (hn : ¬ ((defaultNs tref e sub.src).name = "" ∨ (defaultNs tref e sub.src).kind = ""))
    (hl : env.lookup e.group (defaultNs tref e sub.src) = some srcObj)
    (htv : readField obj sub.tgtPath = some tv)
    (hsp : sub.srcPath = some sp) (hm : (get srcObj sp).length ≠ 1) :
    mutateOne env tref obj sub = .error .sourceRead := by
  simp [mutateOne, h, hs, hn, hl, htv, hsp, readField_none_of_matches hm]

/-- a token is given but the target field is not a string -/
theorem mutate_rejects_token_non_string (env : Env) (tref : Ref) (obj : JV) (sub : Sub) (e : MapEntry)
    (srcObj tv sv : JV) (h : findMapping env.mapper sub.src = some e)
    (hs : tref.equal (defaultNs tref e sub.src) = false)
    (hn : ¬ ((defaultNs tref e sub.src).name = "" ∨ (defaultNs tref e sub.src).kind = ""))
    (hl : env.lookup e.group (defaultNs tref e sub.src) = some srcObj)
    (htv : readField obj sub.tgtPath = some tv) (hsv : readField srcObj sub.srcPath = some sv)
    (htok : sub.token ≠ "") (hstr : ∀ s, tv ≠ .str s) :
    mutateOne env tref obj sub = .error .tokenNonString := by
  have : newValue sub.token tv sv = .error .tokenNonString := by
    unfold newValue
    simp only [htok, if_false]
  simp [mutateOne, h, hs, hn, hl, htv, hsv, this]

/-- the source value has a type `jsonpath.Set` does not support (an integer above MaxInt64) and there is no token -/
theorem mutate_rejects_unsupported_value (env : Env) (tref : Ref) (obj : JV) (sub : Sub) (e : MapEntry)
    (srcObj tv sv : JV) (h : findMapping env.mapper sub.src = some e)
    (hs : tref.equal (defaultNs tref e sub.src) = false)
    (hn : ¬ ((defaultNs tref e sub.src).name = "" ∨ (defaultNs tref e sub.src).kind = ""))
    (hl : env.lookup e.group (defaultNs tref e sub.src) = some srcObj)
    (htv : readField obj sub.tgtPath = some tv) (hsv : readField srcObj sub.srcPath = some sv)
    (htok : sub.token = "") (hw : writable sv = false) :
    mutateOne env tref obj sub = .error .targetWrite := by
  obtain ⟨tp, htp, hgt⟩ := readField_some htv
  have hnv : newValue sub.token tv sv = .ok sv := by simp [newValue, htok]
  have hne : get obj tp ≠ [] := by rw [hgt]; simp
  have hwf : writeField obj sub.tgtPath sv = none := by
    simp [writeField, htp, set_rejects_unsupported obj tp sv hne hw]
  simp [mutateOne, h, hs, hn, hl, htv, hsv, hnv, hwf]

/-- an annotation that cannot be parsed is an error; the object is untouched -/
theorem mutate_rejects_invalid_annotation (env : Env) (tref : Ref) (obj : JV) :
    mutate env tref obj .invalid = ⟨false, some .annotation, obj⟩ := rfl

/-- without the annotation nothing happens -/
theorem mutate_absent_noop (env : Env) (tref : Ref) (obj : JV) :
    mutate env tref obj .absent = ⟨false, none, obj⟩ := rfl

/-- REJECTED ⇒ NOT APPLIED: whenever `Mutate` reports an error there is no object to hand to the apply step
    (`ApplyTask` sends an apply-failed event and `continue`s), whatever was already written in memory. -/
theorem mutate_error_no_output (env : Env) (tref : Ref) (obj : JV) (a : Annot) (e : MErr)
    (h : (mutate env tref obj a).err = some e) : mutateResult env tref obj a = .error e := by
  simp [mutateResult, h]

/-- a failing substitution stops the loop with the error; the object stays as the earlier substitutions left it -/
theorem mutateLoop_stops_on_error (env : Env) (tref : Ref) (m : Bool) (obj : JV) (sub : Sub) (rest : List Sub)
    (e : MErr) (h : mutateOne env tref obj sub = .error e) :
    mutateLoop env tref m obj (sub :: rest) = ⟨m, some e, obj⟩ := by
  simp [mutateLoop, h]

/-- a successful substitution sets the `mutated` flag and the loop continues on the new object -/
theorem mutateLoop_continues (env : Env) (tref : Ref) (m : Bool) (obj obj' : JV) (sub : Sub) (rest : List Sub)
    (h : mutateOne env tref obj sub = .ok obj') :
    mutateLoop env tref m obj (sub :: rest) = mutateLoop env tref true obj' rest := by
  simp [mutateLoop, h]

/-! ### effect of a successful substitution -/

/-- EFFECT (value).  The unique target field holds the source value (no token) or the target string with the
    token replaced by the source value's text (token); and the result is `setT` of that value, so all the frame
    theorems apply. -/
theorem mutate_effect (env : Env) (tref : Ref) (obj : JV) (sub : Sub) (obj' : JV)
    (h : mutateOne env tref obj sub = .ok obj') :
    ∃ tp tv sv srcObj sp nv, sub.tgtPath = some tp ∧ get obj tp = [tv] ∧ sub.srcPath = some sp ∧ get srcObj sp = [sv] ∧
      ((sub.token = "" ∧ nv = sv) ∨
       (sub.token ≠ "" ∧ ∃ s, tv = .str s ∧ nv = .str (replaceAll sub.token (valueToString sv) s))) ∧
      obj' = setT nv tp obj ∧ (∀ a ∈ resolve obj tp, obj'.at? a = some nv) := by
  obtain ⟨e, srcObj, tp, sp, tv, sv, nv, _, _, _, _, _, htp, hgt, hsp, hgs, hnv, _, ho⟩ := mutateOne_ok env tref obj sub obj' h
  refine ⟨tp, tv, sv, srcObj, sp, nv, htp, hgt, hsp, hgs, newValue_ok hnv, ho, ?_⟩
  intro a ha
  rw [ho]; exact set_at_matches nv tp obj a ha

/-- EFFECT (frame).  Every field of the target object that is neither inside nor above the target field is exactly
    what it was; every node outside the target field keeps kind, scalar value, member names and length. -/
theorem mutate_effect_frame (env : Env) (tref : Ref) (obj : JV) (sub : Sub) (obj' : JV)
    (h : mutateOne env tref obj sub = .ok obj') :
    ∃ tp, sub.tgtPath = some tp ∧
      (∀ b, (∀ a ∈ resolve obj tp, ¬ a <+: b ∧ ¬ b <+: a) → obj'.at? b = obj.at? b) ∧
      (∀ b, (∀ a ∈ resolve obj tp, ¬ a <+: b) → (obj'.at? b).map JV.skel = (obj.at? b).map JV.skel) := by
  obtain ⟨e, srcObj, tp, sp, tv, sv, nv, _, _, _, _, _, htp, _, _, _, _, _, ho⟩ := mutateOne_ok env tref obj sub obj' h
  refine ⟨tp, htp, ?_, ?_⟩
  · intro b hb; rw [ho]; exact set_frame nv tp obj b hb
  · intro b hb; rw [ho]; exact set_skeleton nv tp obj b hb

/-- EFFECT (read-back, `_partial`: outside `C18.array-length`).  Reading the target path back yields exactly the
    written value, and exactly one field of the object was addressed. -/
theorem mutate_effect_readback_partial (env : Env) (tref : Ref) (obj : JV) (sub : Sub) (obj' : JV)
    (h : mutateOne env tref obj sub = .ok obj') (tp : Path) (htp : sub.tgtPath = some tp)
    (hl : lenFree obj tp = true) :
    (resolve obj tp).length = 1 ∧ ∃ nv, get obj' tp = [nv] ∧ obj' = setT nv tp obj := by
  obtain ⟨e, srcObj, tp', sp, tv, sv, nv, _, _, _, _, _, htp', hgt, _, _, _, _, ho⟩ := mutateOne_ok env tref obj sub obj' h
  rw [htp] at htp'; injection htp' with htp'; subst htp'
  refine ⟨?_, nv, ?_, ho⟩
  · rw [← found_eq_fields_partial obj tp hl, hgt]; rfl
  · rw [ho, set_get_partial nv tp obj hl, hgt]; rfl

/-- EFFECT (well-formedness): unique member names are preserved when the source value has them -/
theorem mutate_effect_wf (env : Env) (tref : Ref) (obj : JV) (sub : Sub) (obj' : JV)
    (h : mutateOne env tref obj sub = .ok obj') (ho : obj.WF)
    (hsrc : ∀ e srcObj, env.lookup e.group (defaultNs tref e sub.src) = some srcObj → srcObj.WF) : obj'.WF := by
  obtain ⟨e, srcObj, tp, sp, tv, sv, nv, _, _, _, _, hl, _, _, _, hgs, hnv, _, hob⟩ := mutateOne_ok env tref obj sub obj' h
  rw [hob]
  apply set_preserves_wf nv tp obj ho
  rcases newValue_ok hnv with ⟨_, rfl⟩ | ⟨_, s, _, rfl⟩
  · -- the source value is a node of a well-formed source object, or an integer (the array-length pseudo-node)
    have hmem : nv ∈ get srcObj sp := by rw [hgs]; simp
    rcases get_mem_node_or_int srcObj sp nv hmem with ⟨addr, haddr⟩ | ⟨n, rfl⟩
    · intro a c hac
      exact hsrc e srcObj hl (addr ++ a) c (at?_append srcObj addr a nv c haddr hac)
    · exact wf_int n
  · intro a c hac
    cases a with
    | nil => simp [JV.at?] at hac; subst hac; simp [JV.keys]
    | cons i a => simp [JV.at?, JV.kids] at hac

/-! ## the region `C18.array-length`, and non-vacuity -/

private def tObj : JV :=
  .obj [("data", .obj [("k", .str "a${x}b${x}"), ("n", .int 1)]), ("l", .arr [.str "p", .str "q"])]
private def sObj : JV :=
  .obj [("status", .obj [("num", .int 9007199254740993), ("big", .int 9223372036854775808), ("xs", .arr [.int 1, .int 2])])]

/-- The full read-back statement is false for the code as it is (known finding `C18.array-length`): on
    `{"l":["p","q"]}` the expression `$.l.length` "matches" once, `Set` reports found = 1 with no error, nothing is
    written, and reading the path back yields the array length 2 instead of the written value. -/
theorem set_get_fails_in_region :
    ∃ (t : JV) (p : Path) (v t' : JV), set t p v = .ok (t', 1) ∧ t' = t ∧ get t' p ≠ [v] ∧ lenFree t p = false := by
  refine ⟨.obj [("l", .arr [.str "p", .str "q"])], [.key "l", .key "length"], .str "W",
    .obj [("l", .arr [.str "p", .str "q"])], by rfl, rfl, ?_, by rfl⟩
  have : get (JV.obj [("l", .arr [.str "p", .str "q"])]) [.key "l", .key "length"] = [.int 2] := by rfl
  rw [this]; simp

/-- `strings.ReplaceAll` can re-create the token by juxtaposition ("abb": ab→a gives "ab"), so "the result contains
    no token unless the value does" is not a law of the real function; `split_pieces_tokfree` is the true statement. -/
theorem replaceAll_can_recreate_token :
    replaceAllL ['a', 'b'] ['a'] ['a', 'b', 'b'] = ['a', 'b'] ∧ ¬ (['a', 'b'] <:+: ['a']) := by
  refine ⟨by decide, ?_⟩
  rintro ⟨s, t, h⟩
  have := congrArg List.length h
  simp at this
  omega

-- Set at an existing leaf: found 1, exactly that field replaced, a 2^53+1 integer written exactly; outside the region
example : set tObj [.key "data", .key "n"] (.int 9007199254740993) =
    .ok (.obj [("data", .obj [("k", .str "a${x}b${x}"), ("n", .int 9007199254740993)]), ("l", .arr [.str "p", .str "q"])], 1) := by rfl
example : lenFree tObj [.key "data", .key "n"] = true ∧ resolve tObj [.key "data", .key "n"] = [[0, 1]] := ⟨by rfl, by rfl⟩
-- negative index, index on an object member named "1", missing key, index out of range, path through a scalar
example : get tObj [.key "l", .key "-1"] = [.str "q"] ∧ get tObj [.key "l", .key "2"] = [] ∧
    get tObj [.key "data", .key "zz"] = [] ∧ get tObj [.key "data", .key "n", .key "x"] = [] := ⟨by rfl, by rfl, by rfl, by rfl⟩
example : set tObj [.key "data", .key "zz"] (.str "new") = .ok (tObj, 0) := by rfl
-- wildcard: two matches, both overwritten, found = 2
example : set tObj [.key "l", .wild] .null = .ok (.obj [("data", .obj [("k", .str "a${x}b${x}"), ("n", .int 1)]), ("l", .arr [.null, .null])], 2) := by rfl
-- unsupported value type (uint64 range)
example : set tObj [.key "data", .key "n"] (.int 9223372036854775808) = .error .unsupportedType := by rfl
-- ReplaceAll
example : replaceAll "${x}" "7" "a${x}b${x}" = "a7b7" ∧ replaceAll "aa" "b" "aaaaa" = "bba" ∧ replaceAll "zz" "b" "aaa" = "aaa" := by decide
example : splitOnL ['a', 'a'] ['a', 'a', 'a', 'a', 'a'] = [[], [], ['a']] := by decide

private def envX : Env :=
  { mapper := [{ group := "example.com", kind := "Widget", versions := ["v1"], namespaced := true }],
    store := [{ group := "example.com", kind := "Widget", ns := "ns1", name := "src", cached := some (sObj, true) },
              { group := "example.com", kind := "Widget", ns := "ns1", name := "tgt", cached := some (tObj, true) }] }
private def trefX : Ref := { kind := "Widget", group := "example.com", name := "tgt", ns := "ns1" }
private def srcX : Ref := { kind := "Widget", group := "example.com", name := "src" }   -- namespace implicit

-- no token: the source value (2^53+1) replaces the target field, everything else equal
example : mutate envX trefX tObj (.subs [{ src := srcX, srcPath := some [.key "status", .key "num"], tgtPath := some [.key "data", .key "n"] }])
    = ⟨true, none, .obj [("data", .obj [("k", .str "a${x}b${x}"), ("n", .int 9007199254740993)]), ("l", .arr [.str "p", .str "q"])]⟩ := by rfl
-- token: every occurrence replaced by the rendered source value (a list is rendered as JSON)
example : (mutate envX trefX tObj (.subs [{ src := srcX, srcPath := some [.key "status", .key "xs"], tgtPath := some [.key "data", .key "k"], token := "${x}" }])).obj
    = .obj [("data", .obj [("k", .str "a[1,2]b[1,2]"), ("n", .int 1)]), ("l", .arr [.str "p", .str "q"])] := by rfl
-- rejections: self-reference with implicit namespace, several matches on read, missing source, no mapping,
-- token with a non-string target, unsupported source value, 0 matches on the source
example : (mutate envX trefX tObj (.subs [{ src := { srcX with name := "tgt" }, srcPath := some [.key "l"], tgtPath := some [.key "data", .key "n"] }])).err = some .selfRef := by rfl
example : (mutate envX trefX tObj (.subs [{ src := srcX, srcPath := some [.key "status", .key "num"], tgtPath := some [.key "l", .wild] }])).err = some .targetRead := by rfl
example : (mutate envX trefX tObj (.subs [{ src := { srcX with name := "nope" }, srcPath := some [.key "status"], tgtPath := some [.key "data", .key "n"] }])).err = some .sourceGet := by rfl
example : (mutate envX trefX tObj (.subs [{ src := { srcX with kind := "Gadget" }, srcPath := some [.key "status"], tgtPath := some [.key "data", .key "n"] }])).err = some .mapping := by rfl
example : (mutate envX trefX tObj (.subs [{ src := srcX, srcPath := some [.key "status", .key "num"], tgtPath := some [.key "data", .key "n"], token := "1" }])).err = some .tokenNonString := by rfl
example : (mutate envX trefX tObj (.subs [{ src := srcX, srcPath := some [.key "status", .key "big"], tgtPath := some [.key "data", .key "n"] }])).err = some .targetWrite := by rfl
example : (mutate envX trefX tObj (.subs [{ src := srcX, srcPath := some [.key "status", .key "zz"], tgtPath := some [.key "data", .key "n"] }])).err = some .sourceRead := by rfl
-- second substitution fails after the first was written: error reported, mutated = true, no output object
example : (mutate envX trefX tObj (.subs [
    { src := srcX, srcPath := some [.key "status", .key "num"], tgtPath := some [.key "data", .key "n"] },
    { src := srcX, srcPath := none, tgtPath := some [.key "data", .key "n"] }])).mutated = true ∧
  mutateResult envX trefX tObj (.subs [
    { src := srcX, srcPath := some [.key "status", .key "num"], tgtPath := some [.key "data", .key "n"] },
    { src := srcX, srcPath := none, tgtPath := some [.key "data", .key "n"] }]) = .error .sourceRead := ⟨by rfl, by rfl⟩

end CliUtils.Props.C18
