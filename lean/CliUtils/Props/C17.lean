import CliUtils.Model.Poll
import CliUtils.Spec.C17
import CliUtils.Lemmas.PollL
/-
  C17 — Polling reports each status change once; aggregation follows the stated rule.
  Property theorems only; helper lemmas live in `Lemmas/PollL.lean`, specification notions in `Spec/C17.lean`.

  Reading guide (model ↔ code, see Model/Poll.lean):
    rsEqual      = event.ResourceStatusEqual          aggregate = aggregator.AggregateStatus
    pollLoop     = pollStatusForAllResources          pollOnce  = one undisturbed poll of a snapshot
    runFrom/run  = statusPollerRunner.Run / PollerEngine.Poll; the returned list is everything sent on the
                   channel before it is closed (a finite list = the channel IS closed afterwards)
    collect      = ResourceStatusCollector listening to a stream;  podController = podControllerStatusReader.readStatus
  An exhausted script means "the caller cancelled the context"; `plain s` is a poll in which Sync succeeds and
  every ReadStatus returns the status found in snapshot `s`.
-/
namespace CliUtils.Props.C17
open CliUtils CliUtils.Poll CliUtils.Poll.Spec

/-! ### aggregation -/

/-- AggregateStatus follows the stated rule for every list (any length, any order, repeats) and every desired status:
Failed if any is Failed, else Unknown if any is Unknown, else the desired status if all equal it, else InProgress.
There is no special case for NotFound, and the `len(rss) == 0` shortcut agrees with the rule (see `aggregate_empty`). -/
theorem aggregate_rule (rss : List RS) (d : Status) :
    aggregate rss d =
      if ∃ r ∈ rss, r.status = .failed then .failed
      else if ∃ r ∈ rss, r.status = .unknown then .unknown
      else if ∀ r ∈ rss, r.status = d then d
      else .inProgress := by
  unfold aggregate
  rw [aggregateS_rule]
  unfold aggRule
  have e1 : Status.failed ∈ rss.map RS.status ↔ ∃ r ∈ rss, r.status = .failed := by simp [List.mem_map]
  have e2 : Status.unknown ∈ rss.map RS.status ↔ ∃ r ∈ rss, r.status = .unknown := by simp [List.mem_map]
  have e3 : (∀ s ∈ rss.map RS.status, s = d) ↔ ∀ r ∈ rss, r.status = d := List.forall_mem_map
  simp only [e1, e2, e3]

/-- the same rule on bare status lists (the function the correspondence run enumerates exhaustively) -/
theorem aggregate_rule_statuses (l : List Status) (d : Status) : aggregateS l d = aggRule l d :=
  aggregateS_rule l d

/-- the empty set aggregates to the desired status, whatever it is -/
theorem aggregate_empty (d : Status) : aggregate [] d = d := by
  simp [aggregate, aggregateS]

/-- the aggregate does not depend on the order of the statuses -/
theorem aggregate_perm_invariant (rss rss' : List RS) (d : Status) (h : rss.Perm rss') :
    aggregate rss d = aggregate rss' d := by
  rw [aggregate_rule, aggregate_rule]
  have e1 : (∃ r ∈ rss, r.status = Status.failed) ↔ ∃ r ∈ rss', r.status = Status.failed :=
    ⟨fun ⟨r, hm, hs⟩ => ⟨r, h.mem_iff.mp hm, hs⟩, fun ⟨r, hm, hs⟩ => ⟨r, h.mem_iff.mpr hm, hs⟩⟩
  have e2 : (∃ r ∈ rss, r.status = Status.unknown) ↔ ∃ r ∈ rss', r.status = Status.unknown :=
    ⟨fun ⟨r, hm, hs⟩ => ⟨r, h.mem_iff.mp hm, hs⟩, fun ⟨r, hm, hs⟩ => ⟨r, h.mem_iff.mpr hm, hs⟩⟩
  have e3 : (∀ r ∈ rss, r.status = d) ↔ ∀ r ∈ rss', r.status = d :=
    ⟨fun f r hm => f r (h.mem_iff.mpr hm), fun f r hm => f r (h.mem_iff.mp hm)⟩
  simp only [e1, e2, e3]

/-- … nor on how often a status is repeated (it is a function of the *set* of statuses) -/
theorem aggregate_set_invariant (l l' : List Status) (d : Status) (h : ∀ s, s ∈ l ↔ s ∈ l') :
    aggregateS l d = aggregateS l' d := by
  rw [aggregateS_rule, aggregateS_rule]
  unfold aggRule
  have e3 : (∀ s ∈ l, s = d) ↔ ∀ s ∈ l', s = d :=
    ⟨fun f s hm => f s ((h s).mpr hm), fun f s hm => f s ((h s).mp hm)⟩
  simp only [h]

/-! ### ResourceStatusEqual -/

/-- ResourceStatusEqual is an equivalence relation, so "differs from the last update emitted" is well defined -/
theorem rsEqual_equivalence (a b c : RS) :
    rsEqual a a = true ∧ (rsEqual a b = true → rsEqual b a = true) ∧
    (rsEqual a b = true → rsEqual b c = true → rsEqual a c = true) :=
  ⟨rsEqual_refl a, rsEqual_symm a b, rsEqual_trans a b c⟩

/-- what it compares: identifier, status, message, generation (0 for a nil resource), error presence and text, and the
generated resources pairwise and in order (so also their number) -/
theorem rsEqual_compares (a b : RS) :
    rsEqual a b = true ↔
      a.id = b.id ∧ a.status = b.status ∧ a.message = b.message ∧ a.generation = b.generation ∧ a.err = b.err ∧
      a.generated.length = b.generated.length ∧
      ∀ k (h1 : k < a.generated.length) (h2 : k < b.generated.length), rsEqual a.generated[k] b.generated[k] = true := by
  rw [rsEqual_iff]
  have hl : ∀ l k : List RS, rsEqualList l k = true ↔
      l.length = k.length ∧ ∀ n (h1 : n < l.length) (h2 : n < k.length), rsEqual l[n] k[n] = true := by
    intro l
    induction l with
    | nil => intro k; cases k <;> simp [rsEqualList]
    | cons x xs ih =>
      intro k
      cases k with
      | nil => simp [rsEqualList]
      | cons y ys =>
        simp only [rsEqualList, Bool.and_eq_true, ih ys, List.length_cons, Nat.add_right_cancel_iff]
        constructor
        · rintro ⟨h0, hlen, hrest⟩
          refine ⟨hlen, ?_⟩
          intro n h1 h2
          cases n with
          | zero => simpa using h0
          | succ m => simpa using hrest m (by omega) (by omega)
        · rintro ⟨hlen, hall⟩
          refine ⟨by simpa using hall 0 (by omega) (by omega), hlen, ?_⟩
          intro n h1 h2
          have := hall (n + 1) (by omega) (by omega)
          simp only [List.getElem_cons_succ] at this
          exact this
  rw [hl]
  simp only [hdr, Prod.mk.injEq]
  constructor
  · rintro ⟨⟨h1, h2, h3, h4, h5⟩, h6, h7⟩; exact ⟨h1, h2, h3, h4, h5, h6, h7⟩
  · rintro ⟨h1, h2, h3, h4, h5, h6, h7⟩; exact ⟨⟨h1, h2, h3, h4, h5⟩, h6, h7⟩

/-! ### the polling engine -/

/-- the exact outcome of one undisturbed poll from any engine state: one update per *distinct* identifier whose fresh
status differs from `previousResourceStatuses` (none recorded, or not ResourceStatusEqual), in identifier order, and
nothing else -/
theorem poll_once_events (ids : List Id) (p : Prev) (s : Id → RS) (hwf : ∀ id ∈ ids, (s id).id = id) :
    (pollOnce ids p s).2 =
      ((dedup ids).filter (fun id => differs (p id) (s id))).map (fun id => Event.update (s id)) := by
  have h := (pollLoop_plain s ids p hwf).1
  simp only [pollOnce]
  rw [h]
  congr 1
  apply List.filter_congr
  intro id hid
  rw [isUpdated_eq, hwf id ((mem_dedup ids id).mp hid)]

/-- the first poll emits exactly one update per resource (repeats in the identifier list do not repeat the update) -/
theorem poll_first_emits_all (ids : List Id) (s : Id → RS) (hwf : ∀ id ∈ ids, (s id).id = id) :
    (pollOnce ids Prev.empty s).2 = (dedup ids).map (fun id => Event.update (s id)) := by
  rw [poll_once_events ids _ s hwf]
  congr 1
  apply List.filter_eq_self.mpr
  intro id _
  simp [differs, Prev.empty]

/-- … and that is how every run of `Poll` whose first poll is undisturbed begins -/
theorem poll_first_emits_all_run (cfg : Cfg) (s : Id → RS) (rest : List Poll)
    (hv : validate cfg.scope cfg.ids = none) (hf : cfg.factoryErr = none) (hwf : ∀ id ∈ cfg.ids, (s id).id = id) :
    ∃ tail, run cfg (plain s :: rest) = (dedup cfg.ids).map (fun id => Event.update (s id)) ++ tail := by
  have hsw : SnapsWF cfg.ids [s] := by
    intro t ht; simp only [List.mem_singleton] at ht; subst ht; exact hwf
  have h := runFrom_plain_append cfg.ids [s] rest Prev.empty hsw
  simp only [List.map_cons, List.map_nil, List.cons_append, List.nil_append] at h
  refine ⟨runFrom cfg.ids rest (statePlain cfg.ids [s] Prev.empty) false, ?_⟩
  simp only [run, hv, hf, h]
  congr 1
  obtain ⟨_, h2, h3, _⟩ := pollLoop_plain s cfg.ids Prev.empty hwf
  have := poll_first_emits_all cfg.ids s hwf
  simp only [pollOnce] at this
  simp [runFrom, plain_eq, h2, this]

/-- `Poll` is `Run` from the empty state once the identifiers validate and the cluster reader can be built — this is
what connects the `runFrom … Prev.empty false` of the theorems below to the function the correspondence run drives -/
theorem run_eq_runFrom (cfg : Cfg) (script : List Poll)
    (hv : validate cfg.scope cfg.ids = none) (hf : cfg.factoryErr = none) :
    run cfg script = runFrom cfg.ids script Prev.empty false := by
  simp [run, hv, hf]

/-- the engine's state is always "the last update emitted, per resource" — for every script (including cancellation in
the middle of a poll and errors), as long as readers return statuses carrying the identifier they were asked for -/
theorem poll_prev_is_last_emitted (read : Id → ReadRes) (ids : List Id) (c : Bool) (p : Prev)
    (hwf : ReadWF read ids) (j : Id) :
    (pollLoop read ids c p).prev j = lastUpdFrom (p j) (pollLoop read ids c p).events j :=
  loop_prev read ids c p hwf j

/-- MAIN: for any sequence of snapshots and one more snapshot `s`: the run over `snaps ++ [s]` is the run over `snaps`
followed by exactly one update for each distinct resource whose status in `s` differs (status, message, generation,
error, generated statuses — i.e. not ResourceStatusEqual) from the last update emitted for it in the stream so far
(or for which none was emitted yet), in identifier order, and by nothing else. `lastUpd before id` is read off the
emitted stream alone. -/
theorem poll_emits_iff_changed (ids : List Id) (snaps : List (Id → RS)) (s : Id → RS)
    (hwf : SnapsWF ids snaps) (hs : ∀ id ∈ ids, (s id).id = id) :
    runFrom ids ((snaps ++ [s]).map plain) Prev.empty false =
      runFrom ids (snaps.map plain) Prev.empty false ++
      ((dedup ids).filter (fun id => differs (lastUpd (runFrom ids (snaps.map plain) Prev.empty false) id) (s id))).map
        (fun id => Event.update (s id)) := by
  have h := runFrom_plain_append ids snaps [plain s] Prev.empty hwf
  simp only [List.map_append, List.map_cons, List.map_nil]
  rw [h]
  congr 1
  obtain ⟨_, h2, h3, _⟩ := pollLoop_plain s ids (statePlain ids snaps Prev.empty) hs
  have hp := poll_once_events ids (statePlain ids snaps Prev.empty) s hs
  simp only [pollOnce] at hp
  simp only [runFrom, Bool.false_eq_true, if_false, plain_eq, h2, List.append_nil, hp]
  congr 1
  apply List.filter_congr
  intro id _
  rw [statePlain_eq_lastUpd ids snaps Prev.empty hwf id]
  rfl

/-- the iff form, per resource: in the poll of `s` an update for `id` is emitted iff its status differs from the last
update emitted for `id`; every event of that poll is such an update; and it is emitted once, not twice -/
theorem poll_emits_iff_changed_per_resource (ids : List Id) (snaps : List (Id → RS)) (s : Id → RS)
    (hwf : SnapsWF ids snaps) (hs : ∀ id ∈ ids, (s id).id = id) :
    ∃ new, runFrom ids ((snaps ++ [s]).map plain) Prev.empty false =
        runFrom ids (snaps.map plain) Prev.empty false ++ new ∧
      (∀ e ∈ new, ∃ id ∈ ids, e = Event.update (s id)) ∧
      (∀ id ∈ ids, (Event.update (s id) ∈ new ↔
          differs (lastUpd (runFrom ids (snaps.map plain) Prev.empty false) id) (s id) = true)) ∧
      (new.map (fun e => match e with | .update r => r.id | _ => default)).Nodup := by
  refine ⟨_, poll_emits_iff_changed ids snaps s hwf hs, ?_, ?_, ?_⟩
  · intro e he
    simp only [List.mem_map, List.mem_filter] at he
    obtain ⟨id, ⟨hm, _⟩, rfl⟩ := he
    exact ⟨id, (mem_dedup ids id).mp hm, rfl⟩
  · intro id hid
    simp only [List.mem_map, List.mem_filter]
    constructor
    · rintro ⟨id', ⟨hm, hd⟩, he⟩
      have hid' : id' ∈ ids := (mem_dedup ids id').mp hm
      have : id' = id := by
        have := congrArg (fun e => match e with | Event.update r => r.id | _ => default) he
        simp only at this
        rw [hs id' hid', hs id hid] at this; exact this
      subst this; exact hd
    · intro hd; exact ⟨id, ⟨(mem_dedup ids id).mpr hid, hd⟩, rfl⟩
  · rw [List.map_map]
    have : ((dedup ids).filter (fun id => differs (lastUpd (runFrom ids (snaps.map plain) Prev.empty false) id) (s id))).map
        ((fun e => match e with | Event.update r => r.id | _ => default) ∘ fun id => Event.update (s id)) =
        (dedup ids).filter (fun id => differs (lastUpd (runFrom ids (snaps.map plain) Prev.empty false) id) (s id)) := by
      conv => rhs; rw [← List.map_id ((dedup ids).filter _)]
      apply List.map_congr_left
      intro id hid
      simp only [List.mem_filter] at hid
      simp [hs id ((mem_dedup ids id).mp hid.1)]
    rw [this]
    exact (nodup_dedup ids).sublist List.filter_sublist

/-- consequence of the equivalence-relation property: after at least one complete poll, "differs from the last update
emitted" is the same as "differs from what the previous poll saw" — so a resource whose status flips A → B → A is
reported at every flip, and a resource that stays put is never reported again -/
theorem poll_emits_iff_differs_from_previous_snapshot (ids : List Id) (snaps : List (Id → RS)) (t s : Id → RS)
    (hwf : SnapsWF ids (snaps ++ [t])) (id : Id) (hid : id ∈ ids) :
    differs (lastUpd (runFrom ids ((snaps ++ [t]).map plain) Prev.empty false) id) (s id) = !rsEqual (s id) (t id) := by
  have hwf0 : SnapsWF ids snaps := fun u hu => hwf u (List.mem_append_left _ hu)
  have ht : ∀ id ∈ ids, (t id).id = id := hwf t (by simp)
  have hst := statePlain_eq_lastUpd ids (snaps ++ [t]) Prev.empty hwf id
  have hl : lastUpd (runFrom ids ((snaps ++ [t]).map plain) Prev.empty false) id =
      statePlain ids (snaps ++ [t]) Prev.empty id := by rw [hst]; rfl
  rw [hl, statePlain_snoc]
  have h4 := (pollLoop_plain t ids (statePlain ids snaps Prev.empty) ht).2.2.2 id
  simp only [pollOnce]
  rw [h4]
  by_cases hu : isUpdated (statePlain ids snaps Prev.empty) (t id) = true
  · simp [hid, hu, differs]
  · have hu' : isUpdated (statePlain ids snaps Prev.empty) (t id) = false := by simpa using hu
    simp only [hu', Bool.false_eq_true, and_false, if_false]
    rw [isUpdated_eq, ht id hid] at hu'
    cases hp : statePlain ids snaps Prev.empty id with
    | none => rw [hp] at hu'; simp [differs] at hu'
    | some old =>
      rw [hp] at hu'
      simp only [differs, Bool.not_eq_eq_eq_not, Bool.not_false] at hu'
      simp only [differs]
      rw [rsEqual_congr_right (s id) (t id) old hu']

/-- closing on cancellation without an error event: if nothing in the script is a non-context error (the run ends
because the caller cancels, because Sync / ReadStatus return context.Canceled or DeadlineExceeded, or because the
context is cancelled in the middle of a poll), every event sent before the channel closes is a resource update -/
theorem poll_cancel_no_error (ids : List Id) (script : List Poll) (p : Prev) (c : Bool)
    (hsync : ∀ q ∈ script, ∀ e, q.sync = .fail e → e.isCtx = true)
    (hread : ∀ q ∈ script, ∀ id ∈ ids, ∀ e, q.read id = .fail e → e.isCtx = true) :
    ∀ ev ∈ runFrom ids script p c, ev.isUpdate = true := by
  induction script generalizing p c with
  | nil => simp [runFrom]
  | cons q qs ih =>
    have ih' := fun p c => ih p c (fun q' h => hsync q' (List.mem_cons_of_mem _ h))
      (fun q' h => hread q' (List.mem_cons_of_mem _ h))
    simp only [runFrom]
    cases c with
    | true => simp
    | false =>
      simp only [Bool.false_eq_true, if_false]
      cases hq : q.sync with
      | fail e => simp [errEvents, hsync q (List.mem_cons_self ..) e hq]
      | ok c1 =>
        simp only
        cases he : (pollLoop q.read ids c1 p).err with
        | none =>
          simp only [List.mem_append]
          rintro ev (h | h)
          · exact loop_events_updates _ _ _ _ ev h
          · exact ih' _ _ ev h
        | some e =>
          have hctx : e.isCtx = true := by
            rcases loop_err _ _ _ _ e he with h | ⟨id, hm, hr⟩
            · subst h; rfl
            · exact hread q (List.mem_cons_self ..) id hm e hr
          simp only [errEvents, hctx, if_true, List.append_nil]
          exact loop_events_updates _ _ _ _

/-- in particular: cancelling after any number of complete polls yields updates only -/
theorem poll_cancel_after_k_polls_no_error (ids : List Id) (snaps : List (Id → RS)) :
    ∀ ev ∈ runFrom ids (snaps.map plain) Prev.empty false, ev.isUpdate = true := by
  apply poll_cancel_no_error
  · intro q hq e he
    simp only [List.mem_map] at hq
    obtain ⟨s, _, rfl⟩ := hq
    simp [plain] at he
  · intro q hq id _ e he
    simp only [List.mem_map] at hq
    obtain ⟨s, _, rfl⟩ := hq
    simp [plain] at he

/-- for EVERY script: all events but possibly the last are resource updates — so there is at most one error event, and
if there is one it is the last thing sent before the channel is closed -/
theorem poll_at_most_one_error_and_last (ids : List Id) (script : List Poll) (p : Prev) (c : Bool) :
    ∀ ev ∈ (runFrom ids script p c).dropLast, ev.isUpdate = true := by
  have key : ∀ (a b : List Event), (∀ e ∈ a, e.isUpdate = true) → (∀ e ∈ b.dropLast, e.isUpdate = true) →
      ∀ e ∈ (a ++ b).dropLast, e.isUpdate = true := by
    intro a b ha hb e he
    cases b with
    | nil =>
      simp only [List.append_nil] at he
      exact ha e (mem_of_mem_dropLast' _ _ he)
    | cons x xs =>
      rw [List.dropLast_append_of_ne_nil (by simp)] at he
      rcases List.mem_append.mp he with h | h
      · exact ha e h
      · exact hb e h
  induction script generalizing p c with
  | nil => simp [runFrom]
  | cons q qs ih =>
    simp only [runFrom]
    cases c with
    | true => simp
    | false =>
      simp only [Bool.false_eq_true, if_false]
      cases hq : q.sync with
      | fail e => simp only [errEvents]; split <;> simp
      | ok c1 =>
        simp only
        cases he : (pollLoop q.read ids c1 p).err with
        | none => exact key _ _ (loop_events_updates _ _ _ _) (ih _ _)
        | some e =>
          apply key _ _ (loop_events_updates _ _ _ _)
          simp only [errEvents]; split <;> simp

/-- a fatal Sync error at poll k (after k undisturbed polls): the stream is the k polls' updates followed by exactly
one error event, after which the channel is closed — whatever the script says would have happened later -/
theorem poll_fatal_exactly_one_error_then_close (ids : List Id) (snaps : List (Id → RS)) (q : Poll) (rest : List Poll)
    (e : Err) (hwf : SnapsWF ids snaps) (hq : q.sync = .fail e) (hfatal : e.isCtx = false) :
    runFrom ids (snaps.map plain ++ q :: rest) Prev.empty false =
      runFrom ids (snaps.map plain) Prev.empty false ++ [Event.error e.text] ∧
    (∀ ev ∈ runFrom ids (snaps.map plain) Prev.empty false, ev.isUpdate = true) := by
  refine ⟨?_, poll_cancel_after_k_polls_no_error ids snaps⟩
  rw [runFrom_plain_append ids snaps (q :: rest) Prev.empty hwf]
  simp [runFrom, hq, errEvents, hfatal]

/-- a fatal ReadStatus error in the middle of poll k: the updates already sent in that poll stay, then exactly one
error event, then the channel is closed -/
theorem poll_fatal_read_exactly_one_error_then_close (ids : List Id) (snaps : List (Id → RS)) (q : Poll)
    (rest : List Poll) (e : Err) (c1 : Bool) (hwf : SnapsWF ids snaps) (hq : q.sync = .ok c1)
    (herr : (pollLoop q.read ids c1 (statePlain ids snaps Prev.empty)).err = some e) (hfatal : e.isCtx = false) :
    runFrom ids (snaps.map plain ++ q :: rest) Prev.empty false =
      runFrom ids (snaps.map plain) Prev.empty false ++
      (pollLoop q.read ids c1 (statePlain ids snaps Prev.empty)).events ++ [Event.error e.text] ∧
    (∀ ev ∈ runFrom ids (snaps.map plain) Prev.empty false ++
        (pollLoop q.read ids c1 (statePlain ids snaps Prev.empty)).events, ev.isUpdate = true) := by
  constructor
  · rw [runFrom_plain_append ids snaps (q :: rest) Prev.empty hwf]
    simp [runFrom, hq, herr, errEvents, hfatal]
  · intro ev hev
    rcases List.mem_append.mp hev with h | h
    · exact poll_cancel_after_k_polls_no_error ids snaps ev h
    · exact loop_events_updates _ _ _ _ ev h

/-- errors before the first poll (identifier validation, cluster-reader construction): exactly one error event, then
the channel is closed -/
theorem poll_setup_error_exactly_one_error (cfg : Cfg) (script : List Poll)
    (h : validate cfg.scope cfg.ids ≠ none ∨ cfg.factoryErr ≠ none) :
    ∃ t, run cfg script = [Event.error t] := by
  unfold run
  cases hv : validate cfg.scope cfg.ids with
  | some t => exact ⟨t, rfl⟩
  | none =>
    cases hf : cfg.factoryErr with
    | some t => exact ⟨t, rfl⟩
    | none => simp [hv, hf] at h

/-! ### the collector -/

/-- the collector's latest observation for a resource is the last update seen for it in the stream (or the Unknown
placeholder it was created with, if it was asked to track the resource and saw none; or nothing); its error is the
last error event's; its LastEventType is the type of the last event -/
theorem collector_latest_is_last (ids : List Id) (evs : List Event) (id : Id) :
    assocGet (collect ids evs).statuses id =
      (match lastUpd evs id with
       | some rs => some rs
       | none => if id ∈ ids then some (initialRS id) else none) ∧
    (collect ids evs).error = lastErr evs ∧
    (collect ids evs).lastType = ((evs.getLast?).map Event.type).getD .update := by
  refine ⟨?_, ?_, ?_⟩
  · unfold collect
    rw [collect_statuses]
    simp only [Collector.new, assocGet_init, assocGet]
    unfold lastUpd
    generalize hinit : (if id ∈ ids then some (initialRS id) else none) = init
    have gen : ∀ (evs : List Event) (a : Option RS),
        lastUpdFrom a evs id = match lastUpdFrom none evs id with | some rs => some rs | none => a := by
      intro evs
      induction evs with
      | nil => intro a; simp [lastUpdFrom]
      | cons e es ih =>
        intro a
        simp only [lastUpdFrom, List.foldl_cons] at ih ⊢
        rw [ih (updStep id a e), ih (updStep id none e)]
        cases hl : List.foldl (updStep id) none es with
        | some r => simp
        | none =>
          cases e with
          | update rs =>
            simp only [updStep]
            split <;> simp
          | error t => simp [updStep]
          | sync => simp [updStep]
    exact gen evs init
  · unfold collect lastErr
    rw [collect_error]; rfl
  · unfold collect
    rw [collect_lastType]; rfl

/-- the observation lists exactly the tracked statuses (sorted by namespace, group, kind, name) -/
theorem collector_observation_perm (c : Collector) : c.observation.Perm (c.statuses.map (·.2)) := by
  unfold Collector.observation
  exact List.mergeSort_perm _ _

/-! ### pod controllers -/

/-- the "failed rule" of podControllerStatusReader: when the pods could be listed and the controller's own status could
be computed, the result carries the pods as generated resources and the controller's generation; it is the computed
status and message unchanged, except that an InProgress controller with at least one Failed pod is reported Failed
with the number of failed pods in the message -/
theorem pod_controller_failed_rule (id : Id) (gen : Int) (pods : List RS) (s : Status) (msg : String) :
    ∃ r, podController id gen (.ok pods) (.ok s msg) = .ok r ∧
      r.id = id ∧ r.res = some gen ∧ r.err = none ∧ r.generated = pods ∧
      ((s = .inProgress ∧ ∃ pod ∈ pods, pod.status = .failed) →
          r.status = .failed ∧ r.message = failedMessage (pods.filter (fun q => q.status = .failed)).length) ∧
      (¬ (s = .inProgress ∧ ∃ pod ∈ pods, pod.status = .failed) → r.status = s ∧ r.message = msg) := by
  have hex : (∃ pod ∈ pods, pod.status = .failed) ↔ (pods.filter (fun q => q.status = .failed)).length > 0 := by
    rw [gt_iff_lt, List.length_pos_iff_exists_mem]
    simp only [List.mem_filter, decide_eq_true_eq]
  by_cases hc : s = .inProgress ∧ (pods.filter (fun q => q.status = .failed)).length > 0
  · refine ⟨.mk id .failed (failedMessage (pods.filter (fun q => q.status = .failed)).length) (some gen) none pods,
      ?_, rfl, rfl, rfl, rfl, ?_, ?_⟩
    · simp [podController, hc]
    · intro _; exact ⟨rfl, rfl⟩
    · intro hn; exact absurd ⟨hc.1, hex.mpr hc.2⟩ hn
  · refine ⟨.mk id s msg (some gen) none pods, ?_, rfl, rfl, rfl, rfl, ?_, ?_⟩
    · simp only [podController]
      rw [if_neg hc]
    · intro hh; exact absurd ⟨hh.1, hex.mp hh.2⟩ hc
    · intro _; exact ⟨rfl, rfl⟩

/-- error handling of the pod-controller reader: context errors are returned to the engine (which swallows them and
closes); NotFound becomes a NotFound status without resource; anything else becomes Unknown with the error attached,
and the pods are attached only when they had been listed successfully -/
theorem pod_controller_errors (id : Id) (gen : Int) (e : Err) (pods : List RS) (c : Compute) :
    (e.kind = .ctx → podController id gen (.fail e) c = .error e ∧ podController id gen (.ok pods) (.fail e) = .error e) ∧
    (e.kind = .notFound →
      podController id gen (.fail e) c = .ok (.mk id .notFound "Resource not found" none none []) ∧
      podController id gen (.ok pods) (.fail e) = .ok (.mk id .notFound "Resource not found" none none [])) ∧
    (e.kind = .other →
      podController id gen (.fail e) c = .ok (.mk id .unknown "" (some gen) (some e.text) []) ∧
      podController id gen (.ok pods) (.fail e) = .ok (.mk id .unknown "" (some gen) (some e.text) pods)) := by
  refine ⟨?_, ?_, ?_⟩ <;> intro h <;> simp [podController, errResource, h]

/-- how a reader turns failures into what the engine sees (errIdentifierToResourceStatus / errResourceToResourceStatus
behind the generic reader): a context error is returned to the engine (which closes without an error event, see
`poll_cancel_no_error`); NotFound becomes a NotFound status without resource or error; any other failure becomes an
Unknown status carrying the error text — with the resource's generation only if the resource had been fetched -/
theorem reader_error_statuses (id : Id) (e : Err) (gen : Int) (c : Except Err (Status × String)) :
    (e.kind = .ctx → genericRead id none (.error e) c = .error e ∧ genericRead id none (.ok gen) (.error e) = .error e) ∧
    (e.kind = .notFound →
      genericRead id none (.error e) c = .ok (.mk id .notFound "Resource not found" none none []) ∧
      genericRead id none (.ok gen) (.error e) = .ok (.mk id .notFound "Resource not found" none none [])) ∧
    (e.kind = .other →
      genericRead id (some e) (.ok gen) c = .ok (.mk id .unknown "" none (some e.text) []) ∧
      genericRead id none (.error e) c = .ok (.mk id .unknown "" none (some e.text) []) ∧
      genericRead id none (.ok gen) (.error e) = .ok (.mk id .unknown "" (some gen) (some e.text) [])) := by
  refine ⟨?_, ?_, ?_⟩ <;> intro h <;> simp [genericRead, errIdentifier, errResource, h]

/-! ### non-vacuity -/

private def idA : Id := { ns := "ns", name := "a", group := "apps", kind := "Deployment" }
private def idB : Id := { ns := "ns", name := "b", group := "", kind := "Pod" }
private def rsA (s : Status) (m : String) : RS := .mk idA s m (some 1) none [.mk idB .current "" (some 1) none []]
private def rsB (s : Status) : RS := .mk idB s "" none none []
private def snap (sa : Status) (m : String) (sb : Status) : Id → RS := fun id => if id = idA then rsA sa m else rsB sb

/-- the hypotheses `SnapsWF` / `∀ id ∈ ids, (s id).id = id` are satisfiable by a non-trivial instance -/
example : SnapsWF [idA, idB] [snap .inProgress "x" .current, snap .current "y" .current] := by
  intro t ht id hid
  simp only [List.mem_cons, List.not_mem_nil, or_false] at ht hid
  rcases ht with rfl | rfl <;> rcases hid with rfl | rfl <;> decide

private def evStatus : Event → Option (String × Status)
  | .update r => some (r.id.name, r.status)
  | _ => none

/-- three polls: everything on the first, only the changed resource on the second, nothing on the third -/
example : (runFrom [idA, idB] ([snap .inProgress "x" .current, snap .current "y" .current, snap .current "y" .current].map plain)
    Prev.empty false).map evStatus =
    [some ("a", .inProgress), some ("b", .current), some ("a", .current)] := by decide

/-- a fatal Sync error after one poll: the poll's updates, one error, end -/
example : (runFrom [idA] [plain (snap .current "" .current), { sync := .fail ⟨.other, "boom"⟩, read := fun _ => default },
    plain (snap .failed "" .current)] Prev.empty false).map Event.isError = [false, true] := by decide

/-- the same with a context error: no error event -/
example : (runFrom [idA] [plain (snap .current "" .current), { sync := .fail ⟨.ctx, "canceled"⟩, read := fun _ => default },
    plain (snap .failed "" .current)] Prev.empty false).map Event.isError = [false] := by decide

example : aggregateS [.current, .unknown, .failed] .current = .failed ∧ aggregateS [.current, .unknown] .current = .unknown
    ∧ aggregateS [.current, .current] .current = .current ∧ aggregateS [.current, .notFound] .current = .inProgress
    ∧ aggregateS [.notFound, .notFound] .notFound = .notFound ∧ aggregateS [] .terminating = .terminating := by decide

example : rsEqual (rsA .current "m") (.mk idA .current "m" (some 1) none [.mk idB .failed "" (some 1) none []]) = false
    ∧ rsEqual (.mk idA .current "m" none none []) (.mk idA .current "m" (some 0) none []) = true
    ∧ rsEqual (.mk idA .unknown "" none (some "e1") []) (.mk idA .unknown "" none (some "e2") []) = false := by decide

example : (podController idA 3 (.ok [rsB .current, rsB .failed, rsB .failed]) (.ok .inProgress "rolling")).toOption.map
    (fun r => (r.status, r.message)) = some (.failed, "2 pods have failed") := by decide

end CliUtils.Props.C17
