import CliUtils.Model.Sys
import CliUtils.Lemmas.SysL
import CliUtils.Props.C06
import CliUtils.Props.C01
import CliUtils.Props.C13
/-
  C12 — timeouts bound waiting; cancellation stops the run, never shrinks the inventory.

  Order and bookkeeping are proved on the model; that Go's context.WithTimeout does not fire early, and "within bounded
  time", are runtime facts observed by the harness only (a Timeout event is compared present/absent, never a duration).
-/
namespace CliUtils.Props.C12
open CliUtils CliUtils.Sys

/-- when the deadline of a wait phase fires, Timeout is reported for exactly the objects still pending, in order, and they
are recorded as reconcile-timeout (C06) -/
theorem timeout_exactly_pending (w : Wait.WState Id) :
    (Wait.timeout w).events = w.events ++ w.pending.map (fun id => (id, Wait.WEv.timeout)) ∧ (Wait.timeout w).cancelled = true :=
  CliUtils.Props.C06.timeout_exactly_pending w

/-- **cancel_no_new_phase**: once the caller's context is cancelled (or the watcher failed, or a task reported an error) during a
task, that task is finished — its Finished event is emitted — and the run ends with exactly one error event; no later task
(in particular not the final inventory replace) is started -/
theorem cancel_no_new_phase (pruneObjs : List Live) (localNs : List String) (s : St) (t : Task) (ts : List Task)
    (h : (runTask (s.emit (.group t.name (t.action s.run.destroy) "Started")) t pruneObjs localNs).2.isSome ∨
         (runTask (s.emit (.group t.name (t.action s.run.destroy) "Started")) t pruneObjs localNs).1.watcherFailed = true ∨
         (runTask (s.emit (.group t.name (t.action s.run.destroy) "Started")) t pruneObjs localNs).1.cancelled = true) :
    ∃ k, runTasks pruneObjs localNs s (t :: ts) =
      ((runTask (s.emit (.group t.name (t.action s.run.destroy) "Started")) t pruneObjs localNs).1.emit
        (.group t.name (t.action s.run.destroy) "Finished")).emit (.error k) :=
  CliUtils.Props.C01.abort_stops pruneObjs localNs s t ts h

/-- **single_error_last**: a run emits at most one error event, and only as its last event -/
theorem single_error_last (pruneObjs : List Live) (localNs : List String) (ts : List Task) (s : St)
    (h : CliUtils.Props.C13.NoError s.events) :
    CliUtils.Props.C13.NoError (runTasks pruneObjs localNs s ts).events ∨
    ∃ k rest, (runTasks pruneObjs localNs s ts).events = .error k :: rest ∧ CliUtils.Props.C13.NoError rest :=
  CliUtils.Props.C13.runTasks_error_last pruneObjs localNs ts s h

/-- a cancelled wait phase reports no Timeout: cancellation only marks the phase as ending -/
theorem cancel_emits_nothing (w : Wait.WState Id) : (Wait.cancel w).events = w.events ∧ (Wait.cancel w).mgr = w.mgr :=
  ⟨rfl, rfl⟩

/-- **cancel_keeps_inventory**: cancelling a wait phase, and every apply / prune step, leave the stored inventory exactly as the
merge wrote it (a superset of everything live and managed: `C01.merge_superset`); only the final inventory task — never
reached after an abort (`cancel_no_new_phase`) — may shrink it -/
theorem cancel_keeps_inventory (group : String) (uids localNs : List String) (s : St) (live : Live) (id : Id) :
    (pruneOne group uids localNs s live).cl.inv = s.cl.inv ∧ (applyOne group s id).cl.inv = s.cl.inv :=
  ⟨CliUtils.Props.C01.pruneOne_keeps_inv group uids localNs s live, CliUtils.Props.C01.applyOne_keeps_inv group s id⟩

/-- **cancelled_run_ends_with_the_context_error**: if the caller's context was cancelled by the time a task ends (and the task
itself returned no error), the one error event that ends the run is the CONTEXT error — also when the status watcher has
reported a fatal error during the same task, before or after the cancellation (the runner ignores the watcher once it is
aborting, and a later cancellation replaces the watcher's reason) -/
theorem cancelled_run_ends_with_the_context_error (pruneObjs : List Live) (localNs : List String) (s : St) (t : Task) (ts : List Task)
    (hok : (runTask (s.emit (.group t.name (t.action s.run.destroy) "Started")) t pruneObjs localNs).2 = none)
    (hc : (runTask (s.emit (.group t.name (t.action s.run.destroy) "Started")) t pruneObjs localNs).1.cancelled = true) :
    runTasks pruneObjs localNs s (t :: ts) =
      ((runTask (s.emit (.group t.name (t.action s.run.destroy) "Started")) t pruneObjs localNs).1.emit
        (.group t.name (t.action s.run.destroy) "Finished")).emit (.error "canceled") := by
  unfold runTasks
  simp only []
  generalize runTask (s.emit (.group t.name (t.action s.run.destroy) "Started")) t pruneObjs localNs = r at hok hc ⊢
  rw [hok]
  simp [St.emit, hc]

/-- a mutating request that is in flight when the watcher fails does not record the failure if the context has been cancelled
by then (cancellation scheduled at an earlier request, or at this very one): the runner is already aborting -/
theorem watcher_error_ignored_after_cancel (s : St) (verb : String) (id : Id) (dry : Bool) (precond prop : String)
    (effect : Cluster → Cluster × String) (hc : s.cancelled = true) :
    (s.mutReq verb id dry precond prop effect).1.watcherFailed = s.watcherFailed ∧
    (s.mutReq verb id dry precond prop effect).1.cancelled = true := by
  unfold St.mutReq
  simp only []
  split <;> simp [hc]

/-- non-vacuity: a run whose cancellation and watcher error are scheduled at the same request ends with "canceled" -/
example :
    let run : Run := { destroy := false, objs := [{ id := ⟨"ns1", "a", "", "ConfigMap"⟩ }], opts := {},
                       cancel := .mut 1, watchErrMut := some 1 }
    (runOne { objs := [{ id := ⟨"", "ns1", "", "Namespace"⟩, uid := "u", gen := 1, owner := "" }] } run).events.head? = some (.error "canceled") := by
  decide

end CliUtils.Props.C12
