import CliUtils.Model.Funnel
import CliUtils.Model.Reporter
import CliUtils.Lemmas.FunnelL
import CliUtils.Lemmas.ReporterL
import CliUtils.Lemmas.ListL
/-
  C16 — Status watcher reports every change of watched objects only; stops cleanly.
  Property theorems only; helper lemmas live in `Lemmas/FunnelL.lean` and `Lemmas/ReporterL.lean`.

  Part 1: the event multiplexer (event_funnel.go) under every interleaving of its goroutines with the context owner,
          the owners of the input channels and the consumer.
  Part 2: the sequential decision logic of ObjectStatusReporter (filter, handler output, start/stop table,
          watch-error classes, fatal-error transition with the repaired once-guard).
  Data races, goroutine leaks and deadlocks of the Go runtime itself are outside the model: the harness observes them.
-/
namespace CliUtils.Props.C16
open CliUtils CliUtils.Funnel

/-! ## Part 1 — funnel -/

/-- In every reachable state the goroutine's counter equals the number of producers that are draining or waiting to
decrement; the output is closed only if that number is zero and the context was seen. -/
theorem funnel_counter_inv (n : Nat) (s : St) (h : Reach n s) :
    s.counter = (nActive s.prods : Int) ∧ (s.closed = true → s.ctxSeen = true ∧ nActive s.prods = 0) :=
  ⟨(reach_inv h).1, (reach_inv h).2.1⟩

/-- Panic-freedom: no enabled step of a reachable state sends on, or closes again, the closed output channel. -/
theorem funnel_no_send_on_closed (n : Nat) (s s' : St) (a : Act) (h : Reach n s) (hs : step s a = some s') :
    panics s a = false := by
  obtain ⟨_, h2, _⟩ := reach_inv h
  cases a with
  | deliver i =>
    simp only [panics]
    cases hc : s.closed with
    | false => rfl
    | true =>
      simp only [step] at hs
      split at hs
      · rename_i e q c hp
        have := nActive_pos_of s.prods i _ hp rfl
        have := (h2 hc).2
        omega
      · cases hs
  | closeOut =>
    simp only [panics]
    simp only [step] at hs
    split at hs
    · rename_i hc
      simp only [Bool.and_eq_true, Bool.not_eq_true'] at hc
      exact hc.2
    · cases hs
  | _ => rfl

/-- Once the output is closed no drain goroutine is alive (none can ever send, none is left behind). -/
theorem funnel_no_goroutine_after_close (n : Nat) (s : St) (h : Reach n s) (hc : s.closed = true)
    (i : Nat) (p : Phase) (hp : s.prods[i]? = some p) : active p = false := by
  obtain ⟨_, h2, _⟩ := reach_inv h
  cases ha : active p with
  | false => rfl
  | true =>
    have := nActive_pos_of s.prods i p hp ha
    have := (h2 hc).2
    omega

/-- Leak-freedom at protocol level: a producer waiting to decrement can always complete — the funnel goroutine is
still in its select (it has not exited and is not about to). -/
theorem funnel_no_stuck_decrement (n : Nat) (s : St) (h : Reach n s) (i : Nat)
    (hp : s.prods[i]? = some .decrementing) : (step s (.dec i)).isSome = true := by
  obtain ⟨h1, h2, _⟩ := reach_inv h
  have hpos := nActive_pos_of s.prods i _ hp rfl
  have hcl : s.closed = false := by
    cases hc : s.closed with
    | false => rfl
    | true => have := (h2 hc).2; omega
  have hr : ready s = true := by
    simp only [ready, exiting, hcl, Bool.not_false, Bool.true_and, Bool.not_eq_true', Bool.and_eq_false_iff,
      decide_eq_false_iff_not]
    right; omega
  simp [step, hp, hr]

/-- Likewise a call of AddInputChannel never blocks for ever: accept or reject is enabled unless the context is
still open and the funnel goroutine is ready (then accept is enabled). -/
theorem funnel_add_never_stuck (n : Nat) (s : St) (h : Reach n s) (i : Nat)
    (hp : s.prods[i]? = some .adding) : (step s (.add i)).isSome = true ∨ (step s (.reject i)).isSome = true := by
  obtain ⟨h1, h2, h3⟩ := reach_inv h
  cases hd : s.ctxDone with
  | true => right; simp [step, hp, hd]
  | false =>
    left
    have hseen : s.ctxSeen = false := by
      cases hs : s.ctxSeen with
      | false => rfl
      | true => rw [h3 hs] at hd; cases hd
    have hcl : s.closed = false := by
      cases hc : s.closed with
      | false => rfl
      | true => rw [(h2 hc).1] at hseen; cases hseen
    simp [step, hp, ready, exiting, hcl, hseen]

/-- Per producer: what was delivered, followed by what is still queued, is exactly what the owner committed, in
order — no loss, no duplication, no reordering, at every reachable state. -/
theorem funnel_delivers_each_once_in_order (n : Nat) (s : St) (h : Reach n s) (j : Nat) :
    proj j s.out ++ qAt s.prods j = proj j s.sent :=
  reach_fifo h j

/-- … and when the output has been closed, everything committed has been delivered. -/
theorem funnel_delivered_all_at_close (n : Nat) (s : St) (h : Reach n s) (hc : s.closed = true) (j : Nat) :
    proj j s.out = proj j s.sent := by
  have hf := reach_fifo h j
  have hq : qAt s.prods j = [] := by
    unfold qAt
    cases hp : s.prods[j]? with
    | none => rfl
    | some p =>
      have := funnel_no_goroutine_after_close n s h hc j p hp
      cases p <;> simp [active] at this <;> rfl
  rw [hq] at hf
  simpa using hf

/-- The output is closed only after the context is done and every accepted input has been closed and drained and its
drain goroutine has finished. -/
theorem funnel_closes_only_after (n : Nat) (s : St) (h : Reach n s) (hc : s.closed = true) :
    s.ctxDone = true ∧ ∀ (i : Nat) (p : Phase), s.prods[i]? = some p → accepted p = true → p = .done := by
  obtain ⟨_, h2, h3⟩ := reach_inv h
  refine ⟨h3 (h2 hc).1, ?_⟩
  intro i p hp hacc
  have := funnel_no_goroutine_after_close n s h hc i p hp
  cases p <;> simp [active, accepted] at this hacc ⊢

/-- Termination under every schedule, part 1: every step of the funnel's own goroutines lowers the measure, so from
any state at most `measure s` such steps can be taken without new environment steps. -/
theorem funnel_terminates (s s' : St) (as : List Act) (hint : ∀ a ∈ as, a.internal = true)
    (hr : run s as = some s') : as.length + measure s' ≤ measure s := by
  induction as generalizing s with
  | nil => simp only [run, Option.some.injEq] at hr; subst hr; simp
  | cons a as ih =>
    simp only [run] at hr
    cases hs : step s a with
    | none => simp [hs] at hr
    | some s1 =>
      simp only [hs] at hr
      have h1 := internal_step_measure s s1 a (hint a List.mem_cons_self) hs
      have h2 := ih s1 (fun b hb => hint b (List.mem_cons_of_mem _ hb)) hr
      simp only [List.length_cons]; omega

/-- Termination, part 2 (no deadlock short of the goal): once the context is done and no accepted input is still
open, a reachable state in which none of the funnel's own steps is enabled has its output closed. -/
theorem funnel_quiescent_is_closed (n : Nat) (s : St) (h : Reach n s) (hd : s.ctxDone = true)
    (hin : ∀ (i : Nat) (q : List Nat), s.prods[i]? ≠ some (Phase.draining q false))
    (hstuck : ∀ a, a.internal = true → step s a = none) : s.closed = true := by
  obtain ⟨h1, h2, h3⟩ := reach_inv h
  cases hc : s.closed with
  | true => rfl
  | false =>
    exfalso
    by_cases hall : ∀ p ∈ s.prods, settled p = true
    · have hz : nActive s.prods = 0 := by
        apply nActive_zero_of_all
        intro p hp
        have := hall p hp
        cases p <;> simp [settled] at this <;> rfl
      cases hs : s.ctxSeen with
      | false =>
        have := hstuck .seeCtx rfl
        simp [step, hd, hs, ready, exiting, hc] at this
      | true =>
        have := hstuck .closeOut rfl
        have hcz : s.counter ≤ 0 := by omega
        simp [step, exiting, hs, hc, hcz] at this
    · obtain ⟨i, p, hp, hns⟩ := exists_unsettled s.prods hall
      cases p with
      | idle => simp [settled] at hns
      | done => simp [settled] at hns
      | rejected => simp [settled] at hns
      | adding =>
        have := hstuck (.reject i) rfl
        simp [step, hp, hd] at this
      | decrementing =>
        have := funnel_no_stuck_decrement n s h i hp
        rw [hstuck (.dec i) rfl] at this
        cases this
      | draining q c =>
        cases c with
        | false => exact hin i q hp
        | true =>
          cases q with
          | nil =>
            have := hstuck (.startDec i) rfl
            simp [step, hp] at this
          | cons e q =>
            have := hstuck (.deliver i) rfl
            simp [step, hp] at this

/-! ### the trace checker used by the correspondence run -/

/-- Every history accepted by the checker is a trace of the transition system (so every theorem above applies to
every accepted history of the real funnel). -/
theorem accepts_sound (n : Nat) (h : List Obs) (hacc : accepts n h = true) :
    ∃ s', Tr (init n) h s' ∧ Reach n s' := by
  obtain ⟨s', t⟩ := accepts_tr n h hacc
  exact ⟨s', t, tr_reach t Reach.init⟩

/-- An accepted history that saw the output closed delivered, for every producer, exactly the events committed to
that input, in order. -/
theorem accepted_history_fifo (n : Nat) (h : List Obs) (hacc : accepts n h = true) (hcl : Obs.outClosed ∈ h) (j : Nat) :
    proj j (outsOf h) = proj j (sendsOf h) := by
  obtain ⟨s', t, hr⟩ := accepts_sound n h hacc
  have hc := tr_closed_of_obs t hcl
  obtain ⟨ho, hs⟩ := tr_out_sent t
  have := funnel_delivered_all_at_close n s' hr hc j
  simpa [ho, hs, init] using this

/-- In an accepted history the closing of the output is preceded by the cancellation. -/
theorem accepted_history_closed_after_cancel (n : Nat) (h1 h2 : List Obs)
    (hacc : accepts n (h1 ++ Obs.outClosed :: h2) = true) : Obs.cancel ∈ h1 := by
  obtain ⟨s'', t, _⟩ := accepts_sound n _ hacc
  obtain ⟨s', t1, t2⟩ := tr_split t h1 (Obs.outClosed :: h2) rfl
  obtain ⟨s1, s2, tt, ho, _⟩ := tr_head t2 Obs.outClosed h2 rfl
  have hr1 : Reach n s1 := tr_reach tt (tr_reach t1 Reach.init)
  simp only [obsStep] at ho
  split at ho
  · rename_i hc
    obtain ⟨_, k2, k3⟩ := reach_inv hr1
    have hd1 : s1.ctxDone = true := k3 (k2 hc).1
    have hd' : s'.ctxDone = true := tr_tau_ctxDone tt rfl hd1
    rcases tr_ctxDone t1 hd' with hh | hh
    · simp [init] at hh
    · exact hh
  · cases ho

/-! ### last event per object survives the interleaving -/

/-- If all events about some object (those satisfying `pred`) are committed to one input `i` — one informer per
target, each object belongs to one target — then after the close the consumer's last event about that object is the
last one the informer produced. -/
theorem funnel_last_event_preserved (n : Nat) (s : St) (h : Reach n s) (hc : s.closed = true) (i : Nat)
    (pred : Nat → Bool) (hone : ∀ x ∈ s.sent, pred x.2 = true → x.1 = i) :
    lastMatching pred (s.out.map (·.2)) = lastMatching pred (s.sent.map (·.2)) := by
  have hall := funnel_delivered_all_at_close n s h hc
  have hsub : ∀ x ∈ s.out, x ∈ s.sent := by
    intro x hx
    have : x.2 ∈ proj x.1 s.out := by
      unfold proj
      rw [List.mem_map]
      exact ⟨x, List.mem_filter.mpr ⟨hx, by simp⟩, rfl⟩
    rw [hall x.1] at this
    unfold proj at this
    rw [List.mem_map] at this
    obtain ⟨y, hy, hy2⟩ := this
    rw [List.mem_filter] at hy
    have : y = x := by
      cases x; cases y
      simp only [beq_iff_eq] at hy
      simp only at hy2
      simp [hy.2, hy2]
    rw [← this]; exact hy.1
  have key : ∀ l : List (Nat × Nat), (∀ x ∈ l, pred x.2 = true → x.1 = i) →
      (l.map (·.2)).filter pred = (proj i l).filter pred := by
    intro l hl
    induction l with
    | nil => rfl
    | cons x xs ih =>
      have ih' := ih (fun y hy => hl y (List.mem_cons_of_mem _ hy))
      by_cases hp : pred x.2 = true
      · have hx := hl x List.mem_cons_self hp
        simp [proj, hp, hx] at ih' ⊢
        exact ih'
      · by_cases hx : x.1 = i
        · simp [proj, hp, hx] at ih' ⊢
          exact ih'
        · simp [proj, hp, hx] at ih' ⊢
          exact ih'
  unfold lastMatching
  rw [key s.out (fun x hx => hone x (hsub x hx)), key s.sent hone, hall i]

/-! ### non-vacuity: concrete runs -/

/-- two producers, interleaved deliveries, cancel in the middle, a third producer rejected: the run exists, ends
closed, and delivered everything in per-producer order -/
def demoActs : List Act :=
  [.addCall 0, .add 0, .addCall 1, .add 1, .send 0 10, .send 1 20, .deliver 1, .send 0 11, .cancel, .seeCtx,
   .addCall 2, .reject 2, .deliver 0, .closeIn 0, .deliver 0, .startDec 0, .dec 0, .send 1 21, .closeIn 1, .deliver 1,
   .startDec 1, .dec 1, .closeOut]

example : (run (init 3) demoActs).map (fun s => (s.closed, s.out, s.counter)) =
    some (true, [(1, 20), (0, 10), (0, 11), (1, 21)], 0) := by decide

example : accepts 2 [.addCall 0, .addOk 0, .send 0 7, .cancel, .addCall 1, .addRej 1, .out 0 7, .closeIn 0, .outClosed] = true := by
  decide

/-- closing the output while an accepted input is still open is not a trace -/
example : accepts 1 [.addCall 0, .addOk 0, .cancel, .outClosed] = false := by decide

/-- delivering out of order is not a trace -/
example : accepts 1 [.addCall 0, .addOk 0, .send 0 1, .send 0 2, .out 0 2] = false := by decide

/-! ## Part 2 — reporter (sequential decision logic) -/

open CliUtils.Reporter in
/-- Events only for watched objects: every update event a run emits, for any sequence of notifications, watch errors,
namespace/CRD changes and re-reads, is about an id in the allow list. -/
theorem filter_only_watched (c : Cfg) (ins : List In) (id : Id) (st : Status)
    (h : Ev.update id st ∈ (Reporter.run c {} ins).events) : id ∈ c.allow := by
  have := run_filtInv c ins {} ⟨(by intro _ _ hm; simp at hm), (by intro _ hm; simp at hm)⟩
  exact this.1 id st h

open CliUtils.Reporter in
/-- Repaired behaviour (once-guard in handleFatalError): whatever fails and however often — Forbidden LISTs on several
informers, status-reader errors, failed re-reads, failed informer starts — at most one error event is emitted, and
once it is emitted the reporter has been stopped. -/
theorem at_most_one_error (c : Cfg) (hg : c.onceGuard = true) (ins : List In) :
    nErrors (Reporter.run c {} ins).events ≤ 1 ∧
    (0 < nErrors (Reporter.run c {} ins).events → (Reporter.run c {} ins).stopped = true) := by
  have := run_errInv c hg ins {} ⟨Or.inl rfl, by intro h; cases h⟩
  refine ⟨?_, this.2⟩
  rcases this.1 with h | ⟨h, _⟩ <;> omega

open CliUtils.Reporter in
/-- The pinned code has no guard: two informers whose LIST is Forbidden give two error events (the negation witness of
`at_most_one_error` without its hypothesis; reproduced on the real watcher by domain `watcher-fatal`). -/
theorem pinned_code_reports_every_fatal_error :
    ∃ (c : Cfg) (ins : List In), c.onceGuard = false ∧ nErrors (Reporter.run c {} ins).events = 2 :=
  ⟨⟨.root, [⟨"", "Pod", ""⟩, ⟨"apps", "Deployment", ""⟩], [], false⟩,
   [.start, .watchErr ⟨"", "Pod", ""⟩ .forbidden, .watchErr ⟨"apps", "Deployment", ""⟩ .forbidden], rfl, by decide⟩

open CliUtils.Reporter in
/-- At most one sync event. -/
theorem at_most_one_sync (c : Cfg) (ins : List In) : nSyncs (Reporter.run c {} ins).events ≤ 1 := by
  rcases run_syncInv c ins {} (Or.inl rfl) with h | ⟨h, _⟩ <;> omega

open CliUtils.Reporter in
/-- Start/stop bookkeeping: after any run, a target's informer is started iff it is a target and the last request
that addressed it — Start, a Namespace add/update/delete (namespace scope only), a CRD add/update/delete for its
GroupKind, a NotFound watch error for its GroupKind, a NoMatch at start — was a start request. -/
theorem ns_crd_start_stop (c : Cfg) (ins : List In) (t : Gkn) :
    t ∈ (Reporter.run c {} ins).started ↔
      (lastRel t (Reporter.run c {} ins).ops = some true ∧ t ∈ c.targets) := by
  have hb : Book c (Reporter.run c {} ins) := run_book c ins {} rfl
  rw [hb]
  exact mem_replay c.targets t _

open CliUtils.Reporter in
/-- Which requests a Namespace / CRD notification issues, by REST scope: none in root scope for namespaces; in
namespace scope add and update start, delete stops, the informers of that namespace; CRDs (with group and kind
present) start / stop the informers of their GroupKind in both scopes; other objects issue none. -/
theorem ns_crd_requests (c : Cfg) (k : WKind) (o : Obj) :
    nsCrdOps c k o =
      if isNamespace o.id then
        (if c.scope = .root then [] else [if k = .delete then .stopNs o.id.name else .startNs o.id.name])
      else if isCRD o.id then
        (match o.crdGk with
         | none => []
         | some (g, kd) => [if k = .delete then .stopGk g kd else .startGk g kd])
      else [] := by
  unfold nsCrdOps
  cases hs : c.scope <;> simp <;> rfl

open CliUtils.Reporter in
/-- Watch errors: Forbidden is the only fatal class, NotFound the only one that stops informers (silently, for the
whole GroupKind); every other class — EOF, unexpected EOF, context done, expired, gone, anything else — is retried. -/
theorem watch_error_classes (e : WErr) :
    (watchErrAction e = .fatal ↔ e = .forbidden) ∧ (watchErrAction e = .stopGroupKind ↔ e = .notFound) ∧
    (watchErrAction e = .retry ↔ (e ≠ .forbidden ∧ e ≠ .notFound)) := by
  cases e <;> simp [watchErrAction]

open CliUtils.Reporter in
/-- NotFound stops exactly the started informers of that GroupKind and emits nothing. -/
theorem notFound_stops_group_kind (c : Cfg) (s : RState) (t u : Gkn) :
    (Reporter.step c s (.watchErr t .notFound)).events = s.events ∧
    (u ∈ (Reporter.step c s (.watchErr t .notFound)).started ↔ (u ∈ s.started ∧ ¬ (u.group = t.group ∧ u.kind = t.kind))) := by
  refine ⟨rfl, ?_⟩
  show u ∈ applyOp c.targets s.started (.stopGk t.group t.kind) ↔ _
  rw [mem_applyOp]
  simp [BOp.isStart, BOp.sel]

open CliUtils.Reporter in
/-- Handler output and "last event reflects the final state": if a notification about object `o` is processed (the
reporter is running, its informer is started, the object is watched, its status could be computed) and no later
input concerns that object, then after the run the last update event for the object carries the status of exactly
that version — NotFound if it was a delete. Together with `funnel_last_event_preserved` (per-input FIFO) this is
what the consumer of the watcher's channel sees last. -/
theorem last_event_reflects_final_state (c : Cfg) (s : RState) (pre post : List In) (src : Gkn) (k : WKind) (o : Obj)
    (st : Status) (hrun : (Reporter.run c s pre).stopped = false) (hsrc : src ∈ (Reporter.run c s pre).started)
    (hallow : o.id ∈ c.allow) (hst : expectedStatus k o = some st)
    (hpost : ∀ i ∈ post, touches o.id i = false) :
    lastFor o.id (Reporter.run c s (pre ++ [.watch src k o] ++ post)).events = some st := by
  rw [run_append, run_append, run_lastFor_untouched c post _ o.id hpost]
  generalize Reporter.run c s pre = s1 at hrun hsrc
  show lastFor o.id (Reporter.step c s1 (.watch src k o)).events = some st
  have hc1 : (s1.stopped || !(s1.started.contains src)) = false := by simp [hrun, hsrc]
  have hc2 : (!(c.allow.contains o.id)) = false := by simp [hallow]
  obtain ⟨h1, _⟩ := foldl_doOp_fields c (nsCrdOps c k o) s1
  simp only [Reporter.step, hc1, hc2, Bool.false_eq_true, if_false]
  unfold expectedStatus at hst
  cases k with
  | delete =>
    simp only [if_true, Option.some.injEq] at hst
    simp only [emit, lastFor_append, if_true, hst]
  | add =>
    simp only [reduceCtorEq, if_false] at hst
    simp only [hst]
    by_cases hu : o.unschedulable = true <;> simp [emit, hu, lastFor_append]
  | update =>
    simp only [reduceCtorEq, if_false] at hst
    simp only [hst]
    by_cases hu : o.unschedulable = true <;> simp [emit, hu, lastFor_append]

open CliUtils.Reporter in
/-- The event identifier is the object's own id and generated resources only matter through the pod-controller
rule: an InProgress controller with a Failed generated pod is reported Failed; nothing else changes the status. -/
theorem generated_resources_rule (own : Status) (anyFailed : Bool) :
    readerStatus own anyFailed = (if own = .inProgress ∧ anyFailed = true then .failed else own) ∧
    (own ≠ .inProgress → readerStatus own anyFailed = own) ∧ readerStatus own false = own := by
  refine ⟨rfl, ?_, ?_⟩
  · intro h; simp [readerStatus, h]
  · simp [readerStatus]

open CliUtils.Reporter in
/-- Target selection: root scope watches each GroupKind once cluster-wide, namespace scope each
(GroupKind, namespace) pair once; the automatic strategy picks root iff the ids span more than one namespace. -/
theorem targets_cover_ids (sc : Scope) (ids : List Id) (i : Id) (h : i ∈ ids) :
    (⟨i.group, i.kind, if sc = .root then "" else i.ns⟩ : Gkn) ∈ targetsOf sc ids ∧ (targetsOf sc ids).Nodup := by
  cases sc with
  | root =>
    refine ⟨?_, nodup_dedup _⟩
    simp only [targetsOf, if_true, mem_dedup, List.mem_map]
    exact ⟨i, h, rfl⟩
  | perNs =>
    refine ⟨?_, nodup_dedup _⟩
    simp only [targetsOf, reduceCtorEq, if_false, mem_dedup, List.mem_map]
    exact ⟨i, h, rfl⟩

/-! ### non-vacuity: a concrete reporter run -/

namespace Demo
open CliUtils.Reporter

def podA : Id := ⟨"ns1", "a", "", "Pod"⟩
def podZ : Id := ⟨"ns1", "z", "", "Pod"⟩
def nsObj : Id := ⟨"", "ns1", "", "Namespace"⟩
def tPod : Gkn := ⟨"", "Pod", "ns1"⟩
def tNs : Gkn := ⟨"", "Namespace", ""⟩
def cfg (g : Bool) : Cfg := ⟨.perNs, [tPod, tNs], [podA, nsObj], g⟩

def ins : List In :=
  [.start, .synced,
   .watch tPod .add ⟨podA, some .inProgress, none, false⟩,
   .watch tPod .add ⟨podZ, some .current, none, false⟩,          -- unwatched: filtered
   .watch tPod .update ⟨podA, some .current, none, false⟩,
   .watch tPod .delete ⟨podA, none, none, false⟩,
   .watch tNs .delete ⟨nsObj, none, none, false⟩,                -- stops the Pod/ns1 informer
   .watch tPod .add ⟨podA, some .failed, none, false⟩,           -- from a stopped informer: dropped
   .watch tNs .add ⟨nsObj, some .current, none, false⟩,          -- restarts it
   .watchErr tPod .forbidden, .watchErr tNs .forbidden]          -- two fatal errors

example : (Reporter.run (cfg true) {} ins).events =
    [.sync, .update podA .inProgress, .update podA .current, .update podA .notFound, .update nsObj .notFound,
     .update nsObj .current, .error] := by decide

example : nErrors (Reporter.run (cfg false) {} ins).events = 2 := by decide

example : (Reporter.run (cfg true) {} (ins.take 7)).started = [tNs] ∧ (Reporter.run (cfg true) {} (ins.take 9)).started = [tNs, tPod] := by
  decide

end Demo

/-! ### at most one error event, and exactly one when the watch really failed -/

theorem handleFatal_flag_iff (s : Reporter.FatalSt) (e : Option String) (h : s.flag = true ↔ s.sent ≠ []) :
    (Reporter.handleFatal s e).flag = true ↔ (Reporter.handleFatal s e).sent ≠ [] := by
  cases e with
  | none => simpa [Reporter.handleFatal] using h
  | some t =>
    by_cases hf : s.flag = true
    · simpa [Reporter.handleFatal, hf] using h
    · simp [Reporter.handleFatal, hf]

/-- whatever the handlers report, in whatever order: the reporter sends the FIRST error that is not a context error, once;
context errors are never sent and do not use up the report -/
theorem fatal_sends_first_real (es : List (Option String)) :
    (Reporter.fatalSeq es).sent = ((es.filterMap id).head?).toList := by
  suffices h : ∀ (s : Reporter.FatalSt), (s.flag = true ↔ s.sent ≠ []) → s.sent.length ≤ 1 →
      (es.foldl Reporter.handleFatal s).sent = if s.flag then s.sent else ((es.filterMap id).head?).toList by
    simpa [Reporter.fatalSeq] using h {} (by simp) (by simp)
  induction es with
  | nil => intro s hfl hl; by_cases hf : s.flag = true <;> simp_all
  | cons e es ih =>
    intro s hfl hl
    cases e with
    | none => simpa [Reporter.handleFatal] using ih s hfl hl
    | some t =>
      by_cases hf : s.flag = true
      · simpa [Reporter.handleFatal, hf] using ih s hfl hl
      · have hs : s.sent = [] := by
          cases hsent : s.sent with
          | nil => rfl
          | cons a l => exact absurd (hfl.mpr (by simp [hsent])) hf
        have := ih { sent := s.sent ++ [t], flag := true } (by simp) (by simp [hs])
        simpa [Reporter.handleFatal, hf, hs] using this

theorem fatal_at_most_one (es : List (Option String)) : (Reporter.fatalSeq es).sent.length ≤ 1 := by
  rw [fatal_sends_first_real]; cases (es.filterMap id).head? <;> simp

theorem fatal_reported_iff (es : List (Option String)) :
    (Reporter.fatalSeq es).sent ≠ [] ↔ ∃ t, some t ∈ es := by
  rw [fatal_sends_first_real]
  constructor
  · intro h
    cases hh : (es.filterMap id).head? with
    | none => simp [hh] at h
    | some t =>
      have : t ∈ es.filterMap id := List.mem_of_mem_head? (by simpa using hh)
      exact ⟨t, by simpa using this⟩
  · rintro ⟨t, ht⟩
    have hm : t ∈ es.filterMap id := by simpa using ht
    cases hh : (es.filterMap id) with
    | nil => simp [hh] at hm
    | cons a l => simp

example : (Reporter.fatalSeq [none, none, some "forbidden", some "boom", none]).sent = ["forbidden"] := by decide

end CliUtils.Props.C16
