import CliUtils.Lemmas.GrammarL
/-
  C13 (grammar) — the event stream of EVERY run of the model is accepted by the C13 grammar automaton
  (`Spec.eventsWellFormed`, the predicate the correspondence check evaluates on every observed stream), for the plan
  carried by the stream's own init event (`Spec.planOf`).  Unconditional: any cluster, any run (apply or destroy, any
  options, injected faults, cancellation points, watcher errors).

  Helper lemmas: `CliUtils/Lemmas/GrammarL.lean`.
-/
namespace CliUtils.Props.C13
open CliUtils CliUtils.Sys CliUtils.GrammarL

/-- **the stream of every run is accepted by the C13 grammar**: validation events (each naming at least one object), then
either a single error event, or the init event carrying the plan followed by — in plan order, for a prefix of the plan —
one `started … finished` block per group, containing exactly one non-pending result event per object of an apply / prune /
delete group and at least one wait event per object of a wait group (nothing but forwarded status events otherwise), with
an error event at most once, outside every block, as the very last event. -/
theorem run_stream_well_formed (c : Cluster) (run : Run) :
    let es := (runOne c run).events.reverse
    Spec.eventsWellFormed (Spec.planOf es) (es.map Spec.toEvent) = true := by
  simp only []
  unfold runOne
  simp only []
  generalize hs0 : ({ cl := run.envDel.foldl (fun c i => c.remove i) c, run := run } : St) = s0
  have hr0 : s0.run = run := by rw [← hs0]
  have hev0 : s0.events = [] := by rw [← hs0]
  have hA : ∀ m ∈ (if run.destroy then [] else run.objs), m ∈ run.objs := by split <;> simp
  generalize (if run.destroy then [] else run.objs) = applyMs at hA ⊢
  have e1 := getPruneObjs_events s0 (applyMs.map (·.id))
  have q1 := getPruneObjs_run s0 (applyMs.map (·.id))
  generalize getPruneObjs s0 (applyMs.map (·.id)) = r1 at e1 q1 ⊢
  rw [hev0] at e1
  rw [hr0] at q1
  cases hp : r1.2 with
  | none =>
    -- the inventory could not be read: a single error event
    simp only []
    have : (r1.1.emit (.error "fault")).events = [.error "fault"] := by simp [e1]
    rw [this]
    exact wellFormed_error _
  | some pruneObjs =>
    simp only []
    have e2 : r1.1.invRead.1.events = [] := by rw [invRead_events, e1]
    have q2 : r1.1.invRead.1.run = run := by rw [CliUtils.Props.C10.invRead_run, q1]
    generalize hplan : buildPlan run applyMs pruneObjs _ _ = plan
    have hok : ∀ t ∈ plan.tasks, TaskOK run pruneObjs t := by
      rw [← hplan]; exact buildPlan_tasks_ok run applyMs pruneObjs _ _ hA
    have hval : ∀ e ∈ plan.valErrors, e.1.isEmpty = false := by
      rw [← hplan]; exact buildPlan_valErrors run applyMs pruneObjs _ _
    generalize (!run.opts.skipInvalid && !plan.valErrors.isEmpty) = b
    cases b with
    | true =>
      -- exit-early validation: a single error event
      simp only [if_true]
      have : (r1.1.invRead.1.emit (.error "other")).events = [.error "other"] := by simp [e2]
      rw [this]
      exact wellFormed_error _
    | false =>
      simp only [Bool.false_eq_true, if_false]
      -- validation events and the plan event, then the forwarded initial statuses
      have hst := status_steps (plan.tasks.map (grp run)) (plan.tasks.map (grp run)) _ _
        (initialStatuses_only (prepare r1.1.invRead.1 plan pruneObjs))
      have q3 : (initialStatuses (prepare r1.1.invRead.1 plan pruneObjs)).run = run := by
        rw [(initialStatuses_only _).1, prepare_run, q2]
      generalize (decide (run.cancel = CancelAt.beforeSync) && decide (run.opts.dry = Dry.none)) = b2
      cases b2 with
      | true =>
        -- cancelled before the watcher synchronised: an error event between groups
        simp only [if_true]
        exact wellFormed_after_prepare run r1.1.invRead.1 plan pruneObjs _ .done q2 e2 hval
          (Steps.trans hst (Steps.one (.error "canceled") rfl rfl)) rfl
      | false =>
        simp only [Bool.false_eq_true, if_false]
        obtain ⟨ph, hsteps, hacc⟩ := runTasks_steps (plan.tasks.map (grp run)) run pruneObjs
          (localNamespaces (applyMs.map (·.id))) plan.tasks _ q3 hok
        exact wellFormed_after_prepare run r1.1.invRead.1 plan pruneObjs _ ph q2 e2 hval (Steps.trans hst hsteps) hacc

/-! non-vacuity: a concrete apply run — two manifests, the ConfigMap depending on its Namespace — against an empty cluster -/
section Examples
def nsX : Id := { ns := "", name := "x", group := "", kind := "Namespace" }
def cmA : Id := { ns := "x", name := "a", group := "", kind := "ConfigMap" }
def exRun : Run :=
  { destroy := false, objs := [{ id := cmA, deps := [nsX] }, { id := nsX }], opts := { timeout := true, emitStatus := true } }

example : Spec.eventsWellFormed (Spec.planOf (runOne {} exRun).events.reverse)
    ((runOne {} exRun).events.reverse.map Spec.toEvent) = true :=
  run_stream_well_formed {} exRun

-- sanity (kernel-evaluated): the run emits 21 events and closes all six planned groups, in plan order
example : (runOne {} exRun).events.length = 21 := by decide
example : Spec.finishedGroups ((runOne {} exRun).events.reverse.map Spec.toEvent) =
    ["inventory-add-0", "apply-0", "wait-0", "apply-1", "wait-1", "inventory-set-0"] := by decide
end Examples

end CliUtils.Props.C13
