import CliUtils.Model.Sys
import CliUtils.Lemmas.SysL
import CliUtils.Lemmas.GraphL
import CliUtils.Props.C01
import CliUtils.Props.C04
import CliUtils.Props.C10
/-
  C11 — invalid objects are isolated; exit-early validation mutates nothing.
-/
namespace CliUtils.Props.C11
open CliUtils CliUtils.Sys CliUtils.Props.C19 CliUtils.Graph

/-! ### every invalid object is named in a validation error -/

theorem invalid_named (v : Validation) (id : Id) (h : id ∈ v.invalid) : ∃ e ∈ v.errors, id ∈ e.1 := by
  unfold Validation.invalid at h
  unfold Validation.errors
  rw [mem_union, mem_union, mem_dedup] at h
  rcases h with (h | h) | h
  · exact ⟨([id], "field"), List.mem_append_left _ (List.mem_append_left _ (List.mem_map.mpr ⟨id, h, rfl⟩)), by simp⟩
  · obtain ⟨e, he, hid⟩ := List.mem_map.mp h
    exact ⟨([e.obj], depErrKind e), List.mem_append_left _ (List.mem_append_right _ (List.mem_map.mpr ⟨e, he, rfl⟩)), by simp [hid]⟩
  · refine ⟨(v.cyc, "cycle"), List.mem_append_right _ ?_, h⟩
    split
    · rename_i hc; rw [List.isEmpty_iff] at hc; rw [hc] at h; cases h
    · simp

/-- … in the plan of every run -/
theorem plan_invalid_named (run : Run) (applyMs : List Manifest) (pruneObjs : List Live) (prev : List Id) (pe : Bool) (id : Id)
    (h : id ∈ (buildPlan run applyMs pruneObjs prev pe).invalid) :
    ∃ e ∈ (buildPlan run applyMs pruneObjs prev pe).valErrors, id ∈ e.1 :=
  invalid_named _ id h

/-! ### no task ever names an invalid object -/

theorem mem_isort {α : Type} (lt : α → α → Bool) (l : List α) (x : α) : x ∈ isort lt l ↔ x ∈ l :=
  (isort_perm lt l).mem_iff

theorem mem_hydrate {α : Type} (lt : α → α → Bool) (p : α → Bool) (L : List (List α)) (l : List α) (x : α)
    (hl : l ∈ hydrate lt p L) (hx : x ∈ l) : p x = true := by
  unfold hydrate at hl
  rw [List.mem_filter, List.mem_map] at hl
  obtain ⟨⟨l0, _, rfl⟩, _⟩ := hl
  rw [mem_isort, List.mem_filter] at hx
  exact hx.2

theorem mem_reverseSetList {α : Type} (L : List (List α)) (l : List α) (x : α) (hl : l ∈ reverseSetList L) (hx : x ∈ l) :
    ∃ l0 ∈ L, x ∈ l0 := by
  unfold reverseSetList at hl
  rw [List.mem_reverse, List.mem_map] at hl
  obtain ⟨l0, h0, rfl⟩ := hl
  exact ⟨l0, h0, List.mem_reverse.mp hx⟩

theorem layerTasks_ids (isApply dry : Bool) (layers : List (List Id)) (c w : Nat) :
    ∀ t ∈ (layerTasks isApply dry layers c w).1, t.ids ∈ layers := by
  induction layers generalizing c w with
  | nil => simp [layerTasks]
  | cons l ls ih =>
    intro t ht
    simp only [layerTasks] at ht
    split at ht
    · rcases List.mem_cons.mp ht with h | h
      · subst h; split <;> simp [Task.ids]
      · exact List.mem_cons_of_mem _ (ih _ _ t h)
    · rcases List.mem_cons.mp ht with h | h
      · subst h; split <;> simp [Task.ids]
      · rcases List.mem_cons.mp h with h | h
        · subst h; simp [Task.ids]
        · exact List.mem_cons_of_mem _ (ih _ _ t h)

/-- the tasks of a plan only name the valid apply / prune ids they were given -/
theorem planTasks_ids (run : Run) (applyIds pruneIds : List Id) (layers : List (List Id)) (prev : List Id) (pe : Bool) :
    ∀ t ∈ planTasks run applyIds pruneIds layers prev pe, ∀ id ∈ t.ids, id ∈ applyIds ∨ id ∈ pruneIds := by
  intro t ht id hid
  unfold planTasks at ht
  simp only [List.mem_append, List.mem_singleton] at ht
  rcases ht with ((h | h) | h) | h
  · split at h
    · simp at h
    · simp at h; subst h; exact Or.inl hid
  · split at h
    · simp at h
    · have := layerTasks_ids true _ _ 0 0 t h
      have := mem_hydrate _ _ _ _ id this hid
      exact Or.inl (by simpa using this)
  · split at h
    · have hl := layerTasks_ids false _ _ 0 _ t h
      obtain ⟨l0, h0, hx⟩ := mem_reverseSetList _ _ id hl hid
      have := mem_hydrate _ _ _ _ id h0 hx
      exact Or.inr (by simpa using this)
    · simp at h
  · subst h; simp [Task.ids] at hid

/-- **never sent**: no task of the plan (inventory-add, apply, prune, wait) names an invalid object -/
theorem plan_excludes_invalid (run : Run) (applyMs : List Manifest) (pruneObjs : List Live) (prev : List Id) (pe : Bool) :
    ∀ t ∈ (buildPlan run applyMs pruneObjs prev pe).tasks, ∀ id ∈ t.ids,
      id ∉ (buildPlan run applyMs pruneObjs prev pe).invalid := by
  intro t ht id hid
  have h := planTasks_ids run _ _ _ prev pe t ht id hid
  simp only [List.mem_map, List.mem_filter] at h
  rcases h with ⟨m, ⟨_, hm⟩, rfl⟩ | ⟨o, ⟨_, ho⟩, rfl⟩
  · simpa [buildPlan] using hm
  · simpa [buildPlan] using ho

/-- in particular the inventory-add task (what the merge stores) holds no invalid object: an invalid object is never ADDED to
the stored inventory (a tracked one stays: `C01.keeps_invalid`) -/
theorem merged_ids_valid (run : Run) (applyMs : List Manifest) (pruneObjs : List Live) (prev : List Id) (pe : Bool) (ids : List Id)
    (t : Task) (ht : t ∈ (buildPlan run applyMs pruneObjs prev pe).tasks) (hk : t.kind = .invAdd ids) :
    ∀ id ∈ ids, id ∉ (buildPlan run applyMs pruneObjs prev pe).invalid := by
  intro id hid
  exact plan_excludes_invalid run applyMs pruneObjs prev pe t ht id (by simp [Task.ids, hk, hid])

/-! ### exit-early: the run ends with the error before any mutating request -/

theorem invRead_events (s : St) : s.invRead.1.events = s.events := by unfold St.invRead; simp only []; split <;> rfl

theorem getPruneObjs_no_muts (s : St) (ids : List Id) :
    (getPruneObjs s ids).1.muts = s.muts ∧ (getPruneObjs s ids).1.events = s.events := by
  unfold getPruneObjs
  simp only []
  cases s.invRead.2 <;> simp [invRead_events]

/-- **exit-early**: if validation finds anything and the policy is exit-early, the run makes no mutating request at all and its
only event is the error (no plan event, no group is ever started) -/
theorem exit_early_no_mutation (c : Cluster) (run : Run) (hpol : run.opts.skipInvalid = false)
    (hinv : ∀ pruneObjs prev pe, (buildPlan run (if run.destroy then [] else run.objs) pruneObjs prev pe).valErrors ≠ []) :
    (runOne c run).muts = [] ∧ ∃ k, (runOne c run).events = [.error k] := by
  unfold runOne
  simp only []
  generalize hs0 : ({ cl := run.envDel.foldl (fun c i => c.remove i) c, run := run } : St) = s0
  have hm0 : s0.muts = [] ∧ s0.events = [] := by rw [← hs0]; exact ⟨rfl, rfl⟩
  generalize hr1 : getPruneObjs s0 ((if run.destroy then [] else run.objs).map (·.id)) = r1
  have h1 := getPruneObjs_no_muts s0 ((if run.destroy then [] else run.objs).map (·.id))
  rw [hr1, hm0.1, hm0.2] at h1
  cases hp : r1.2 with
  | none => exact ⟨by simp [h1.1], "fault", by simp [h1.2]⟩
  | some pruneObjs =>
    simp only []
    have hv := hinv pruneObjs
      (match r1.1.invRead.2 with | some (some l) => l | _ => []) r1.1.invRead.2.isNone
    generalize hplan : buildPlan run (if run.destroy then [] else run.objs) pruneObjs _ _ = plan at hv ⊢
    have hb : (!run.opts.skipInvalid && !plan.valErrors.isEmpty) = true := by
      simp [hpol, List.isEmpty_iff, hv]
    simp only [hb, if_true]
    exact ⟨by simp [h1.1], "other", by simp [invRead_events, h1.2]⟩

/-! ### objects depending on an invalid object are not applied -/

theorem dependent_of_invalid_not_applied (group : String) (s : St) (id : Id) (m : Manifest) (hm : manifestOf s id = some m)
    (hid : m.id = id) (b : Id) (hb : b ∈ Graph.deps s.graph id) (hinv : b ∈ s.invalid) :
    (applyOne group s id).muts = s.muts ∧ (applyOne group s id).cl = s.cl :=
  let h := CliUtils.Props.C04.blocked_not_sent group s id m hm hid b hb (Or.inl hinv)
  ⟨h.1, h.2.1⟩

end CliUtils.Props.C11
