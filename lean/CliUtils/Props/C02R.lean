import CliUtils.Lemmas.ProvL
import CliUtils.Props.C13G
import CliUtils.Props.C04R
/-
  C02 / C11 / C12, whole run — provenance of every mutating request of a run.

  Statements about `Sys.runOne c run` for EVERY cluster `c` and EVERY run `run` (apply or destroy, any options, injected
  faults, cancellation points, watcher errors), about the model's own request log `St.muts`.

  * `request_provenance`: every logged request is classified by `Origin` relative to the id lists of the plan the run built
    (`runPlan c run`, definitionally the `buildPlan …` term inside `runOne`): it is a request for the inventory object, the
    bootstrap create of the inventory namespace (only when that namespace is a valid apply object), a create / patch of a
    valid object of the apply set, or a delete / annotation-removal update of a valid prune candidate.
  * `runPlan_applyIds`, `runPlan_destroy`, `runPlan_pruneIds`: what these id lists are — apply ids come from `run.objs`
    (none for a destroy run), prune ids are tracked by the stored inventory at the start of the run, are not in the apply
    set and exist in the cluster; neither list contains an id of `plan.invalid`.
  * corollaries: `delete_only_tracked` (C02), `invalid_never_sent` / `named_never_sent` / `field_invalid_never_sent` (C11),
    `no_request_after_error` (C12).

  Vocabulary (`Origin`, `startSt`, `applySet`, `runPlanObjs`, `runPlan`) and the step lemmas are in `Lemmas/ProvL.lean`:
  `Adds Q s s'` (every request logged in `s'` is one of `s` or satisfies `Q`) is carried through `applyOne`, `pruneOne`
  (from `delete_authorised`), the inventory tasks, `runWait`, `runTask`, `runTasks`; `planTasks_taskQ` shows that the tasks
  of a plan only ask for classified requests; `runOne_shape` is the case analysis of `runOne`.
-/
namespace CliUtils.Props.C02
open CliUtils CliUtils.Sys CliUtils.ProvL

/-! ### the plan of a run -/

/-- `runPlan` is the plan part of `runPlanObjs` -/
theorem runPlan_eq_some (c : Cluster) (run : Run) (plan : Plan) (h : runPlan c run = some plan) :
    ∃ pruneObjs, runPlanObjs c run = some (plan, pruneObjs) := by
  unfold runPlan at h
  cases hp : runPlanObjs c run with
  | none => rw [hp] at h; cases h
  | some p =>
    rw [hp] at h
    simp only [Option.map_some, Option.some.injEq] at h
    subst h
    exact ⟨p.2, rfl⟩

/-- a planned run: the prune candidates were read, and the plan is `buildPlan` of the apply set and these candidates -/
theorem runPlanObjs_some (c : Cluster) (run : Run) (plan : Plan) (pruneObjs : List Live)
    (h : runPlanObjs c run = some (plan, pruneObjs)) :
    (getPruneObjs (startSt c run) ((applySet run).map (·.id))).2 = some pruneObjs ∧
    ∃ prev pe, plan = buildPlan run (applySet run) pruneObjs prev pe := by
  unfold runPlanObjs at h
  simp only [] at h
  cases hp : (getPruneObjs (startSt c run) ((applySet run).map (·.id))).2 with
  | none => rw [hp] at h; cases h
  | some objs =>
    rw [hp] at h
    simp only [Option.some.injEq, Prod.mk.injEq] at h
    obtain ⟨h1, h2⟩ := h
    subst h2
    exact ⟨rfl, _, _, h1.symm⟩

/-- the valid apply ids of the plan are ids of manifests of the run (an apply run), and none of them is invalid -/
theorem runPlan_applyIds (c : Cluster) (run : Run) (plan : Plan) (h : runPlan c run = some plan) :
    ∀ id ∈ plan.applyIds, run.destroy = false ∧ id ∈ run.objs.map (·.id) ∧ id ∉ plan.invalid := by
  obtain ⟨pruneObjs, hp⟩ := runPlan_eq_some c run plan h
  obtain ⟨_, prev, pe, rfl⟩ := runPlanObjs_some c run plan pruneObjs hp
  intro id hid
  obtain ⟨h1, h2⟩ := buildPlan_applyIds run (applySet run) pruneObjs prev pe id hid
  have hd : run.destroy = false := by
    cases hd : run.destroy with
    | false => rfl
    | true => simp [applySet, hd] at h1
  refine ⟨hd, ?_, h2⟩
  simpa [applySet, hd] using h1

/-- a destroy run applies nothing -/
theorem runPlan_destroy (c : Cluster) (run : Run) (plan : Plan) (h : runPlan c run = some plan) (hd : run.destroy = true) :
    plan.applyIds = [] := by
  apply List.eq_nil_iff_forall_not_mem.mpr
  intro id hid
  have := (runPlan_applyIds c run plan h id hid).1
  rw [hd] at this
  cases this

/-- the valid prune ids of the plan: tracked by the inventory stored in the cluster when the run started, not in the apply
set (`applySet run`: all manifests of an apply run, valid or not; nothing for a destroy run), existing in the cluster at
the start of the run (after the environment's own deletions), and not invalid -/
theorem runPlan_pruneIds (c : Cluster) (run : Run) (plan : Plan) (h : runPlan c run = some plan) :
    ∀ id ∈ plan.pruneIds, id ∈ c.inv.getD [] ∧ id ∉ (applySet run).map (·.id) ∧
      (∃ o, (startSt c run).cl.find? id = some o) ∧ id ∉ plan.invalid := by
  obtain ⟨pruneObjs, hp⟩ := runPlan_eq_some c run plan h
  obtain ⟨hobjs, prev, pe, rfl⟩ := runPlanObjs_some c run plan pruneObjs hp
  intro id hid
  obtain ⟨⟨o, ho, rfl⟩, hv⟩ := buildPlan_pruneIds run (applySet run) pruneObjs prev pe id hid
  obtain ⟨h1, h2, h3⟩ := getPruneObjs_mem _ _ pruneObjs hobjs o ho
  rw [startSt_inv] at h1
  exact ⟨h1, h2, ⟨o, h3⟩, hv⟩

/-! ### provenance -/

/-- **request provenance**: every mutating request of every run is classified relative to the plan the run built. In
particular a run that logs a request did build a plan (the reads before `Build` succeeded).

With `runPlan_applyIds` / `runPlan_pruneIds`: a create / patch that is not for the inventory object and not the bootstrap
create of the inventory namespace is for a manifest of `run.objs` that passed validation; a delete / update that is not for
the inventory object is for an object tracked by the stored inventory, absent from the apply set, that passed validation. -/
theorem request_provenance (c : Cluster) (run : Run) :
    ∀ m ∈ (runOne c run).muts, ∃ plan, runPlan c run = some plan ∧ Origin run plan.applyIds plan.pruneIds m := by
  intro m hm
  rcases runOne_shape c run with ⟨s, k, he, hs⟩ | ⟨plan, pruneObjs, s, G, E, hp, hs, _, he⟩
  · rw [he, emit_muts, hs] at hm
    cases hm
  · refine ⟨plan, by simp [runPlan, hp], ?_⟩
    obtain ⟨_, prev, pe, rfl⟩ := runPlanObjs_some c run plan pruneObjs hp
    rw [he] at hm
    rcases runTasks_adds _ pruneObjs _ _ (buildPlan_taskQ run (applySet run) pruneObjs prev pe) s m hm with h | h
    · rw [hs] at h; cases h
    · exact h

/-- the same with the facts about the id lists spelled out (no reference to `runPlan` in the conclusion about `m`) -/
theorem request_provenance_ids (c : Cluster) (run : Run) :
    ∀ m ∈ (runOne c run).muts, ∃ plan, runPlan c run = some plan ∧
      (run.destroy = true → plan.applyIds = []) ∧
      (∀ id ∈ plan.applyIds, id ∈ run.objs.map (·.id) ∧ id ∉ plan.invalid) ∧
      (∀ id ∈ plan.pruneIds, id ∈ c.inv.getD [] ∧ id ∉ (applySet run).map (·.id) ∧ id ∉ plan.invalid) ∧
      Origin run plan.applyIds plan.pruneIds m := by
  intro m hm
  obtain ⟨plan, hp, ho⟩ := request_provenance c run m hm
  exact ⟨plan, hp, runPlan_destroy c run plan hp, fun id h => (runPlan_applyIds c run plan hp id h).2,
    fun id h => let f := runPlan_pruneIds c run plan hp id h; ⟨f.1, f.2.1, f.2.2.2⟩, ho⟩

/-! ### C02, run level -/

/-- **C02 (run level)**: every delete request of a run — and every annotation-removal update — other than of the inventory
object is for an id that was in the stored inventory when the run started and is not in the apply set -/
theorem delete_only_tracked (c : Cluster) (run : Run) :
    ∀ m ∈ (runOne c run).muts, (m.verb = "delete" ∨ m.verb = "update") → m.id ≠ invObjId →
      m.id ∈ c.inv.getD [] ∧ m.id ∉ (applySet run).map (·.id) := by
  intro m hm hv hne
  obtain ⟨plan, hp, ho⟩ := request_provenance c run m hm
  rcases ho with h | ⟨_, h, _⟩ | ⟨h, _⟩ | ⟨_, h⟩
  · exact absurd h hne
  · rw [h] at hv; rcases hv with hv | hv <;> exact absurd hv (by decide)
  · rcases h with h | h <;> (rw [h] at hv; rcases hv with hv | hv <;> exact absurd hv (by decide))
  · exact let f := runPlan_pruneIds c run plan hp m.id h; ⟨f.1, f.2.1⟩

/-- conversely, every create / patch of a run other than of the inventory object is for a manifest of the run, and the run
is an apply run -/
theorem apply_only_manifests (c : Cluster) (run : Run) :
    ∀ m ∈ (runOne c run).muts, (m.verb = "create" ∨ m.verb = "patch") → m.id ≠ invObjId →
      run.destroy = false ∧ m.id ∈ run.objs.map (·.id) := by
  intro m hm hv hne
  obtain ⟨plan, hp, ho⟩ := request_provenance c run m hm
  rcases ho with h | ⟨h1, _, h⟩ | ⟨_, h⟩ | ⟨h, _⟩
  · exact absurd h hne
  · rw [← h1] at h; exact let f := runPlan_applyIds c run plan hp m.id h; ⟨f.1, f.2.1⟩
  · exact let f := runPlan_applyIds c run plan hp m.id h; ⟨f.1, f.2.1⟩
  · rcases h with h | h <;> (rw [h] at hv; rcases hv with hv | hv <;> exact absurd hv (by decide))

/-! ### non-vacuity -/
section Examples
open CliUtils.Props.C13 CliUtils.Props.C05

/-- the run of `Props/C13G.lean` (a ConfigMap depending on its Namespace, applied to an empty cluster) -/
example : ∀ m ∈ (runOne {} exRun).muts, ∃ plan, runPlan {} exRun = some plan ∧ Origin exRun plan.applyIds plan.pruneIds m :=
  request_provenance {} exRun

-- its plan: both objects valid, nothing to prune; its requests (newest first): ConfigMap, Namespace, inventory object
example : (runPlan {} exRun).map (fun p => (p.applyIds, p.pruneIds, p.invalid)) = some ([cmA, nsX], [], []) := by decide
example : (runOne {} exRun).muts.map (fun m => (m.verb, m.id)) =
    [("create", cmA), ("create", nsX), ("create", invObjId)] := by decide

/-- an apply run against the cluster of `Props/C04R.lean` (inventory tracks the ConfigMap `cmA` and the Namespace `nsX`):
the Namespace is applied again, the ConfigMap — no longer in the apply set — is pruned, and a ConfigMap without namespace
fails field validation (the run continues: `skipInvalid`) -/
def badId : Id := { ns := "", name := "bad", group := "", kind := "ConfigMap" }
def exMixed : Run :=
  { destroy := false, objs := [{ id := nsX }, { id := badId }], opts := { timeout := true, skipInvalid := true } }

example : ∀ m ∈ (runOne exCl exMixed).muts, ∃ plan, runPlan exCl exMixed = some plan ∧ Origin exMixed plan.applyIds plan.pruneIds m :=
  request_provenance exCl exMixed

example : (runPlan exCl exMixed).map (fun p => (p.applyIds, p.pruneIds, p.invalid)) = some ([nsX], [cmA], [badId]) := by decide
example : (runPlan exCl exMixed).map (fun p => p.valErrors.map (·.1)) = some [[badId]] := by decide
-- all four origins but the bootstrap: inventory update, apply patch, prune delete, inventory update; nothing for `badId`
example : (runOne exCl exMixed).muts.map (fun m => (m.verb, m.id, m.evIdx)) =
    [("update", invObjId, 19), ("delete", cmA, 12), ("patch", nsX, 5), ("update", invObjId, 3)] := by decide

-- the bootstrap origin: the inventory namespace is in the apply set (the run `exBoot` of `Props/C04R.lean`)
example : (runPlan {} CliUtils.Props.C04.exBoot).map (fun p => decide (nsInv ∈ p.applyIds)) = some true := by decide
example : (runOne {} CliUtils.Props.C04.exBoot).muts.map (fun m => (m.verb, m.id)) =
    [("patch", nsInv), ("create", CliUtils.Props.C04.crR), ("create", invObjId), ("create", nsInv)] := by decide

-- a destroy run: no apply ids, every tracked object is a prune candidate
example : (runPlan exCl exDestroy).map (fun p => (p.applyIds, p.pruneIds, p.invalid)) = some ([], [cmA, nsX], []) := by decide
end Examples

end CliUtils.Props.C02

namespace CliUtils.Props.C11
open CliUtils CliUtils.Sys CliUtils.Props.C02 CliUtils.Props.C19

/-- **C11 (run level)**: no request of a run other than for the inventory object is for an invalid id. (The bootstrap create of
the inventory namespace needs no exclusion: it is only issued when that namespace is a valid object of the apply set.) -/
theorem invalid_never_sent (c : Cluster) (run : Run) :
    ∀ m ∈ (runOne c run).muts, m.id ≠ invObjId → ∃ plan, runPlan c run = some plan ∧ m.id ∉ plan.invalid := by
  intro m hm hne
  obtain ⟨plan, hp, ho⟩ := request_provenance c run m hm
  refine ⟨plan, hp, ?_⟩
  rcases ho with h | ⟨h1, _, h⟩ | ⟨_, h⟩ | ⟨_, h⟩
  · exact absurd h hne
  · rw [← h1] at h; exact (runPlan_applyIds c run plan hp m.id h).2.2
  · exact (runPlan_applyIds c run plan hp m.id h).2.2
  · exact (runPlan_pruneIds c run plan hp m.id h).2.2.2

/-- every id named in a validation error is invalid (converse of `invalid_named`) -/
theorem named_invalid (v : Validation) (e : List Id × String) (he : e ∈ v.errors) (id : Id) (hid : id ∈ e.1) : id ∈ v.invalid := by
  unfold Validation.errors at he
  unfold Validation.invalid
  rw [mem_union, mem_union, mem_dedup]
  simp only [List.mem_append, List.mem_map] at he
  rcases he with (⟨i, hi, rfl⟩ | ⟨x, hx, rfl⟩) | h
  · simp only [List.mem_singleton] at hid
    subst hid
    exact Or.inl (Or.inl hi)
  · simp only [List.mem_singleton] at hid
    subst hid
    exact Or.inl (Or.inr (List.mem_map.mpr ⟨x, hx, rfl⟩))
  · split at h
    · simp at h
    · simp only [List.mem_singleton] at h
      subst h
      exact Or.inr hid

/-- … in the plan of every run -/
theorem plan_named_invalid (run : Run) (applyMs : List Manifest) (pruneObjs : List Live) (prev : List Id) (pe : Bool)
    (e : List Id × String) (he : e ∈ (buildPlan run applyMs pruneObjs prev pe).valErrors) (id : Id) (hid : id ∈ e.1) :
    id ∈ (buildPlan run applyMs pruneObjs prev pe).invalid :=
  named_invalid _ e he id hid

/-- an object named in any validation error of the run's plan (field validation, a dependency / mutation annotation error,
a dependency cycle: exactly the run's validation events) is never sent -/
theorem named_never_sent (c : Cluster) (run : Run) (plan : Plan) (hp : runPlan c run = some plan)
    (e : List Id × String) (he : e ∈ plan.valErrors) (id : Id) (hid : id ∈ e.1) (hne : id ≠ invObjId) :
    ∀ m ∈ (runOne c run).muts, m.id ≠ id := by
  intro m hm heq
  obtain ⟨plan', hp', hv⟩ := invalid_never_sent c run m hm (by rw [heq]; exact hne)
  rw [hp] at hp'
  injection hp' with hp'
  subst hp'
  apply hv
  rw [heq]
  obtain ⟨pruneObjs, hpo⟩ := runPlan_eq_some c run plan hp
  obtain ⟨_, prev, pe, rfl⟩ := runPlanObjs_some c run plan pruneObjs hpo
  exact plan_named_invalid run _ pruneObjs prev pe e he id hid

/-- a manifest of an apply run that fails field validation is invalid in every plan built for the run -/
theorem field_invalid_mem (run : Run) (hd : run.destroy = false) (pruneObjs : List Live) (prev : List Id) (pe : Bool)
    (mf : Manifest) (hmf : mf ∈ run.objs) (hf : fieldInvalid mf = true) :
    mf.id ∈ (buildPlan run (applySet run) pruneObjs prev pe).invalid := by
  apply plan_named_invalid run _ pruneObjs prev pe ([mf.id], "field") _ mf.id (by simp)
  simp only [buildPlan, Validation.errors, applySet, hd, Bool.false_eq_true, if_false]
  apply List.mem_append_left
  apply List.mem_append_left
  exact List.mem_map.mpr ⟨mf.id, List.mem_map.mpr ⟨mf, List.mem_filter.mpr ⟨hmf, hf⟩, rfl⟩, rfl⟩

/-- in particular: an object of the apply set failing field validation is never sent -/
theorem field_invalid_never_sent (c : Cluster) (run : Run) (hd : run.destroy = false) (mf : Manifest) (hmf : mf ∈ run.objs)
    (hf : fieldInvalid mf = true) (hne : mf.id ≠ invObjId) : ∀ m ∈ (runOne c run).muts, m.id ≠ mf.id := by
  intro m hm heq
  obtain ⟨plan, hp, hv⟩ := invalid_never_sent c run m hm (by rw [heq]; exact hne)
  obtain ⟨pruneObjs, hpo⟩ := runPlan_eq_some c run plan hp
  obtain ⟨_, prev, pe, rfl⟩ := runPlanObjs_some c run plan pruneObjs hpo
  apply hv
  rw [heq]
  exact field_invalid_mem run hd pruneObjs prev pe mf hmf hf

end CliUtils.Props.C11

namespace CliUtils.Props.C12
open CliUtils CliUtils.Sys CliUtils.ProvL

/-- **C12 (run level), cancellation**: after the error event nothing happens — if the stream of a run ends with an error event
(cancellation, watcher failure, a failed task, a failed read, exit-early validation), every request of the run was made before
that event was emitted: `m.evIdx`, the number of events emitted before request `m`, does not count the error event -/
theorem no_request_after_error (c : Cluster) (run : Run) (k : String) (rest : List Ev)
    (h : (runOne c run).events = .error k :: rest) : ∀ m ∈ (runOne c run).muts, m.evIdx ≤ rest.length := by
  rcases runOne_shape c run with ⟨s, k', he, hs⟩ | ⟨plan, pruneObjs, s, G, E, hp, _, hI, he⟩
  · intro m hm
    rw [he, emit_muts, hs] at hm
    cases hm
  · rw [he] at h ⊢
    obtain ⟨_, prev, pe, rfl⟩ := CliUtils.Props.C02.runPlanObjs_some c run plan pruneObjs hp
    exact runTasks_before_error pruneObjs _ _ s hI
      (fun hnil => absurd hnil (buildPlan_tasks_ne_nil run _ pruneObjs prev pe)) k rest h

/-- every request index points into the event list, at every run (from the ordering invariant; `C04.request_index_valid`) -/
theorem request_index_valid (c : Cluster) (run : Run) : ∀ m ∈ (runOne c run).muts, m.evIdx ≤ (runOne c run).events.length :=
  CliUtils.Props.C04.request_index_valid c run

/-! ### non-vacuity: the run `exMixed` above, cancelled while its second request (the patch of the Namespace) is in flight -/
section Examples
open CliUtils.Props.C13 CliUtils.Props.C05 CliUtils.Props.C02

def exCancel : Run := { exMixed with cancel := .mut 1 }

example : ∀ m ∈ (runOne exCl exCancel).muts, m.evIdx ≤ 7 := by
  have h := no_request_after_error exCl exCancel "canceled" ((runOne exCl exCancel).events.drop 1) (by decide)
  have hl : ((runOne exCl exCancel).events.drop 1).length = 7 := by decide
  rw [hl] at h
  exact h

-- the apply task is finished, the error event is the 8th and last event; the prune task and the final inventory task never start
example : (runOne exCl exCancel).events.take 2 = [.error "canceled", .group "apply-0" "Apply" "Finished"] ∧
          (runOne exCl exCancel).events.length = 8 ∧
          (runOne exCl exCancel).muts.map (fun m => (m.verb, m.id, m.evIdx)) = [("patch", nsX, 5), ("update", invObjId, 3)] := by
  decide
end Examples

end CliUtils.Props.C12
