import CliUtils.Model.Wait
import CliUtils.Lemmas.WaitL
import CliUtils.Props.C06
/-
  C04 (CRD part) — `WaitTask.updateRESTMapper`: after a wait phase that contains a CRD which was not skipped the RESTMapper is
  reset, so that the custom resources of later tasks can be mapped; never otherwise, never before the phase has ended.
  `Wait.resets` / `Wait.needsReset` are what the driver of domain `wait` compares with the number of `Reset()` calls the real
  WaitTask makes on a counting `meta.ResettableRESTMapper`.
-/
namespace CliUtils.Props.C04
open CliUtils CliUtils.Wait CliUtils.Props.C06

variable {α : Type} [DecidableEq α]

theorem timeoutFold_static (m : Mgr α) (l : List α) (s : WState α) (h : MgrEquiv m s.mgr) :
    (l.foldl (fun st id => emit st id .timeout) s).ids = s.ids ∧
    (l.foldl (fun st id => emit st id .timeout) s).cond = s.cond ∧
    MgrEquiv m (l.foldl (fun st id => emit st id .timeout) s).mgr := by
  induction l generalizing s with
  | nil => exact ⟨rfl, rfl, h⟩
  | cons x xs ih =>
    simp only [List.foldl_cons]
    have h' : MgrEquiv m (emit s x .timeout).mgr := by rw [emit_mgr]; exact MgrEquiv.setRc m s.mgr h x _
    obtain ⟨e1, e2, e3⟩ := ih (emit s x .timeout) h'
    exact ⟨by rw [e1, emit_ids], by rw [e2, emit_cond], e3⟩

/-- no operation of the phase changes the id list or the condition, and the actuation table stays the same for every decision
function (only the reconcile column is written) -/
theorem step_static (m : Mgr α) (s : WState α) (op : Op α) (h : MgrEquiv m s.mgr) :
    (step s op).ids = s.ids ∧ (step s op).cond = s.cond ∧ MgrEquiv m (step s op).mgr := by
  cases op with
  | update id o =>
    simp only [step, statusUpdate]
    by_cases hid : id ∈ s.ids
    · simp only [hid, if_true, endIf_ids, endIf_cond, endIf_mgr]
      have hi := inner_mgr_events (o := o) { s with cache := (id, o) :: s.cache } id (by simp)
      refine ⟨hi.2.2.1, hi.2.2.2.1, ?_⟩
      rw [hi.2.1]
      cases decide? { s with cache := (id, o) :: s.cache } id o with
      | none => exact h
      | some e => exact MgrEquiv.setRc m s.mgr h id _
    · simp only [hid, if_false]
      exact ⟨trivial, trivial, h⟩
  | timeout =>
    simp only [step, Wait.timeout]
    exact timeoutFold_static m s.pending s h
  | cancel => exact ⟨rfl, rfl, h⟩

theorem steps_static (m : Mgr α) (ops : List (Op α)) (s : WState α) (h : MgrEquiv m s.mgr) :
    (ops.foldl step s).ids = s.ids ∧ (ops.foldl step s).cond = s.cond ∧ MgrEquiv m (ops.foldl step s).mgr := by
  induction ops generalizing s with
  | nil => exact ⟨rfl, rfl, h⟩
  | cons op rest ih =>
    simp only [List.foldl_cons]
    obtain ⟨a1, a2, a3⟩ := step_static m s op h
    obtain ⟨b1, b2, b3⟩ := ih (step s op) a3
    exact ⟨b1.trans a1, b2.trans a2, b3⟩

/-- a whole phase — start, then any finite sequence of status updates, deadline and cancel — keeps ids, condition and (up to
the reconcile column) the actuation table it was started with -/
theorem run_static (ids : List α) (c : Cond) (m : Mgr α) (cache : List (α × Obs)) (ops : List (Op α)) :
    (run ids c m cache ops).ids = ids ∧ (run ids c m cache ops).cond = c ∧ MgrEquiv m (run ids c m cache ops).mgr := by
  have hs : (start ids c m cache).ids = ids ∧ (start ids c m cache).cond = c ∧ MgrEquiv m (start ids c m cache).mgr := by
    unfold start
    have h := start_fold c m cache ids
      { ids := ids, cond := c, pending := [], failed := [], mgr := m, cache := cache, events := [], cancelled := false }
      rfl rfl (MgrEquiv.refl m)
    simp only [] at h
    refine ⟨?_, ?_, ?_⟩
    · rw [endIf_ids]; exact h.2.2.2.2.2.2.2
    · rw [endIf_cond]; exact h.2.2.1
    · rw [endIf_mgr]; exact h.2.2.2.2.1
  obtain ⟨b1, b2, b3⟩ := steps_static m ops (start ids c m cache) hs.2.2
  unfold run
  exact ⟨b1.trans hs.1, b2.trans hs.2.1, b3⟩

/-- `needsReset` only reads what the phase never writes: on the final table it is what it was on the table the phase started with -/
theorem needsReset_initial_table (crd : α → Bool) (ids : List α) (c : Cond) (m : Mgr α) (cache : List (α × Obs)) (ops : List (Op α)) :
    needsReset ids crd (run ids c m cache ops).mgr c = needsReset ids crd m c := by
  obtain ⟨_, _, h3⟩ := run_static ids c m cache ops
  unfold needsReset
  congr 1
  funext id
  rw [(h3 c Obs.missing id).1]

/-- **mapper_reset_iff**: for every phase (any ids, any actuation table, any cache, any finite sequence of status updates,
deadline, cancel) the RESTMapper has been reset — exactly once — iff the phase has ended (nothing pending at some moment, the
deadline fired, or the run was cancelled) and one of its objects is a CRD whose apply/delete was not skipped or failed, as
recorded in the actuation table the phase started with; otherwise it has not been reset at all -/
theorem mapper_reset_iff (crd : α → Bool) (ids : List α) (c : Cond) (m : Mgr α) (cache : List (α × Obs)) (ops : List (Op α)) :
    (resets crd (run ids c m cache ops) = 1 ↔
      (run ids c m cache ops).cancelled = true ∧ ∃ id ∈ ids, crd id = true ∧ skipped c m id = false) ∧
    (resets crd (run ids c m cache ops) = 0 ∨ resets crd (run ids c m cache ops) = 1) := by
  obtain ⟨h1, h2, _⟩ := run_static ids c m cache ops
  have hn := needsReset_initial_table crd ids c m cache ops
  have hex : needsReset ids crd m c = true ↔ ∃ id ∈ ids, crd id = true ∧ skipped c m id = false := by
    unfold needsReset
    simp [List.any_eq_true]
  unfold resets
  rw [h1, h2, hn]
  constructor
  · rw [← hex]
    cases (run ids c m cache ops).cancelled <;> cases needsReset ids crd m c <;> simp
  · cases (run ids c m cache ops).cancelled <;> cases needsReset ids crd m c <;> simp

/-- while the phase is running (not ended) the mapper is never reset, and a phase all of whose CRDs were skipped never resets it -/
theorem no_reset_otherwise (crd : α → Bool) (ids : List α) (c : Cond) (m : Mgr α) (cache : List (α × Obs)) (ops : List (Op α)) :
    ((run ids c m cache ops).cancelled = false → resets crd (run ids c m cache ops) = 0) ∧
    ((∀ id ∈ ids, crd id = true → skipped c m id = true) → resets crd (run ids c m cache ops) = 0) := by
  have h := (mapper_reset_iff crd ids c m cache ops)
  constructor
  · intro hc
    rcases h.2 with h0 | h1
    · exact h0
    · have := (h.1.mp h1).1; rw [hc] at this; cases this
  · intro hall
    rcases h.2 with h0 | h1
    · exact h0
    · obtain ⟨_, id, hid, hcrd, hsk⟩ := h.1.mp h1
      rw [hall id hid hcrd] at hsk; cases hsk

/-- example: a phase with one CRD whose apply succeeded and which is already Current ends at once and resets the mapper;
the same phase with the CRD's apply skipped ends at once and does not -/
example :
    resets (fun i => i == 0) (run [0, 1] .allCurrent
      [{ id := 0, strategy := .apply, actuation := .succeeded, reconcile := .pending, uid := "u", gen := 1 },
       { id := 1, strategy := .apply, actuation := .skipped, reconcile := .pending }]
      [(0, { status := .current, hasRes := true, gen := 1, uid := "u" })] []) = 1 := by decide

example :
    resets (fun i => i == 0) (run [0, 1] .allCurrent
      [{ id := 0, strategy := .apply, actuation := .skipped, reconcile := .pending },
       { id := 1, strategy := .apply, actuation := .succeeded, reconcile := .pending, uid := "u", gen := 1 }]
      [(1, { status := .current, hasRes := true, gen := 1, uid := "u" })] []) = 0 := by decide

/-- … and while the CRD is still pending nothing is reset -/
example :
    resets (fun i => i == 0) (run [0] .allCurrent
      [{ id := 0, strategy := .apply, actuation := .succeeded, reconcile := .pending, uid := "u", gen := 1 }]
      [] [.update 0 { status := .inProgress, hasRes := true, gen := 1, uid := "u" }]) = 0 := by decide

end CliUtils.Props.C04
