import CliUtils.Model.Status
import CliUtils.Spec.Status
import CliUtils.Lemmas.StatusShape
import CliUtils.Lemmas.StatusGeneric
import CliUtils.Lemmas.AugmentL
/-
  C07 — generic status signals take precedence; Augment agrees with Compute.
  `computeK key w o` is `status.Compute` with the `legacyTypes` dispatch key as a parameter (`compute w o` passes the key
  of the object itself), so "for every object kind" is the quantifier over `key`: every theorem below holds for all keys,
  built-in or not, and for every JSON tree `o` and clock bit `w`.
  The hypotheses are the declarative predicates of `Spec.Status` (the ones the driver evaluates on the implementation).
-/
namespace CliUtils.Props.C07
open CliUtils CliUtils.J CliUtils.KStatus CliUtils.Spec.KStatus

/-- a deletion timestamp yields Terminating, for every kind -/
theorem generic_terminating (key : String) (w : Bool) (o : J) (h : deletionSet o = true) :
    computeK key w o = .ok terminatingR := by
  simp [computeK, checkGeneric_of_deletion o h]

/-- otherwise a metadata generation different from a present observed generation yields InProgress, for every kind -/
theorem generic_generation (key : String) (w : Bool) (o : J) (hd : deletionClean o = true)
    (hg : generationMismatch o = true) :
    computeK key w o = .ok (inProgressR "LatestGenerationNotObserved") := by
  simp [computeK, checkGeneric_of_mismatch o hd hg]

/-- otherwise the first listed true Reconciling (InProgress) or true Stalled (Failed) condition decides, before any
kind-specific rule, for every kind; the result carries that condition's reason -/
theorem generic_first_condition (key : String) (w : Bool) (o : J) (cs : List BC) (c : BC)
    (hd : deletionClean o = true) (hg : generationClean o = true) (hc : convConds o = some cs)
    (hf : firstSignal cs = some c) :
    computeK key w o = .ok { status := signalStatus c, conditions := [{ type := c.type, status := "True", reason := c.reason }] } := by
  have hsig : isSignal c = true := by
    have := List.find?_some hf
    exact this
  simp only [isSignal, decide_eq_true_eq] at hsig
  simp only [computeK, checkGeneric_of_conds o cs hd hg hc, genericLoop_eq, hf, Option.map_some]
  unfold signalResult signalStatus
  rcases hsig with ⟨ht | ht, _⟩
  · simp [ht, inProgressR, reconcilingCond]
  · have : c.type ≠ "Reconciling" := by rw [ht]; decide
    simp [ht, stalledCond]

/-- with a generic signal the kind is irrelevant: the answer is the same for every two dispatch keys -/
theorem generic_signal_ignores_kind (key key' : String) (w w' : Bool) (o : J) (r : Result)
    (h : checkGenericProperties o = .ok (some r)) : computeK key w o = computeK key' w' o := by
  simp [computeK, h]

/-- kinds without specific rules follow their first Ready condition with a recognised value:
True gives Current, False or Unknown give InProgress (with the condition's reason) -/
theorem ready_fallback (key : String) (w : Bool) (o : J) (cs : List BC) (c : BC)
    (hk : legacy key = none) (hn : noGenericSignal o = true) (hc : convConds o = some cs) (hr : firstReady cs = some c) :
    computeK key w o = .ok (if c.status = "True" then currentR else inProgressR c.reason) := by
  have h0 := (checkGeneric_none_iff o).2 hn
  simp [computeK, h0, hk, checkReadyCondition, conv_of_convConds o cs hc, readyLoop_eq, hr]

/-- and are Current when no signal exists -/
theorem no_signal_current (key : String) (w : Bool) (o : J) (cs : List BC)
    (hk : legacy key = none) (hn : noGenericSignal o = true) (hc : convConds o = some cs) (hr : firstReady cs = none) :
    computeK key w o = .ok currentR := by
  have h0 := (checkGeneric_none_iff o).2 hn
  simp [computeK, h0, hk, checkReadyCondition, conv_of_convConds o cs hc, readyLoop_eq, hr]

/-- the executable C07 predicate (the one the driver evaluates on the implementation): whenever it demands a status,
the model returns a result (not an error) with that status — for every key, object and clock bit -/
theorem demand_met (key : String) (w : Bool) (o : J) (s : Status) (h : c07Demand key o = some s) :
    ∃ r, computeK key w o = .ok r ∧ r.status = s := by
  unfold c07Demand at h
  split at h
  · rename_i hdel
    injection h with h; subst h
    exact ⟨_, generic_terminating key w o hdel, rfl⟩
  · split at h
    · cases h
    · rename_i hdc0
      have hdc : deletionClean o = true := by revert hdc0; cases deletionClean o <;> simp
      split at h
      · rename_i hm
        injection h with h; subst h
        exact ⟨_, generic_generation key w o hdc hm, rfl⟩
      · split at h
        · cases h
        · rename_i hgc0
          have hgc : generationClean o = true := by revert hgc0; cases generationClean o <;> simp
          split at h
          · cases h
          · rename_i cs hcs
            split at h
            · rename_i c hf
              injection h with h; subst h
              exact ⟨_, generic_first_condition key w o cs c hdc hgc hcs hf, rfl⟩
            · rename_i hf
              have hn : noGenericSignal o = true := by simp [noGenericSignal, hdc, hgc, hcs, hf]
              split at h
              · cases h
              · rename_i hk
                split at h
                · rename_i c hr
                  refine ⟨_, ready_fallback key w o cs c hk hn hcs hr, ?_⟩
                  split at h
                  · rename_i ht; injection h with h; subst h; simp [ht, currentR]
                  · rename_i ht; injection h with h; subst h; simp [ht, inProgressR]
                · rename_i hr
                  injection h with h; subst h
                  exact ⟨_, no_signal_current key w o cs hk hn hcs hr, rfl⟩

/-- the same for `Compute` proper (the key is the object's own group/kind) -/
theorem demand_met_compute (w : Bool) (o : J) (s : Status) (h : c07Demand (kindKey o) o = some s) :
    ∃ r, compute w o = .ok r ∧ r.status = s := demand_met (kindKey o) w o s h

/-! ### Augment -/

/-- what a successful Augment returns: the object with `status.conditions` replaced by the rewritten list -/
theorem augmentK_ok (key : String) (w : Bool) (o o' : J) (h : augmentK key w o = .ok o') :
    ∃ res conds', computeK key w o = .ok res ∧ nestedSlice o ["status", "conditions"] ≠ .err ∧
      augAll res.conditions (condItems o) = some conds' ∧ setStatusConditions o (.arr conds') = some o' := by
  unfold augmentK at h
  split at h
  · cases h
  · rename_i res hres
    split at h
    · cases h
    · rename_i conds hsl
      split at h
      · cases h
      · rename_i conds' hall
        split at h
        · cases h
        · rename_i o'' hset
          injection h with h; subst h
          have hne : nestedSlice o ["status", "conditions"] ≠ .err := by
            intro he; simp [sliceItems, he] at hsl
          have hci : condItems o = conds := by
            unfold sliceItems at hsl
            unfold condItems
            split at hsl
            · cases hsl
            · rename_i hn; injection hsl with hsl; simp [hn, hsl]
            · rename_i l hn; injection hsl with hsl; simp [hn, hsl]
          exact ⟨res, conds', hres, hne, by rw [hci]; exact hall, hset⟩

/-- nothing outside `status.conditions` is touched -/
theorem augment_rest_untouched (key : String) (w : Bool) (o o' : J) (h : augmentK key w o = .ok o') :
    (∀ f rest, f ≠ "status" → nestedField o' (f :: rest) = nestedField o (f :: rest)) ∧
    (∀ f rest, f ≠ "conditions" → nestedField o' ("status" :: f :: rest) = nestedField o ("status" :: f :: rest)) := by
  obtain ⟨res, conds', _, _, _, hset⟩ := augmentK_ok key w o o' h
  exact ⟨fun f rest hf => nestedField_set_other o o' _ hset f rest hf,
         fun f rest hf => nestedField_set_status_other o o' _ hset f rest hf⟩

/-- Augment leaves all other conditions untouched: the entries of `status.conditions` that are not Reconciling/Stalled
conditions are the same values in the same order afterwards -/
theorem augment_preserves_others (key : String) (w : Bool) (o o' : J) (h : augmentK key w o = .ok o') :
    otherConds o' = otherConds o := by
  obtain ⟨res, conds', hres, _, hall, hset⟩ := augmentK_ok key w o o' h
  have ho' : condItems o' = conds' := by
    simp [condItems, nestedSlice, nestedField_set_conditions o o' _ hset]
  unfold otherConds
  rw [ho']
  rcases computeK_shaped key w o res hres with ⟨_, reason, hc⟩ | ⟨_, reason, hc⟩ | ⟨_, hc⟩ | ⟨_, hc⟩
  · rw [hc] at hall
    simp only [augAll] at hall
    split at hall
    · cases hall
    · rename_i c1 h1
      injection hall with hall; subst hall
      exact augOne_others _ _ _ h1 (Or.inl rfl)
  · rw [hc] at hall
    simp only [augAll] at hall
    split at hall
    · cases hall
    · rename_i c1 h1
      injection hall with hall; subst hall
      exact augOne_others _ _ _ h1 (Or.inr rfl)
  · rw [hc] at hall; simp only [augAll, Option.some.injEq] at hall; rw [← hall]
  · rw [hc] at hall; simp only [augAll, Option.some.injEq] at hall; rw [← hall]

/-- Augment does not change the status subsequently computed, for every dispatch key -/
theorem augment_status_stable (key : String) (w : Bool) (o o' : J) (h : augmentK key w o = .ok o') :
    ∃ r r', computeK key w o = .ok r ∧ computeK key w o' = .ok r' ∧ r'.status = r.status := by
  obtain ⟨res, conds', hres, hne, hall, hset⟩ := augmentK_ok key w o o' h
  have hconv : convConds o = convList (condItems o) := convConds_of_slice o o' _ hset hne
  -- nothing to write: the new object reads like the old one everywhere
  have nothing : res.conditions = [] → ∃ r r', computeK key w o = .ok r ∧ computeK key w o' = .ok r' ∧ r'.status = r.status := by
    intro hc
    rw [hc] at hall
    simp only [augAll, Option.some.injEq] at hall
    subst hall
    have hsim : Sim o o' := sim_of_set o o' _ hset hconv.symm
    exact ⟨res, res, hres, by rw [computeK_congr key w o o' hsim, hres], rfl⟩
  -- one standard condition written
  have written : ∀ rc : Cond, res.conditions = [rc] → (rc.type = "Reconciling" ∨ rc.type = "Stalled") → rc.status = "True" →
      (res.status = if rc.type = "Reconciling" then .inProgress else .failed) →
      ∃ r r', computeK key w o = .ok r ∧ computeK key w o' = .ok r' ∧ r'.status = r.status := by
    intro rc hc hT hS hst
    rw [hc] at hall
    simp only [augAll] at hall
    cases h1 : augOne rc (condItems o) with
    | none => simp [h1] at hall
    | some c1 =>
      simp only [h1, Option.some.injEq] at hall
      subst hall
      have hpre : genericPre o' = genericPre o := genericPre_set o o' _ hset
      have hres' := hres
      unfold computeK at hres'
      rw [checkGenericProperties_eq] at hres'
      cases hp : genericPre o with
      | error e => simp [hp] at hres'
      | ok pr =>
        cases pr with
        | some r0 =>
          simp only [hp, Except.ok.injEq] at hres'
          refine ⟨res, r0, hres, ?_, by rw [hres']⟩
          unfold computeK
          rw [checkGenericProperties_eq, hpre, hp]
        | none =>
          simp only [hp] at hres'
          cases hcv : convConds o with
          | none => simp [conv, hcv] at hres'
          | some cs =>
            simp only [conv, hcv] at hres'
            have hlist : convList (condItems o) = some cs := by rw [← hconv, hcv]
            have hnew : convConds o' = some (augBCs rc cs) := by
              rw [convConds_set o o' _ hset]; exact augOne_conv rc _ _ cs h1 hlist
            have hfirst : firstSignal cs = none ∨ ∃ c, firstSignal cs = some c ∧ c.type = rc.type := by
              cases hf : firstSignal cs with
              | none => exact Or.inl rfl
              | some c =>
                refine Or.inr ⟨c, rfl, ?_⟩
                rw [genericLoop_eq, hf] at hres'
                simp only [Option.map_some, Except.ok.injEq] at hres'
                have hcc : (signalResult c).conditions = [rc] := by rw [hres', hc]
                have hsig : isSignal c = true := List.find?_some hf
                simp only [isSignal, decide_eq_true_eq] at hsig
                unfold signalResult at hcc
                split at hcc
                · rename_i ht
                  simp only [inProgressR, reconcilingCond, List.cons.injEq, and_true] at hcc
                  rw [← hcc]; exact ht
                · rename_i ht
                  simp only [stalledCond, List.cons.injEq, and_true] at hcc
                  rw [← hcc]
                  rcases hsig.1 with h' | h'
                  · exact absurd h' ht
                  · exact h'
            obtain ⟨c', hc', ht'⟩ := firstSignal_augBCs rc cs hT hS hfirst
            refine ⟨res, signalResult c', hres, ?_, ?_⟩
            · unfold computeK
              rw [checkGenericProperties_eq, hpre, hp]
              simp [conv, hnew, genericLoop_eq, hc']
            · rw [signalResult_status, hst]
              unfold signalStatus
              rw [ht']
  rcases computeK_shaped key w o res hres with ⟨hs, reason, hc⟩ | ⟨hs, reason, hc⟩ | ⟨_, hc⟩ | ⟨_, hc⟩
  · exact written _ hc (Or.inl rfl) rfl (by simp [hs, reconcilingCond])
  · exact written _ hc (Or.inr rfl) rfl (by simp [hs, stalledCond])
  · exact nothing hc
  · exact nothing hc

/-- Augment does not change the dispatch key of the object -/
theorem augment_keeps_kind (key : String) (w : Bool) (o o' : J) (h : augmentK key w o = .ok o') : kindKey o' = kindKey o := by
  obtain ⟨ht, _⟩ := augment_rest_untouched key w o o' h
  simp only [kindKey, getNestedString, nestedString, ht, ne_eq, String.reduceEq, not_false_eq_true]

/-- the statement for `Augment` / `Compute` proper: the status computed for the augmented object is the status
computed before -/
theorem augment_then_compute (w : Bool) (o o' : J) (h : augment w o = .ok o') :
    ∃ r r', compute w o = .ok r ∧ compute w o' = .ok r' ∧ r'.status = r.status := by
  have hk := augment_keeps_kind (kindKey o) w o o' h
  unfold compute
  rw [hk]
  exact augment_status_stable (kindKey o) w o o' h

/-! ### the statements are not vacuous -/

private def dep (extra : List (String × J)) (conds : List J) : J :=
  .obj ([("apiVersion", .str "apps/v1"), ("kind", .str "Deployment")] ++ extra ++
        [("status", .obj [("conditions", .arr conds)])])

private def condJ (t s r : String) : J := .obj [("type", .str t), ("status", .str s), ("reason", .str r)]

/-- a Deployment (which alone would be InProgress: no replicas) with a true Stalled condition listed before a true
Reconciling one is Failed; with a deletion timestamp it is Terminating -/
example : (compute false (dep [] [condJ "Stalled" "True" "Boom", condJ "Reconciling" "True" "Busy"])).toOption =
    some { status := .failed, conditions := [stalledCond "Boom"] } := by decide
example : (compute false (dep [("metadata", .obj [("deletionTimestamp", .str "2020-01-01T00:00:00Z")])]
    [condJ "Stalled" "True" "Boom"])).toOption = some terminatingR := by decide
example : c07Demand "apps/Deployment" (dep [] [condJ "Stalled" "True" "Boom"]) = some .failed := by decide

/-- Augment on a Deployment without replicas appends a Reconciling condition after the untouched Available one -/
example : ((augment false (dep [] [condJ "Available" "False" "x"])).toOption.map
      (fun o' => ((condItems o').length, (otherConds o').length, (compute false o').toOption.map (·.status)))) =
    some (2, 1, some .inProgress) := by decide

end CliUtils.Props.C07
