import CliUtils.Drv.Util
import CliUtils.Model.Poll
import CliUtils.Spec.C17
/-
  Driver handlers for C17: domains aggregate, rsequal, poll, collector, podctl, readstatus.
  `spec` predicates work on the JSON of the script and of the implementation's output; they do not call the model's
  engine / comparison functions (aggregate: `Spec.aggRule`; rsequal / poll: normalised-JSON comparison and a walk over
  the script that tracks "last emitted" from the observed events).
-/
namespace CliUtils.Drv.C17
open Lean CliUtils CliUtils.Drv CliUtils.Poll

def statusOfStr : String → Except String Status
  | "InProgress" => pure .inProgress
  | "Failed" => pure .failed
  | "Current" => pure .current
  | "Terminating" => pure .terminating
  | "NotFound" => pure .notFound
  | "Unknown" => pure .unknown
  | s => throw s!"unknown status {s}"

def statusToStr : Status → String
  | .inProgress => "InProgress"
  | .failed => "Failed"
  | .current => "Current"
  | .terminating => "Terminating"
  | .notFound => "NotFound"
  | .unknown => "Unknown"

partial def rsOfJson (j : Json) : Except String RS := do
  let id ← idOfJson (← jget j "id")
  let s ← statusOfStr (← jstr j "s")
  let m ← jstr j "m"
  let g ← jget j "g"
  let res ← (if g.isNull then pure none else do pure (some (← g.getInt?)) : Except String (Option Int))
  let e ← jget j "e"
  let err ← (if e.isNull then pure none else do pure (some (← e.getStr?)) : Except String (Option String))
  let gens ← (← asList (← jget j "gen")).mapM rsOfJson
  return .mk id s m res err gens

partial def rsToJson : RS → Json
  | .mk id s m res err gens =>
    Json.mkObj [("id", idToJson id), ("s", statusToStr s), ("m", m),
      ("g", match res with | none => Json.null | some g => (g : Json)),
      ("e", match err with | none => Json.null | some t => Json.str t),
      ("gen", Json.arr (gens.map rsToJson).toArray)]

/-- independent of the model: the part of a ResourceStatus JSON that counts for "status changed"
(nil resource counts as generation 0), recursively -/
partial def normJ (j : Json) : Json :=
  let g := match jopt j "g" with | some (Json.num n) => Json.num n | _ => ((0 : Int) : Json)
  let gens := match jopt j "gen" with
    | some (Json.arr a) => Json.arr (a.map normJ)
    | _ => Json.arr #[]
  Json.mkObj [("id", (jopt j "id").getD Json.null), ("s", (jopt j "s").getD Json.null), ("m", (jopt j "m").getD Json.null),
    ("g", g), ("e", (jopt j "e").getD Json.null), ("gen", gens)]

/-! ### aggregate -/

def handleAggregate : Handler := fun i o => do
  let l ← (← asList (← jget i "l")).mapM (fun s => do statusOfStr (← s.getStr?))
  let d ← statusOfStr (← jstr i "d")
  let m := Json.str (statusToStr (aggregateS l d))
  let rule := Json.str (statusToStr (Spec.aggRule l d))
  return { model := m, agree := m == o, spec := rule == o, specModel := rule == m,
           nontrivial := l.length ≥ 2,
           tags := ["agg:" ++ statusToStr (Spec.aggRule l d), s!"agg:len{min l.length 6}"] }

/-! ### rsequal -/

def handleRsEqual : Handler := fun i o => do
  let aj ← jget i "a"
  let bj ← jget i "b"
  let a ← rsOfJson aj
  let b ← rsOfJson bj
  let m := Json.mkObj [("eq", rsEqual a b), ("rev", rsEqual b a), ("reflA", rsEqual a a), ("panic", false)]
  let want : Bool := normJ aj == normJ bj
  let specOf (x : Json) : Bool :=
    match jbool x "eq", jbool x "rev", jbool x "reflA", jbool x "panic" with
    | .ok e, .ok r, .ok rf, .ok p => !p && e == want && r == want && rf
    | _, _, _, _ => false
  return { model := m, agree := m == o, spec := specOf o, specModel := specOf m,
           nontrivial := true,
           tags := [if want then "rseq:equal" else "rseq:different",
                    if aj == bj then "rseq:identical" else "rseq:not-identical"] }

/-! ### poll -/

def errOfJson (j : Json) : Except String Err := do
  let k ← jstr j "kind"
  let t ← jstr j "text"
  match k with
  | "canceled" | "deadline" | "ctxerr" => return { kind := .ctx, text := t }
  | "notfound" => return { kind := .notFound, text := t }
  | _ => return { kind := .other, text := t }

def isCtxKind (k : String) : Bool := k == "canceled" || k == "deadline" || k == "ctxerr"

def syncOfJson (j : Json) : Except String SyncRes := do
  match (← jstr j "k") with
  | "ok" => return .ok false
  | "okcancel" => return .ok true
  | _ => return .fail (← errOfJson (← jget j "e"))

def readOfJson (j : Json) : Except String (Id × ReadRes) := do
  let id ← idOfJson (← jget j "id")
  match (← jstr j "k") with
  | "ok" => return (id, .ok (← rsOfJson (← jget j "rs")) false)
  | "okcancel" => return (id, .ok (← rsOfJson (← jget j "rs")) true)
  | _ => return (id, .fail (← errOfJson (← jget j "e")))

def pollOfJson (j : Json) : Except String Poll := do
  let sync ← syncOfJson (← jget j "sync")
  let reads ← (← asList (← jget j "reads")).mapM readOfJson
  return { sync := sync, read := fun id =>
    match reads.find? (fun r => r.1 = id) with
    | some r => r.2
    | none => .fail { kind := .other, text := "unscripted read" } }

def scopeOfStr (s : String) : Scope :=
  if s == "ns" then .namespaced
  else if s == "cluster" then .cluster
  else if s.startsWith "err:" then .err (s.drop 4).toString
  else .noMatch

def cfgOfJson (i : Json) : Except String Cfg := do
  let ids ← idsOfJson (← jget i "ids")
  let scopes ← (← asList (← jget i "scopes")).mapM (fun s => do
    let a ← s.getArr?
    return ((← a[0]!.getStr?), (← a[1]!.getStr?), (← a[2]!.getStr?)))
  let fe ← jget i "factoryErr"
  let factoryErr ← (if fe.isNull then pure none else do pure (some (← fe.getStr?)) : Except String (Option String))
  return { ids := ids, factoryErr := factoryErr, scope := fun id =>
    match scopes.find? (fun s => s.1 = id.group && s.2.1 = id.kind) with
    | some s => scopeOfStr s.2.2
    | none => .noMatch }

def eventToJson : Event → Json
  | .update rs => Json.mkObj [("t", "update"), ("rs", rsToJson rs)]
  | .error t => Json.mkObj [("t", "error"), ("e", if t == "<validate>" then "<engine>" else t)]
  | .sync => Json.mkObj [("t", "sync")]

def isErrorEv (e : Json) : Bool := match jstr e "t" with | .ok "error" => true | _ => false

/-- remaining observed events must be: nothing (no error expected) / exactly one error event -/
def endsWith (rest : List Json) (withErr : Bool) : Bool :=
  if withErr then (match rest with | [e] => isErrorEv e | _ => false) else rest.isEmpty

/-- The property, evaluated on the observed stream against the script alone:
 * the channel was closed, no panic;
 * a setup error (validation / reader factory) gives exactly one error event;
 * walking the script in order, an update for a resource is present exactly when its scripted status differs
   (normalised comparison) from the last update OBSERVED for it, or none was observed, and it carries that status;
 * a context error / cancellation ends the stream with no error event, a non-context error with exactly one, last;
 * after the context has been cancelled in the middle of a poll the stream may end at any point. -/
def specPoll (i o : Json) : Except String Bool := do
  let closed ← jbool o "closed"
  let panic ← jget o "panic"
  if !closed || !panic.isNull then return false
  let evs ← asList (← jget o "events")
  let ids ← asList (← jget i "ids")
  let scopes ← asList (← jget i "scopes")
  let scopeOf (id : Json) : String :=
    match id.getArr? with
    | .ok a =>
      (scopes.findSome? (fun s => match s.getArr? with
        | .ok sa => if sa[0]! == a[2]! && sa[1]! == a[3]! then (sa[2]!.getStr?).toOption else none
        | _ => none)).getD "nomatch"
    | _ => "nomatch"
  let nsOf (id : Json) : String := match id.getArr? with | .ok a => (a[0]!.getStr?).toOption.getD "" | _ => ""
  let setupErr := ids.any (fun id => (scopeOf id).startsWith "err:" || (scopeOf id == "ns" && nsOf id == ""))
    || !(← jget i "factoryErr").isNull
  if setupErr then return endsWith evs true
  let mut rest := evs
  let mut last : List (String × Json) := []
  -- once the context is cancelled the property no longer says how far the engine gets: it may stop at any point
  -- (but what it still sends must be right, and a context error must not produce an error event)
  let mut mayStop := false
  for p in (← asList (← jget i "polls")) do
    let sync ← jget p "sync"
    let k ← jstr sync "k"
    if k == "fail" then
      let fatal := !isCtxKind (← jstr (← jget sync "e") "kind")
      return endsWith rest fatal || (mayStop && rest.isEmpty)
    if k == "okcancel" then mayStop := true
    let reads ← asList (← jget p "reads")
    for id in ids do
      let rd ← match reads.find? (fun r => (jopt r "id") == some id) with
        | some r => pure r
        | none => throw "unscripted read"
      let rk ← jstr rd "k"
      if rk == "fail" then
        let fatal := !isCtxKind (← jstr (← jget rd "e") "kind")
        return endsWith rest fatal || (mayStop && rest.isEmpty)
      let rs ← jget rd "rs"
      let key := id.compress
      let emit := match last.lookup key with
        | none => true
        | some old => normJ rs != normJ old
      if emit then
        match rest with
        | e :: r' =>
          if e == Json.mkObj [("t", "update"), ("rs", rs)] then
            rest := r'
            last := (key, rs) :: last.filter (fun kv => kv.1 != key)
          else return false
        | [] => return mayStop
      if rk == "okcancel" then mayStop := true
  return rest.isEmpty

def handlePoll : Handler := fun i o => do
  let cfg ← cfgOfJson i
  let pollsJ ← asList (← jget i "polls")
  let script ← pollsJ.mapM pollOfJson
  let evs := run cfg script
  let m := Json.mkObj [("events", Json.arr (evs.map eventToJson).toArray), ("closed", true), ("panic", Json.null)]
  -- scripts in which a reader answers with a status for another identifier are outside the property's scope
  let wellFormed := pollsJ.all (fun p => match jget p "reads" with
    | .ok (Json.arr a) => a.all (fun r => match jopt r "rs" with
        | some rs => (jopt rs "id") == (jopt r "id")
        | none => true)
    | _ => true)
  let spec := if wellFormed then (match specPoll i o with | .ok b => b | .error _ => false) else true
  let specM := if wellFormed then (match specPoll i m with | .ok b => b | .error _ => false) else true
  let nUpd := (evs.filter Event.isUpdate).length
  let hasErr := evs.any Event.isError
  let disturbed := pollsJ.any (fun p =>
    (match jget p "sync" with | .ok s => (jstr s "k").toOption != some "ok" | _ => false) ||
    (match jget p "reads" with | .ok (Json.arr a) => a.any (fun r => (jstr r "k").toOption != some "ok") | _ => false))
  let totalReads := pollsJ.length * cfg.ids.length
  return { model := m, agree := m == o, spec := spec, specModel := specM,
           nontrivial := pollsJ.length ≥ 2 && cfg.ids.length ≥ 1,
           tags := [s!"poll:polls{min pollsJ.length 6}", s!"poll:ids{min cfg.ids.length 4}",
                    if hasErr then "poll:error-event" else "poll:no-error-event",
                    if disturbed then "poll:disturbed" else "poll:plain",
                    if nUpd < totalReads then "poll:some-suppressed" else "poll:none-suppressed",
                    if wellFormed then "poll:wf" else "poll:misidentified"] }

/-! ### collector -/

def eventOfJson (j : Json) : Except String Event := do
  match (← jstr j "t") with
  | "update" => return .update (← rsOfJson (← jget j "rs"))
  | "error" => return .error ((jstr j "e").toOption.getD "")
  | _ => return .sync

def evTypeStr : EvType → String | .update => "update" | .error => "error" | .sync => "sync"

def idKey (id : Json) : List String :=
  match id.getArr? with
  | .ok a => [a[0]!, a[2]!, a[3]!, a[1]!].map (fun x => (x.getStr?).toOption.getD "")
  | _ => []

def lexLt : List String → List String → Bool
  | a :: as, b :: bs => if a != b then a < b else lexLt as bs
  | _, _ => false

/-- property on the observation: one entry per known resource, each the last update seen for it (or the Unknown
placeholder), sorted by (namespace, group, kind, name); error = the last error event's; lastType = the last event's -/
def specCollector (i o : Json) : Except String Bool := do
  if !(← jget o "panic").isNull then return false
  let ids ← asList (← jget i "ids")
  let evs ← asList (← jget i "events")
  let sts ← asList (← jget o "statuses")
  let upd := evs.filterMap (fun e => if (jstr e "t").toOption == some "update" then jopt e "rs" else none)
  let known := (ids ++ upd.filterMap (fun r => jopt r "id")).eraseDups
  let okEach := known.all (fun id =>
    let want := match upd.reverse.find? (fun r => jopt r "id" == some id) with
      | some r => r
      | none => Json.mkObj [("id", id), ("s", "Unknown"), ("m", ""), ("g", Json.null), ("e", Json.null), ("gen", Json.arr #[])]
    (sts.filter (fun r => jopt r "id" == some id)) == [want])
  let okCount := sts.length == known.length
  let keys := sts.map (fun r => idKey ((jopt r "id").getD Json.null))
  let okSorted := (keys.zip keys.tail).all (fun (a, b) => lexLt a b)
  let errs := evs.filter isErrorEv
  let wantErr : Json := match errs.getLast? with | some e => (jopt e "e").getD (Json.str "") | none => Json.null
  let okErr := (← jget o "error") == wantErr
  let wantType : String := match evs.getLast? with | some e => (jstr e "t").toOption.getD "sync" | none => "update"
  let okType := (← jstr o "lastType") == wantType
  return okEach && okCount && okSorted && okErr && okType

def handleCollector : Handler := fun i o => do
  let ids ← idsOfJson (← jget i "ids")
  let evsJ ← asList (← jget i "events")
  let evs ← evsJ.mapM eventOfJson
  let c := collect ids evs
  let m := Json.mkObj [("lastType", evTypeStr c.lastType),
    ("statuses", Json.arr (c.observation.map rsToJson).toArray),
    ("error", match c.error with | none => Json.null | some t => Json.str t),
    ("listenerErrors", (evs.filter Event.isError).length),
    ("panic", Json.null)]
  let spec := match specCollector i o with | .ok b => b | .error _ => false
  let specM := match specCollector i m with | .ok b => b | .error _ => false
  return { model := m, agree := m == o, spec := spec, specModel := specM,
           nontrivial := evs.length ≥ 2,
           tags := [s!"coll:events{min evs.length 8}", if evs.any Event.isError then "coll:error" else "coll:no-error"] }

/-! ### podctl -/

def leadingDigits (s : String) : String := String.ofList (s.toList.takeWhile Char.isDigit)

/-- messages are compared as: "the computed message passed through" or else the number they start with -/
def canonMsg (resMsg : String) (rs : Json) : Json :=
  match jstr rs "m" with
  | .ok m => rs.setObjVal! "m" (Json.str (if m == resMsg then "=m" else leadingDigits m))
  | .error _ => rs

def specPodctl (i o : Json) : Except String Bool := do
  if !(← jget o "panic").isNull then return false
  let id ← jget i "id"
  let gen ← jget i "gen"
  let g ← jget i "g"
  let c ← jget i "c"
  let gOk := (← jstr g "k") == "ok"
  let cOk := (← jstr c "k") == "ok"
  let pods ← jget g "pods"
  let rs ← jget o "rs"
  let err ← jget o "err"
  -- which error (if any) decides: listing first, then computing
  let e? : Option Json := if !gOk then jopt g "e" else if !cOk then jopt c "e" else none
  match e? with
  | some e =>
    let kind ← jstr e "kind"
    if isCtxKind kind then return rs.isNull && err == Json.str "ctx"
    else if kind == "notfound" then
      return err.isNull && rs == Json.mkObj [("id", id), ("s", "NotFound"), ("m", "Resource not found"), ("g", Json.null),
        ("e", Json.null), ("gen", Json.arr #[])]
    else
      return err.isNull && rs == Json.mkObj [("id", id), ("s", "Unknown"), ("m", ""), ("g", gen),
        ("e", (jopt e "text").getD Json.null), ("gen", if gOk then pods else Json.arr #[])]
  | none =>
    let s ← jstr c "s"
    let msg ← jstr c "m"
    let podList ← asList pods
    let nFailed := (podList.filter (fun p => (jstr p "s").toOption == some "Failed")).length
    let fired := s == "InProgress" && nFailed > 0
    let okCommon := err.isNull && jopt rs "id" == some id && jopt rs "g" == some gen && jopt rs "e" == some Json.null
      && jopt rs "gen" == some pods
    let m ← jstr rs "m"
    let st ← jstr rs "s"
    if fired then return okCommon && st == "Failed" && leadingDigits m == toString nFailed
    else return okCommon && st == s && m == msg

def handlePodctl : Handler := fun i o => do
  let id ← idOfJson (← jget i "id")
  let gen ← jint i "gen"
  let gj ← jget i "g"
  let cj ← jget i "c"
  let g ← (if (← jstr gj "k") == "ok" then do pure (GenRes.ok (← (← asList (← jget gj "pods")).mapM rsOfJson))
           else do pure (GenRes.fail (← errOfJson (← jget gj "e"))) : Except String GenRes)
  let c ← (if (← jstr cj "k") == "ok" then do pure (Compute.ok (← statusOfStr (← jstr cj "s")) (← jstr cj "m"))
           else do pure (Compute.fail (← errOfJson (← jget cj "e"))) : Except String Compute)
  let resMsg := (jstr cj "m").toOption.getD ""
  let m := match podController id gen g c with
    | .ok rs => Json.mkObj [("rs", rsToJson rs), ("err", Json.null), ("panic", Json.null)]
    | .error e => Json.mkObj [("rs", Json.null), ("err", if e.isCtx then "ctx" else "other"), ("panic", Json.null)]
  let canon (x : Json) : Json := match jopt x "rs" with
    | some rs => if rs.isNull then x else x.setObjVal! "rs" (canonMsg resMsg rs)
    | none => x
  let spec := match specPodctl i o with | .ok b => b | .error _ => false
  let specM := match specPodctl i m with | .ok b => b | .error _ => false
  let outStatus := match jopt o "rs" with | some rs => (jstr rs "s").toOption.getD "none" | none => "none"
  return { model := m, agree := canon m == canon o, spec := spec, specModel := specM,
           nontrivial := true,
           tags := ["podctl:" ++ outStatus,
                    match g, c with
                    | .ok _, .ok _ _ => "podctl:both-ok"
                    | .fail _, _ => "podctl:list-failed"
                    | _, .fail _ => "podctl:compute-failed"] }

/-! ### readstatus -/

/-- property on the observation: context errors are handed back to the engine; a NotFound answer becomes the
NotFound status; any other failure becomes Unknown with the error attached (and the resource, once it was fetched);
otherwise the computed status and message with the fetched resource's generation -/
def specReadStatus (i o : Json) : Except String Bool := do
  if !(← jget o "panic").isNull then return false
  let id ← jget i "id"
  let mapper ← jstr i "mapper"
  let get ← jget i "get"
  let c ← jget i "c"
  let rs ← jget o "rs"
  let err ← jget o "err"
  let mk (s m : String) (g e : Json) : Json :=
    Json.mkObj [("id", id), ("s", s), ("m", m), ("g", g), ("e", e), ("gen", Json.arr #[])]
  let onErr (e : Json) (g : Json) : Except String Bool := do
    let kind ← jstr e "kind"
    if isCtxKind kind then return rs.isNull && err == Json.str "ctx"
    else if kind == "notfound" then return err.isNull && rs == mk "NotFound" "Resource not found" Json.null Json.null
    else return err.isNull && rs == mk "Unknown" "" g ((jopt e "text").getD Json.null)
  if mapper != "ok" then
    return err.isNull && jopt rs "s" == some (Json.str "Unknown") && jopt rs "g" == some Json.null
      && !((jopt rs "e").getD Json.null).isNull
  if (← jstr get "k") != "ok" then return ← onErr (← jget get "e") Json.null
  let gen ← jget get "gen"
  if (← jstr c "k") != "ok" then return ← onErr (← jget c "e") gen
  return err.isNull && rs == mk (← jstr c "s") (← jstr c "m") gen Json.null

def handleReadStatus : Handler := fun i o => do
  let id ← idOfJson (← jget i "id")
  let mapper ← jstr i "mapper"
  let mapErr : Option Err :=
    if mapper == "ok" then none
    else if mapper.startsWith "err:" then some { kind := .other, text := (mapper.drop 4).toString }
    else some { kind := .other, text := "<engine>" }
  let gj ← jget i "get"
  let cj ← jget i "c"
  let get ← (if (← jstr gj "k") == "ok" then do pure (Except.ok (← jint gj "gen"))
             else do pure (Except.error (← errOfJson (← jget gj "e"))) : Except String (Except Err Int))
  let c ← (if (← jstr cj "k") == "ok" then do pure (Except.ok ((← statusOfStr (← jstr cj "s")), (← jstr cj "m")))
           else do pure (Except.error (← errOfJson (← jget cj "e"))) : Except String (Except Err (Status × String)))
  let m := match genericRead id mapErr get c with
    | .ok rs => Json.mkObj [("rs", rsToJson rs), ("err", Json.null), ("panic", Json.null)]
    | .error e => Json.mkObj [("rs", Json.null), ("err", if e.isCtx then "ctx" else "other"), ("panic", Json.null)]
  let spec := match specReadStatus i o with | .ok b => b | .error _ => false
  let specM := match specReadStatus i m with | .ok b => b | .error _ => false
  let outStatus := match jopt o "rs" with | some rs => (jstr rs "s").toOption.getD "none" | none => "none"
  return { model := m, agree := m == o, spec := spec, specModel := specM, nontrivial := true,
           tags := ["read:" ++ outStatus] }


/-! ### pollcache — cancellation while the default caching cluster reader is listing -/

/-- domain `pollcache`: the real StatusPoller (engine + CachingClusterReader + default status readers) whose context ends while a
LIST of the cluster reader's Sync is in flight, or between two polls.  The engine model (`Poll`) says a context error from
Sync ends the run silently; the caching reader hands the LIST's context error through unchanged (whatever wraps it).  So the
expected observation is fixed: channel closed, no error event. -/
def handlePollCache : Handler := fun i o => do
  let blockAt ← jint i "blockAt"
  let m := Json.mkObj [("closed", true), ("errorEvents", (0 : Nat)), ("panic", Json.null)]
  let spec := jboolD o "closed" false && (jint o "errorEvents").toOption == some 0 && (jopt o "panic") == some Json.null
  return { model := m, agree := m == o, spec := spec, specModel := true, nontrivial := true,
           tags := [s!"pollcache:{(jstr i "end").toOption.getD "?"}", s!"pollcache:{(jstr i "wrap").toOption.getD "?"}",
                    if blockAt < 0 then "pollcache:between-polls" else "pollcache:during-list"] }

end CliUtils.Drv.C17
