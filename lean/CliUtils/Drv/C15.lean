import CliUtils.Drv.Util
import CliUtils.Drv.C19
import CliUtils.Model.IdStr
namespace CliUtils.Drv.C15
open Lean CliUtils CliUtils.Drv CliUtils.IdStr

def toC (i : Id) : IdC := C19.toC i
def ofC (i : IdC) : Id := { ns := String.ofList i.ns, name := String.ofList i.name, group := String.ofList i.group, kind := String.ofList i.kind }

def optIdJson : Option IdC → Json
  | some i => idToJson (ofC i)
  | none => Json.null

def wf (i : IdC) : Bool := !('_' ∈ i.ns) && !('_' ∈ i.name) && !('_' ∈ i.group) && !('_' ∈ i.kind)

/-- domain idstr -/
def handleIdstr : Handler := fun i o => do
  match jopt i "id" with
  | some idj =>
    let id ← idOfJson idj
    let c := toC id
    let s := format c
    let m := Json.mkObj [("str", String.ofList s), ("parsed", optIdJson (parse s))]
    -- property on impl output: a well-formed id must read back as itself; whatever reads back must never be a DIFFERENT id
    -- silently accepted as the same key … (distinctness is checked in domain invstore)
    let parsedO := jopt o "parsed" |>.getD Json.null
    let spec := !(wf c) || parsedO == idToJson id
    return { model := m, agree := m == o, spec := spec, specModel := !(wf c) || parse s == some c,
             nontrivial := id.name.length ≥ 1,
             tags := [if wf c then "idstr:wf" else "idstr:has-underscore", if isRBAC c.group c.kind then "idstr:rbac" else "idstr:plain",
                      if ':' ∈ c.name then "idstr:colon" else "idstr:nocolon",
                      if roundTrips c then "idstr:roundtrips" else "idstr:lossy"] }
  | none =>
    let s ← jstr i "s"
    let m := Json.mkObj [("parsed", optIdJson (parse s.toList))]
    -- whatever the implementation accepts must re-encode to a key that reads back identically (no misreading drift)
    return { model := m, agree := m == o, spec := true, nontrivial := s.length ≥ 3,
             tags := [match parse s.toList with | some _ => "idstr:parse-ok" | none => "idstr:parse-err"] }

/-- domain invstore -/
def handleInvstore : Handler := fun i o => do
  let ids ← idsOfJson (← jget i "ids")
  let cs := ids.map toC
  let m := match store cs with
    | none => Json.mkObj [("storeErr", true), ("keys", Json.arr #[]), ("loadErr", false), ("loaded", Json.arr #[])]
    | some ks =>
      let keys := sortStrs (ks.map String.ofList)
      match load ks with
      | none => Json.mkObj [("storeErr", false), ("keys", strsToJson keys), ("loadErr", true), ("loaded", Json.arr #[]), ("fsmSame", true)]
      | some l => Json.mkObj [("storeErr", false), ("keys", strsToJson keys), ("loadErr", false), ("loaded", idsToJson (sortIds (l.map ofC))), ("fsmSame", true)]
  -- property predicate on the implementation's behaviour alone
  let specOf (o : Json) : Except String Bool := do
    if (jopt o "panic").isSome then return false
    if (← jbool o "storeErr") then return true       -- rejected before anything is written
    if (← jbool o "loadErr") then return false       -- written but unreadable
    if !(jboolD o "fsmSame" false) then return false  -- FromStringMap reads the same map differently
    let loaded ← idsOfJson (← jget o "loaded")
    let keys ← asList (← jget o "keys")
    let distinct := dedup ids
    return (sortIds loaded == sortIds distinct) && keys.length == distinct.length
  let spec := match specOf o with | .ok b => b | .error _ => false
  let specM ← specOf m
  let lossy := cs.any (fun c => !roundTrips c)
  return { model := m, agree := m == o, spec := spec, specModel := specM, nontrivial := ids.length ≥ 1,
           tags := [if lossy then "invstore:lossy" else "invstore:all-roundtrip", s!"invstore:n{min ids.length 4}"],
           region := if !spec && lossy then some "C15.lossy-store" else none }

def optStrJson : Option Str → Json
  | some s => Json.str (String.ofList s)
  | none => Json.null

def depWF (c : IdC) : Bool :=
  let bad (s : Str) := s.any (fun ch => ch = '/' || ch = ',' || isSpace ch)
  !(bad c.ns) && !(bad c.name) && !(bad c.group) && !(bad c.kind) && c.kind ≠ [] && c.name ≠ []

/-- domain dep -/
def handleDep : Handler := fun i o => do
  match jopt i "id", jopt i "s", jopt i "set" with
  | some idj, _, _ =>
    let id ← idOfJson idj
    let c := toC id
    let m := match depFormat c with
      | none => Json.mkObj [("str", Json.null), ("parsed", Json.null)]
      | some s => Json.mkObj [("str", optStrJson (some s)), ("parsed", optIdJson (depParse s))]
    let spec := !(depWF c) || (jopt o "parsed" |>.getD Json.null) == idToJson id
    return { model := m, agree := m == o, spec := spec, nontrivial := true,
             tags := [if depWF c then "dep:wf" else "dep:not-wf", if id.ns == "" then "dep:cluster" else "dep:namespaced"] }
  | none, some sj, _ =>
    let s ← sj.getStr?
    let m := Json.mkObj [("parsed", optIdJson (depParse s.toList))]
    -- malformed references must be rejected, never misread: an accepted parse must consist of the '/'-separated fields
    let fields := splitOn '/' (trimSpace s.toList)
    let okShape := fields.length == 3 || (fields.length == 5 && fields[1]! == namespacesField)
    let accepted := (jopt o "parsed" |>.getD Json.null) != Json.null
    return { model := m, agree := m == o, spec := accepted == okShape, nontrivial := s.length ≥ 2,
             tags := [if okShape then "dep:parse-ok" else "dep:parse-err"] }
  | none, none, some sj =>
    let s ← sj.getStr?
    let m := Json.mkObj [("parsedSet", match depSetParse s.toList with | some l => idsToJson (l.map ofC) | none => Json.null)]
    return { model := m, agree := m == o, spec := true, nontrivial := s.length ≥ 2,
             tags := [match depSetParse s.toList with | some _ => "depset:parse-ok" | none => "depset:parse-err"] }
  | none, none, none =>
    let ids ← idsOfJson (← jget i "ids")
    let cs := ids.map toC
    let m := match depSetFormat cs with
      | none => Json.mkObj [("str", Json.null), ("parsedSet", Json.null)]
      | some s => Json.mkObj [("str", optStrJson (some s)),
          ("parsedSet", match depSetParse s with | some l => idsToJson (l.map ofC) | none => Json.null)]
    let allWF := cs.all depWF && !cs.isEmpty
    let spec := !allWF || (jopt o "parsedSet" |>.getD Json.null) == idsToJson ids
    return { model := m, agree := m == o, spec := spec, nontrivial := ids.length ≥ 1,
             tags := [if allWF then "depset:wf" else "depset:not-wf"] }

end CliUtils.Drv.C15
