import CliUtils.Drv.Util
import CliUtils.Model.IdSet
import CliUtils.Model.Manager
import CliUtils.Model.IdStr
namespace CliUtils.Drv.C19
open Lean CliUtils CliUtils.Drv

def toC (i : Id) : IdStr.IdC := { ns := i.ns.toList, name := i.name.toList, group := i.group.toList, kind := i.kind.toList }

/-- domain `set`: input {a,b,x}; output of the real set operations -/
def setOut (a b : List Id) (x : Id) : Json :=
  Json.mkObj [
    ("union", idsToJson (IdSet.union a b)),
    ("inter", idsToJson (IdSet.inter a b)),
    ("diff", idsToJson (IdSet.diff a b)),
    ("equal", IdSet.equal a b),
    ("contains", IdSet.contains a x),
    ("unique", idsToJson (sortIds (IdSet.unique a))),
    ("remove", idsToJson (IdSet.remove a x)),
    ("hashA", IdStr.hash (a.map toC)),
    ("hashB", IdStr.hash (b.map toC)),
    ("operandsUnchanged", true),
    ("panic", false)]

def sameMembers (a b : List Id) : Bool := a.all (· ∈ b) && b.all (· ∈ a)
def nodup (a : List Id) : Bool := decide (dedup a = a)

/-- the property predicate on observed outputs: mathematical set semantics, computed from the operands only -/
def setSpec (a b : List Id) (x : Id) (o : Json) : Except String Bool := do
  if (← jbool o "panic") then return false
  let u ← idsOfJson (← jget o "union")
  let i ← idsOfJson (← jget o "inter")
  let d ← idsOfJson (← jget o "diff")
  let q ← idsOfJson (← jget o "unique")
  let r ← idsOfJson (← jget o "remove")
  let eq ← jbool o "equal"
  let ct ← jbool o "contains"
  let hA ← jstr o "hashA"
  let hB ← jstr o "hashB"
  let unch ← jbool o "operandsUnchanged"
  let univ := a ++ b ++ u ++ i ++ d ++ q
  let okU := univ.all (fun z => decide (z ∈ u) == (decide (z ∈ a) || decide (z ∈ b)))
  let okI := univ.all (fun z => decide (z ∈ i) == (decide (z ∈ a) && decide (z ∈ b)))
  let okD := univ.all (fun z => decide (z ∈ d) == (decide (z ∈ a) && !decide (z ∈ b)))
  let okQ := sameMembers q a
  let okEq := eq == sameMembers a b
  let okCt := ct == decide (x ∈ a)
  let okNodup := nodup u && nodup i && nodup d && nodup q
  -- remove: drops exactly one slot holding x (if any) and nothing else
  let okR := r.all (· ∈ a) && (r.length == if x ∈ a then a.length - 1 else a.length) &&
             (a.filter (· ≠ x)).all (· ∈ r)
  let okHash := !(sameMembers a b) || hA == hB
  return okU && okI && okD && okQ && okEq && okCt && okNodup && okR && okHash && unch

def handleSet : Handler := fun i o => do
  let a ← idsOfJson (← jget i "a")
  let b ← idsOfJson (← jget i "b")
  let x ← idOfJson (← jget i "x")
  let m := setOut a b x
  let o' := match jopt o "unique" with
    | some q => match idsOfJson q with
      | .ok l => o.setObjVal! "unique" (idsToJson (sortIds l))
      | .error _ => o
    | none => o
  let spec ← (match setSpec a b x o with | .ok b => pure b | .error _ => pure false : Except String Bool)
  let specM ← setSpec a b x m
  let hasDup := !(nodup a) || !(nodup b)
  let region := if !spec then
      (if jboolD o "panic" false then none
       else if hasDup && sameMembers a b then some "C19.hash-duplicates" else none) else none
  return { model := m, agree := m == o', spec := spec, specModel := specM,
           nontrivial := a.length + b.length ≥ 2,
           tags := [if hasDup then "set:dups" else "set:nodups", if sameMembers a b then "set:equal" else "set:unequal",
                    if x ∈ a then "set:x-in-a" else "set:x-notin-a"],
           region := region }

/-! domain `mgr`: a sequence of operations on the actuation table -/

def stratOf : Int → Strategy | 0 => .apply | _ => .delete
def actOf : Int → Actuation | 0 => .pending | 1 => .succeeded | 2 => .skipped | _ => .failed
def rcOf : Int → Reconcile | 0 => .pending | 1 => .succeeded | 2 => .skipped | 3 => .failed | _ => .timeout
def stratN : Strategy → Int | .apply => 0 | .delete => 1
def actN : Actuation → Int | .pending => 0 | .succeeded => 1 | .skipped => 2 | .failed => 3
def rcN : Reconcile → Int | .pending => 0 | .succeeded => 1 | .skipped => 2 | .failed => 3 | .timeout => 4

def recToJson (r : Rec Id) : Json :=
  Json.arr #[idToJson r.id, stratN r.strategy, actN r.actuation, rcN r.reconcile, r.uid, r.gen]

def tableToJson (m : Mgr Id) : Json := Json.arr (m.map recToJson).toArray

/-- one operation: returns new table and the observable result -/
def mgrStep (m : Mgr Id) (op : Json) : Except String (Mgr Id × Json) := do
  let a ← op.getArr?
  let name ← a[0]!.getStr?
  match name with
  | "add" =>
    let id ← idOfJson a[1]!
    return (m.add id (stratOf (← a[2]!.getInt?)) (actOf (← a[3]!.getInt?)) (← a[4]!.getStr?) (← a[5]!.getInt?), Json.null)
  | "setrc" =>
    let id ← idOfJson a[1]!
    match m.setReconcile id (rcOf (← a[2]!.getInt?)) with
    | some m' => return (m', "ok")
    | none => return (m, "err")
  | "isact" =>
    let id ← idOfJson a[1]!
    return (m, m.isActuation id (stratOf (← a[2]!.getInt?)) (actOf (← a[3]!.getInt?)))
  | "isrc" =>
    let id ← idOfJson a[1]!
    return (m, m.isReconcile id (rcOf (← a[2]!.getInt?)))
  | "withact" =>
    return (m, idsToJson (m.withActuation (stratOf (← a[1]!.getInt?)) (actOf (← a[2]!.getInt?))))
  | "withrc" =>
    return (m, idsToJson (m.withReconcile (rcOf (← a[1]!.getInt?))))
  | "uid" =>
    let id ← idOfJson a[1]!
    let (u, ok) := m.appliedUID id
    return (m, Json.arr #[u, ok])
  | "uids" => return (m, strsToJson (sortStrs m.appliedUIDs.eraseDups))
  | "gen" =>
    let id ← idOfJson a[1]!
    let (g, ok) := m.appliedGen id
    return (m, Json.arr #[g, ok])
  | "get" =>
    let id ← idOfJson a[1]!
    match m.find? id with
    | some r => return (m, recToJson r)
    | none => return (m, Json.null)
  | _ => throw s!"mgr: unknown op {name}"

def mgrRun (ops : List Json) : Except String (Mgr Id × List Json) := do
  let mut m : Mgr Id := []
  let mut outs : List Json := []
  for op in ops do
    let (m', o) ← mgrStep m op
    m := m'
    outs := o :: outs
  return (m, outs.reverse)

/-- predicate on the implementation's observations alone: no panic anywhere; final table has one record per id;
each recorded id is listed by exactly one (strategy, actuation) query and exactly one reconcile query, and
those queries list nothing else. (`final` = {"table":…, "withact":[[s,a,ids]…], "withrc":[[rc,ids]…]}) -/
def mgrSpec (outs : List Json) (final : Json) : Except String Bool := do
  if outs.any (fun o => o == Json.str "panic") then return false
  let tbl ← asList (← jget final "table")
  let ids ← tbl.mapM (fun r => do idOfJson (← r.getArr?)[0]!)
  if dedup ids ≠ ids then return false
  let wa ← asList (← jget final "withact")
  let wr ← asList (← jget final "withrc")
  let waIds ← wa.mapM (fun e => do idsOfJson (← e.getArr?)[2]!)
  let wrIds ← wr.mapM (fun e => do idsOfJson (← e.getArr?)[1]!)
  let cnt (ls : List (List Id)) (x : Id) : Nat := (ls.map (fun l => l.count x)).foldl (· + ·) 0
  let ok1 := ids.all (fun x => cnt waIds x == 1 && cnt wrIds x == 1)
  let ok2 := (waIds.flatten ++ wrIds.flatten).all (· ∈ ids)
  return ok1 && ok2

/-- the abstract "map-based model" of the property statement: id ↦ latest record, as an association list
(independent of `Mgr.set`: delete-then-cons, order irrelevant) -/
def absStep (m : List (Id × Rec Id)) (op : Json) : Except String (List (Id × Rec Id)) := do
  let a ← op.getArr?
  match (← a[0]!.getStr?) with
  | "add" =>
    let id ← idOfJson a[1]!
    let r : Rec Id := { id := id, strategy := stratOf (← a[2]!.getInt?), actuation := actOf (← a[3]!.getInt?),
                        reconcile := .pending, uid := ← a[4]!.getStr?, gen := ← a[5]!.getInt? }
    return (id, r) :: m.filter (fun p => p.1 ≠ id)
  | "setrc" =>
    let id ← idOfJson a[1]!
    let rc := rcOf (← a[2]!.getInt?)
    return m.map (fun p => if p.1 = id then (p.1, { p.2 with reconcile := rc }) else p)
  | _ => return m

/-- final table of the implementation = the abstract map (as a set of records) -/
def mgrLatestSpec (ops : List Json) (final : Json) : Except String Bool := do
  let mut m : List (Id × Rec Id) := []
  for op in ops do m ← absStep m op
  let tbl ← asList (← jget final "table")
  let want := m.map (fun p => recToJson p.2)
  return tbl.length == want.length && want.all (fun r => tbl.contains r)

def handleMgr : Handler := fun i o => do
  let ops ← asList (← jget i "ops")
  let (m, outs) ← mgrRun ops
  let final := Json.mkObj [
    ("table", tableToJson m),
    ("withact", Json.arr ((([Strategy.apply, .delete].flatMap fun s => [Actuation.pending, .succeeded, .skipped, .failed].map fun a =>
        Json.arr #[stratN s, actN a, idsToJson (m.withActuation s a)])).toArray)),
    ("withrc", Json.arr (([Reconcile.pending, .succeeded, .skipped, .failed, .timeout].map fun rc =>
        Json.arr #[rcN rc, idsToJson (m.withReconcile rc)]).toArray))]
  let mj := Json.mkObj [("outs", Json.arr outs.toArray), ("final", final)]
  let oOuts ← asList (← jget o "outs")
  let spec := match (do return (← mgrSpec oOuts (← jget o "final")) && (← mgrLatestSpec ops (← jget o "final"))) with
    | .ok b => b | .error _ => false
  let specM := (← mgrSpec outs final) && (← mgrLatestSpec ops final)
  -- known-finding region: a uid query for an id that has no record at that point panics
  let names := ops.filterMap (fun op => match op.getArr? with | .ok a => (a[0]!.getStr?).toOption | _ => none)
  return { model := mj, agree := mj == o, spec := spec, specModel := specM,
           nontrivial := ops.length ≥ 2,
           tags := (names.eraseDups.map (fun n => "mgr:" ++ n)) ++ [s!"mgr:len{min ops.length 8}"],
           region := none }

end CliUtils.Drv.C19
