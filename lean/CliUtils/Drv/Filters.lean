import CliUtils.Drv.Util
import CliUtils.Drv.C19
import CliUtils.Model.Sys
namespace CliUtils.Drv.Filters
open Lean CliUtils CliUtils.Drv CliUtils.Sys

/-- domain `policy`: policy matrix + stateless prune filters -/
def handlePolicy : Handler := fun i o => do
  let owner ← jstr i "owner"
  let policy := (← jint i "policy").toNat % 3
  let annots ← (← asList (← jget i "annots")).mapM (fun kv => do let a ← kv.getArr?; return (← a[0]!.getStr?, ← a[1]!.getStr?))
  let id ← idOfJson (← jget i "id")
  let localNs ← (← asList (← jget i "localNs")).mapM (·.getStr?)
  let uid ← jstr i "uid"
  let applied ← (← asList (← jget i "applied")).mapM (·.getStr?)
  let m := Json.mkObj [("canApply", canApply owner policy), ("canPrune", canPrune owner policy),
    ("preventRemove", preventRemove annots), ("policyPrune", canPrune owner policy),
    ("nsInUse", namespaceInUse id localNs), ("justApplied", justApplied uid applied)]
  -- the matrix of the property statement, written out independently
  let mt := if owner = "" then 0 else if owner = "inv-1" then 1 else 2     -- empty / match / other
  let wantApply := mt == 1 || (mt == 0 && policy != 0) || (mt == 2 && policy == 2)
  let wantPrune := mt == 1 || (mt == 0 && policy != 0) || (mt == 2 && policy == 2)
  let wantPrevent := annots.any (fun kv => (kv.1 == "cli-utils.sigs.k8s.io/on-remove" && kv.2 == "keep") ||
                                           (kv.1 == "client.lifecycle.config.k8s.io/deletion" && kv.2 == "detach"))
  let spec := (jboolD o "canApply" false == wantApply) && (jboolD o "canPrune" false == wantPrune) &&
              (jboolD o "preventRemove" false == wantPrevent) && (jboolD o "policyPrune" false == wantPrune) &&
              (jboolD o "nsInUse" false == (id.group == "" && id.kind == "Namespace" && localNs.contains id.name)) &&
              (jboolD o "justApplied" false == applied.contains uid) && (jopt o "panic").isNone
  return { model := m, agree := m == o, spec := spec, nontrivial := true,
           tags := [s!"policy:p{policy}-m{mt}", if wantPrevent then "policy:prevent" else "policy:no-prevent"] }

def relOfJson (j : Json) (k : Nat) : Except String (Id × Bool × Option (Rec Id)) := do
  let id : Id := { ns := "ns1", name := s!"b{k}", group := "", kind := "ConfigMap" }
  let inv := jboolD j "invalid" false
  match jopt j "rec" with
  | some (Json.arr a) =>
    return (id, inv, some { id := id, strategy := C19.stratOf (← a[0]!.getInt?), actuation := C19.actOf (← a[1]!.getInt?),
                            reconcile := C19.rcOf (← a[2]!.getInt?) })
  | _ => return (id, inv, none)

/-- domain `depfilter` -/
def handleDepfilter : Handler := fun i o => do
  let strat := if (← jint i "strategy") == 0 then Strategy.apply else Strategy.delete
  let dry := (← jint i "dry") != 0
  let relsJ ← match jopt i "rels" with | some (Json.arr a) => pure a.toList | _ => pure []
  let rels ← (List.range relsJ.length).mapM (fun k => relOfJson relsJ[k]! k)
  let invalid := (rels.filter (·.2.1)).map (·.1)
  let mgr : Mgr Id := rels.filterMap (·.2.2)
  let res := match depFilter invalid mgr strat dry (rels.map (·.1)) with
    | .pass => "pass" | .skip r => "skip:" ++ r | .fatal r => "fatal:" ++ r
  let m := Json.mkObj [("result", res)]
  -- the gate of the property statement: passes only if EVERY relation was actuated successfully with the same strategy
  -- and (outside dry-run) reconciled
  let okRel (r : Id × Bool × Option (Rec Id)) : Bool := !r.2.1 && (match r.2.2 with
    | some rc => rc.strategy == strat && rc.actuation == .succeeded && (dry || rc.reconcile == .succeeded)
    | none => false)
  let got := (jstr o "result").toOption.getD ""
  let spec := (got == "pass") == rels.all okRel
  return { model := m, agree := m == o, spec := spec, nontrivial := !rels.isEmpty,
           tags := [s!"depfilter:{res}", if dry then "depfilter:dry" else "depfilter:real"] }

end CliUtils.Drv.Filters
