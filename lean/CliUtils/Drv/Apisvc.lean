import CliUtils.Drv.Util
/-
  domain `apisvc` (C10): one APIService applied through the real Applier — dry-run strategy × server-side apply × "the first apply
  request breaks with an HTTP/2 stream error" (the one error on which `ApplyTask` retries an APIService with client-side apply)
  × object already there or not.  The expectation is a table (a fixed expectation, not part of the run model: the whole-run model
  has no APIService kind and no retry); the property predicate is C10's: a dry-run sends no mutating request without the dry-run
  directive — a client dry-run none at all — and leaves the store as it was.
-/
namespace CliUtils.Drv.Apisvc
open Lean CliUtils CliUtils.Drv

def objJ : Json := Json.arr #["", "v1.metrics.example.com", "apiregistration.k8s.io", "APIService"]
def invJ : Json := Json.arr #["ns1", "inv", "", "ConfigMap"]
def req (verb : String) (id : Json) (dry : Bool) (res : String) : Json := Json.arr #[verb, id, dry, res]
def applyEv (st reason : String) : Json := Json.arr #["apply", "apply-0", objJ, st, reason]

/-- what the library does: (mutating requests, apply/error events, store changed) -/
def expected (dry : Nat) (ssa streamErr exists_ : Bool) (retryFails : Bool := false) : List Json × List Json × Bool :=
  let ok := [applyEv "Successful" ""]
  let failed := [applyEv "Failed" "fault"]
  match dry with
  | 1 => ([], ok, false)
  | 0 =>
    let first := req "create" invJ false "ok"
    let clientVerb := if exists_ then "patch" else "create"
    let applyVerb := if ssa then "patch" else clientVerb
    if !streamErr then ([first, req applyVerb objJ false "ok"], ok, true)
    else if ssa && retryFails then
      ([first, req "patch" objJ false "error", req clientVerb objJ false "error", req "update" invJ false "ok"], failed, true)
    else if ssa then ([first, req "patch" objJ false "error", req clientVerb objJ false "ok"], ok, true)
    else ([first, req applyVerb objJ false "error", req "update" invJ false "ok"], failed, true)
  | _ =>
    if !streamErr then ([req "patch" objJ true "ok"], ok, false)
    else if ssa && retryFails then ([req "patch" objJ true "error", req "patch" objJ true "error"], failed, false)
    else if ssa then ([req "patch" objJ true "error", req "patch" objJ true "ok"], ok, false)
    else ([req "patch" objJ true "error"], failed, false)

def handleApisvc : Handler := fun i o => do
  let dry := (← jint i "dry").toNat
  let ssa ← jbool i "ssa"
  let se ← jbool i "streamErr"
  let ex ← jbool i "exists"
  let rf := jboolD i "retryFails" false
  let (ms, es, ch) := expected dry ssa se ex rf
  let m := Json.mkObj [("crash", Json.null), ("muts", Json.arr ms.toArray), ("events", Json.arr es.toArray), ("changed", ch)]
  let crashed := match jopt o "crash" with | some Json.null => false | none => false | _ => true
  let oMuts ← asList (← jget o "muts")
  let changed ← jbool o "changed"
  -- C10 on what the implementation did
  let dryFlags ← oMuts.mapM (fun r => do let a ← r.getArr?; a[2]!.getBool?)
  -- C04 (what a dependent's gate relies on): an apply all of whose requests for the object failed is not reported successful
  let objReqs := oMuts.filter (fun r => match r with | Json.arr a => a.size == 4 && a[1]! == objJ | _ => false)
  let allFailed := !objReqs.isEmpty && objReqs.all (fun r => match r with | Json.arr a => a[3]! == Json.str "error" | _ => false)
  let oEvs ← asList (← jget o "events")
  let saysFailed := oEvs.any (fun e => match e with | Json.arr a => a.size == 5 && a[3]! == Json.str "Failed" | _ => false)
  let saysOk := !saysFailed
  let spec := !(allFailed && saysOk) && !crashed && (match dry with
    | 0 => true
    | 1 => oMuts.isEmpty && !changed
    | _ => dryFlags.all id && !changed)
  return { model := m, agree := m == o, spec := spec, specModel := true, nontrivial := true,
           note := if spec then "" else if allFailed && saysOk then "C04: every apply request for the object failed, yet its apply is not reported Failed (the record a dependent's gate reads says otherwise)" else "C10: a dry-run sent a mutating request without the dry-run directive, or changed the store",
           tags := [s!"apisvc:dry{dry}", if se then "apisvc:stream-error" else "apisvc:plain", if ssa then "apisvc:ssa" else "apisvc:csa"] }

end CliUtils.Drv.Apisvc
