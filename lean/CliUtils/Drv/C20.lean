import CliUtils.Drv.Util
import CliUtils.Model.Print
import CliUtils.Spec.EventGrammar
import CliUtils.Spec.PrintSpec
/-
  Driver handlers for C20.
    domain `print`        streams generated from the grammar, pushed through the real JSON printer
    domain `grammar-neg`  streams with one grammar violation planted: the grammar must reject them
                          (they are printed too, which ties the model's off-grammar branches — panic, formatter error)
  input   {"ps":bool, "plan":[group…], "events":[event…], "expectWf":bool, "mut":string}
  output  {"lines":[line…], "err":"none|event|result|format", "panic":bool, "nl":bool}
-/
namespace CliUtils.Drv.C20
open Lean CliUtils CliUtils.Drv CliUtils.Print CliUtils.Spec

def actOf : Int → Except String Action
  | 0 => pure .apply | 1 => pure .prune | 2 => pure .delete | 3 => pure .wait | 4 => pure .inventory
  | n => throw s!"bad action {n}"
def gstOf : Int → Except String GroupStatus
  | 0 => pure .started | 1 => pure .finished | n => throw s!"bad group status {n}"
def opOf : Int → Except String OpStatus
  | 0 => pure .pending | 1 => pure .successful | 2 => pure .skipped | 3 => pure .failed
  | n => throw s!"bad op status {n}"
def wsOf : Int → Except String WaitStatus
  | 0 => pure .pending | 1 => pure .successful | 2 => pure .skipped | 3 => pure .timeout | 4 => pure .failed
  | n => throw s!"bad wait status {n}"

def optStr (j : Json) (k : String) : Except String (Option String) :=
  match jopt j k with
  | none => pure none
  | some Json.null => pure none
  | some v => do return some (← v.getStr?)

def strD (j : Json) (k : String) : Except String String := do
  return (← optStr j k).getD ""

def idsD (j : Json) (k : String) : Except String (List Id) :=
  match jopt j k with
  | none => pure []
  | some Json.null => pure []
  | some v => idsOfJson v

def groupOfJson (j : Json) : Except String (ActionGroup Id) := do
  return { name := ← jstr j "n", action := ← actOf (← jint j "a"), ids := ← idsD j "ids" }

def evOfJson (j : Json) : Except String (Event Id) := do
  let t ← jstr j "t"
  match t with
  | "init" =>
    let gs ← match jopt j "groups" with
      | none => pure []
      | some Json.null => pure []
      | some v => (← asList v).mapM groupOfJson
    return .init gs
  | "error" => return .error (← strD j "e")
  | "group" => return .actionGroup (← strD j "g") (← actOf (← jint j "a")) (← gstOf (← jint j "s"))
  | "apply" => return .apply (← strD j "g") (← idOfJson (← jget j "id")) (← opOf (← jint j "s")) (← optStr j "e")
  | "prune" => return .prune (← strD j "g") (← idOfJson (← jget j "id")) (← opOf (← jint j "s")) (← optStr j "e")
  | "delete" => return .delete (← strD j "g") (← idOfJson (← jget j "id")) (← opOf (← jint j "s")) (← optStr j "e")
  | "wait" => return .wait (← strD j "g") (← idOfJson (← jget j "id")) (← wsOf (← jint j "s"))
  | "status" => return .status (← idOfJson (← jget j "id")) (← strD j "st") (← strD j "m")
  | "validation" => return .validation (← idsD j "ids") (← strD j "e")
  | _ => throw s!"unknown event type {t}"

def optStrJ : Option String → Json
  | none => Json.null
  | some s => Json.str s

def countsToJson : Option Counts → Json
  | none => Json.null
  | some c => Json.arr #[c.count, c.successful, c.skipped, c.failed,
      match c.timeout with | none => Json.null | some t => (t : Json)]

def lineToJson (l : Line Id) : Json :=
  Json.mkObj [("type", l.type), ("action", optStrJ l.action), ("status", optStrJ l.status), ("ids", idsToJson l.ids),
    ("error", optStrJ l.error), ("message", optStrJ l.message), ("counts", countsToJson l.counts), ("ok", true)]

def errStr : PrintErr → String
  | .none => "none" | .event => "event" | .result => "result" | .format => "format"

def errOf : String → Except String PrintErr
  | "none" => pure .none | "event" => pure .event | "result" => pure .result | "format" => pure .format
  | s => throw s!"bad err {s}"

def resultToJson (r : Result Id) : Json :=
  Json.mkObj [("lines", Json.arr (r.lines.map lineToJson).toArray), ("err", errStr r.err), ("panic", r.panicked),
    ("nl", true)]

def natOf (j : Json) : Except String Nat := do
  let i ← j.getInt?
  if i < 0 then throw "negative count"
  return i.toNat

def countsOfJson (j : Json) : Except String (Option Counts) := do
  if j == Json.null then return none
  let a ← j.getArr?
  if a.size ≠ 5 then throw "counts: need 5 fields"
  let t ← (if a[4]! == Json.null then pure none else do return some (← natOf a[4]!) : Except String (Option Nat))
  return some { count := ← natOf a[0]!, successful := ← natOf a[1]!, skipped := ← natOf a[2]!, failed := ← natOf a[3]!,
                timeout := t }

/-- a canonical output line of the implementation, and whether the harness found it a proper JSON object
(parseable, timestamp present, only known keys, fields of the right JSON type) -/
def lineOfJson (j : Json) : Except String (Line Id × Bool) := do
  let l : Line Id := {
    type := ← jstr j "type", action := ← optStr j "action", status := ← optStr j "status", ids := ← idsD j "ids",
    error := ← optStr j "error", message := ← optStr j "message", counts := ← countsOfJson (← jget j "counts") }
  return (l, ← jbool j "ok")

/-- the implementation's observed behaviour; the Bool says: every line was a proper JSON object and the output
was a sequence of newline-terminated lines -/
def resultOfJson (o : Json) : Except String (Result Id × Bool) := do
  let ls ← (← asList (← jget o "lines")).mapM lineOfJson
  let r : Result Id := { lines := ls.map (·.1), err := ← errOf (← jstr o "err"), panicked := ← jbool o "panic" }
  return (r, ls.all (·.2) && (← jbool o "nl"))

def isItem : Event Id → Bool
  | .apply .. => true | .prune .. => true | .delete .. => true | .wait .. => true | _ => false

def handle (neg : Bool) : Handler := fun i o => do
  let ps ← jbool i "ps"
  let plan ← (← asList (← jget i "plan")).mapM groupOfJson
  let es ← (← asList (← jget i "events")).mapM evOfJson
  let expectWf := jboolD i "expectWf" true
  let mut_ := (jstr i "mut").toOption.getD ""
  if neg && expectWf then throw "grammar-neg: input claims to be well-formed"
  let wf := eventsWellFormed plan es
  let m := print ps es
  let mj := resultToJson m
  -- the property predicate on the implementation's behaviour (only owed on well-formed streams)
  let specImpl := match resultOfJson o with
    | .ok (r, proper) => proper && printSpec ps es r
    | .error _ => false
  let spec := (wf == expectWf) && (!wf || specImpl)
  let specM := !wf || printSpec ps es m
  let nGroups := (finishedGroups es).length
  let tags :=
    (if neg then [s!"neg:{mut_}", if m.panicked then "neg:panic" else s!"neg:err={errStr m.err}"] else
      [s!"print:err={errStr m.err}", s!"print:groups-run={nGroups}",
       if nGroups < plan.length then "print:truncated" else "print:whole-plan",
       if ps then "print:status-printing-on" else "print:status-printing-off"] ++
      (if es.any Event.isStatus then ["print:has-status-events"] else []) ++
      (if es.any (fun e => match e with | .validation .. => true | _ => false) then ["print:has-validation"] else []) ++
      (if hasError es then ["print:has-error-event"] else []) ++
      (if hasFailure es then ["print:has-failure"] else []) ++
      (if !es.any Event.isInit then ["print:early-exit"] else []) ++
      (if countWait .timeout es > 0 then ["print:has-timeout"] else []))
  return { model := mj, agree := mj == o, spec := spec, specModel := specM,
           nontrivial := nGroups ≥ 1 && es.any isItem, tags := tags, region := none,
           note := if wf != expectWf then s!"grammar verdict {wf}, expected {expectWf}" else "" }

def handlePrint : Handler := handle false
def handleGrammarNeg : Handler := handle true

end CliUtils.Drv.C20
