import Lean.Data.Json
import CliUtils.Model.Basic
/-
  Driver plumbing (outside every theorem): JSON helpers, the verdict record, counters.
-/
namespace CliUtils.Drv
open Lean

structure Verdict where
  model : Json                 -- the model's canonical output for this input
  agree : Bool                 -- model output = implementation output (canonical forms)
  spec : Bool                  -- property predicate evaluated on the IMPLEMENTATION's output
  specModel : Bool := true     -- the same predicate on the model's output (theorems say: always true)
  nontrivial : Bool := true
  tags : List String := []
  region : Option String := none   -- when spec fails: name of the known-finding region containing the input
  note : String := ""

abbrev Handler := Json → Json → Except String Verdict

def jget (j : Json) (k : String) : Except String Json := j.getObjVal? k
def jstr (j : Json) (k : String) : Except String String := do (← j.getObjVal? k).getStr?
def jint (j : Json) (k : String) : Except String Int := do (← j.getObjVal? k).getInt?
def jbool (j : Json) (k : String) : Except String Bool := do (← j.getObjVal? k).getBool?
def jarr (j : Json) (k : String) : Except String (Array Json) := do (← j.getObjVal? k).getArr?
def jopt (j : Json) (k : String) : Option Json := (j.getObjVal? k).toOption

def jboolD (j : Json) (k : String) (d : Bool) : Bool :=
  match jbool j k with | .ok b => b | .error _ => d

def asList (j : Json) : Except String (List Json) := do return (← j.getArr?).toList

/-- ids travel as `[ns, name, group, kind]` -/
def idOfJson (j : Json) : Except String Id := do
  let a ← j.getArr?
  if a.size ≠ 4 then throw "id: need 4 fields"
  return { ns := ← a[0]!.getStr?, name := ← a[1]!.getStr?, group := ← a[2]!.getStr?, kind := ← a[3]!.getStr? }

def idToJson (i : Id) : Json := Json.arr #[i.ns, i.name, i.group, i.kind]

def idsOfJson (j : Json) : Except String (List Id) := do (← asList j).mapM idOfJson
def idsToJson (l : List Id) : Json := Json.arr (l.map idToJson).toArray

def sortIds (l : List Id) : List Id := l.mergeSort (fun a b => !(Id.lt b a))

def sortStrs (l : List String) : List String := l.mergeSort (fun a b => a ≤ b)

def strsToJson (l : List String) : Json := Json.arr (l.map Json.str).toArray

end CliUtils.Drv
