import CliUtils.Drv.Util
import CliUtils.Model.CacheReader
import CliUtils.Model.DynReader
/-
  Driver for the domain `cachereader` (C17): `o` is what the REAL `clusterreader.CachingClusterReader` answered to a
  script of sync / get / listns / listcluster operations over a scripted cluster (client.Reader) and RESTMapper; the
  model side runs `CacheReader.run` on the same script.

  `spec` is evaluated on the implementation's output and written from the property text, without the model's functions
  (only the parsed script types are shared): tracked pairs are a membership predicate over the identifiers and an explicit
  reachability table; whether a scripted failure is reached is a closed form in the number of pages; the "effective"
  Sync of a read is the last Sync the IMPLEMENTATION reported as successful.
-/
namespace CliUtils.Drv.CacheReaderD
open Lean CliUtils CliUtils.Drv CliUtils.CacheReader

/-! ### parsing -/

def listOr (j : Json) (k : String) : Except String (List Json) :=
  match jopt j k with
  | some a => if a.isNull then pure [] else asList a
  | none => pure []

def strOr (j : Json) (k : String) : String := (jstr j k).toOption.getD ""

def scopeOfStr (s : String) : Scope :=
  if s == "ns" then .namespaced
  else if s == "nomatch" then .noMatch
  else if s.startsWith "err:" then .err (s.drop 4).toString
  else .root

def scopesOfJson (l : List Json) : Except String (List (GK × Scope)) :=
  l.mapM (fun j => do
    let a ← j.getArr?
    if a.size ≠ 3 then throw "scope: need 3 fields"
    return ((⟨← a[0]!.getStr?, ← a[1]!.getStr?⟩ : GK), scopeOfStr (← a[2]!.getStr?)))

def objOfJson (j : Json) : Except String Obj := do
  let ls ← (← listOr j "l").mapM (fun p => do
    let a ← p.getArr?
    if a.size ≠ 2 then throw "label: need 2 fields"
    return (← a[0]!.getStr?, ← a[1]!.getStr?))
  return { gk := ⟨← jstr j "g", ← jstr j "k"⟩, ns := ← jstr j "ns", name := ← jstr j "n", gen := ← jint j "gen", labels := ls }

def failOfStr : String → FailKind
  | "notfound" => .notFound
  | "expired" => .expired
  | "canceled" => .canceled
  | "deadline" => .deadline
  | "cancelreal" => .cancelReal
  | _ => .other

def natOpt (i : Int) : Option Nat := if i < 0 then none else some i.toNat

/-- an outcome and the wrapping of its context error (the wrapping is invisible to the model) -/
def outcomeOfJson (j : Json) : Except String ((Pair × Outcome) × String) := do
  let o : Outcome := { page := (← jint j "page").toNat, failAt := natOpt (← jint j "failAt"), fail := failOfStr (strOr j "fail"),
                       text := strOr j "text", cancelAt := natOpt (← jint j "cancelAt"), fbFail := jboolD j "fbFail" false }
  return ((((⟨← jstr j "g", ← jstr j "k"⟩ : GK), ← jstr j "ns"), o), strOr j "wrap")

def selOfJson (j : Json) : Sel :=
  match jopt j "sel" with
  | none => .all
  | some s =>
    if s.isNull then .all else
    match strOr s "t" with
    | "nothing" => .nothing
    | "eq" => .eq (strOr s "k") (strOr s "v")
    | "neq" => .neq (strOr s "k") (strOr s "v")
    | "has" => .has (strOr s "k")
    | _ => .all

/-- an operation, plus the wrappings used by its outcomes (for tags) -/
def opOfJson (j : Json) : Except String (Op × List String) := do
  let gk : GK := ⟨strOr j "g", strOr j "k"⟩
  match ← jstr j "op" with
  | "sync" =>
    let cl ← (← listOr j "cluster").mapM objOfJson
    let sc ← scopesOfJson (← listOr j "scopes")
    let os ← (← listOr j "lists").mapM outcomeOfJson
    return (.sync { cluster := cl, scopes := sc, outcomes := os.map (·.1) },
            os.filterMap (fun (po, w) => if po.2.failAt.isSome && (po.2.fail == .canceled || po.2.fail == .deadline || po.2.fail == .cancelReal) then some w else none))
  | "get" => return (.get gk (strOr j "ns") (strOr j "n"), [])
  | "listns" => return (.listNs gk (strOr j "ns") (selOfJson j), [])
  | "listcluster" => return (.listCluster gk (selOfJson j), [])
  | s => throw s!"unknown op {s}"

/-! ### rendering in the shape of the Go harness -/

def errStr : Err → String
  | .ctxCanceled => "ctx:canceled"
  | .ctxDeadline => "ctx:deadline"
  | .noMatch => "nomatch"
  | .mapper t => "script:" ++ t
  | .list t nf => (if nf then "script-nf:" else "script:") ++ t
  | .notFound => "notfound"
  | .notInCache => "not-in-cache"
  | .other => "other"

/-- labels as the Go side reports them: first entry per key, sorted by key -/
def canonLabels (l : List (String × String)) : List (String × String) :=
  let rec firsts : List (String × String) → List String → List (String × String)
    | [], _ => []
    | (k, v) :: r, seen => if seen.contains k then firsts r seen else (k, v) :: firsts r (k :: seen)
  (firsts l []).mergeSort (fun a b => a.1 ≤ b.1)

def labelsJson (l : List (String × String)) : Json :=
  Json.arr ((canonLabels l).map (fun (k, v) => Json.arr #[k, v])).toArray

def errJson (e : Err) : Json := Json.mkObj [("r", errStr e)]

def resJson : Res → Json
  | .found o => Json.mkObj [("r", "found"), ("ns", o.ns), ("n", o.name), ("gen", o.gen), ("l", labelsJson o.labels)]
  | .items l => Json.mkObj [("r", "items"), ("items", Json.arr (l.map (fun o => Json.arr #[o.ns, o.name, o.gen])).toArray)]
  | .err e => errJson e

def outJson : Out → Json
  | .sync none => Json.mkObj [("r", "ok")]
  | .sync (some e) => errJson e
  | .read r => resJson r

def runJson (outs : List Out) : Json :=
  Json.mkObj [("ctor", "ok"), ("res", Json.arr (outs.map outJson).toArray), ("panic", Json.null)]

/-! ## the property predicate (C17, cluster reader), computed from the script and an OUTPUT only

  "What the engine reports per poll is only right if the cache answers exactly what the cluster held at Sync time":
  (a) after a successful Sync, `get` of a tracked pair answers what the scripted cluster held at that Sync for that name
      (found with that generation / labels, or NotFound); lists return exactly the objects of the pair matching the selector;
  (b) a LIST that failed with a non-context error makes exactly the reads of that pair fail with that error;
  (c) a context error from any LIST aborts Sync with an error `errors.Is` recognises as that context error, and the previous
      cache stays (the reads that follow are judged against the last Sync that reported success);
  (d) reads of untracked pairs are errors, never silent empties;
  (e) Sync fails only for a reason the script contains (mapper error of a tracked kind, context error / cancellation).
-/

/-- generated-kind reachability, from the table in caching_reader.go -/
def reaches (a b : GK) : Bool :=
  a == b ||
  (a == (⟨"apps", "Deployment"⟩ : GK) && (b == (⟨"apps", "ReplicaSet"⟩ : GK) || b == (⟨"", "Pod"⟩ : GK))) ||
  (a == (⟨"apps", "ReplicaSet"⟩ : GK) && b == (⟨"", "Pod"⟩ : GK)) ||
  (a == (⟨"apps", "StatefulSet"⟩ : GK) && b == (⟨"", "Pod"⟩ : GK))

def sTracked (ids : List Pair) (p : Pair) : Bool := ids.any (fun id => id.2 == p.2 && reaches id.1 p.1)

def sScope (t : List (GK × Scope)) (gk : GK) : Scope := ((t.find? (fun e => e.1 == gk)).map (·.2)).getD .noMatch

def sOutcome (t : List (Pair × Outcome)) (p : Pair) : Option Outcome := (t.find? (fun e => e.1 == p)).map (·.2)

def sListNs (sc : Scope) (ns : String) : String := match sc with | .namespaced => ns | _ => ""

def sObjs (cluster : List Obj) (gk : GK) (lns : String) : List Obj :=
  cluster.filter (fun o => o.gk == gk && (lns == "" || o.ns == lns))

def sLabel (o : Obj) (k : String) : Option String := (o.labels.find? (fun e => e.1 == k)).map (·.2)

def sMatch (s : Sel) (o : Obj) : Bool :=
  match s with
  | .all => true
  | .nothing => false
  | .eq k v => sLabel o k == some v
  | .neq k v => !(sLabel o k == some v)
  | .has k => (sLabel o k).isSome

/-- number of page requests an undisturbed LIST of n items needs -/
def numPages (o : Outcome) (n : Nat) : Nat :=
  let sz := if o.page == 0 || o.page > 500 then 500 else o.page
  if n == 0 then 1 else (n + sz - 1) / sz

/-- how the LIST of one pair ends when it is reached with a live context (cancelAt aside) -/
inductive LC where
  | ok
  | err (s : String)       -- a non-context error, rendered
  | ctx (s : String)       -- a context error, rendered

def classify (oc : Option Outcome) (n : Nat) : LC :=
  match oc with
  | none => .ok
  | some o =>
    match o.failAt with
    | none => .ok
    | some k =>
      if k < numPages o n then
        match o.fail with
        | .other => .err ("script:" ++ o.text)
        | .notFound => .err ("script-nf:" ++ o.text)
        | .expired => if k == 0 then .err ("script:" ++ o.text) else if o.fbFail then .err ("script:" ++ o.text ++ "-fb") else .ok
        | .canceled => .ctx "ctx:canceled"
        | .deadline => .ctx "ctx:deadline"
        | .cancelReal => .ctx "ctx:canceled"
      else .ok

/-- a successful page request cancels the context; the second component: it is not the last request of its LIST, so the
pager itself notices the cancellation before the next page -/
def cancels (oc : Option Outcome) (n : Nat) : Bool × Bool :=
  match oc with
  | none => (false, false)
  | some o =>
    match o.cancelAt with
    | none => (false, false)
    | some j =>
      let fires := j < numPages o n && (match o.failAt with | some k => j < k | none => true)
      (fires, fires && j + 1 < numPages o n)

/-- all (GroupKind, namespace) pairs a script talks about -/
def pairUniverse (ids : List Pair) (ops : List Op) : List Pair :=
  (ids.flatMap (fun id => [id, ((⟨"apps", "ReplicaSet"⟩ : GK), id.2), ((⟨"", "Pod"⟩ : GK), id.2)]) ++
   ops.flatMap (fun op => match op with
     | .get gk ns _ => [(gk, ns)]
     | .listNs gk ns _ => [(gk, ns)]
     | .listCluster gk _ => [(gk, "")]
     | .sync _ => [])).eraseDups

def chk (ok : Bool) (name : String) : List String := if ok then [] else [name]

def rOf (j : Json) : String := strOr j "r"

/-- clauses (c)/(e) for one Sync -/
def syncViolations (ids : List Pair) (uni : List Pair) (inp : SyncIn) (r : String) : List String :=
  let tr := uni.filter (sTracked ids)
  let facts := tr.map (fun p =>
    match sScope inp.scopes p.1 with
    | .noMatch => (false, ([] : List String))
    | .err t => (true, ["script:" ++ t])
    | sc =>
      let lns := sListNs sc p.2
      let n := (sObjs inp.cluster p.1 lns).length
      let oc := sOutcome inp.outcomes (p.1, lns)
      let (must, rs) := match classify oc n with
        | .ctx s => (true, [s])
        | _ => (false, [])
      let (fires, midList) := cancels oc n
      (must || midList, rs ++ (if fires then ["ctx:canceled"] else [])))
  let must := facts.any (·.1)
  let reasons := facts.flatMap (·.2)
  if r == "ok" then chk (!must) "sync:ok-despite-abort-reason"
  else chk (reasons.contains r) ("sync:unjustified-error:" ++ r)

/-- the expected answer of a read, as a predicate on the output element -/
def readViolations (ids : List Pair) (cur : List (GK × Scope)) (eff : Option SyncIn) (op : Op) (j : Json) : List String :=
  let r := rOf j
  let isGet := match op with | .get .. => true | _ => false
  let (gk, ns) : Pair := match op with
    | .get gk ns _ => (gk, ns) | .listNs gk ns _ => (gk, ns) | .listCluster gk _ => (gk, "") | .sync _ => (⟨"", ""⟩, "")
  -- Get consults the mapper first (the table in force NOW)
  let mapperErr : Option String := if !isGet then none else
    match sScope cur gk with
    | .noMatch => some "nomatch"
    | .err t => some ("script:" ++ t)
    | _ => none
  match mapperErr with
  | some e => chk (r == e) "get:mapper-error-expected"
  | none =>
    if !sTracked ids (gk, ns) then chk (r == "not-in-cache") "read:untracked-not-an-error"
    else match eff with
    | none => chk (r == "not-in-cache") "read:before-first-sync"
    | some inp =>
      match sScope inp.scopes gk with
      | .noMatch => chk (r == "nomatch") "read:nomatch-entry-expected"
      | .err _ => ["read:sync-should-have-failed"]
      | sc =>
        let lns := sListNs sc ns
        let objs := sObjs inp.cluster gk lns
        match classify (sOutcome inp.outcomes (gk, lns)) objs.length with
        | .ctx _ => ["read:sync-should-have-aborted"]
        | .err s => chk (r == s) "read:list-error-expected"
        | .ok =>
          match op with
          | .get _ _ name =>
            let cands := objs.filter (fun o => o.name == name)
            if cands.isEmpty then chk (r == "notfound") "get:notfound-expected"
            else chk (r == "found" && cands.any (fun o =>
                   jopt j "ns" == some (Json.str o.ns) && jopt j "n" == some (Json.str o.name) &&
                   jopt j "gen" == some (o.gen : Json) && jopt j "l" == some (labelsJson o.labels))) "get:wrong-object"
          | .listNs _ _ sel | .listCluster _ sel =>
            let want := Json.arr ((objs.filter (sMatch sel)).map (fun o => Json.arr #[o.ns, o.name, o.gen])).toArray
            chk (r == "items" && jopt j "items" == some want) "list:wrong-items"
          | .sync _ => []

/-- walk the script with the output: `cur` = mapper table in force, `eff` = last Sync reported successful -/
def walk (ids : List Pair) (uni : List Pair) : List Op → List Json → List (GK × Scope) → Option SyncIn → List String
  | [], [], _, _ => []
  | op :: ops, j :: js, cur, eff =>
    match op with
    | .sync inp =>
      let r := rOf j
      syncViolations ids uni inp r ++ walk ids uni ops js inp.scopes (if r == "ok" then some inp else eff)
    | _ => readViolations ids cur eff op j ++ walk ids uni ops js cur eff
  | _, _, _, _ => ["result-count"]

def violations (ids : List Pair) (scopes : List (GK × Scope)) (ops : List Op) (o : Json) : List String :=
  match jopt o "panic" with
  | some Json.null =>
    if strOr o "ctor" != "ok" then ["constructor-error"] else
    match listOr o "res" with
    | .ok res => walk ids (pairUniverse ids ops) ops res scopes none
    | .error _ => ["unparsable"]
  | _ => ["panic"]

/-! ### tags -/

def tagsOf (ids : List Pair) (ops : List Op) (outs : List Out) (wraps : List String) : List String :=
  let tracked := trackedOf ids
  let rec go : List Op → List Out → Bool → Bool → List String
    | op :: ops, out :: outs, hadOk, lastFailed =>
      let t : List String := match op, out with
        | .sync inp, .sync none =>
          ["sync:ok"] ++
          (if tracked.any (fun p => (scopeOf inp.scopes p.1).isMapping && (pairItems inp p).length > pageSize (pairOutcome inp p))
           then ["sync:multi-page"] else []) ++
          (if tracked.any (fun p => let o := pairOutcome inp p
                                    (scopeOf inp.scopes p.1).isMapping && o.fail == .expired && !o.fbFail &&
                                    (match o.failAt with | some k => 1 ≤ k && k < numPages o (pairItems inp p).length | none => false))
           then ["sync:expired-fallback"] else []) ++
          (if tracked.any (fun p => (pairOutcome inp p).cancelAt.isSome) then ["sync:ok-with-cancelAt"] else []) ++
          (if hadOk then ["sync:again"] else [])
        | .sync _, .sync (some e) =>
          [match e with | .mapper _ => "sync:mapper-error" | e => "sync:" ++ errStr e] ++ (if hadOk then ["sync:failed-after-ok"] else [])
        | .get gk ns _, .read r =>
          [match r with
           | .found _ => "get:found"
           | .err (.list _ true) => "get:list-error-notfound"
           | .err (.list _ false) => "get:list-error"
           | .err (.mapper _) => "get:mapper-error"
           | .err e => "get:" ++ errStr e
           | .items _ => "get:?"] ++
          (if lastFailed && hadOk && tracked.contains (gk, ns) then ["read:old-cache-after-failed-sync"] else []) ++
          (if tracked.contains (gk, ns) && !ids.contains (gk, ns) then ["read:generated-kind"] else [])
        | .listNs gk ns sel, .read r =>
          [match r with
           | .items l => if l.isEmpty then "listns:empty" else "listns:items"
           | .err (.list _ _) => "listns:list-error"
           | .err e => "listns:" ++ errStr e
           | .found _ => "listns:?"] ++
          (match r, sel with
           | .items _, .all => [] | .items _, _ => ["list:selector"] | _, _ => []) ++
          (if lastFailed && hadOk && tracked.contains (gk, ns) then ["read:old-cache-after-failed-sync"] else [])
        | .listCluster _ sel, .read r =>
          [match r with
           | .items l => if l.isEmpty then "listcluster:empty" else "listcluster:items"
           | .err (.list _ _) => "listcluster:list-error"
           | .err e => "listcluster:" ++ errStr e
           | .found _ => "listcluster:?"] ++
          (match r, sel with
           | .items _, .all => [] | .items _, _ => ["list:selector"] | _, _ => [])
        | _, _ => ["?"]
      let (hadOk', lastFailed') := match out with
        | .sync none => (true, false)
        | .sync (some _) => (hadOk, true)
        | _ => (hadOk, lastFailed)
      t ++ go ops outs hadOk' lastFailed'
    | _, _, _, _ => []
  let ts := go ops outs false false ++ wraps.map (fun w => "ctx-wrap:" ++ w) ++
    (if ids.any (fun id => id.2 == "" && id.1 != (⟨"", "Namespace"⟩ : GK)) then ["ids:namespaced-kind-without-namespace"] else []) ++
    (if ids.any (fun id => id.2 != "" && id.1 == (⟨"", "Namespace"⟩ : GK)) then ["ids:root-kind-with-namespace"] else [])
  ts.eraseDups.map (fun t => "cachereader:" ++ t)

/-- domain `cachereader` -/
def handleCacheReader : Handler := fun i o => do
  let ids := (← idsOfJson (← jget i "ids")).map (fun id => ((⟨id.group, id.kind⟩ : GK), id.ns))
  let scopes ← scopesOfJson (← listOr i "scopes")
  let opsW ← (← listOr i "ops").mapM opOfJson
  let ops := opsW.map (·.1)
  let outs := run (init ids scopes) ops
  let m := runJson outs
  let v := violations ids scopes ops o
  let vm := violations ids scopes ops m
  let nSync := (ops.filter (fun op => match op with | .sync _ => true | _ => false)).length
  return { model := m, agree := m == o, spec := v.isEmpty, specModel := vm.isEmpty,
           nontrivial := nSync ≥ 1 && ops.length > nSync,
           tags := tagsOf ids ops outs (opsW.flatMap (·.2)), region := none,
           note := String.intercalate "," v ++ (if vm.isEmpty then "" else " | model: " ++ String.intercalate "," vm) }


/-! ## domain `dynreader`: the real `DynamicClusterReader` over the fake dynamic client -/

namespace Dyn
open CliUtils.DynReader

def dopOfJson (j : Json) : Except String DynReader.Op := do
  let gk : GK := ⟨strOr j "g", strOr j "k"⟩
  match ← jstr j "op" with
  | "put" => return .put (← objOfJson (← jget j "obj"))
  | "del" => return .del gk (strOr j "ns") (strOr j "n")
  | "fail" =>
    let v := if strOr j "verb" == "get" then Verb.get else Verb.list
    let e : Option Err := match strOr j "e" with
      | "none" => none
      | "notfound" => some (.list (strOr j "text") true)
      | "canceled" => some .ctxCanceled
      | _ => some (.list (strOr j "text") false)
    return .fail v gk e
  | "get" => return .get gk (strOr j "ns") (strOr j "n")
  | "listns" => return .listNs gk (strOr j "ns") (selOfJson j)
  | "listcluster" => return .listCluster gk (selOfJson j)
  | s => throw s!"unknown op {s}"

def objLe (a b : Obj) : Bool := a.ns < b.ns || (a.ns == b.ns && a.name ≤ b.name)

/-- list items are reported sorted by (namespace, name): the fake's tracker hands them out in map order -/
def sortedRes : Res → Res
  | .items l => .items (l.mergeSort objLe)
  | r => r

def dynJson (outs : List (Option Res)) : Json :=
  Json.mkObj [("res", Json.arr (outs.map (fun o => match o with
      | none => Json.mkObj [("r", "ok")]
      | some r => resJson (sortedRes r))).toArray), ("panic", Json.null)]

/-! the property predicate: every read answers the CURRENT content. Own replay of the script (newest first, erase-then-cons),
own selector matching (`sMatch`); a `nothing` selector is outside the predicate: it cannot be expressed in the request
(`labels.Nothing().String() == ""`), the reader returns everything — compared with the model only. -/

def dynWalk : List DynReader.Op → List Json → List Obj → List ((Bool × GK) × String) → List (GK × Scope) → List String
  | [], [], _, _, _ => []
  | op :: ops, j :: js, cur, fails, sc =>
    let r := rOf j
    let mapperErr (gk : GK) : Option String := match sScope sc gk with
      | .noMatch => some "nomatch" | .err t => some ("script:" ++ t) | _ => none
    let failure (isGet : Bool) (gk : GK) : Option String := (fails.find? (fun f => f.1 == (isGet, gk))).map (·.2)
    match op with
    | .put o => chk (r == "ok") "put" ++
        dynWalk ops js (o :: cur.filter (fun x => !(x.gk == o.gk && x.ns == o.ns && x.name == o.name))) fails sc
    | .del gk ns n => dynWalk ops js (cur.filter (fun x => !(x.gk == gk && x.ns == ns && x.name == n))) fails sc
    | .fail v gk e =>
      let key := (v == Verb.get, gk)
      let rest := fails.filter (fun f => f.1 != key)
      dynWalk ops js cur (match e with | none => rest | some e => (key, errStr e) :: rest) sc
    | .get gk ns n =>
      (match mapperErr gk with
       | some e => chk (r == e) "get:mapper-error-expected"
       | none => match failure true gk with
         | some e => chk (r == e) "get:request-error-expected"
         | none =>
           match cur.find? (fun o => o.gk == gk && o.ns == ns && o.name == n) with
           | none => chk (r == "notfound") "get:notfound-expected"
           | some o => chk (r == "found" && jopt j "ns" == some (Json.str o.ns) && jopt j "n" == some (Json.str o.name) &&
                            jopt j "gen" == some (o.gen : Json) && jopt j "l" == some (labelsJson o.labels)) "get:not-the-current-object")
      ++ dynWalk ops js cur fails sc
    | .listNs gk _ sel | .listCluster gk sel =>
      let ns := match op with | .listNs _ ns _ => ns | _ => ""
      (match mapperErr gk with
       | some e => chk (r == e) "list:mapper-error-expected"
       | none => match failure false gk with
         | some e => chk (r == e) "list:request-error-expected"
         | none =>
           if sel == .nothing then chk (r == "items") "list:items-expected" else
           let want := (cur.filter (fun o => o.gk == gk && (ns == "" || o.ns == ns) && sMatch sel o)).mergeSort objLe
           chk (r == "items" && jopt j "items" == some (Json.arr (want.map (fun o => Json.arr #[o.ns, o.name, o.gen])).toArray))
             "list:not-the-current-content")
      ++ dynWalk ops js cur fails sc
  | _, _, _, _, _ => ["result-count"]

def dynViolations (scopes : List (GK × Scope)) (ops : List DynReader.Op) (o : Json) : List String :=
  match jopt o "panic" with
  | some Json.null =>
    match listOr o "res" with
    | .ok res => dynWalk ops res [] [] scopes
    | .error _ => ["unparsable"]
  | _ => ["panic"]

def dynTags (ops : List DynReader.Op) (outs : List (Option Res)) : List String :=
  ((ops.zip outs).flatMap (fun (op, out) =>
    let kind := match op with
      | .get .. => "get" | .listNs .. => "listns" | .listCluster .. => "listcluster" | .put _ => "put" | .del .. => "del" | .fail .. => "fail"
    match out with
    | none => [kind]
    | some r =>
      [kind ++ ":" ++ (match r with
        | .found _ => "found"
        | .items l => if l.isEmpty then "empty" else "items"
        | .err (.list _ nf) => if nf then "request-error-notfound" else "request-error"
        | .err (.mapper _) => "mapper-error"
        | .err e => errStr e)] ++
      (match op, r with
       | .listNs _ _ .nothing, .items (_ :: _) => ["selector-nothing-returns-everything"]
       | .listCluster _ .nothing, .items (_ :: _) => ["selector-nothing-returns-everything"]
       | .listNs _ _ .all, .items _ => []
       | .listCluster _ .all, .items _ => []
       | .listNs .., .items _ => ["list:selector"]
       | .listCluster .., .items _ => ["list:selector"]
       | _, _ => []))).eraseDups.map (fun t => "dynreader:" ++ t)

/-- domain `dynreader` -/
def handleDynReader : Handler := fun i o => do
  let scopes ← scopesOfJson (← listOr i "scopes")
  let ops ← (← listOr i "ops").mapM dopOfJson
  let outs := DynReader.run (DynReader.init scopes) ops
  let m := dynJson outs
  let v := dynViolations scopes ops o
  let vm := dynViolations scopes ops m
  return { model := m, agree := m == o, spec := v.isEmpty, specModel := vm.isEmpty,
           nontrivial := outs.any (·.isSome) && outs.any (·.isNone),
           tags := dynTags ops outs, region := none,
           note := String.intercalate "," v ++ (if vm.isEmpty then "" else " | model: " ++ String.intercalate "," vm) }

end Dyn

end CliUtils.Drv.CacheReaderD
