import CliUtils.Drv.Util
import CliUtils.Model.Sys
import CliUtils.Spec.EventGrammar
import CliUtils.Spec.SysSpec
/-
  Driver for the system-level domain `sys`: a history of apply/destroy runs.  `o` is what the real Applier/Destroyer did
  over the fake cluster (events, mutating requests with snapshots, final store); the model replays the same history.
-/
namespace CliUtils.Drv.SysD
open Lean CliUtils CliUtils.Drv CliUtils.Sys

def optId (j : Json) : Except String (Option Id) := if j.isNull then pure none else do return some (← idOfJson j)

def manifestOfJson (j : Json) : Except String Manifest := do
  let id ← idOfJson (← jget j "id")
  let deps ← match jopt j "deps" with | some d => idsOfJson d | none => pure []
  let mutFrom ← match jopt j "mutFrom" with | some d => optId d | none => pure none
  return { id := id, deps := deps, depsRaw := (jstr j "depsRaw").toOption.getD "", keep := jboolD j "keep" false,
           detach := jboolD j "detach" false, rev := (jint j "rev").toOption.getD 0, mutFrom := mutFrom, mutExt := jboolD j "mutExt" false, mutBad := jboolD j "mutBad" false,
           owner := (jstr j "owner").toOption.getD "" }

def idOfKey (k : String) : Id :=
  match k.splitOn "|" with
  | [a, b, c, d] => { ns := a, name := b, group := c, kind := d }
  | _ => { ns := "", name := k, group := "", kind := "" }

def behaviours (j : Json) (k : String) : Except String (List (Id × String)) :=
  match jopt j k with
  | some (Json.obj kvs) => pure (kvs.toList.map (fun (key, v) => (idOfKey key, (v.getStr?).toOption.getD "")))
  | _ => pure []

def natList (j : Json) (k : String) : Except String (List Nat) :=
  match jopt j k with
  | some a => do (← asList a).mapM (fun x => x.getNat?)
  | none => pure []

def parseCancel (s : String) : CancelAt :=
  if s = "before-sync" then .beforeSync
  else match s.splitOn ":" with
    | ["mut", k] => .mut k.toNat!
    | ["wait", n, "end"] => .wait n.toNat! none
    | ["wait", n, j] => .wait n.toNat! (some j.toNat!)
    | _ => .never

def runOfJson (j : Json) : Except String Run := do
  let o ← jget j "opts"
  let opts : Opts := {
    noPrune := jboolD o "noPrune" false, policy := ((jint o "policy").toOption.getD 0).toNat % 3,
    dry := (match (jint o "dry").toOption.getD 0 with | 1 => .client | 2 => .server | _ => .none),
    skipInvalid := jboolD o "skipInvalid" false, ssa := jboolD o "ssa" false, timeout := jboolD o "timeout" false,
    emitStatus := jboolD o "emitStatus" false, foreground := jboolD o "foreground" false,
    statusAll := jboolD o "statusAll" false }
  let objs ← match jopt j "objs" with
    | some a => if a.isNull then pure [] else (← asList a).mapM manifestOfJson
    | none => pure []
  -- the same id twice in one apply set: the library hands every id's LAST manifest to the apply task (`HydrateSetList` maps ids
  -- to objects); the run model is stated for apply sets with one manifest per id, so the set is normalised here — the first
  -- occurrence keeps its place, the last one provides the content
  let objs := (objs.foldl (fun (acc : List Manifest) m =>
      if acc.any (fun x => x.id == m.id) then acc.map (fun x => if x.id == m.id then m else x) else acc ++ [m]) [])
  let failGet ← match jopt j "failGet" with | some a => idsOfJson a | none => pure []
  let envDel ← match jopt j "envDel" with | some a => idsOfJson a | none => pure []
  let initial ← match jopt j "initial" with | some a => idsOfJson a | none => pure []
  let failInfo ← match jopt j "failInfo" with
    | some a => if a.isNull then pure [] else (← asList a).mapM (·.getStr?)
    | none => pure []
  let watchErr := match ((jstr j "watchErr").toOption.getD "").splitOn ":" with
    | ["wait", n, k] => some (n.toNat!, k.toNat!)
    | _ => none
  let watchErrMut := match ((jstr j "watchErr").toOption.getD "").splitOn ":" with
    | ["mut", k] => some k.toNat!
    | _ => none
  return { destroy := (← jstr j "kind") = "destroy", objs := objs, opts := opts,
           failMut := ← natList j "failMut", failInvRead := ← natList j "failInvRead", failGet := failGet,
           ctrl := ← behaviours j "ctrl", del := ← behaviours j "del",
           cancel := parseCancel ((jstr j "cancel").toOption.getD ""), watchErr := watchErr, watchErrMut := watchErrMut,
           envDel := envDel, initial := initial, failInfo := failInfo }

/-! JSON rendering in the shape of the Go harness -/

def liveJson (o : Live) : Json :=
  Json.mkObj [("id", idToJson o.id), ("uid", o.uid), ("gen", o.gen), ("owner", o.owner), ("deleting", o.deleting), ("rev", o.rev),
              ("frm", o.frm.getD "")]

def sortLives (l : List Live) : List Live := l.mergeSort (fun a b => !(Id.lt b.id a.id))

def snapJson (s : Snap) : Json :=
  Json.mkObj [("inv", match s.inv with | some l => idsToJson (sortIds l) | none => Json.null),
              ("objs", Json.arr ((sortLives s.objs).map liveJson).toArray)]

/-- which dependent of an object is looked at first depends on the iteration order of a Go map (the stored inventory is read
from a map), so when several dependents block for different reasons the reported reason is not determined: the two skip
classes are compared as one -/
def canonReason (r : String) : String := if r = "dep-blocked" || r = "dep-mismatch" then "dep-skip" else r

def evJson : Ev → Json
  | .init gs => Json.arr #["init", Json.arr (gs.map (fun (n, a, ids) => Json.arr #[n, a, idsToJson ids])).toArray]
  | .error k => Json.arr #["error", k]
  | .group n a st => Json.arr #["group", n, a, st]
  | .op k g id st r => Json.arr #[k, g, idToJson id, st, canonReason r]
  | .wait g id st => Json.arr #["wait", g, idToJson id, st]
  | .status id st => Json.arr #["status", idToJson id, st]
  | .validation ids k => Json.arr #["validation", idsToJson (sortIds ids), k]

/-- the plan event lists the ids handed to the inventory task as the caller gave them: an id that occurs twice in the apply set
occurs twice there (and once in the apply and wait groups).  The model's apply sets have one manifest per id (see `runOfJson`), so
repetitions inside one group's id list are dropped before comparing. -/
def dedupJson (l : List Json) : List Json :=
  l.foldl (fun acc x => if acc.any (· == x) then acc else acc ++ [x]) []

def canonInit (e : Json) : Json :=
  match e with
  | Json.arr a =>
    if a.size = 2 && a[0]! == Json.str "init" then
      match a[1]! with
      | Json.arr gs => Json.arr #[a[0]!, Json.arr (gs.map fun g => match g with
          | Json.arr ga => if ga.size = 3 then (match ga[2]! with
              | Json.arr ids => Json.arr (ga.set! 2 (Json.arr (dedupJson ids.toList).toArray))
              | _ => g) else g
          | _ => g)]
      | _ => e
    else e
  | _ => e

/-- an invalid object that occurs twice in the apply set is reported by two identical validation events (one per copy): the first is kept -/
def dropRepeatedValidation (es : List Json) : List Json :=
  let isVal (e : Json) : Bool := match e with | Json.arr a => a.size > 0 && a[0]! == Json.str "validation" | _ => false
  (es.foldl (fun (acc : List Json) e => if isVal e && acc.any (· == e) then acc else e :: acc) []).reverse

def canonEvents (j : Json) : Json :=
  match j with
  | Json.arr es0 =>
    let es := (dropRepeatedValidation es0.toList).toArray
    Json.arr (es.map fun e => match canonInit e with
      | Json.arr a => if a.size = 5 then (match a[4]! with | Json.str r => Json.arr (a.set! 4 (Json.str (canonReason r))) | _ => Json.arr a) else Json.arr a
      | e' => e')
  | _ => j

def mutJson (m : MutRec) : Json :=
  Json.arr #[m.verb, idToJson m.id, m.dry, m.precond, m.prop, m.result, m.rejected, m.evIdx, snapJson m.snap]

def runJson (s : St) : Json :=
  Json.mkObj [("events", Json.arr (s.events.reverse.map evJson).toArray),
              ("muts", Json.arr (s.muts.reverse.map mutJson).toArray),
              ("final", snapJson (snapOf s.cl)), ("closed", true), ("late", (0 : Nat))]

/-- canonical form of a snapshot coming from Go (objects sorted by id) -/
def canonSnap (j : Json) : Json :=
  match jopt j "objs" with
  | some (Json.arr a) =>
    let key (o : Json) : Id := match (do idOfJson (← jget o "id")) with | .ok i => i | .error _ => default
    j.setObjVal! "objs" (Json.arr (a.toList.mergeSort (fun x y => !(Id.lt (key y) (key x)))).toArray)
  | _ => j

def canonRun (j : Json) : Json :=
  let j := match jopt j "final" with | some f => j.setObjVal! "final" (canonSnap f) | none => j
  -- validation events dropped as repetitions (they all precede the plan event, hence every request): the event index a request
  -- is tagged with moves down by their number
  let dropped : Nat := match jopt j "events" with
    | some (Json.arr es) => es.size - (dropRepeatedValidation es.toList).length
    | _ => 0
  let j := match jopt j "events" with | some es => j.setObjVal! "events" (canonEvents es) | none => j
  match jopt j "muts" with
  | some (Json.arr ms) =>
    j.setObjVal! "muts" (Json.arr (ms.map (fun m => match m with
      | Json.arr a => if a.size = 9 then
          let a := a.set! 8 (canonSnap a[8]!)
          let a := if dropped = 0 then a else match a[7]! with
            | Json.num n => a.set! 7 (Json.num (JsonNumber.fromInt (n.mantissa - (dropped : Int))))
            | _ => a
          Json.arr a else m
      | _ => m)))
  | _ => j

/-! parsing the implementation's output back into model types (for the property predicates) -/

def liveOfJson (j : Json) : Except String Live := do
  return { id := ← idOfJson (← jget j "id"), uid := ← jstr j "uid", gen := ← jint j "gen", owner := ← jstr j "owner",
           deleting := ← jbool j "deleting", rev := ← jstr j "rev",
           frm := match (jstr j "frm").toOption with | some "" => none | some f => some f | none => none }

def snapOfJson (j : Json) : Except String Snap := do
  let inv ← match jopt j "inv" with
    | some (Json.arr a) => do pure (some (← a.toList.mapM idOfJson))
    | some (Json.str _) => pure (some [])     -- "unreadable": flagged separately
    | _ => pure none
  return { inv := inv, objs := ← (← asList (← jget j "objs")).mapM liveOfJson }

def evOfJson (j : Json) : Except String Ev := do
  let a ← j.getArr?
  match (← a[0]!.getStr?) with
  | "init" =>
    let gs ← (← asList a[1]!).mapM (fun g => do
      let ga ← g.getArr?
      return (← ga[0]!.getStr?, ← ga[1]!.getStr?, ← idsOfJson ga[2]!))
    return .init gs
  | "error" => return .error (← a[1]!.getStr?)
  | "group" => return .group (← a[1]!.getStr?) (← a[2]!.getStr?) (← a[3]!.getStr?)
  | "wait" => return .wait (← a[1]!.getStr?) (← idOfJson a[2]!) (← a[3]!.getStr?)
  | "status" => return .status (← idOfJson a[1]!) (← a[2]!.getStr?)
  | "validation" => return .validation (← idsOfJson a[1]!) (← a[2]!.getStr?)
  | k => return .op k (← a[1]!.getStr?) (← idOfJson a[2]!) (← a[3]!.getStr?) (← a[4]!.getStr?)

def mutOfJson (j : Json) : Except String MutRec := do
  let a ← j.getArr?
  return { verb := ← a[0]!.getStr?, id := ← idOfJson a[1]!, dry := ← a[2]!.getBool?, precond := ← a[3]!.getStr?,
           prop := ← a[4]!.getStr?, result := ← a[5]!.getStr?, rejected := ← a[6]!.getBool?, evIdx := ← a[7]!.getNat?,
           snap := ← snapOfJson a[8]! }

def obsOfJson (j : Json) : Except String Spec.RunObs := do
  return { events := ← (← asList (← jget j "events")).mapM evOfJson,
           muts := ← (← asList (← jget j "muts")).mapM mutOfJson,
           final := ← snapOfJson (← jget j "final"),
           closed := jboolD j "closed" false, late := ((jint j "late").toOption.getD 0).toNat,
           anomaly := (jstr j "anomaly").toOption.getD "" ++ (jstr j "panic").toOption.getD "",
           unreadable := (match jopt (← jget j "final") "inv" with | some (Json.str _) => true | _ => false),
           cancelCalled := jboolD j "cancelCalled" false, watcherStopped := jboolD j "watcherStopped" true }

def obsOfSt (s : St) : Spec.RunObs :=
  { events := s.events.reverse, muts := s.muts.reverse, final := snapOf s.cl, closed := true, late := 0, anomaly := "", unreadable := false,
    cancelCalled := s.cancelled }

/-- another list representing the same set: rotated by `k / 2`, reversed when `k` is odd -/
def permInv (k : Nat) (l : List Id) : List Id :=
  let n := (k / 2) % (max l.length 1)
  let r := l.drop n ++ l.take n
  if k % 2 = 1 then r.reverse else r

/-- `permInv` only re-orders: the list it returns represents the same stored set -/
theorem permInv_mem (k : Nat) (l : List Id) (x : Id) : x ∈ permInv k l ↔ x ∈ l := by
  have h : ∀ n, x ∈ l.drop n ++ l.take n ↔ x ∈ l := by
    intro n
    conv => rhs; rw [← List.take_append_drop n l]
    simp only [List.mem_append]
    exact Or.comm
  unfold permInv
  simp only []
  split
  · rw [List.mem_reverse]; exact h _
  · exact h _

theorem permInv_length (k : Nat) (l : List Id) : (permInv k l).length = l.length := by
  have h : ∀ n, (l.drop n ++ l.take n).length = l.length := by
    intro n
    conv => rhs; rw [← List.take_append_drop n l]
    simp only [List.length_append]
    exact Nat.add_comm _ _
  unfold permInv
  simp only []
  split
  · rw [List.length_reverse]; exact h _
  · exact h _

/-- which property's predicate to evaluate: the domain is registered once per property (`sys-C01`, …) so that each
check reports violations of its own property; `sys` evaluates all of them -/
def handleSysFor (prop : String) : Handler := fun i o => do
  -- the process that ran this history died (a panic on one of the library's goroutines): a concrete violation of whichever
  -- property is being checked — every one of them presupposes that the run ends and reports
  if let some (Json.str why) := jopt o "crash" then
    return { model := Json.null, agree := false, spec := false, specModel := true, nontrivial := true,
             note := "the run did not end: " ++ why, tags := ["crash"], region := none }
  let pre ← (← asList (← jget i "pre")).mapM manifestOfJson
  let runs ← (← asList (← jget i "runs")).mapM runOfJson
  let preInv ← match jopt i "preInv" with
    | some a => if a.isNull then pure [] else idsOfJson a
    | none => pure []
  let c00 : Cluster := pre.foldl (fun c m => c.putPre m) {}
  -- an inventory object that exists before the first run (it takes the next UID, like every stored object)
  let c0 : Cluster := if preInv.isEmpty then c00 else (invCreateEffect preInv c00).1
  -- the model replays the history.  The stored inventory is a SET (the library keeps it as the key set of a ConfigMap's data and
  -- reads it back in Go map-iteration order, which is unspecified); the model keeps it as a list.  `replay ks` presents the
  -- stored list to run k rotated/reversed by `ks[k]` — another representative of the same stored set.
  let replay (ks : List Nat) : List St :=
    let (_, stsRev, _) := runs.foldl (fun (acc : Cluster × List St × Nat) r =>
        let c := { acc.1 with inv := acc.1.inv.map (permInv (ks.getD acc.2.2 0)) }
        let s := runOne c r
        (s.cl, s :: acc.2.1, acc.2.2 + 1)) (c0, [], 0)
    stsRev.reverse
  let jsonOf (sts : List St) : Json := Json.mkObj [("pre", snapJson (snapOf c0)), ("runs", Json.arr (sts.map runJson).toArray)]
  let sts0 := replay []
  let mj0 := jsonOf sts0
  let oRuns ← asList (← jget o "runs")
  let oc := Json.mkObj [("pre", canonSnap (← jget o "pre")),
    ("runs", Json.arr (oRuns.map (fun r => canonRun ((r.setObjVal! "closed" (jboolD r "closed" false)).setObjVal! "late" ((jint r "late").toOption.getD 0)))).toArray)]
  -- compare only the fields the model produces
  let strip (r : Json) : Json := Json.mkObj [("events", (jopt r "events").getD Json.null), ("muts", (jopt r "muts").getD Json.null),
    ("final", (jopt r "final").getD Json.null), ("closed", (jopt r "closed").getD Json.null), ("late", (jopt r "late").getD Json.null)]
  let ocs := match jopt oc "runs" with
    | some (Json.arr a) => oc.setObjVal! "runs" (Json.arr (a.map strip))
    | _ => oc
  -- agreement: the implementation's behaviour is the model's behaviour for SOME order of each run's stored inventory set
  -- (the order decides which of several blocking dependents a delete filter meets first, hence the reported reason)
  let nInv := (sts0.map (fun s => (s.cl.inv.getD []).length)).foldl max 0
  let oRunsS : List Json := match jopt ocs "runs" with | some (Json.arr a) => a.toList | _ => []
  -- first run on which a replay differs from the implementation
  let firstDiff (sts : List St) : Option Nat :=
    (List.range (max sts.length oRunsS.length)).find? fun k => (sts[k]?.map runJson) != oRunsS[k]?
  -- run by run: keep the orders found so far, try the other orders for the first run that differs (≤ runs × 2·|inventory| replays)
  let rec search (fuel : Nat) (ks : List Nat) : Option (List Nat) :=
    match fuel with
    | 0 => none
    | fuel + 1 =>
      match firstDiff (replay ks) with
      | none => some ks
      | some r =>
        let pad := ks ++ List.replicate (r + 1 - ks.length) 0
        match (List.range (2 * nInv)).find? (fun k => k ≠ pad.getD r 0 &&
                match firstDiff (replay (pad.set r k)) with | none => true | some r' => r' > r) with
        | some k => search fuel (pad.set r k)
        | none => none
  let hit := if mj0 == ocs then some [] else search (runs.length + 1) []
  let sts := match hit with | some ks => replay ks | none => sts0
  let mj := jsonOf sts
  let agree := hit.isSome
  -- property predicates on the implementation's behaviour
  let obsI ← oRuns.mapM obsOfJson
  let snap0 ← snapOfJson (← jget o "pre")
  let hist : Spec.History := { pre := pre, snap0 := snap0, runs := runs }
  let (spec, why) := Spec.checkHistory prop hist obsI
  let (specM, whyM) := Spec.checkHistory prop hist (sts.map obsOfSt)
  let region := if spec then none else Spec.regionOf why
  let tags := Spec.tagsOf hist obsI ++ (match hit with | some (_ :: _) => ["inv-order:non-default"] | _ => [])
  return { model := mj, agree := agree, spec := spec, specModel := specM, nontrivial := runs.length ≥ 1,
           note := why ++ (if specM then "" else " | model: " ++ whyM), tags := tags, region := region }

/-- domain `sync-race`: the LAST run of the history is cancelled at the very moment the watcher's sync event becomes ready (the
runner is busy forwarding a status event meanwhile), so that Go's `select` decides which of the two the runner sees first.
Both outcomes are behaviours of the model (`runOneAtSync … false / true`); the implementation must show one of them, and in
either the stream is well-formed, ends with the context error (if anything was to be done), the channel closes and the
status watcher is stopped.  The scene adds two status events for the one object named in `initial` (the one the runner is kept
busy with): the model gets them as extra initial statuses. -/
def handleSyncRace : Handler := fun i o => do
  -- the process that ran this history died (a panic on one of the library's goroutines): a concrete violation of whichever
  -- property is being checked — every one of them presupposes that the run ends and reports
  if let some (Json.str why) := jopt o "crash" then
    return { model := Json.null, agree := false, spec := false, specModel := true, nontrivial := true,
             note := "the run did not end: " ++ why, tags := ["crash"], region := none }
  let pre ← (← asList (← jget i "pre")).mapM manifestOfJson
  let runs ← (← asList (← jget i "runs")).mapM runOfJson
  let c0 : Cluster := pre.foldl (fun c m => c.putPre m) {}
  let n := runs.length
  let (cPrev, stsRev) := (runs.take (n - 1)).foldl (fun (acc : Cluster × List St) r =>
      let s := runOne acc.1 r
      (s.cl, s :: acc.2)) (c0, [])
  let last ← match runs.getLast? with | some r => pure r | none => throw "sync-race: no run"
  let last' := { last with initial := last.initial ++ last.initial ++ last.initial }
  let variant (b : Bool) : List St := stsRev.reverse ++ [runOneAtSync cPrev last' b]
  let jsonOf (sts : List St) : Json := Json.mkObj [("pre", snapJson (snapOf c0)), ("runs", Json.arr (sts.map runJson).toArray)]
  let oRuns ← asList (← jget o "runs")
  let oc := Json.mkObj [("pre", canonSnap (← jget o "pre")),
    ("runs", Json.arr (oRuns.map (fun r => canonRun ((r.setObjVal! "closed" (jboolD r "closed" false)).setObjVal! "late" ((jint r "late").toOption.getD 0)))).toArray)]
  let strip (r : Json) : Json := Json.mkObj [("events", (jopt r "events").getD Json.null), ("muts", (jopt r "muts").getD Json.null),
    ("final", (jopt r "final").getD Json.null), ("closed", (jopt r "closed").getD Json.null), ("late", (jopt r "late").getD Json.null)]
  let ocs := match jopt oc "runs" with
    | some (Json.arr a) => oc.setObjVal! "runs" (Json.arr (a.map strip))
    | _ => oc
  let a := jsonOf (variant false)
  let b := jsonOf (variant true)
  let which := if a == ocs then "cancel-first" else if b == ocs then "sync-first" else "neither"
  let obsI ← oRuns.mapM obsOfJson
  let snap0 ← snapOfJson (← jget o "pre")
  let hist : Spec.History := { pre := pre, snap0 := snap0, runs := runs }
  let (s13, why13) := Spec.checkHistory "C13" hist obsI
  let (s12, why12) := Spec.checkHistory "C12" hist obsI
  let lastObs := obsI.getLast?
  let endsRight := match lastObs with
    | some ob => (match ob.events.getLast? with
        | some (Ev.error k) => k == "canceled"
        | _ => !(ob.events.any fun e => match e with | .group _ _ _ => true | _ => false))   -- nothing was to be done
    | none => false
  let spec := s13 && s12 && endsRight
  let why := (if s13 then "" else why13) ++ (if s12 then "" else why12) ++
    (if endsRight then "" else "C12: the cancelled run does not end with the context error")
  return { model := if which == "sync-first" then b else a, agree := which != "neither", spec := spec, specModel := true,
           nontrivial := true, note := why, tags := [s!"sync-race:{which}"], region := none }

/-- projection under which a run driven by the REAL status watcher is compared with the model: when an informer's report
arrives relative to the start of a wait task is the scheduler's choice, and it decides (i) whether an object is first announced
`Pending` or found reconciled at once, (ii) the order of the wait results of different objects of one group, and (iii) the
event index a request is tagged with.  Dropped / sorted: the `Pending` wait events, the order inside a block of consecutive wait
events, the event index of requests.  Everything else — every request with the store after it, every apply / prune / delete
event, every wait RESULT, groups, validation and error events, the final store — is compared exactly. -/
def realProj (r : Json) : Json :=
  let isWait (e : Json) : Bool := match e with | Json.arr a => a.size == 4 && a[0]! == Json.str "wait" | _ => false
  let isPending (e : Json) : Bool := match e with | Json.arr a => a.size == 4 && a[0]! == Json.str "wait" && a[3]! == Json.str "Pending" | _ => false
  let flush (blk : List Json) : List Json := blk.mergeSort (fun a b => a.compress ≤ b.compress)
  let evs : List Json := match jopt r "events" with | some (Json.arr a) => a.toList.filter (fun e => !isPending e) | _ => []
  let (done, blk) := evs.foldl (fun (acc : List Json × List Json) e =>
      if isWait e then (acc.1, e :: acc.2) else (acc.1 ++ flush acc.2 ++ [e], [])) ([], [])
  let evs' := done ++ flush blk
  let muts : List Json := match jopt r "muts" with
    | some (Json.arr a) => a.toList.map (fun m => match m with
        | Json.arr x => if x.size = 9 then Json.arr (x.set! 7 (Json.num 0)) else m
        | _ => m)
    | _ => []
  (r.setObjVal! "events" (Json.arr evs'.toArray)).setObjVal! "muts" (Json.arr muts.toArray)

/-- domain `sys-real`: histories run with the library's REAL `DefaultStatusWatcher` (informers over the fake cluster's LIST and
WATCH) instead of the scripted watcher; the scripts of the input describe what kstatus computes for the kinds involved.  The
run model is the same (`runOne`); agreement is up to `realProj`; the predicates of C13 and C12 judge the implementation's
stream as it is (grammar, exactly one result per object, channel closed, no request and no WATCH stream left after it). -/
def handleSysReal : Handler := fun i o => do
  if let some (Json.str why) := jopt o "crash" then
    return { model := Json.null, agree := false, spec := false, specModel := true, nontrivial := true,
             note := "the run did not end: " ++ why, tags := ["crash"], region := none }
  let pre ← (← asList (← jget i "pre")).mapM manifestOfJson
  let runs ← (← asList (← jget i "runs")).mapM runOfJson
  let c0 : Cluster := pre.foldl (fun c m => c.putPre m) {}
  let (_, stsRev) := runs.foldl (fun (acc : Cluster × List St) r =>
      let s := runOne acc.1 r
      (s.cl, s :: acc.2)) (c0, [])
  let sts := stsRev.reverse
  let oRuns ← asList (← jget o "runs")
  let strip (r : Json) : Json := Json.mkObj [("events", (jopt r "events").getD Json.null), ("muts", (jopt r "muts").getD Json.null),
    ("final", (jopt r "final").getD Json.null), ("closed", (jopt r "closed").getD Json.null), ("late", (jopt r "late").getD Json.null)]
  let oP := oRuns.map (fun r => realProj (strip (canonRun ((r.setObjVal! "closed" (jboolD r "closed" false)).setObjVal! "late" ((jint r "late").toOption.getD 0)))))
  let mP := sts.map (fun s => realProj (runJson s))
  let mj := Json.mkObj [("pre", snapJson (snapOf c0)), ("runs", Json.arr mP.toArray)]
  let agree := mP == oP && snapJson (snapOf c0) == canonSnap (← jget o "pre")
  let obsI ← oRuns.mapM obsOfJson
  let snap0 ← snapOfJson (← jget o "pre")
  let hist : Spec.History := { pre := pre, snap0 := snap0, runs := runs }
  -- every whole-run predicate judges the implementation's behaviour (what the real watcher reports feeds the dependency
  -- filters and the wait phases: C04 / C05; what is sent and stored: C01 / C02)
  let verdicts := ["C13", "C12", "C05", "C04", "C02", "C01"].map (fun p => Spec.checkHistory p hist obsI)
  let spec := verdicts.all (·.1)
  let why := String.intercalate " | " ((verdicts.filter (fun v => !v.1)).map (·.2))
  let region := if spec then none else Spec.regionOf why
  return { model := mj, agree := agree, spec := spec, specModel := true, nontrivial := runs.length ≥ 1,
           note := why, tags := ["sys-real"], region := region }

/-- domain `pre-cancel`: the LAST run of the history is a dry-run started under an already cancelled context.  Accepted are
exactly: nothing started (the events before the first group event, then the context error); the un-cancelled run cut right after the Finished event of one of its tasks,
followed by the context error; the complete un-cancelled run (the runner never took the cancellation before the queue was
empty).  In every case: C13 and C12 on the implementation's stream, the channel closed, the store unchanged by the run. -/
def handlePreCancel : Handler := fun i o => do
  if let some (Json.str why) := jopt o "crash" then
    return { model := Json.null, agree := false, spec := false, specModel := true, nontrivial := true,
             note := "the run did not end: " ++ why, tags := ["crash"], region := none }
  let pre ← (← asList (← jget i "pre")).mapM manifestOfJson
  let runs ← (← asList (← jget i "runs")).mapM runOfJson
  let c0 : Cluster := pre.foldl (fun c m => c.putPre m) {}
  let n := runs.length
  let (cPrev, stsRev) := (runs.take (n - 1)).foldl (fun (acc : Cluster × List St) r =>
      let s := runOne acc.1 r
      (s.cl, s :: acc.2)) (c0, [])
  let last ← match runs.getLast? with | some r => pure r | none => throw "pre-cancel: no run"
  let full := runOne cPrev { last with cancel := .never }
  let oRuns ← asList (← jget o "runs")
  let canon (r : Json) : Json := canonRun ((r.setObjVal! "closed" (jboolD r "closed" false)).setObjVal! "late" ((jint r "late").toOption.getD 0))
  let oLast := canon (oRuns.getLast?.getD Json.null)
  let evsOf (r : Json) : List Json := match jopt r "events" with | some (Json.arr a) => a.toList | _ => []
  let fullJ := runJson full
  let eI := evsOf oLast
  let eF := evsOf fullJ
  let isFinished (e : Json) : Bool := match e with
    | Json.arr a => a.size == 4 && a[0]! == Json.str "group" && a[3]! == Json.str "Finished" | _ => false
  let isGroup (e : Json) : Bool := match e with | Json.arr a => a.size == 4 && a[0]! == Json.str "group" | _ => false
  let cancelEv : Json := Json.arr #["error", "canceled"]
  let cutOk : Bool := match eI.reverse with
    | last :: revP =>
      let p := revP.reverse
      last == cancelEv && p == eF.take p.length &&
        ((match p.getLast? with | some e => isFinished e | none => false) || !(p.any isGroup))
    | [] => false
  let nothing := cutOk && !(eI.any isGroup)
  let which := if nothing then "nothing-started" else if eI == eF then "complete" else if cutOk then "cut" else "neither"
  -- the earlier runs agree exactly; the last run changes nothing (dry-run) and its requests are a prefix of the full run's
  let earlierOk := (oRuns.take (n - 1)).map (fun r =>
      let r := canon r
      Json.mkObj [("events", (jopt r "events").getD Json.null), ("final", (jopt r "final").getD Json.null)]) ==
    stsRev.reverse.map (fun s => let r := runJson s
      Json.mkObj [("events", (jopt r "events").getD Json.null), ("final", (jopt r "final").getD Json.null)])
  let finalOk := (jopt oLast "final") == (jopt fullJ "final")
  let obsI ← oRuns.mapM obsOfJson
  let snap0 ← snapOfJson (← jget o "pre")
  let hist : Spec.History := { pre := pre, snap0 := snap0, runs := runs }
  let (s13, why13) := Spec.checkHistory "C13" hist obsI
  let (s12, why12) := Spec.checkHistory "C12" hist obsI
  let (s10, why10) := Spec.checkHistory "C10" hist obsI
  let closed := jboolD oLast "closed" false
  let spec := s13 && s12 && s10 && closed
  return { model := fullJ, agree := which != "neither" && earlierOk && finalOk, spec := spec, specModel := true, nontrivial := true,
           note := (if s13 then "" else why13) ++ (if s12 then "" else why12) ++ (if s10 then "" else why10) ++
                   (if closed then "" else "C13: the event channel of a run started under a cancelled context did not close"),
           tags := [s!"pre-cancel:{which}"], region := none }

end CliUtils.Drv.SysD
