import CliUtils.Drv.Util
import CliUtils.Model.Status
import CliUtils.Spec.Status
/-
  Driver handlers for the kstatus domains (C07 / C08 / C09):
    status (C09 predicate), status-c07, status-c08, status-malformed (C09), augment (C07), kubectl (C08).
  Input of every domain: {"obj": <object>, "w": <creation timestamp within the schedule window>}.
-/
namespace CliUtils.Drv.KS
open Lean CliUtils CliUtils.Drv CliUtils.J CliUtils.KStatus CliUtils.Spec.KStatus

/-- JSON text → model tree. A number written without fraction/exponent is an int64 (as the apimachinery decoder does),
anything else a float64 (kept as mantissa|exponent so that it can be printed back unchanged). -/
partial def ofJson : Json → J
  | .null => .null
  | .bool b => .bool b
  | .num n => if n.exponent = 0 then .num n.mantissa else .float s!"{n.mantissa}|{n.exponent}"
  | .str s => .str s
  | .arr a => .arr (a.toList.map ofJson)
  | .obj kvs => .obj ((kvs.foldl (init := []) (fun acc k v => (k, ofJson v) :: acc)).reverse)

partial def toJson : J → Json
  | .null => .null
  | .bool b => .bool b
  | .num n => .num (JsonNumber.fromInt n)
  | .float r =>
    match r.splitOn "|" with
    | [m, e] => .num ⟨m.toInt?.getD 0, e.toNat?.getD 0⟩
    | _ => .null
  | .str s => .str s
  | .arr l => .arr (l.map toJson).toArray
  | .obj l => Json.mkObj (l.map (fun (k, v) => (k, toJson v)))

def statusStr : Status → String
  | .inProgress => "InProgress"
  | .failed => "Failed"
  | .current => "Current"
  | .terminating => "Terminating"

def statusOfStr : String → Option Status
  | "InProgress" => some .inProgress
  | "Failed" => some .failed
  | "Current" => some .current
  | "Terminating" => some .terminating
  | _ => none

def condJson (c : Cond) : Json := Json.arr #[c.type, c.status, c.reason]

/-- canonical output of `Compute` (what the Go side prints, without the informational `msg`) -/
def outJson (panic err : Bool) (status : String) (conds : List Cond) (unchanged pure : Bool) : Json :=
  Json.mkObj [("panic", panic), ("err", err), ("status", status), ("conds", Json.arr (conds.map condJson).toArray),
              ("unchanged", unchanged), ("pure", pure)]

def modelOut (w : Bool) (o : J) : Json :=
  match compute w o with
  | .ok r => outJson false false (statusStr r.status) r.conditions true true
  | .error _ => outJson false true "" [] true true

/-- what was observed of one `Compute` call -/
structure Obs where
  panic : Bool
  err : Bool
  statusWord : String
  status : Option Status
  conds : List Cond
  unchanged : Bool
  pure : Bool

def obsOf (o : Json) : Except String Obs := do
  let cs ← (← asList (← jget o "conds")).mapM (fun c => do
    let a ← c.getArr?
    if a.size ≠ 3 then throw "cond: need 3 fields"
    return ({ type := ← a[0]!.getStr?, status := ← a[1]!.getStr?, reason := ← a[2]!.getStr? } : Cond))
  let sw ← jstr o "status"
  return { panic := ← jbool o "panic", err := ← jbool o "err", statusWord := sw, status := statusOfStr sw, conds := cs,
           unchanged := ← jbool o "unchanged", pure := ← jbool o "pure" }

def obsJson (b : Obs) : Json := outJson b.panic b.err b.statusWord b.conds b.unchanged b.pure

def parseIn (i : Json) : Except String (J × Bool) := do
  return (ofJson (← jget i "obj"), ← jbool i "w")

/-- C09 on an observation: no panic, input unchanged, equal answers for equal inputs; a result (when no error) has
one of the four statuses and the required condition shape -/
def c09Spec (b : Obs) : Bool :=
  !b.panic && b.unchanged && b.pure &&
  (b.err ||
    match b.status with
    | some s => resultShape { status := s, conditions := b.conds }
    | none => false)

/-- C07 on an observation -/
def c07Spec (key : String) (o : J) (b : Obs) : Bool :=
  match c07Demand key o with
  | some s => !b.panic && !b.err && b.status == some s
  | none => true

/-- C08 on an observation (errors and panics are C09's business) -/
def c08Spec (key : String) (w : Bool) (o : J) (b : Obs) : Bool :=
  if b.panic || b.err then true
  else match b.status with
    | some s => c08Holds key w o s
    | none => true

def keyTag (key : String) : String :=
  match legacy key with
  | some _ => "kind:" ++ key
  | none => "kind:(custom)"

def genericTag (o : J) : String :=
  if deletionSet o then "generic:deletion"
  else if generationMismatch o then "generic:generation"
  else match convConds o with
    | some cs => (match firstSignal cs with
        | some c => "generic:" ++ c.type
        | none => "generic:none")
    | none => "generic:conv-error"

def obsTags (b : Obs) : List String :=
  (if b.panic then ["out:panic"] else if b.err then ["out:error"] else ["out:" ++ b.statusWord]) ++
  (b.conds.map (fun c => "reason:" ++ (if c.reason.length ≤ 28 then c.reason else "(long)")))

inductive Which | c07 | c08 | c09

def handleStatusWith (which : Which) (malformed : Bool) : Handler := fun i o => do
  let (ob, w) ← parseIn i
  let b ← obsOf o
  let key := kindKey ob
  let m := modelOut w ob
  let mb ← obsOf m
  let specOn (x : Obs) : Bool :=
    match which with
    | .c07 => c07Spec key ob x
    | .c08 => c08Spec key w ob x
    | .c09 => c09Spec x
  let nontrivial :=
    match which with
    | .c07 => (c07Demand key ob).isSome
    | .c08 => noGenericSignal ob && (legacy key).isSome
    | .c09 => true
  return { model := m, agree := m == obsJson b, spec := specOn b, specModel := specOn mb, nontrivial := nontrivial,
           tags := [keyTag key, genericTag ob] ++ obsTags b ++ (if malformed then ["malformed"] else []) }

def handleStatus : Handler := handleStatusWith .c09 false
def handleStatusC07 : Handler := handleStatusWith .c07 false
def handleStatusC08 : Handler := handleStatusWith .c08 false
def handleMalformed : Handler := handleStatusWith .c09 true

/-! ### augment -/

def isStdCond (j : Json) : Bool :=
  match j.getObjVal? "type" with
  | .ok (.str t) => t == "Reconciling" || t == "Stalled"
  | _ => false

/-- `status.conditions` as a list (empty when absent or not a list) -/
def condsOfJson (obj : Json) : List Json :=
  match (do (← (← obj.getObjVal? "status").getObjVal? "conditions").getArr?) with
  | .ok a => a.toList
  | .error _ => []

/-- the object without `status.conditions` (and without an empty `status` left behind) -/
def eraseConds (obj : Json) : Json :=
  match obj with
  | .obj top =>
    match top.get? "status" with
    | some (.obj st) =>
      let st' := st.erase "conditions"
      if st'.isEmpty then .obj (top.erase "status") else .obj (top.insert "status" (.obj st'))
    | _ => obj
  | _ => obj

/-- C07 on an observed Augment: no panic; on error the object is unchanged; otherwise every condition that is not a
Reconciling/Stalled condition is still there, unchanged, in the same order, nothing outside `status.conditions`
changed, and the status computed afterwards equals the status computed before -/
def augSpec (objBefore : Json) (o : Json) : Except String Bool := do
  let panic ← jbool o "panic"
  let err ← jbool o "err"
  let s0 ← jstr o "s0"
  let s1 ← jstr o "s1"
  let after ← jget o "after"
  if panic then return false
  if err then return (after == objBefore && s0 == s1)
  let others (l : List Json) := l.filter (fun c => !isStdCond c)
  return s0 == s1 && s0 != "err" && s0 != "panic" &&
    others (condsOfJson objBefore) == others (condsOfJson after) &&
    eraseConds objBefore == eraseConds after

def handleAugment : Handler := fun i o => do
  let objJ ← jget i "obj"
  let (ob, w) ← parseIn i
  let word (x : J) : String := match compute w x with | .ok r => statusStr r.status | .error _ => "err"
  let (errM, afterM) := match augment w ob with
    | .ok o' => (false, o')
    | .error _ => (true, ob)
  let m := Json.mkObj [("panic", false), ("err", errM), ("s0", word ob), ("s1", word afterM), ("msgOk", true),
                       ("after", toJson afterM)]
  let o' := (o.setObjVal! "msg" Json.null)
  let m' := (m.setObjVal! "msg" Json.null)
  let spec := match augSpec objJ o with | .ok b => b | .error _ => false
  let specM ← augSpec objJ m
  let s0 := (jstr o "s0").toOption.getD "?"
  let wrote := match compute w ob with | .ok r => !r.conditions.isEmpty | .error _ => false
  return { model := m, agree := m' == o', spec := spec, specModel := specM, nontrivial := wrote && !errM,
           tags := [keyTag (kindKey ob), "aug:s0=" ++ s0, if errM then "aug:error" else if wrote then "aug:wrote" else "aug:nothing-to-write"] }

/-! ### kubectl -/

def kubectlOf (key : String) (o : J) : Option (Option Bool) :=
  match legacy key with
  | some .deployment => some (kubectlDeployment o)
  | some .sts => some (kubectlStatefulSet o)
  | some .ds => some (kubectlDaemonSet o)
  | _ => none

/-- hypotheses of the comparison: generation fields present, generation ≥ 1, rolling-update strategy, partition ≥ 0 -/
def kubectlHyp (key : String) (o : J) : Bool :=
  isFound (nestedInt64 o ["metadata", "generation"]) && isFound (nestedInt64 o ["status", "observedGeneration"]) &&
  decide (1 ≤ fInt o ["metadata", "generation"] 0) && intIfPresent o ["spec", "replicas"] &&
  (match legacy key with
   | some .deployment => true
   | some .sts => fStr o ["spec", "updateStrategy", "type"] "" == "RollingUpdate" &&
                  intIfPresent o ["spec", "updateStrategy", "rollingUpdate", "partition"] &&
                  decide (0 ≤ fInt o ["spec", "updateStrategy", "rollingUpdate", "partition"] 0)
   | some .ds => fStr o ["spec", "updateStrategy", "type"] "" == "RollingUpdate"
   | _ => false)

def handleKubectl : Handler := fun i o => do
  let (ob, w) ← parseIn i
  let key := kindKey ob
  let ks ← jstr o "kstatus"
  let done ← jbool o "done"
  let err ← jbool o "err"
  let kword := match compute w ob with | .ok r => statusStr r.status | .error _ => "err"
  let (mDone, mErr) := match kubectlOf key ob with
    | some (some d) => (d, false)
    | some none => (false, true)
    | none => (false, true)
  let m := Json.mkObj [("kstatus", kword), ("done", mDone), ("err", mErr)]
  let o' := Json.mkObj [("kstatus", ks), ("done", done), ("err", err)]
  let hyp := kubectlHyp key ob
  -- the property: (under the hypotheses) Current according to Compute ⇒ kubectl's viewer reports the rollout done
  let spec := !(hyp && ks == "Current") || (done && !err)
  let specM := !(hyp && kword == "Current") || (mDone && !mErr)
  return { model := m, agree := m == o', spec := spec, specModel := specM, nontrivial := hyp,
           tags := [keyTag key, "kubectl:" ++ (if err then "error" else if done then "done" else "waiting"), "kstatus:" ++ ks,
                    if hyp then "hyp:yes" else "hyp:no"] }

end CliUtils.Drv.KS
