import CliUtils.Drv.Util
import CliUtils.Model.JTree
import CliUtils.Model.Mutate
/-
  Driver handlers of property C18: domains `jsonpath` and `mutate` (see harness/cmd/corr/dom_c18.go).

  Canonical tree encoding shared with the Go side:  null, true/false, "string", [ … ] as themselves;
  object → {"o":{…}};  number → {"i":"<exact decimal>"} iff its JSON literal (as encoding/json writes the Go value)
  is an integer in [-2^63, 2^64-1], otherwise {"f":"<strconv 'g' -1 text>","j":"<encoding/json text>"}.
  Two trees have the same encoding iff encoding/json writes the same JSON document for them (member order aside):
  nothing is rounded, dropped or excluded from the comparison — floats included.

  The `spec` predicates (`jpSpec`, `mutSpec`) are evaluated on the implementation's output and the input only; they
  work on the canonical `Json` directly (own path evaluation `jget`, own confinement check `frame`, Lean's
  `String.replace`) and do not call the model's `get` / `setT` / `replaceAll` / `mutate`.
-/
namespace CliUtils.Drv.C18
open Lean CliUtils CliUtils.Drv

/-! ### canonical encoding ↔ model trees -/

partial def jvOfJson : Json → Except String JV
  | .null => pure .null
  | .bool b => pure (.bool b)
  | .str s => pure (.str s)
  | .arr xs => do pure (.arr (← xs.toList.mapM jvOfJson))
  | .num _ => throw "bare number in canonical tree"
  | j@(.obj _) => do
    match j.getObjVal? "o" with
    | .ok (.obj kvs) => pure (.obj (← kvs.toList.mapM (fun (k, x) => do pure (k, ← jvOfJson x))))
    | .ok _ => throw "bad object encoding"
    | .error _ =>
      match j.getObjVal? "i" with
      | .ok (.str s) => match s.toInt? with
        | some n => pure (.int n)
        | none => throw s!"bad int {s}"
      | _ =>
        match j.getObjVal? "f", j.getObjVal? "j" with
        | .ok (.str g), .ok (.str t) => pure (.float g t)
        | _, _ => throw "bad canonical value"

partial def jvToJson : JV → Json
  | .null => .null
  | .bool b => .bool b
  | .str s => .str s
  | .int n => Json.mkObj [("i", toString n)]
  | .float g j => Json.mkObj [("f", g), ("j", j)]
  | .arr xs => .arr (xs.map jvToJson).toArray
  | .obj kvs => Json.mkObj [("o", Json.mkObj (kvs.map (fun (k, x) => (k, jvToJson x))))]

def stepOfJson : Json → Except String Step
  | .null => pure .wild
  | .str s => pure (.key s)
  | _ => throw "bad step"

def pathOfJson (j : Json) : Except String Path := do (← asList j).mapM stepOfJson

/-- `null` = the expression string is empty -/
def optPathOfJson : Json → Except String (Option Path)
  | .null => pure none
  | j => do pure (some (← pathOfJson j))

/-! ### independent evaluation on canonical Json (for the spec predicates) -/

/-- the wrapped member map of a canonical object node -/
def objMembers (j : Json) : Option (List (String × Json)) :=
  match j.getObjVal? "o" with
  | .ok (.obj kvs) => some kvs.toList
  | _ => none

/-- does step `s` select member `k` of an object / element `i` of an array of size `n` (real nodes only) -/
def selObj (s : Step) (k : String) : Bool := match s with | .wild => true | .key k' => k == k'
def selArr (n : Nat) (s : Step) (i : Nat) : Bool :=
  match s with
  | .wild => true
  | .key k => k != "length" && arrIndex n k == some i

/-- the real fields a path denotes (ideal reading: the ajson `length` pseudo-node is not a field) -/
partial def jfields (t : Json) : Path → List Json
  | [] => [t]
  | s :: p =>
    match t with
    | .arr xs => (List.range xs.size).flatMap (fun i => if selArr xs.size s i then jfields xs[i]! p else [])
    | _ => match objMembers t with
      | some kvs => kvs.flatMap (fun (k, x) => if selObj s k then jfields x p else [])
      | none => []

/-- `after` is `before` with exactly the fields denoted by the path replaced by `v`: same kinds, same member names,
    same lengths, every unselected child equal, selected children recursively so -/
partial def frame (before after : Json) (p : Path) (v : Json) : Bool :=
  match p with
  | [] => after == v
  | s :: rest =>
    match before, after with
    | .arr bs, .arr as =>
      bs.size == as.size && (List.range bs.size).all (fun i =>
        if selArr bs.size s i then frame bs[i]! as[i]! rest v else bs[i]! == as[i]!)
    | _, _ =>
      match objMembers before, objMembers after with
      | some bk, some ak =>
        bk.map (·.1) == ak.map (·.1) && (bk.zip ak).all (fun (b, a) =>
          if selObj s b.1 then frame b.2 a.2 rest v else b.2 == a.2)
      | none, none => before == after
      | _, _ => false

/-- canonical integers above MaxInt64 are Go `uint64` values, which `jsonpath.Set` rejects -/
def unsupportedJ (v : Json) : Bool :=
  match v.getObjVal? "i" with
  | .ok (.str s) => match s.toInt? with | some n => n > maxInt64 | none => false
  | _ => false

def jlist (o : Json) (k : String) : Except String (List Json) := do asList (← jget o k)

/-! ### domain `jsonpath` -/

def jpModel (t : JV) (p : Path) (v : JV) : Json :=
  let g := get t p
  let r := set t p v
  let (after, found, serr) := match r with
    | .ok (t', n) => (t', n, false)
    | .error _ => (t, 0, true)
  let writeOk := match r with | .ok (_, 1) => true | _ => false
  Json.mkObj [
    ("panic", false), ("getErr", false), ("get", Json.arr (g.map jvToJson).toArray), ("inputKept", true),
    ("readOk", g.length == 1), ("writeOk", writeOk), ("writeAfter", jvToJson after),
    ("found", found), ("setErr", serr), ("after", jvToJson after),
    ("backErr", false), ("back", Json.arr ((get after p).map jvToJson).toArray),
    ("vts", valueToString v), ("vtsErr", false)]

/-- the property on one observed behaviour of the real `jsonpath.Get` / `Set` / `readFieldValue` / `writeFieldValue` -/
def jpSpec (t : Json) (p : Path) (v : Json) (o : Json) : Except String Bool := do
  if (← jbool o "panic") then return false
  let g ← jlist o "get"
  let back ← jlist o "back"
  let after ← jget o "after"
  let wAfter ← jget o "writeAfter"
  let found := (← jint o "found").toNat
  let setErr ← jbool o "setErr"
  let readOk ← jbool o "readOk"
  let writeOk ← jbool o "writeOk"
  let fields := jfields t p                    -- the real fields the path denotes
  let okErrs := !(← jbool o "getErr") && !(← jbool o "backErr") && (← jbool o "inputKept")
  -- what Get returns are exactly the denoted fields; Set reports their number
  let okGet := g == fields
  let okFound := setErr || found == fields.length
  -- Set is refused exactly when there is something to write and the value has an unsupported type
  let okRefuse := setErr == (fields.length ≥ 1 && unsupportedJ v)
  -- refused or nothing matched: the object is untouched
  let okNoop := !(setErr || fields.length == 0) || (after == t && back == fields)
  -- otherwise: the change is confined to the denoted fields, and reading the path back yields the written value
  let okEffect := (setErr || fields.length == 0) || (frame t after p v && back == List.replicate fields.length v)
  -- exactly-one-match requirement of readFieldValue / writeFieldValue
  let okRead := readOk == (fields.length == 1)
  let okWrite := writeOk == (fields.length == 1 && !unsupportedJ v) &&
                 -- (after a rejected write the object is not applied; the code may already have changed it in memory)
                 (!writeOk || frame t wAfter p v)
  return okErrs && okGet && okFound && okRefuse && okNoop && okEffect && okRead && okWrite

def handleJsonpath : Handler := fun i o => do
  let tj ← jget i "t"
  let vj ← jget i "v"
  let t ← jvOfJson tj
  let v ← jvOfJson vj
  let p ← pathOfJson (← jget i "steps")
  let m := jpModel t p v
  let spec := match jpSpec tj p vj o with | .ok b => b | .error _ => false
  let specM ← jpSpec tj p vj m
  let inRegion := !lenFree t p
  let n := (get t p).length
  let kindTag := match v with
    | .null => "null" | .bool _ => "bool" | .int _ => "int" | .float _ _ => "float" | .str _ => "str" | .arr _ => "arr" | .obj _ => "obj"
  let tgtTag := match get t p with
    | [.arr _] => "container" | [.obj _] => "container" | [_] => "leaf" | [] => "none" | _ => "many"
  return { model := m, agree := m == o, spec := spec,
           -- in the region C18.array-length the model reproduces the code's behaviour, which violates the predicate
           specModel := specM || inRegion,
           nontrivial := n ≥ 1,
           tags := [s!"jp:matches{min n 3}", s!"jp:v-{kindTag}", s!"jp:target-{tgtTag}", s!"jp:len{min p.length 5}",
                    if inRegion then "jp:array-length" else "jp:plain",
                    if p.contains .wild then "jp:wild" else "jp:nowild",
                    if writable v then "jp:writable" else "jp:unsupported"],
           region := if !spec && inRegion then some "C18.array-length" else none }

/-! ### domain `mutate` -/

def refOfJson (j : Json) : Except String Ref := do
  return { kind := ← jstr j "kind", apiVersion := ← jstr j "apiVersion", group := ← jstr j "group",
           name := ← jstr j "name", ns := ← jstr j "ns" }

def subOfJson (j : Json) : Except String Sub := do
  return { src := ← refOfJson (← jget j "src"), srcPath := ← optPathOfJson (← jget j "sp"),
           tgtPath := ← optPathOfJson (← jget j "tp"), token := ← jstr j "token" }

def mapEntryOfJson (j : Json) : Except String MapEntry := do
  let vs ← (← asList (← jget j "versions")).mapM (·.getStr?)
  return { group := ← jstr j "group", kind := ← jstr j "kind", versions := vs, namespaced := ← jbool j "namespaced" }

def storedOfJson (j : Json) : Except String Stored := do
  let cached ← if (← jbool j "hasCached") then do
      pure (some (← jvOfJson (← jget j "cached"), ← jbool j "current")) else pure none
  -- a GET that fails (injected API error) makes the cluster's copy unavailable: for the lookup it is as if the cluster had none
  let getFail := (jstr j "getFail").toOption.getD ""
  let cluster ← if (← jbool j "hasCluster") && getFail == "" then do pure (some (← jvOfJson (← jget j "cluster"))) else pure none
  return { group := ← jstr j "group", kind := ← jstr j "kind", ns := ← jstr j "ns", name := ← jstr j "name",
           cached := cached, cluster := cluster }

def errName : Option MErr → String
  | none => "none"
  | some .annotation => "annotation" | some .selfRef => "selfRef" | some .mapping => "mapping"
  | some .sourceGet => "sourceGet" | some .targetRead => "targetRead" | some .sourceRead => "sourceRead"
  | some .tokenNonString => "tokenNonString" | some .targetWrite => "targetWrite"

def mutModel (r : MutOut) : Json :=
  Json.mkObj [("panic", false), ("mutated", r.mutated), ("err", errName r.err), ("reasonOk", true), ("obj", jvToJson r.obj)]

/-- scalar rendering for the spec (containers: the JSON renderer of the model, there is no second one) -/
def vtsJ (v : Json) : Except String String :=
  match v with
  | .str s => pure s
  | .bool b => pure (if b then "true" else "false")
  | .null => pure "null"
  | _ => match v.getObjVal? "i", v.getObjVal? "f" with
    | .ok (.str s), _ => pure s
    | _, .ok (.str g) => pure g
    | _, _ => do pure (valueToString (← jvOfJson v))

/-- the outcome the property demands for ONE substitution evaluated on object `obj`:
    `none` = must be rejected, `some v` = must succeed writing `v` at the target path -/
def demand (i : Json) (target : Ref) (obj : Json) (sj : Json) : Except String (Option Json) := do
  let src ← refOfJson (← jget sj "src")
  let token ← jstr sj "token"
  let mapper ← (← asList (← jget i "mapper")).mapM mapEntryOfJson
  let srcGroup := if src.group != "" then src.group else match src.apiVersion.splitOn "/" with | [g, _] => g | _ => ""
  let srcVersion := if src.group != "" then "" else match src.apiVersion.splitOn "/" with | [_, v] => v | [v] => v | _ => ""
  let tgtGroup := match target.apiVersion.splitOn "/" with | [g, _] => g | _ => ""
  -- REST mapping
  let some e := mapper.find? (fun e => e.group == srcGroup && e.kind == src.kind && (srcVersion == "" || e.versions.contains srcVersion))
    | return none
  let ns := if src.ns == "" && e.namespaced then target.ns else src.ns
  -- self-reference (after namespace defaulting)
  if srcGroup == tgtGroup && src.kind == target.kind && src.name == target.name && ns == target.ns then return none
  if src.name == "" then return none
  -- source object: cached with status Current, else in the cluster
  let store ← asList (← jget i "store")
  let mut srcObj : Option Json := none
  for st in store do
    if (← jstr st "group") == srcGroup && (← jstr st "kind") == src.kind && (← jstr st "ns") == ns && (← jstr st "name") == src.name then
      if srcObj.isNone then
        if (← jbool st "hasCached") && (← jbool st "current") then srcObj := some (← jget st "cached")
        else if (← jbool st "hasCluster") && (jstr st "getFail").toOption.getD "" == "" then srcObj := some (← jget st "cluster")
  let some so := srcObj | return none
  let some tp ← optPathOfJson (← jget sj "tp") | return none
  let some sp ← optPathOfJson (← jget sj "sp") | return none
  let [tv] := jfields obj tp | return none
  let [sv] := jfields so sp | return none
  if token == "" then
    if unsupportedJ sv then return none
    return some sv
  else
    match tv with
    | .str s => return some (Json.str (s.replace token (← vtsJ sv)))
    | _ => return none

/-- the property on one observed behaviour of the real `ApplyTimeMutator.Mutate` -/
def mutSpec (i o : Json) : Except String Bool := do
  if (← jbool o "panic") then return false
  let target ← refOfJson (← jget i "target")
  let obj ← jget i "obj"
  let after ← jget o "obj"
  let err ← jstr o "err"
  let mutated ← jbool o "mutated"
  let annot ← jstr i "annot"
  let subs ← asList (← jget i "subs")
  if !(← jbool o "reasonOk") then return false
  match annot with
  | "absent" => return err == "none" && !mutated && after == obj
  | "invalid" => return err != "none" && !mutated && after == obj
  | _ =>
    match subs with
    | [] => return err == "none" && !mutated && after == obj
    | s0 :: rest =>
      -- an explicit self-reference anywhere in the list is rejected up front
      let tg := match target.apiVersion.splitOn "/" with | [g, _] => g | _ => ""
      let mut anySelf := false
      for sj in subs do
        let src ← refOfJson (← jget sj "src")
        let g := if src.group != "" then src.group else match src.apiVersion.splitOn "/" with | [g, _] => g | _ => ""
        if g == tg && src.kind == target.kind && src.name == target.name && src.ns == target.ns then anySelf := true
      if anySelf then return err != "none" && !mutated && after == obj
      match ← demand i target obj s0 with
      | none =>
        -- the first substitution must be rejected: error, nothing reported as mutated, object untouched
        return err != "none" && !mutated && after == obj
      | some v =>
        let some tp ← optPathOfJson (← jget s0 "tp") | return false
        if rest.isEmpty then
          -- exactly the target field changes, to the demanded value
          return err == "none" && mutated && frame obj after tp v
        else
          -- several substitutions: the first one is applied; the later ones are covered by the model comparison
          return mutated

/-- does the run enter the region C18.array-length: some path of some substitution applies `length` to an array
    (evaluated along the model's run, so that later substitutions see the object as earlier ones left it) -/
def mutInRegion (env : Env) (tref : Ref) : JV → List Sub → Bool
  | _, [] => false
  | obj, s :: rest =>
    let badT := match s.tgtPath with | some p => !lenFree obj p | none => false
    let badS := match findMapping env.mapper s.src with
      | some e => match env.lookup e.group (defaultNs tref e s.src), s.srcPath with
        | some so, some p => !lenFree so p
        | _, _ => false
      | none => false
    badT || badS || (match mutateOne env tref obj s with
      | .ok obj' => mutInRegion env tref obj' rest
      | .error _ => false)

def handleMutate : Handler := fun i o => do
  let tref ← refOfJson (← jget i "target")
  let obj ← jvOfJson (← jget i "obj")
  let annotS ← jstr i "annot"
  let subs ← (← asList (← jget i "subs")).mapM subOfJson
  let env : Env := { mapper := ← (← asList (← jget i "mapper")).mapM mapEntryOfJson,
                     store := ← (← asList (← jget i "store")).mapM storedOfJson }
  let annot := match annotS with | "absent" => Annot.absent | "invalid" => Annot.invalid | _ => Annot.subs subs
  let r := mutate env tref obj annot
  let m := mutModel r
  let spec := match mutSpec i o with | .ok b => b | .error _ => false
  let specM ← mutSpec i m
  let inRegion := annotS == "ok" && mutInRegion env tref obj subs
  let tokTag := if subs.any (fun s => s.token != "") then "mut:token" else "mut:notoken"
  return { model := m, agree := m == o, spec := spec, specModel := specM || inRegion,
           nontrivial := annotS == "ok",
           tags := [s!"mut:err-{errName r.err}", s!"mut:subs{min subs.length 3}", tokTag,
                    if r.mutated then "mut:mutated" else "mut:not-mutated", s!"mut:annot-{annotS}",
                    if inRegion then "mut:array-length" else "mut:plain"],
           region := if !spec && inRegion then some "C18.array-length" else none }

end CliUtils.Drv.C18
