import CliUtils.Drv.Util
import CliUtils.Drv.C19
import CliUtils.Model.Sys
/-
  Driver for the domain `prunestep`: ONE prune step.  `o` is what the real `task.PruneTask` + `prune.Pruner` + the real
  filter chain (PreventRemove, InventoryPolicyPrune, LocalNamespaces (apply only), Dependency, CurrentUID built by
  PruneTask.Start from the real inventory Manager) did for one object over the fake cluster; the model side runs
  `Sys.pruneOne` on a `Sys.St` built from the same input, with `uids := s.mgr.appliedUIDs` exactly as `Sys.runTask` does.

  The manager table is an input here, so two ids can carry the same UID (API-group aliases) — the `justApplied` branch,
  which whole runs over the fake cluster never reach.
-/
namespace CliUtils.Drv.PruneStep
open Lean CliUtils CliUtils.Drv CliUtils.Sys

/-- the parsed input -/
structure In where
  id : Id
  uid : String
  owner : String
  keep : Bool
  detach : Bool
  storeUid : String            -- "" = the object is no longer in the store
  finalizer : Bool
  policy : Nat
  dry : Nat
  destroy : Bool
  foreground : Bool
  localNs : List String
  mgr : Mgr Id                 -- the table after the `SetObjectStatus` calls of the input, in order
  deps : List Id
  invalid : List Id
  failMut : Bool

def recOfJson (j : Json) : Except String (Rec Id) := do
  let a ← j.getArr?
  if a.size ≠ 5 then throw "manager record: need 5 fields"
  return { id := ← idOfJson a[0]!, strategy := C19.stratOf (← a[1]!.getInt?), actuation := C19.actOf (← a[2]!.getInt?),
           reconcile := C19.rcOf (← a[3]!.getInt?), uid := ← a[4]!.getStr? }

def listOr (j : Json) (k : String) : Except String (List Json) :=
  match jopt j k with
  | some a => if a.isNull then pure [] else asList a
  | none => pure []

def inOfJson (i : Json) : Except String In := do
  let recs ← (← listOr i "mgr").mapM recOfJson
  return { id := ← idOfJson (← jget i "id"), uid := ← jstr i "uid", owner := ← jstr i "owner",
           keep := jboolD i "keep" false, detach := jboolD i "detach" false, storeUid := ← jstr i "storeUid",
           finalizer := jboolD i "hasFinalizer" false, policy := (← jint i "policy").toNat % 3, dry := (← jint i "dry").toNat % 3,
           destroy := jboolD i "destroy" false, foreground := jboolD i "foreground" false,
           localNs := ← (← listOr i "localNs").mapM (·.getStr?),
           mgr := recs.foldl Mgr.set [],
           deps := ← (← listOr i "deps").mapM idOfJson, invalid := ← (← listOr i "invalid").mapM idOfJson,
           failMut := jboolD i "failMut" false }

def taskName : String := "prune-0"

/-- the object as read at planning time -/
def liveOf (p : In) : Live :=
  { id := p.id, uid := p.uid, gen := 1, owner := p.owner, keep := p.keep, detach := p.detach, rev := "0" }

/-- the run state right before the step -/
def stOf (p : In) : St :=
  let run : Run := { destroy := p.destroy, objs := [],
                     opts := { policy := p.policy, dry := (match p.dry with | 1 => .client | 2 => .server | _ => .none), foreground := p.foreground },
                     failMut := if p.failMut then [0] else [],
                     del := if p.finalizer then [(p.id, "finalizer")] else [] }
  let cl : Cluster := { objs := if p.storeUid = "" then [] else [{ liveOf p with uid := p.storeUid }] }
  { cl := cl, run := run, mgr := p.mgr, edges := p.deps.map (fun d => (d, p.id)), invalid := p.invalid }

/-- the model's step -/
def stepOf (p : In) : St :=
  let s := stOf p
  let uids := s.mgr.appliedUIDs
  pruneOne taskName uids p.localNs s (liveOf p)

/-! rendering in the shape of the Go harness (reasons compared exactly: the dependents are looked at in AddEdge order) -/

def evJson : Ev → Json
  | .op k g id st r => Json.arr #[k, g, idToJson id, st, r]
  | .error k => Json.arr #["error", k]
  | _ => Json.arr #["unexpected"]

def mutJson (m : MutRec) : Json :=
  Json.arr #[m.verb, idToJson m.id, m.dry, m.precond, m.prop, m.result, m.rejected]

def outJson (p : In) (s : St) : Json :=
  Json.mkObj [
    ("events", Json.arr (s.events.reverse.map evJson).toArray),
    ("muts", Json.arr (s.muts.reverse.map mutJson).toArray),
    ("reads", (0 : Nat)),
    ("abandoned", decide (p.id ∈ s.abandoned)),
    ("rec", match s.mgr.find? p.id with
            | some r => Json.arr #[C19.stratN r.strategy, C19.actN r.actuation, C19.rcN r.reconcile, r.uid]
            | none => Json.null),
    ("store", match s.cl.find? p.id with
              | some l => Json.mkObj [("uid", l.uid), ("owner", l.owner), ("deleting", l.deleting)]
              | none => Json.null),
    ("err", "")]

/-! the implementation's output, parsed for the property predicate -/

structure ObsEv where
  kind : String
  group : String
  id : Id
  status : String
  reason : String

structure ObsMut where
  verb : String
  id : Id
  dry : Bool
  precond : String
  prop : String
  result : String
  rejected : Bool

structure Obs where
  events : List ObsEv
  muts : List ObsMut
  abandoned : Bool
  mrec : Option (Int × Int × Int × String)      -- strategy, actuation, reconcile, uid
  store : Option (String × String × Bool)        -- uid, owner annotation, deletionTimestamp set
  err : String
  broken : Bool                                  -- panic / anomaly / unparsable

def obsOfJson (o : Json) : Except String Obs := do
  if (jopt o "panic").isSome || (jopt o "anomaly").isSome then
    return { events := [], muts := [], abandoned := false, mrec := none, store := none, err := "", broken := true }
  let evs ← (← listOr o "events").mapM (fun e => do
    let a ← e.getArr?
    if a.size ≠ 5 then throw "event: need 5 fields"
    return ({ kind := ← a[0]!.getStr?, group := ← a[1]!.getStr?, id := ← idOfJson a[2]!, status := ← a[3]!.getStr?,
              reason := ← a[4]!.getStr? } : ObsEv))
  let muts ← (← listOr o "muts").mapM (fun m => do
    let a ← m.getArr?
    if a.size ≠ 7 then throw "request: need 7 fields"
    return ({ verb := ← a[0]!.getStr?, id := ← idOfJson a[1]!, dry := ← a[2]!.getBool?, precond := ← a[3]!.getStr?,
              prop := ← a[4]!.getStr?, result := ← a[5]!.getStr?, rejected := ← a[6]!.getBool? } : ObsMut))
  let rec' ← match jopt o "rec" with
    | some (Json.arr a) =>
      if a.size ≠ 4 then throw "rec: need 4 fields"
      else pure (some (← a[0]!.getInt?, ← a[1]!.getInt?, ← a[2]!.getInt?, ← a[3]!.getStr?))
    | _ => pure none
  let store ← match jopt o "store" with
    | some s => if s.isNull then pure none else pure (some (← jstr s "uid", ← jstr s "owner", ← jbool s "deleting"))
    | none => pure none
  return { events := evs, muts := muts, abandoned := jboolD o "abandoned" false, mrec := rec', store := store,
           err := (jstr o "err").toOption.getD "", broken := false }

/-! ## the property predicate (C02, step level), written from the property text

  "A run sends a delete for an object only if … it is not the same object (UID) as one just applied; the delete carries a UID
  precondition equal to the UID read at planning time and the configured propagation policy. … Objects spared because of a
  deletion-prevention annotation (or because they are an alias of a just-applied object) lose the owning-inventory annotation
  and leave the inventory; every other spared object stays in the inventory."

  Everything below is computed from the INPUT and the implementation's OUTPUT only (no call of `pruneDecision` / `pruneOne`).
-/

/-- the CanPrune matrix: owner (none / this inventory / another one) × policy (MustMatch / AdoptIfNoInventory / AdoptAll) -/
def wantPrune (owner : String) (policy : Nat) : Bool :=
  if owner == "inv-1" then true                    -- match: always
  else if owner == "" then policy == 1 || policy == 2   -- no annotation: only the adopting policies
  else policy == 2                                 -- another inventory: only AdoptAll

def firstRec (mgr : List (Rec Id)) (d : Id) : Option (Rec Id) := List.find? (fun r => r.id == d) mgr

/-- a dependent lets the delete through only if it is valid, registered for deletion, deleted successfully and (outside
dry-run) reconciled -/
def depOk (p : In) (dryRun : Bool) (d : Id) : Bool :=
  !p.invalid.contains d &&
  (match firstRec p.mgr d with
   | some r => r.strategy == .delete && r.actuation == .succeeded && (dryRun || r.reconcile == .succeeded)
   | none => false)

/-- the object's uid is the uid of a successfully applied record -/
def appliedSame (p : In) : Bool :=
  p.uid != "" && p.mgr.any (fun r => r.strategy == .apply && r.actuation == .succeeded && r.uid == p.uid)

def chk (ok : Bool) (name : String) : List String := if ok then [] else [name]

/-- returns the list of violated clauses (empty = the predicate holds) -/
def violations (p : In) (o : Obs) : List String :=
  if o.broken then ["panic-or-anomaly"] else
  let dryRun := p.dry != 0
  let prevent := p.keep || p.detach
  let nsInUse := !p.destroy && p.id.group == "" && p.id.kind == "Namespace" && p.localNs.contains p.id.name
  let depsOk := p.deps.all (depOk p dryRun)
  let earlier := p.uid != "" && !prevent && wantPrune p.owner p.policy && !nsInUse && depsOk
  let same := appliedSame p
  let prop := if p.foreground then "Foreground" else "Background"
  let evKind := if p.destroy then "delete" else "prune"
  let deletes := o.muts.filter (·.verb == "delete")
  let updates := o.muts.filter (·.verb == "update")
  let storeBefore : Option (String × String × Bool) := if p.storeUid == "" then none else some (p.storeUid, p.owner, false)
  let untouched := o.store == storeBefore
  let evStatus : String := match o.events with | [e] => e.status | _ => "?"
  let isRec (act : Int) : Bool := match o.mrec with | some (s, a, _, _) => s == 1 && a == act | none => false
  -- shape: one result event for this object in this group; only deletes / annotation removals of this object; no task error
  chk (match o.events with | [e] => e.kind == evKind && e.group == taskName && e.id == p.id | _ => false) "one-event" ++
  chk (o.err == "") "task-error" ++
  chk (o.muts.all (fun m => (m.verb == "delete" || m.verb == "update") && m.id == p.id)) "foreign-request" ++
  chk (o.muts.length ≤ 1) "more-than-one-request" ++
  -- (1) a delete request only if every guard holds, and then with the planning-time uid and the configured propagation
  deletes.flatMap (fun d =>
    chk (p.uid != "") "delete:no-uid" ++
    chk (!prevent) "delete:prevention-annotation" ++
    chk (wantPrune p.owner p.policy) "delete:policy" ++
    chk (!nsInUse) "delete:namespace-in-use" ++
    chk depsOk "delete:dependent" ++
    chk (!same) "delete:just-applied-uid" ++
    chk (!dryRun) "delete:dry-run" ++
    chk (d.precond == p.uid) "delete:precondition" ++
    chk (d.prop == prop) "delete:propagation" ++
    chk (!d.dry) "delete:dry-flag") ++
  -- (2) alias of a just-applied object: no request, abandoned (outside dry-run), reported Skipped
  (if earlier && same then
    chk o.muts.isEmpty "just-applied:request" ++
    chk (o.abandoned == !dryRun) "just-applied:abandoned" ++
    chk (evStatus == "Skipped") "just-applied:event" ++
    chk (isRec 2) "just-applied:record" ++
    chk untouched "just-applied:store"
  -- (3) deletion-prevention annotation: no delete; outside dry-run the annotation goes and the id is abandoned
  else if p.uid != "" && prevent then
    if dryRun then
      chk o.muts.isEmpty "prevent-dry:request" ++
      chk (!o.abandoned) "prevent-dry:abandoned" ++
      chk (evStatus == "Skipped" && isRec 2) "prevent-dry:record" ++
      chk untouched "prevent-dry:store"
    else if p.owner == "" then
      chk o.muts.isEmpty "prevent-plain:request" ++
      chk o.abandoned "prevent-plain:abandoned" ++
      chk (evStatus == "Skipped" && isRec 2) "prevent-plain:record" ++
      chk untouched "prevent-plain:store"
    else
      match updates with
      | [u] =>
        chk (!u.dry) "prevent:dry-flag" ++
        (if u.result == "ok" then
          chk o.abandoned "prevent:abandoned" ++
          chk (evStatus == "Skipped" && isRec 2) "prevent:record" ++
          -- the live object (if it still exists) no longer carries the owning-inventory annotation
          chk (match o.store with | some (_, ow, _) => ow == "" | none => true) "prevent:annotation-kept"
        else
          -- the removal failed: the object stays tracked
          chk (!o.abandoned) "prevent-failed:abandoned" ++
          chk (evStatus == "Failed" && isRec 3) "prevent-failed:record" ++
          chk untouched "prevent-failed:store")
      | _ => ["prevent:no-annotation-removal"]
  -- (4) any other spared object: recorded skipped / failed, not abandoned, store untouched
  else if deletes.isEmpty && !(earlier && !same) then
    chk o.muts.isEmpty "spared:request" ++
    chk (!o.abandoned) "spared:abandoned" ++
    chk ((evStatus == "Skipped" && isRec 2) || (evStatus == "Failed" && isRec 3)) "spared:record" ++
    chk untouched "spared:store"
  -- a delete that was sent or only simulated: never abandoned
  else chk (!o.abandoned) "delete:abandoned")

/-- the observation the model's step amounts to (for `specModel`) -/
def obsOfSt (p : In) (s : St) : Obs :=
  { events := s.events.reverse.filterMap (fun e => match e with
      | .op k g id st r => some { kind := k, group := g, id := id, status := st, reason := r }
      | _ => none),
    muts := s.muts.reverse.map (fun m => { verb := m.verb, id := m.id, dry := m.dry, precond := m.precond, prop := m.prop,
                                           result := m.result, rejected := m.rejected }),
    abandoned := decide (p.id ∈ s.abandoned),
    mrec := (s.mgr.find? p.id).map (fun r => (C19.stratN r.strategy, C19.actN r.actuation, C19.rcN r.reconcile, r.uid)),
    store := (s.cl.find? p.id).map (fun l => (l.uid, l.owner, l.deleting)),
    err := "", broken := false }

/-- distribution tags: which branch of the step, and how the request ended -/
def tagsOf (p : In) (s0 s : St) : List String :=
  let d := pruneDecision s0.mgr.appliedUIDs p.localNs s0 (liveOf p)
  let res := match s.muts with | m :: _ => m.result | [] => "none"
  let branch := match d with
    | .failNoUid => ["failNoUid"]
    | .preventDry => ["preventDry"]
    | .preventNoAnnotation => ["preventNoAnnotation"]
    | .preventUpdate => ["preventUpdate", "preventUpdate:" ++ res]
    | .skip r => if r.startsWith "dep-" then [r] else [(if r = "namespace-in-use" then "skip:ns" else "skip:" ++ r)]
    | .fail r => [r]
    | .justApplied =>
      "just-applied" :: (if dryOf s0 then "just-applied:dry" else "just-applied:abandon") ::
      -- reconcile status of the applied record(s) that protect the object
      ((List.filter (fun (r : Rec Id) => r.strategy == Strategy.apply && r.actuation == Actuation.succeeded && r.uid == p.uid) p.mgr).map
        (fun (r : Rec Id) => s!"just-applied:rc{C19.rcN r.reconcile}")).eraseDups
    | .deleteDry => ["deleteDry"]
    | .delete => [match res with
        | "ok" => if p.finalizer then "delete ok (finalizer)" else "delete ok"
        | "notfound" => "delete notfound"
        | "error" => "delete fault"
        | "conflict" => "precondition"
        | r => "delete " ++ r]
  (branch.map (fun t => "prunestep:" ++ t)) ++ [if p.destroy then "prunestep:destroy" else "prunestep:apply"]

/-- domain `prunestep` -/
def handlePruneStep : Handler := fun i o => do
  let p ← inOfJson i
  let s0 := stOf p
  let s := stepOf p
  let m := outJson p s
  let (spec, why) := match obsOfJson o with
    | .ok ob => let v := violations p ob; (v.isEmpty, String.intercalate "," v)
    | .error e => (false, "unparsable output: " ++ e)
  let vm := violations p (obsOfSt p s)
  return { model := m, agree := m == o, spec := spec, specModel := vm.isEmpty, nontrivial := true,
           tags := tagsOf p s0 s, region := none,
           note := why ++ (if vm.isEmpty then "" else " | model: " ++ String.intercalate "," vm) }

end CliUtils.Drv.PruneStep
