import CliUtils.Drv.Util
import CliUtils.Drv.Status
import CliUtils.Model.Scope
/-
  Driver handler of domain `scope` (C11): the real `object.LookupResourceScope` / `validation.Validator.Validate`
  against `Scope.lookupScope` / `Scope.validateAll`.
  Input  {"mapper": [[group, kind, version, answer]…], "real": bool?, "objs": [{g, v, k, name, ns, spec: [] | [value]}…]}
  Output {"scope": class, "errs": [[id, [class…]]…], "invalid": [index…]}       (see harness/cmd/corr/dom_scope.go)
-/
namespace CliUtils.Drv.ScopeD
open Lean CliUtils CliUtils.Drv CliUtils.Scope

def ansOfStr : String → Except String MapAns
  | "ns" => pure .namespaced
  | "root" => pure .root
  | "err" => pure .error
  | "nomatch" => pure .noMatch
  | "nomatch-res" => pure .noMatch
  | "nomatch-wrapped" => pure .noMatch
  | s => throw s!"mapper answer {s}"

structure Case where
  rows : List (String × String × String × String)   -- as written in the input
  table : MapTable
  objs : List Obj
  real : Bool

def parseObj (j : Json) : Except String Obj := do
  let spec ← asList (← jget j "spec")
  let tree := J.obj (match spec with | [] => [] | x :: _ => [("spec", KS.ofJson x)])
  return { group := ← jstr j "g", version := ← jstr j "v", kind := ← jstr j "k", name := ← jstr j "name", ns := ← jstr j "ns", tree := tree }

def parseCase (i : Json) : Except String Case := do
  let rowsJ ← asList (← jget i "mapper")
  let rows ← rowsJ.mapM (fun r => do
    let a ← r.getArr?
    if a.size ≠ 4 then throw "mapper row: need 4 fields"
    return (← a[0]!.getStr?, ← a[1]!.getStr?, ← a[2]!.getStr?, ← a[3]!.getStr?))
  let table ← rows.mapM (fun (g, k, v, a) => do return ((g, k, v), ← ansOfStr a))
  let objs ← (← asList (← jget i "objs")).mapM parseObj
  if objs.isEmpty then throw "no object"
  return { rows := rows, table := table, objs := objs, real := jboolD i "real" false }

def keyStr : Key → String
  | .k s => "." ++ s
  | .i n => s!"[{n}]"

def pathStr (p : List Key) : String := String.join (p.map keyStr)

def lerrStr : LErr → String
  | .mapper => "other:mapper"
  | .notFound p => "other:NotFound:" ++ pathStr p
  | .invalid p => "other:Invalid:" ++ pathStr p

def scopeStr : ScopeRes → String
  | .namespaced => "namespaced"
  | .root => "root"
  | .unknownType => "unknown-type"
  | .error e => lerrStr e

def classStr : ErrClass → String
  | .kindRequired => "kind-required"
  | .nameRequired => "name-required"
  | .nsRequired => "namespace-required"
  | .nsMustBeEmpty => "namespace-must-be-empty"
  | .unknownType => "unknown-type"
  | .other e => lerrStr e

def modelOut (c : Case) : Json :=
  let o0 := c.objs.headD default
  let crds := findCRDs c.objs
  let sc := lookupScope (c.table.ans o0.group o0.kind o0.version) o0.group o0.kind o0.version crds
  let errs := validateAll c.table c.objs
  let inv := invalidIds c.table c.objs
  let idxs := (List.range c.objs.length).filter (fun i => (c.objs.getD i default).id ∈ inv)
  Json.mkObj [("scope", scopeStr sc),
              ("errs", Json.arr (errs.map (fun (id, es) => Json.arr #[idToJson id, strsToJson (es.map classStr)])).toArray),
              ("invalid", Json.arr (idxs.map (fun (i : Nat) => (i : Json))).toArray)]

/-! ### the C11 clauses on the implementation's output

Everything below reads the input with its own small functions (`tableAnswer`, `readGK`, `Scope.view`) and never calls
`lookupScope` / `crdStep` / `validateObj`. -/

/-- the mapper's answer for a type, straight from the rows of the input -/
def tableAnswer (rows : List (String × String × String × String)) (g k v : String) : String :=
  match rows.find? (fun r => r.1 == g && r.2.1 == k && r.2.2.1 == v) with
  | some r => r.2.2.2
  | none => "nomatch"

def isCrdObj (o : Obj) : Bool := o.group == "apiextensions.k8s.io" && o.kind == "CustomResourceDefinition"

/-- can group and kind of a CRD be read at all?  `none`: no (no spec / spec not a map / group absent or "" / names absent, null or
not a map / kind absent or ""); `some (g?, k?)`: yes, with the string values where they are strings -/
def readGK (t : J) : Option (Option String × Option String) :=
  match t with
  | .obj top =>
    match J.lookup "spec" top with
    | some (.obj sp) =>
      match J.lookup "group" sp, J.lookup "names" sp with
      | some gv, some (.obj nm) =>
        match J.lookup "kind" nm with
        | some kv =>
          let gs := match gv with | .str s => some s | _ => none
          let ks := match kv with | .str s => some s | _ => none
          if gs == some "" || ks == some "" then none else some (gs, ks)
        | none => none
      | _, _ => none
    | _ => none
  | _ => none

inductive Expect where
  | scope (namespaced : Bool)   -- the type is known with this scope
  | unknown                     -- known neither to the mapper nor to a CRD of the set: must be reported as unknown type
  | mapperErr                   -- the mapper failed: must be reported with that error
  | reported                    -- a CRD that cannot be read stands before any CRD for this type: must be reported with an error
  | any                         -- the CRD set is contradictory / partly malformed behind a match: not judged
deriving DecidableEq, Repr

def Expect.tag : Expect → String
  | .scope true => "scope:exp-namespaced" | .scope false => "scope:exp-root" | .unknown => "scope:exp-unknown"
  | .mapperErr => "scope:exp-mapper-error" | .reported => "scope:exp-unreadable-crd-reported" | .any => "scope:exp-not-judged"

/-- is there an unreadable CRD that no CRD for (g, k) precedes? -/
def unreadableFirst (g k : String) : List J → Bool
  | [] => false
  | t :: ts =>
    match readGK t with
    | none => true
    | some (gs, ks) => if gs == some g && ks == some k then false else unreadableFirst g k ts

def expectFor (c : Case) (ob : Obj) : Expect :=
  match tableAnswer c.rows ob.group ob.kind ob.version with
  | "ns" => .scope true
  | "root" => .scope false
  | "err" => .mapperErr
  | _ =>
    let trees := (c.objs.filter isCrdObj).map (·.tree)
    let views := trees.map view
    if views.all Option.isSome then
      let ms := (views.filterMap id).filter (fun v => v.group == ob.group && v.kind == ob.kind)
      let defs := ms.filter (fun v => v.versions.contains ob.version)
      if defs.isEmpty then .unknown
      else if ms.length == defs.length && (defs.all (·.namespaced) || defs.all (fun v => !v.namespaced)) then
        .scope ((defs.headD default).namespaced)
      else .any
    else if unreadableFirst ob.group ob.kind trees then .reported
    else if trees.all (fun t => match readGK t with | some (gs, ks) => !(gs == some ob.group && ks == some ob.kind) | none => false) then .unknown
    else .any

/-- the classes other than kind-required / name-required that an expectation allows, for this namespace -/
def restOK (e : Expect) (ns : String) (rest : List String) : Bool :=
  match e with
  | .scope true => if ns == "" then rest == ["namespace-required"] else rest == []
  | .scope false => if ns != "" then rest == ["namespace-must-be-empty"] else rest == []
  | .unknown => rest == ["unknown-type"]
  | .mapperErr => rest == ["other:mapper"]
  | .reported => rest.length == 1 && rest.all (fun s => s.startsWith "other:" && s != "other:mapper")
  | .any => true

def scopeOK (e : Expect) (s : String) : Bool :=
  match e with
  | .scope true => s == "namespaced"
  | .scope false => s == "root"
  | .unknown => s == "unknown-type"
  | .mapperErr => s == "other:mapper"
  | .reported => s.startsWith "other:" && s != "other:mapper"
  | .any => true

def parseErrs (j : Json) : Except String (List (Id × List String)) := do
  (← asList j).mapM (fun e => do
    let a ← e.getArr?
    if a.size ≠ 2 then throw "errs entry"
    return (← idOfJson a[0]!, ← (← asList a[1]!).mapM (fun s => s.getStr?)))

def scopeSpec (c : Case) (o : Json) : Except String (Bool × String) := do
  if (jopt o "panic").isSome then return (false, "panic")
  let scope ← jstr o "scope"
  let errs ← parseErrs (← jget o "errs")
  let invalid ← (← asList (← jget o "invalid")).mapM (fun j => j.getNat?)
  -- every validation error names an object of the set and has a cause; the invalid ids are exactly the named ones
  for (id, cl) in errs do
    if cl.isEmpty then return (false, "a validation error without cause")
    if !(c.objs.any (fun ob => ob.id == id)) then return (false, "a validation error names an id that is not in the set")
  let named (id : Id) : Bool := errs.any (fun e => e.1 == id)
  let want := (List.range c.objs.length).filter (fun i => named (c.objs.getD i default).id)
  if invalid != want then return (false, "InvalidIds differs from the ids named in the validation errors")
  -- per object (judged when no other object of the set has the same id)
  for ob in c.objs do
    if (c.objs.filter (fun x => x.id == ob.id)).length != 1 then continue
    let E := (errs.filter (fun e => e.1 == ob.id)).flatMap (·.2)
    if (errs.filter (fun e => e.1 == ob.id)).length > 1 then return (false, s!"more than one validation error for {ob.name}")
    if (ob.kind == "") != E.contains "kind-required" then return (false, s!"missing kind not reported / reported wrongly for {ob.name}")
    if (ob.name == "") != E.contains "name-required" then return (false, s!"missing name not reported / reported wrongly for {ob.kind}")
    let rest := E.filter (fun s => s != "kind-required" && s != "name-required")
    if ob.kind != "" then
      let e := expectFor c ob
      if !(restOK e ob.ns rest) then return (false, s!"{ob.kind}/{ob.name}: expected {e.tag}, reported {rest}")
  -- the direct lookup for the first object
  let o0 := c.objs.headD default
  let e0 := expectFor c o0
  if !(scopeOK e0 scope) then return (false, s!"LookupResourceScope: expected {e0.tag}, got {scope}")
  return (true, "")

def handleScope : Handler := fun i o => do
  let c ← parseCase i
  let m := modelOut c
  let (spec, why) := match scopeSpec c o with | .ok r => r | .error e => (false, "spec error: " ++ e)
  let (specM, _) ← scopeSpec c m
  let o0 := c.objs.headD default
  let e0 := expectFor c o0
  let trees := (c.objs.filter isCrdObj).map (·.tree)
  let nCrd := trees.length
  let scM := match jstr m "scope" with | .ok s => s | .error _ => "?"
  let scTag := if scM.startsWith "other:" then (if scM == "other:mapper" then "scope:res-mapper-error" else "scope:res-crd-error") else "scope:res-" ++ scM
  let ans := tableAnswer c.rows o0.group o0.kind o0.version
  let errClasses := match parseErrs ((jopt m "errs").getD (Json.arr #[])) with
    | .ok l => (l.flatMap (fun (e : Id × List String) => e.2)).map (fun (s : String) => if s.startsWith "other:" then "scope:err-other" else "scope:err-" ++ s)
    | .error _ => []
  let wf := trees.all (fun t => (view t).isSome)
  let ms := (trees.filterMap view).filter (fun v => v.group == o0.group && v.kind == o0.kind)
  let tags := [scTag, e0.tag, s!"scope:mapper-{ans}", s!"scope:crds{nCrd}"] ++ errClasses.eraseDups ++
    (if c.real then ["scope:real-DefaultRESTMapper"] else []) ++
    (if isCrdObj o0 then ["scope:object-is-a-crd"] else []) ++
    (if nCrd > 0 && wf then ["scope:crds-wellformed"] else []) ++
    (if nCrd > 0 && !wf then ["scope:crds-malformed"] else []) ++
    (if ans.startsWith "nomatch" && ms.length ≥ 2 then ["scope:two-crds-for-the-type"] else []) ++
    (if ans.startsWith "nomatch" && ms.any (fun v => !v.versions.contains o0.version) then ["scope:crd-lacks-version"] else []) ++
    (if (ans == "ns" || ans == "root") && !ms.isEmpty then ["scope:mapper-and-crd-know-the-type"] else []) ++
    (if errClasses.isEmpty then ["scope:all-valid"] else [])
  return { model := m, agree := m == o, spec := spec, specModel := specM, note := why,
           nontrivial := nCrd ≥ 1 || !errClasses.isEmpty, tags := tags, region := none }

end CliUtils.Drv.ScopeD
