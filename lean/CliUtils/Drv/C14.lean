import CliUtils.Drv.Util
import CliUtils.Model.Graph
import CliUtils.Model.DepEdges
/-
  C14 driver.  Domain `graph`.
  Input  {u: ids, vs, es, vs2, es2, present, objs}  (everything but `u` is an index into `u`)
  Output {a: out(vs,es), b: out(vs2,es2)}  with ids named by their universe index.

  `model`  : Model.Graph run on the ids.
  `spec`   : an oracle that shares nothing with the model: reachability by Warshall closure on a Bool matrix,
             "cyclic" = reaches a vertex that reaches itself, layer = length of the longest dependency chain (DP),
             order inside a layer by a lexicographic key (kind-table index, group, kind, namespace, name).
-/
namespace CliUtils.Drv.C14
open Lean CliUtils CliUtils.Drv

/-! ### decoding -/

def natOfJson (j : Json) : Except String Nat := do
  let i ← j.getInt?
  if i < 0 then throw "negative index" else return i.toNat

def natsOfJson (j : Json) : Except String (List Nat) := do (← asList j).mapM natOfJson

def pairOfJson (j : Json) : Except String (Nat × Nat) := do
  let a ← j.getArr?
  if a.size ≠ 2 then throw "edge: need 2 fields"
  return (← natOfJson a[0]!, ← natOfJson a[1]!)

def pairsOfJson (j : Json) : Except String (List (Nat × Nat)) := do (← asList j).mapM pairOfJson

def layersOfJson (j : Json) : Except String (List (List Nat)) := do (← asList j).mapM natsOfJson

def natJ (n : Nat) : Json := Json.num (JsonNumber.fromNat n)
def natsToJson (l : List Nat) : Json := Json.arr (l.map natJ).toArray
def layersToJson (l : List (List Nat)) : Json := Json.arr (l.map natsToJson).toArray
def pairsToJson (l : List (Nat × Nat)) : Json := Json.arr (l.map (fun p => Json.arr #[natJ p.1, natJ p.2])).toArray

def sortNats (l : List Nat) : List Nat := l.mergeSort (fun a b => a ≤ b)

/-! ### the model's output -/

structure In where
  u : Array Id
  vs : List Nat
  es : List (Nat × Nat)
  present : List Nat
  objs : Bool

def ixOf (u : Array Id) (x : Id) : Nat := (u.toList.findIdx? (fun y => y == x)).getD u.size

def resToJson (u : Array Id) (r : Graph.SortResult Id) : Json :=
  Json.mkObj [
    ("layers", layersToJson (r.layers.map (·.map (ixOf u)))),
    ("cyc", natsToJson (r.cycle.map (ixOf u))),
    ("cycEdges", pairsToJson (r.cycleEdges.map (fun e => (ixOf u e.1, ixOf u e.2)))),
    ("other", natJ 0)]

def modelOne (x : In) : Json :=
  let id := fun i => x.u[i]!
  let ix := ixOf x.u
  let V := x.vs.map id
  let E := x.es.map (fun e => (id e.1, id e.2))
  let P := x.present.map id
  let g := Graph.build V E
  let s := Graph.sort g
  let hyd := Graph.hydrate Ordering.less (fun v => decide (v ∈ P)) s.1
  Json.mkObj [
    ("panic", false),
    ("size", natJ (Graph.size g)),
    ("raw", layersToJson (s.1.map (fun l => sortNats (l.map ix)))),
    ("cyc", natsToJson ((Graph.cycleIds Ordering.less s.2).map ix)),
    ("cycEdges", pairsToJson ((Graph.cycleEdgeList Ordering.edgeLess s.2).map (fun e => (ix e.1, ix e.2)))),
    ("other", natJ 0),
    ("deps", layersToJson (x.u.toList.map (fun v => (Graph.deps g v).map ix))),
    ("hyd", layersToJson (hyd.map (·.map ix))),
    ("rev", layersToJson ((Graph.reverseSetList hyd).map (·.map ix))),
    ("edgesOK", true),
    ("sobj", if x.objs then resToJson x.u (Graph.sortObjs Ordering.less Ordering.edgeLess V E) else Json.null),
    ("robj", if x.objs then resToJson x.u (Graph.reverseSortObjs Ordering.less Ordering.edgeLess V E) else Json.null)]

/-! ### the independent oracle -/

/-- lexicographic key of the documented order: kind-table position, then group, kind, namespace, name -/
def keyLt (a b : Id) : Bool :=
  let ka := Ordering.kindIndex a.group a.kind
  let kb := Ordering.kindIndex b.group b.kind
  if ka < kb then true else if kb < ka then false
  else if a.group < b.group then true else if b.group < a.group then false
  else if a.kind < b.kind then true else if b.kind < a.kind then false
  else if a.ns < b.ns then true else if b.ns < a.ns then false
  else decide (a.name < b.name)

/-- key of edge.go's order: group, kind, namespace, name -/
def metaKeyLt (a b : Id) : Bool :=
  if a.group < b.group then true else if b.group < a.group then false
  else if a.kind < b.kind then true else if b.kind < a.kind then false
  else if a.ns < b.ns then true else if b.ns < a.ns then false
  else decide (a.name < b.name)

def strictlySorted {β : Type} (lt : β → β → Bool) : List β → Bool
  | [] => true
  | x :: xs => xs.all (fun y => lt x y && !lt y x) && strictlySorted lt xs

structure Oracle where
  n : Nat
  isV : Array Bool
  adj : Array (List Nat)
  cyclic : Array Bool
  height : Array Nat

def mkOracle (n : Nat) (vs : List Nat) (es : List (Nat × Nat)) : Oracle := Id.run do
  let mut isV : Array Bool := Array.replicate n false
  let mut adj : Array (List Nat) := Array.replicate n []
  for v in vs do isV := isV.set! v true
  let mut r : Array (Array Bool) := Array.replicate n (Array.replicate n false)
  for (a, b) in es do
    isV := (isV.set! a true).set! b true
    if !(adj[a]!.contains b) then adj := adj.set! a (b :: adj[a]!)
    r := r.set! a (r[a]!.set! b true)
  -- Warshall: r[i][j] = a path with at least one edge leads from i to j
  for k in [0:n] do
    for i in [0:n] do
      if r[i]![k]! then
        let rk := r[k]!
        let mut ri := r[i]!
        for j in [0:n] do
          if rk[j]! then ri := ri.set! j true
        r := r.set! i ri
  let mut cyc : Array Bool := Array.replicate n false
  for v in [0:n] do
    let mut c := r[v]![v]!
    for w in [0:n] do
      if r[v]![w]! && r[w]![w]! then c := true
    cyc := cyc.set! v c
  -- longest dependency chain from each acyclic vertex: n rounds of relaxation
  let mut h : Array Nat := Array.replicate n 0
  for _ in [0:n] do
    let mut h' := h
    for v in [0:n] do
      if !cyc[v]! then
        match adj[v]! with
        | [] => h' := h'.set! v 0
        | ds => h' := h'.set! v (1 + ds.foldl (fun m d => max m h[d]!) 0)
    h := h'
  return { n := n, isV := isV, adj := adj, cyclic := cyc, height := h }

def sameSet (a b : List Nat) : Bool := a.all (b.contains ·) && b.all (a.contains ·)
def nodupNats (a : List Nat) : Bool := (sortNats a).eraseDups.length == a.length

structure OneVerdict where
  ok : Bool
  hasCycle : Bool
  nLayers : Nat
  deep : Bool

def exactReverse (fwd rev : List (List Nat)) : Bool :=
  rev.flatten == fwd.flatten.reverse && rev.map List.length == (fwd.map List.length).reverse

def specOne (x : In) (o : Json) : Except String OneVerdict := do
  let n := x.u.size
  let orc := mkOracle n x.vs x.es
  let id := fun i => x.u[i]!
  let V := (List.range n).filter (fun v => orc.isV[v]!)
  let panic ← jbool o "panic"
  if panic then return { ok := false, hasCycle := false, nLayers := 0, deep := false }
  let raw ← layersOfJson (← jget o "raw")
  let cyc ← natsOfJson (← jget o "cyc")
  let cycEdges ← pairsOfJson (← jget o "cycEdges")
  let hyd ← layersOfJson (← jget o "hyd")
  let rev ← layersOfJson (← jget o "rev")
  let size ← jint o "size"
  let other ← jint o "other"
  let edgesOK ← jbool o "edgesOK"
  let inRange := (raw.flatten ++ cyc ++ hyd.flatten ++ rev.flatten).all (· < n) && cycEdges.all (fun e => e.1 < n && e.2 < n)
  if !inRange then return { ok := false, hasCycle := false, nLayers := 0, deep := false }
  -- partition: every vertex in exactly one layer or in the cycle set
  let all := raw.flatten ++ cyc
  let okPartition := nodupNats all && sameSet all V && raw.all (fun l => !l.isEmpty) && size == (V.length : Int)
  -- exact cycle set
  let okCycle := sameSet cyc (V.filter (fun v => orc.cyclic[v]!)) && nodupNats cyc
  -- layer index = longest chain; plus strictness and minimality checked directly
  let layerOf : Array (Option Nat) := Id.run do
    let mut a : Array (Option Nat) := Array.replicate n none
    let mut i := 0
    for l in raw do
      for v in l do a := a.set! v (some i)
      i := i + 1
    return a
  let okHeight := (raw.zipIdx).all (fun (l, i) => l.all (fun v => !orc.cyclic[v]! && orc.height[v]! == i))
  let okStrict := (raw.zipIdx).all (fun (l, i) => l.all (fun v => orc.adj[v]!.all (fun d =>
      match layerOf[d]! with | some j => decide (j < i) | none => false)))
  let okMinimal := (raw.zipIdx).all (fun (l, i) => i == 0 || l.all (fun v => orc.adj[v]!.any (fun d =>
      match layerOf[d]! with | some j => j + 1 == i | none => false)))
  -- hydrated layers: the present members of each layer, documented order, empty layers dropped
  let expect := (raw.map (fun l => l.filter (x.present.contains ·))).filter (fun l => !l.isEmpty)
  let okHyd := hyd.length == expect.length &&
    (hyd.zip expect).all (fun (h, e) => sameSet h e && strictlySorted keyLt (h.map id))
  -- reversal
  let okRev := exactReverse hyd rev
  -- error content
  let okCycOrder := strictlySorted keyLt (cyc.map id)
  let wantEdges := (x.es.filter (fun e => orc.cyclic[e.1]! && orc.cyclic[e.2]!)).eraseDups
  let okCycEdges := cycEdges.all (wantEdges.contains ·) && wantEdges.all (cycEdges.contains ·) &&
    cycEdges.length == wantEdges.length &&
    strictlySorted (fun (e f : Id × Id) => if e.1 == f.1 then metaKeyLt e.2 f.2 else metaKeyLt e.1 f.1)
      (cycEdges.map (fun e => (id e.1, id e.2)))
  let mut core := okPartition && okCycle && okHeight && okStrict && okMinimal && okHyd && okRev && okCycOrder && okCycEdges &&
    other == 0 && edgesOK
  if x.objs then
    let so ← jget o "sobj"
    let ro ← jget o "robj"
    let sl ← layersOfJson (← jget so "layers")
    let rl ← layersOfJson (← jget ro "layers")
    let expectAll := if x.vs.isEmpty then [] else raw
    let okS := sl.length == expectAll.length &&
      (sl.zip expectAll).all (fun (h, e) => sameSet h e && nodupNats h && strictlySorted keyLt (h.map id)) &&
      (← jget so "cyc") == (← jget o "cyc") && (← jget so "cycEdges") == (← jget o "cycEdges") && (← jint so "other") == 0
    let okR := (← jget ro "cyc") == (← jget o "cyc") && (← jget ro "cycEdges") == (← jget o "cycEdges") && (← jint ro "other") == 0 &&
      sameSet rl.flatten sl.flatten
    -- delete order = exact reverse of apply order, also next to a cycle error
    core := core && okS && okR && exactReverse sl rl
  return { ok := core, hasCycle := !cyc.isEmpty, nLayers := raw.length,
           deep := raw.length ≥ 3 }

/-- permutation invariance: the second presentation gives the same answer (dependency lists: same sets) -/
def sameAnswer (a b : Json) : Except String Bool := do
  let fields := ["panic", "size", "raw", "cyc", "cycEdges", "other", "hyd", "rev", "edgesOK", "sobj", "robj"]
  let mut ok := true
  for f in fields do
    if (← jget a f) != (← jget b f) then ok := false
  let da ← layersOfJson (← jget a "deps")
  let db ← layersOfJson (← jget b "deps")
  ok := ok && da.length == db.length && (da.zip db).all (fun (p, q) => sameSet p q && p.length == q.length)
  return ok

def handleGraph : Handler := fun i o => do
  let u := (← idsOfJson (← jget i "u")).toArray
  let n := u.size
  let vs ← natsOfJson (← jget i "vs")
  let es ← pairsOfJson (← jget i "es")
  let vs2 ← natsOfJson (← jget i "vs2")
  let es2 ← pairsOfJson (← jget i "es2")
  let present ← natsOfJson (← jget i "present")
  let objs ← jbool i "objs"
  if !((vs ++ vs2 ++ present).all (· < n) && (es ++ es2).all (fun e => e.1 < n && e.2 < n)) then throw "graph: index outside universe"
  let xa : In := { u := u, vs := vs, es := es, present := present, objs := objs }
  let xb : In := { xa with vs := vs2, es := es2 }
  let m := Json.mkObj [("a", modelOne xa), ("b", modelOne xb)]
  let evalSpec (out : Json) : Except String (Bool × OneVerdict) := do
    let oa ← jget out "a"
    let ob ← jget out "b"
    let va ← specOne xa oa
    let vb ← specOne xb ob
    let inv ← sameAnswer oa ob
    return (va.ok && vb.ok && inv, va)
  let (spec, va) := match evalSpec o with
    | .ok r => r
    | .error _ => (false, { ok := false, hasCycle := false, nLayers := 0, deep := false })
  let (specM, _) ← evalSpec m
  let nV := ((vs ++ es.map (·.1) ++ es.map (·.2)).eraseDups).length
  return { model := m, agree := m == o, spec := spec, specModel := specM,
           nontrivial := es.length ≥ 1 && nV ≥ 2,
           tags := [if va.hasCycle then "graph:cyclic" else "graph:acyclic",
                    s!"graph:layers{min va.nLayers 6}", s!"graph:n{if nV ≤ 4 then nV else if nV ≤ 12 then 12 else 40}",
                    if objs then "graph:objs" else "graph:plain",
                    if va.hasCycle && va.nLayers ≥ 1 then "graph:partial-order-with-cycle" else "graph:other"],
           region := none }

/-! ### domain `depgraph`: DependencyGraph (implicit + annotated edges, annotation errors) and SortObjs on top -/

open CliUtils.DepEdges in
def annOfJson (u : Array Id) (state : Int) (refs : List Nat) : Ann :=
  if state == 0 then .absent else if state == 1 then .invalid else .refs (refs.map (fun i => u[i]!))

open CliUtils.DepEdges in
def dobjOfJson (u : Array Id) (j : Json) : Except String (DObj × Nat) := do
  let i ← natOfJson (← jget j "id")
  let crd : Option (String × String) ← (match jopt j "crd" with
    | some (Json.arr a) => do
      if a.size ≠ 2 then throw "crd: need 2 fields"
      pure (some (← a[0]!.getStr?, ← a[1]!.getStr?))
    | _ => pure none)
  let dr ← natsOfJson (← jget j "depRefs")
  let mr ← natsOfJson (← jget j "mutRefs")
  if !((i :: dr ++ mr).all (· < u.size)) then throw "depgraph: index outside universe"
  return ({ id := u[i]!, crdDefines := crd, dependsOn := annOfJson u (← jint j "depState") dr,
            mutation := annOfJson u (← jint j "mutState") mr }, i)

open CliUtils.DepEdges in
def errToJson (u : Array Id) (e : DepErr) : Json :=
  Json.arr #[natJ (ixOf u e.obj), (match e.ann with | .dependsOn => "dep" | .mutation => "mut"),
    Json.arr (e.items.map (fun it => Json.arr #[
      (match it.1 with | .invalid => "invalid" | .duplicate => "dup" | .external => "ext"),
      (match it.2 with | some t => natJ (ixOf u t) | none => Json.num (JsonNumber.fromInt (-1)))])).toArray]

open CliUtils.DepEdges in
def handleDepgraph : Handler := fun i o => do
  let u := (← idsOfJson (← jget i "u")).toArray
  let objsI ← (← asList (← jget i "objs")).mapM (dobjOfJson u)
  let objs := objsI.map (·.1)
  let ids := objs.map (·.id)
  let res := dependencyEdges objs
  let g := dependencyGraph objs
  let so := Graph.sortObjs Ordering.less Ordering.edgeLess ids res.edges
  let m := Json.mkObj [
    ("panic", false),
    ("size", natJ (Graph.size g)),
    ("deps", layersToJson (u.toList.map (fun v => (Graph.deps g v).map (ixOf u)))),
    ("errs", Json.arr (res.errors.map (errToJson u)).toArray),
    ("layers", layersToJson (so.layers.map (·.map (ixOf u)))),
    ("cyc", natsToJson (so.cycle.map (ixOf u))),
    ("sortOther", natJ res.errors.length)]
  -- property-side judgement of the implementation's output, from the input alone:
  --  * every edge joins two objects of the set; implied namespace / CRD edges are present;
  --  * every well-formed, first-mention, internal reference of either annotation is an edge;
  --  * the layers SortObjs returns respect every edge of the returned graph (dependency strictly earlier)
  --    and, with the cycle ids, partition the object ids.
  let spec : Bool := match (do
      if (← jbool o "panic") then return false
      let deps ← layersOfJson (← jget o "deps")
      let layers ← layersOfJson (← jget o "layers")
      let cyc ← natsOfJson (← jget o "cyc")
      let n := u.size
      if deps.length ≠ n then return false
      if !((deps.flatten ++ layers.flatten ++ cyc).all (· < n)) then return false
      let objIdx := (objsI.map (·.2)).eraseDups
      let depsA := deps.toArray
      let hasEdge (a b : Nat) : Bool := depsA[a]!.contains b
      let okInternal := (List.range n).all (fun a => depsA[a]!.all (fun b => objIdx.contains a && objIdx.contains b))
      let okNs := objIdx.all (fun a => u[a]!.ns == "" || objIdx.all (fun b =>
        !(u[b]!.group == "" && u[b]!.kind == "Namespace" && u[b]!.name == u[a]!.ns && u[b]!.ns == "") || hasEdge a b))
      let okRefs := objsI.all (fun (ob, a) =>
        let chk (an : Ann) : Bool := match an with
          | .refs rs => rs.all (fun r => !(ids.contains r) || hasEdge a (ixOf u r))
          | _ => true
        chk ob.dependsOn && chk ob.mutation)
      let layerOf : Array (Option Nat) := Id.run do
        let mut arr : Array (Option Nat) := Array.replicate n none
        let mut k := 0
        for l in layers do
          for v in l do arr := arr.set! v (some k)
          k := k + 1
        return arr
      let okStrict := (layers.zipIdx).all (fun (l, k) => l.all (fun v => depsA[v]!.all (fun d =>
        match layerOf[d]! with | some j => decide (j < k) | none => false)))
      let okPart := nodupNats (layers.flatten ++ cyc) && sameSet (layers.flatten ++ cyc) objIdx
      let okOrder := layers.all (fun l => strictlySorted keyLt (l.map (fun v => u[v]!)))
      return okInternal && okNs && okRefs && okStrict && okPart && okOrder : Except String Bool) with
    | .ok b => b
    | .error _ => false
  let nErr := res.errors.length
  return { model := m, agree := m == o, spec := spec, specModel := true,
           nontrivial := res.edges.length ≥ 1,
           tags := [if nErr == 0 then "dep:no-error" else "dep:errors",
                    if (crdEdges objs).isEmpty then "dep:no-crd-edge" else "dep:crd-edge",
                    if (nsEdges objs).isEmpty then "dep:no-ns-edge" else "dep:ns-edge",
                    if res.errors.any (fun e => e.items.any (·.1 == .duplicate)) then "dep:dup" else "dep:no-dup",
                    if res.errors.any (fun e => e.items.any (·.1 == .external)) then "dep:ext" else "dep:no-ext",
                    if res.errors.any (fun e => e.items.any (·.1 == .invalid)) then "dep:invalid" else "dep:no-invalid",
                    if so.cycle.isEmpty then "dep:acyclic" else "dep:cyclic"],
           region := none }

end CliUtils.Drv.C14
