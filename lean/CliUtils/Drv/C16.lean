import CliUtils.Drv.Util
import CliUtils.Model.Funnel
import CliUtils.Model.Reporter
/-
  Driver handlers for C16: domains `funnel`, `watcher`, `watcher-fatal`.
-/
namespace CliUtils.Drv.C16
open Lean CliUtils CliUtils.Drv

/-! ## domain `funnel` -/

def natOf (j : Json) : Except String Nat := do
  let i ← j.getInt?
  if i < 0 then throw "negative" else return i.toNat

def obsOfJson (j : Json) : Except String Funnel.Obs := do
  let a ← j.getArr?
  let k ← a[0]!.getStr?
  match k with
  | "cancel" => return .cancel
  | "outClosed" => return .outClosed
  | "addCall" => return .addCall (← natOf a[1]!)
  | "addOk" => return .addOk (← natOf a[1]!)
  | "addRej" => return .addRej (← natOf a[1]!)
  | "closeIn" => return .closeIn (← natOf a[1]!)
  | "send" => return .send (← natOf a[1]!) (← natOf a[2]!)
  | "out" => return .out (← natOf a[1]!) (← natOf a[2]!)
  | _ => throw s!"funnel: unknown observation {k}"

/-- index of the first occurrence -/
def idxOf (h : List Funnel.Obs) (o : Funnel.Obs) : Option Nat :=
  let rec go : List Funnel.Obs → Nat → Option Nat
    | [], _ => none
    | x :: xs, n => if x = o then some n else go xs (n + 1)
  go h 0

def eventsOfP (h : List Funnel.Obs) (p : Nat) (outs : Bool) : List Nat :=
  h.filterMap fun o => match o with
    | .out i e => if outs && i == p then some e else none
    | .send i e => if !outs && i == p then some e else none
    | _ => none

/-- every out of producer p is preceded by the corresponding send: at every prefix #out ≤ #send -/
def outsAfterSends (h : List Funnel.Obs) (p : Nat) : Bool :=
  let rec go : List Funnel.Obs → Nat → Nat → Bool
    | [], _, _ => true
    | .send i _ :: xs, s, o => if i == p then go xs (s + 1) o else go xs s o
    | .out i _ :: xs, s, o => if i == p then (o + 1 ≤ s) && go xs s (o + 1) else go xs s o
    | _ :: xs, s, o => go xs s o
  go h 0 0

/-- the property on an observed history, written without the model: for the programs `evs` (one event list per producer) -/
def funnelSpec (evs : List (List Nat)) (h : List Funnel.Obs) : Bool :=
  let n := evs.length
  let closedAt := idxOf h .outClosed
  let cancelAt := idxOf h .cancel
  let okClose := match closedAt, cancelAt with
    | some c, some k => k < c && (h.drop (c + 1)).all (fun o => match o with | .out _ _ => false | .outClosed => false | _ => true)
    | _, _ => false
  let okP := (List.range n).all fun p =>
    let ev := evs.getD p []
    let ok := h.contains (.addOk p)
    let rej := h.contains (.addRej p)
    if ok then
      !rej && eventsOfP h p true == ev && eventsOfP h p false == ev && outsAfterSends h p &&
      (match idxOf h (.closeIn p), closedAt with | some a, some c => a < c | _, _ => false)
    else
      rej && eventsOfP h p true == [] && eventsOfP h p false == []
  okClose && okP

def handleFunnel : Handler := fun i o => do
  let prods ← asList (← jget i "prods")
  let evs ← prods.mapM (fun p => do (← asList (← jget p "ev")).mapM natOf)
  let n := prods.length
  let hist ← (← asList (← jget o "hist")).mapM obsOfJson
  let panic ← jbool o "panic"
  let closed ← jbool o "closed"
  let stuck ← jbool o "stuck"
  let leak ← jint o "leak"
  let acc := Funnel.accepts n hist
  let mk (a p c s l : Bool) : Json :=
    Json.mkObj [("accepted", a), ("panic", p), ("closed", c), ("stuck", s), ("leak", l)]
  let m := mk true false true false false
  let impl := mk acc panic closed stuck (leak != 0)
  let spec := !panic && closed && !stuck && leak == 0 && funnelSpec evs hist
  let nRej := (hist.filter fun x => match x with | .addRej _ => true | _ => false).length
  let nEv := (evs.map List.length).foldl (· + ·) 0
  let cancelIdx := (idxOf hist .cancel).getD 0
  let addAfterCancel := (List.range n).any fun p =>
    match idxOf hist (.addOk p) with | some a => cancelIdx < a | none => false
  return { model := m, agree := m == impl, spec := spec,
           nontrivial := n ≥ 2 || nEv ≥ 2,
           tags := [s!"funnel:n{n}", if nRej > 0 then "funnel:some-rejected" else "funnel:none-rejected",
                    if addAfterCancel then "funnel:accepted-after-cancel" else "funnel:no-accept-after-cancel",
                    s!"funnel:events{min nEv 8}"],
           note := if acc then "" else "history is not a trace of the model" }

/-! ## domains `watcher`, `watcher-fatal` -/

open Reporter in
def statusOfStr : String → Except String Status
  | "InProgress" => pure .inProgress
  | "Failed" => pure .failed
  | "Current" => pure .current
  | "Terminating" => pure .terminating
  | "NotFound" => pure .notFound
  | "Unknown" => pure .unknown
  | s => throw s!"unknown status {s}"

open Reporter in
def statusStr : Status → String
  | .inProgress => "InProgress"
  | .failed => "Failed"
  | .current => "Current"
  | .terminating => "Terminating"
  | .notFound => "NotFound"
  | .unknown => "Unknown"

open Reporter in
/-- an informer of target `t` sees object `id` (an empty namespace lists every namespace) -/
def covers (t : Gkn) (id : Id) : Bool := t.group == id.group && t.kind == id.kind && (t.ns == "" || t.ns == id.ns)

open Reporter in
structure Sim where
  cfg : Cfg
  ids : Array Id
  st : Array (Array Status)
  widgetOn : Bool
  lateServe : Bool := false
  widgetMapped : Bool
  cur : List (Nat × Nat) := []     -- object → version
  ever : List Nat := []
  rs : RState := {}
  restarts : Nat := 0               -- informer starts after the initial Start
  watching : Bool := false

open Reporter in
def Sim.obj (s : Sim) (i v : Nat) : Obj :=
  let id := s.ids[i]!
  { id := id, computed := some ((s.st[i]!)[v]!), crdGk := if isCRD id then some ("example.com", "Widget") else none }

open Reporter in
def mappedTarget (s : Sim) (t : Gkn) : Bool := if t.kind == "Widget" then s.widgetMapped else true

open Reporter in
/-- run one reporter input, then let every informer that was started by it do its initial LIST (or fail with NoMatch);
notifications for Namespace / CRD objects found that way may start more informers, hence the fuel -/
def Sim.feed (s : Sim) (inp : In) : Sim :=
  let rec settle (fuel : Nat) (s : Sim) (before : List Gkn) : Sim :=
    match fuel with
    | 0 => s
    | fuel + 1 =>
      let fresh := s.rs.started.filter (fun t => !(before.contains t))
      match fresh with
      | [] => s
      | t :: _ =>
        let before' := before ++ [t]
        let s1 := if s.watching then { s with restarts := s.restarts + 1 } else s
        if !(mappedTarget s t) then
          let rs' := Reporter.step s.cfg s1.rs (.noMatch t)
          settle fuel { s1 with rs := rs' } (before'.filter (fun u => rs'.started.contains u))
        else
          let objs := s.cur.filter (fun (i, _) => covers t s.ids[i]!)
          let rs' := objs.foldl (fun rs (i, v) => Reporter.step s.cfg rs (.watch t .add (s.obj i v))) s1.rs
          settle fuel { s1 with rs := rs' } (before'.filter (fun u => rs'.started.contains u))
  let before := s.rs.started
  let rs' := Reporter.step s.cfg s.rs inp
  settle 64 { s with rs := rs' } (before.filter (fun u => rs'.started.contains u))

open Reporter in
def Sim.notify (s : Sim) (i : Nat) (k : WKind) (o : Obj) : Sim :=
  let id := s.ids[i]!
  match s.rs.started.filter (fun t => covers t id) with
  | [] => s
  | t :: _ => s.feed (.watch t k o)

open Reporter in
def Sim.stepScript (s : Sim) (step : Json) : Except String Sim := do
  let a ← step.getArr?
  let op ← a[0]!.getStr?
  match op with
  | "bar" => return s
  | "watch" =>
    let s1 : Sim := { s with ever := s.cur.map (fun p => p.1), watching := false }
    let s2 := s1.feed .start
    let s3 := { s2 with watching := true }
    return { s3 with rs := Reporter.step s.cfg s3.rs .synced }
  | "set" =>
    let i ← natOf a[1]!
    let v ← natOf a[2]!
    let existed := s.cur.any (fun p => p.1 == i)
    let isCrd := isCRD s.ids[i]!
    let s1 := { s with cur := (s.cur.filter (fun p => p.1 != i)) ++ [(i, v)], ever := if s.ever.contains i then s.ever else s.ever ++ [i],
                       widgetMapped := s.widgetMapped || (isCrd && (!s.lateServe || existed)) }
    if !s.watching then return s1
    return s1.notify i (if existed then .update else .add) (s1.obj i v)
  | "del" | "gapdel" =>
    -- gapdel: the delete happens while the watch connection is down; the re-list must report it all the same
    let i ← natOf a[1]!
    match s.cur.find? (fun p => p.1 == i) with
    | none => return s
    | some (_, v) =>
      let isCrd := isCRD s.ids[i]!
      let s1 : Sim := { s with cur := s.cur.filter (fun p => p.1 != i) }
      let s2 := if s.watching then s1.notify i .delete (s.obj i v) else s1
      return { s2 with widgetMapped := if isCrd && !s.widgetOn then false else s2.widgetMapped }
  | _ => throw s!"watcher: unknown step {op}"

def gknLt (a b : Reporter.Gkn) : Bool :=
  if a.group ≠ b.group then a.group < b.group else if a.kind ≠ b.kind then a.kind < b.kind else a.ns < b.ns

def sortGkns (l : List Reporter.Gkn) : List Reporter.Gkn := l.mergeSort (fun a b => !(gknLt b a))

def gknJson (t : Reporter.Gkn) : Json := Json.arr #[t.group, t.kind, t.ns]

def dedupAdj : List String → List String
  | [] => []
  | [x] => [x]
  | x :: y :: r => if x == y then dedupAdj (y :: r) else x :: dedupAdj (y :: r)

def isSubseq : List String → List String → Bool
  | [], _ => true
  | _ :: _, [] => false
  | x :: xs, y :: ys => if x == y then isSubseq xs ys else isSubseq (x :: xs) ys

def strList (j : Json) : Except String (List String) := do (← asList j).mapM (·.getStr?)

open Reporter in
def planOf (direct : Option Json) (scopeS : String) (allow : List Id) : Except String (Scope × List Gkn) :=
  match direct with
  | none | some Json.null =>
    let strat := match scopeS with | "root" => Strategy.root | "ns" => Strategy.perNs | _ => Strategy.automatic
    let sc := scopeOf strat allow
    pure (sc, targetsOf sc allow)
  | some d => do
    let ds ← jstr d "scope"
    let ts ← (← asList (← jget d "targets")).mapM (fun t => do
      let a ← t.getArr?
      return ({ group := ← a[0]!.getStr?, kind := ← a[1]!.getStr?, ns := ← a[2]!.getStr? } : Gkn))
    pure (if ds == "root" then Scope.root else Scope.perNs, dedup ts)

open Reporter in
def handleWatcher : Handler := fun i o => do
  let idsL ← idsOfJson (← jget i "ids")
  let ids := idsL.toArray
  let stJ ← asList (← jget i "st")
  let st ← stJ.mapM (fun r => do return (← (← asList r).mapM (fun x => do statusOfStr (← x.getStr?))).toArray)
  let watched ← (← asList (← jget i "watched")).mapM natOf
  let steps ← asList (← jget i "steps")
  let cancelAt ← jint i "cancelAt"
  let strict ← jbool i "strict"
  let widgetOn ← jbool i "widgetOn"
  let lateServe := jboolD i "lateServe" false
  let scopeS ← jstr i "scope"
  let allow := watched.map (fun k => ids[k]!)
  let direct := jopt i "direct"
  let (sc, targets) ← planOf direct scopeS allow
  let cfg : Cfg := { scope := sc, targets := targets, allow := allow, onceGuard := true }
  let full := cancelAt < 0
  let upto := if full then steps.length else cancelAt.toNat
  let hasWatchStep := (steps.take upto).any (fun s => match s.getArr? with | .ok a => a[0]! == Json.str "watch" | _ => false)
  let mut sim : Sim := { cfg := cfg, ids := ids, st := st.toArray, widgetOn := widgetOn, widgetMapped := widgetOn, lateServe := lateServe }
  for s in steps.take upto do
    sim ← sim.stepScript s
  if full && !hasWatchStep then
    sim ← sim.stepScript (Json.arr #["watch"])
  -- model observables
  let mSeq : List (List String) := watched.map fun k =>
    sim.rs.events.filterMap fun e => match e with
      | .update id stt => if id = ids[k]! then some (statusStr stt) else none
      | _ => none
  let mFinal : List String := watched.map fun k =>
    match sim.cur.find? (fun p => p.1 == k) with
    | some (_, v) => statusStr ((st.toArray[k]!)[v]!)
    | none => if sim.ever.contains k then "NotFound" else "none"
  let tsSorted := sortGkns targets
  let mStarted : Json := match direct with
    | none | some Json.null => Json.arr #[]
    | some _ => Json.arr (tsSorted.map (fun t => Json.arr #[t.group, t.kind, t.ns, sim.rs.started.contains t])).toArray
  let m := Json.mkObj [("panic", false), ("timeout", false), ("closed", true), ("sync", (1 : Nat)), ("syncAfterList", true),
    ("errors", (0 : Nat)), ("unwatched", (0 : Nat)),
    ("seq", Json.arr (mSeq.map (fun l => strsToJson l)).toArray), ("final", strsToJson mFinal), ("started", mStarted),
    ("tscope", if sc = .root then "root" else "ns"), ("targets", Json.arr (tsSorted.map gknJson).toArray)]
  -- implementation observables
  let panic ← jbool o "panic"
  let timeout ← jbool o "timeout"
  let closed ← jbool o "closed"
  let sync ← jint o "sync"
  let sal ← jbool o "syncAfterList"
  let errors ← jint o "errors"
  let unw ← jint o "unwatched"
  let oSeq ← (← asList (← jget o "seq")).mapM strList
  let oFinal ← strList (← jget o "final")
  let oStarted ← jget o "started"
  let last (l : List String) : String := l.getLast?.getD "none"
  let hasGap := steps.any (fun s => match s.getArr? with | .ok a => a[0]! == Json.str "gapdel" | _ => false)
  -- after an expired watch the informer re-lists: an update that was in flight may be reported twice or merged with the
  -- next one (the fake tracker has no resourceVersions); sequences are then compared up to adjacent repetitions
  let norm (l : List String) : List String := if hasGap then dedupAdj l else l
  let pairs := (oSeq.map norm).zip (mSeq.map norm)
  let exact := strict && sim.restarts == 0
  let seqAgree := oSeq.length == mSeq.length && pairs.all fun (a, b) =>
    if !full then isSubseq a b
    else if exact then a == b
    else isSubseq a b && (last a == last b || (a.isEmpty && last b == "NotFound" && !strict))
  let targetsAgree := (← jget o "tscope") == (← jget m "tscope") && (← jget o "targets") == (← jget m "targets")
  let agree :=
    if full then
      !panic && !timeout && closed && sync == 1 && sal && errors == 0 && unw == 0 && seqAgree && oFinal == mFinal &&
      oStarted == mStarted && targetsAgree
    else
      -- cancelled runs: an error event is possible (reporter started on a cancelled context; informer start racing with the
      -- cancellation, lines 294-306)
      !panic && closed && sync ≤ 1 && unw == 0 && errors ≥ 0 && seqAgree && targetsAgree
  -- the property, from the harness's own observations (final cluster state as the tracker holds it)
  let sound := (oSeq.zip watched).all fun (l, k) =>
    l.all fun s => s == "NotFound" || (st.toArray[k]!).any (fun x => statusStr x == s)
  let lastOk := (oSeq.zip oFinal).all fun (l, f) =>
    last l == f || (f == "NotFound" && l.isEmpty && !strict)
  let spec :=
    !panic && closed && errors ≤ 1 && unw == 0 && sync ≤ 1 && sound &&
    (!full || (!timeout && sync == 1 && sal && errors == 0 && lastOk))
  let specButErrors :=
    !panic && closed && unw == 0 && sync ≤ 1 && sound && (!full || (!timeout && sync == 1 && sal && lastOk))
  let region := if !spec && specButErrors && errors > 1 then some "C16.multi-error" else none
  let specM := mSeq.length == mFinal.length && ((mSeq.zip mFinal).all fun (l, f) => last l == f || (!strict && f == "NotFound" && l.isEmpty)) &&
    nErrors sim.rs.events == 0 && nSyncs sim.rs.events ≤ 1
  let nMut := (steps.filter (fun s => match s.getArr? with | .ok a => a[0]! == Json.str "set" || a[0]! == Json.str "del" || a[0]! == Json.str "gapdel" | _ => false)).length
  let hasNs := watched.any (fun k => isNamespace ids[k]!)
  let hasCrd := watched.any (fun k => isCRD ids[k]!)
  return { model := m, agree := agree, spec := spec, specModel := specM || !full,
           nontrivial := nMut ≥ 2,
           tags := [if sc = .root then "watcher:root" else "watcher:ns", if full then "watcher:full" else "watcher:cancelled",
                    if strict then "watcher:strict" else "watcher:racing", if hasNs then "watcher:ns-object" else "watcher:no-ns-object",
                    if hasCrd then (if jboolD i "lateServe" false then "watcher:crd-late-established" else "watcher:crd") else "watcher:no-crd", if direct.isSome && direct != some Json.null then "watcher:direct" else "watcher:Watch",
                    s!"watcher:restarts{min sim.restarts 4}", s!"watcher:errors{errors}"] ++ (if hasGap then ["watcher:delete-during-broken-watch"] else []) ++
             (match jint o "nilErrors" with | .ok n => if n > 0 then ["watcher:nil-error-event"] else [] | _ => []),
           region := region }

/-- domain `watcher-fatal` -/
def handleFatal : Handler := fun i o => do
  let k ← jint i "forbidden"
  let panic ← jbool o "panic"
  let closed ← jbool o "closed"
  let errors ← jint o "errors"
  let sync ← jint o "sync"
  let other ← jint o "other"
  -- repaired model: exactly one error iff something fails; the sync event only if nothing fails
  -- mode "" = Forbidden (fatal); "notfound": the resource is not registered — its informers are stopped, the others sync, no error;
  -- "servererr": retried for ever — no error, and no sync event while an informer cannot list
  let mode := (jstr i "mode").toOption.getD ""
  let fatal := k > 0 && mode == ""
  let mErr : Int := if fatal then 1 else 0
  let mSync : Int := if fatal || (k > 0 && mode == "servererr") then 0 else 1
  let m := Json.mkObj [("panic", false), ("closed", true), ("errors", mErr), ("sync", mSync), ("other", (0 : Nat))]
  -- the pinned code (no once-guard) may emit any positive number of error events: not a disagreement with the unguarded model
  let rest := !panic && closed && sync == mSync && other == 0
  let agree := rest && (if fatal then errors ≥ 1 else errors == 0)
  let spec := rest && errors == mErr
  let region := if !spec && rest && errors > 1 then some "C16.multi-error" else none
  return { model := m, agree := agree, spec := spec, nontrivial := k ≥ 2,
           tags := [s!"fatal:{if mode == "" then "forbidden" else mode}{k}", s!"fatal:errors{errors}"] ++
             (match jint o "nilErrors" with | .ok n => if n > 0 then ["fatal:nil-error-event"] else [] | _ => []),
           region := region }


/-- domain `watcher-unsched`: an unschedulable pod is InProgress inside the schedule window and Failed after it, without any
change of the object; the reporter's delayed re-read must deliver that last status unless the object changed or vanished first -/
def handleUnsched : Handler := fun i o => do
  let thenS ← jstr i "then"
  let want : List String := match thenS with
    | "scheduled" => ["InProgress", "Current"]
    | "deleted" => ["InProgress", "NotFound"]
    | "touched" => ["InProgress", "InProgress", "Failed"]   -- the update re-arms the one pending re-check
    | "deadline" => ["InProgress"]       -- the watch ends inside the window: the pending re-check dies with it
    | "cancel-early" => ["InProgress"]
    | "ns-deleted" => ["InProgress"]     -- the namespace's informers are stopped; the pod's pending re-check dies with them
    | _ => ["InProgress", "Failed"]
  let nsDel := thenS == "ns-deleted"
  -- ns-deleted: the namespace itself is watched too (Current, then NotFound); the pod object stays behind unplaced
  let m := Json.mkObj [("panic", false), ("closed", true), ("errors", (0 : Nat)), ("seq", strsToJson want),
                        ("final", Json.str (if nsDel then "Failed" else want.getLast?.getD "")),
                        ("foreign", (if nsDel then 2 else 0 : Nat))]
  let seq ← strList (← jget o "seq")
  let fin ← jstr o "final"
  -- the property: the last event reflects the final cluster state (as the library computes it at the end), no error, closed
  let spec := !(jboolD o "panic" true) && jboolD o "closed" false && (jint o "errors").toOption == some 0 &&
              (nsDel || ((jint o "foreign").toOption == some 0 && seq.getLast? == some fin))
  return { model := m, agree := m == o, spec := spec, specModel := true, nontrivial := true,
           tags := [s!"unsched:{thenS}", s!"unsched:{(jstr i "scope").toOption.getD "?"}"] }


/-- domain `fatalseq`: the errors several informers' handlers hand to the reporter one after the other.  Context errors (bare or
wrapped) are what a handler gets when ITS informer was stopped under it: they are not failures of the watch.  The first other
error is reported — one error event — and stops the reporter; nothing else is ever reported. -/
def handleFatalSeq : Handler := fun i o => do
  let errs ← (← asList (← jget i "errs")).mapM (·.getStr?)
  let real := errs.filterMap (fun k => if k.startsWith "real:" then some (k.drop 5).toString else none)
  -- the model: `Reporter.fatalSeq` (theorems C16.fatal_sends_first_real, fatal_at_most_one, fatal_reported_iff)
  let st := Reporter.fatalSeq (errs.map (fun k => if k.startsWith "real:" then some (k.drop 5).toString else none))
  let m := Json.mkObj [("panic", Json.null), ("sent", strsToJson st.sent), ("stopped", st.flag)]
  let sent ← strList (← jget o "sent")
  let stopped ← jbool o "stopped"
  let crashed := match jopt o "panic" with | some Json.null => false | none => false | _ => true
  -- C16: at most one error event; a fatal error is reported (and the reporter stops, which closes the channel) iff there was one
  let spec := !crashed && sent.length ≤ 1 && (sent.isEmpty == real.isEmpty) && (stopped == !real.isEmpty) &&
              (match sent with | [e] => real.contains e | _ => true)
  return { model := m, agree := m == o, spec := spec, specModel := true, nontrivial := !errs.isEmpty,
           note := if spec then "" else "C16: a fatal error of the watch was not reported exactly once (or a context error was reported)",
           tags := [s!"fatalseq:real{real.length}", if errs.length == real.length then "fatalseq:only-real" else "fatalseq:mixed"] }


/-- domain `watcher-late`: cancelled in the middle of a slow paginated LIST, the watcher closes its channel and no further LIST
page request reaches the server afterwards (every informer call runs under a context that ends with the watcher's) -/
def handleLate : Handler := fun i o => do
  let m := Json.mkObj [("panic", false), ("closed", true), ("lateLists", (0 : Nat))]
  let spec := !(jboolD o "panic" true) && jboolD o "closed" false && (jint o "lateLists").toOption == some 0
  return { model := m, agree := m == o, spec := spec, specModel := true, nontrivial := true,
           tags := [s!"late:{(jstr i "scope").toOption.getD "?"}", s!"late:cancelAtPage{(jint i "cancelAt").toOption.getD 0}"] }

end CliUtils.Drv.C16
