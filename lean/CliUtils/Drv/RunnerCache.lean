import CliUtils.Drv.Util
/-
  domain `runnercache`: what TaskStatusRunner.Run does with status events while a task runs (runner.go:150-185):
  cache Put of (status, message, object) — last write wins —, StatusUpdate of the running task for its own objects,
  forwarding when EmitStatusEvents is set.  The model is a fold; the property predicate is written on the implementation's
  observations alone.
-/
namespace CliUtils.Drv.RunnerCache
open Lean CliUtils CliUtils.Drv

structure Ev where
  obj : Nat
  st : String
  msg : String
  body : Bool
  gen : Int
  uid : String
  mark : String

def evOf (j : Json) : Except String Ev := do
  return { obj := (← jint j "obj").toNat, st := ← jstr j "st", msg := ← jstr j "msg", body := ← jbool j "body",
           gen := ← jint j "gen", uid := ← jstr j "uid", mark := ← jstr j "mark" }

def entryJson : Option Ev → Json
  | none => Json.arr #["Unknown", "resource not cached", false, (0 : Int), "", ""]   -- ResourceCacheMap.Get of an id never put
  | some e => if e.body then Json.arr #[e.st, e.msg, true, e.gen, e.uid, e.mark] else Json.arr #[e.st, e.msg, false, (0 : Int), "", ""]

/-- the last event for object `i` -/
def lastFor (evs : List Ev) (i : Nat) : Option Ev := (evs.filter (·.obj == i)).getLast?

def handleRunnerCache : Handler := fun i o => do
  let n := (← jint i "n").toNat
  let task := (← jint i "task").toNat
  let emit ← jbool i "emit"
  let evs ← (← asList (← jget i "events")).mapM evOf
  let cacheM := Json.arr ((List.range n).map (fun k => entryJson (lastFor evs k))).toArray
  let ups : List Json := (evs.filter (·.obj < task)).map (fun e => ((e.obj : Nat) : Json))
  let fwd : List Json := if emit then evs.map (fun e => ((e.obj : Nat) : Json)) else []
  let m := Json.mkObj [("cache", cacheM), ("updates", Json.arr ups.toArray), ("forwarded", Json.arr fwd.toArray),
                        ("hang", false), ("panic", Json.null)]
  -- the property on the implementation's observations: the cache holds the LAST report per object (status, message, body with
  -- every field of it), the task heard of every event for its objects, forwarding iff requested
  let spec := (jopt o "panic") == some Json.null && !(jboolD o "hang" true) &&
              (jopt o "cache") == some cacheM && (jopt o "updates") == some (Json.arr ups.toArray) &&
              (jopt o "forwarded") == some (Json.arr fwd.toArray)
  let stale := evs.any (fun e => (evs.filter (fun p => p.obj == e.obj && p.st == e.st && p.msg == e.msg && p.gen == e.gen && p.uid == e.uid && p.mark != e.mark)).length > 0)
  return { model := m, agree := m == o, spec := spec, specModel := true, nontrivial := evs.length ≥ 2,
           tags := [s!"runnercache:n{n}", if emit then "runnercache:emit" else "runnercache:quiet",
                    if stale then "runnercache:same-revision-different-content" else "runnercache:plain"] }

end CliUtils.Drv.RunnerCache
