import CliUtils.Drv.Util
import CliUtils.Drv.C19
import CliUtils.Model.Wait
namespace CliUtils.Drv.C06
open Lean CliUtils CliUtils.Drv CliUtils.Wait

def stOf : Int → KStatus | 0 => .inProgress | 1 => .failed | 2 => .current | 3 => .terminating | 4 => .notFound | _ => .unknown
def evN : WEv → Int | .pending => 0 | .successful => 1 | .skipped => 2 | .timeout => 3 | .failed => 4

def obsOfJson (j : Json) : Except String Obs := do
  let a ← j.getArr?
  return { status := stOf (← a[0]!.getInt?), hasRes := ← a[1]!.getBool?, gen := ← a[2]!.getInt?, uid := ← a[3]!.getStr? }

structure Case where
  cond : Cond
  n : Nat
  mgr : Mgr Nat
  cache : List (Nat × Obs)
  ops : List (Op Nat)
  racing : Bool := false
  crd : Option (List Bool) := none     -- input field "crd" (absent in older corpus lines): object i is a CRD id

def parseCase (i : Json) : Except String Case := do
  let cond := if (← jint i "cond") == 0 then Cond.allCurrent else Cond.allNotFound
  let objs ← asList (← jget i "objs")
  let inits ← asList (← jget i "init")
  let mut mgr : Mgr Nat := []
  let mut k := 0
  for o in objs do
    if o != Json.null then
      let a ← o.getArr?
      mgr := mgr ++ [{ id := k, strategy := C19.stratOf (← a[0]!.getInt?), actuation := C19.actOf (← a[1]!.getInt?),
                       reconcile := .pending, uid := ← a[2]!.getStr?, gen := ← a[3]!.getInt? }]
    k := k + 1
  let mut cache : List (Nat × Obs) := []
  k := 0
  for o in inits do
    if o != Json.null && k < objs.length then cache := (k, ← obsOfJson o) :: cache
    k := k + 1
  let opsJ ← asList (← jget i "ops")
  let ops ← opsJ.mapM (fun op => do
    let a ← op.getArr?
    match (← a[0]!.getStr?) with
    | "u" => return [Op.update (← a[1]!.getNat?) (← obsOfJson a[2]!)]
    | "t" => return [Op.timeout]
    -- ["tu", k, i, obs]: a status update for object i arrives while the Timeout events are being delivered (after the
    -- k-th); the pending set is locked for the whole delivery, so it is the deadline followed by the update
    | "tu" => return [Op.timeout, Op.update (← a[2]!.getNat?) (← obsOfJson a[3]!)]
    | _ => return [Op.cancel])
  let crd ← match jopt i "crd" with
    | none => pure none
    | some Json.null => pure none
    | some cj => do pure (some (← (← asList cj).mapM (fun b => b.getBool?)))
  return { cond := cond, n := objs.length, mgr := mgr, cache := cache, ops := ops.flatten, crd := crd,
           racing := opsJ.any (fun op => match op.getArr? with | .ok a => a[0]! == Json.str "tu" | _ => false) }

def evsJson (l : List (Nat × WEv)) : Json := Json.arr (l.map (fun (i, e) => Json.arr #[(i : Int), evN e])).toArray

/-- run the model, splitting the event list per operation -/
def modelOut (c : Case) : Json :=
  let ids := List.range c.n
  let s0 := start ids c.cond c.mgr c.cache
  let (sN, per) := c.ops.foldl (fun (acc : WState Nat × List Json) op =>
      let s' := step acc.1 op
      (s', acc.2 ++ [evsJson (s'.events.drop acc.1.events.length)])) (s0, [])
  let recon := ids.map (fun i => match sN.mgr.find? i with | some r => (C19.rcN r.reconcile : Json) | none => ((-1 : Int) : Json))
  Json.mkObj ([("start", evsJson s0.events), ("ops", Json.arr per.toArray), ("recon", Json.arr recon.toArray),
              ("ended", sN.cancelled), ("late", Json.arr #[]), ("interleaved", Json.arr #[])] ++
    (match c.crd with
     | none => []
     | some flags => [("resets", ((resets (fun i => flags.getD i false) sN : Nat) : Json))]))

/-! The property predicate, evaluated on the implementation's events.  It re-plays the observation feed itself
(latest observation per object) and never calls the model's `start`/`statusUpdate`. -/

def recOf (c : Case) (i : Nat) : Option (Rec Nat) := c.mgr.find? i

def uidChanged (r : Option (Rec Nat)) (o : Obs) : Bool :=
  match r with
  | some r => r.uid ≠ "" && o.hasRes && o.uid ≠ "" && r.uid ≠ o.uid
  | none => false

def condMet (cond : Cond) (r : Option (Rec Nat)) (o : Obs) : Bool :=
  let ag : Int := match r with | some r => r.gen | none => 0
  let og : Int := if o.hasRes then o.gen else 0
  match cond with
  | .allCurrent => o.status = .current && decide (ag ≤ og) && !(uidChanged r o)
  | .allNotFound => (o.status = .notFound && decide (ag ≤ og)) || uidChanged r o

def actSkipped (cond : Cond) (r : Option (Rec Nat)) : Bool :=
  match r with
  | none => false
  | some r =>
    (r.strategy = .apply && r.actuation = .skipped) || (r.strategy = .delete && r.actuation = .skipped) ||
    (cond = .allCurrent && r.strategy = .apply && r.actuation = .failed) ||
    (cond = .allNotFound && r.strategy = .delete && r.actuation = .failed)

def parseEvs (j : Json) : Except String (List (Int × Int)) := do
  (← asList j).mapM (fun e => do let a ← e.getArr?; return (← a[0]!.getInt?, ← a[1]!.getInt?))

def lastOf (hist : List (Int × Int)) (i : Nat) : Option Int :=
  ((hist.filter (fun e => e.1 == (i : Int))).getLast?).map (·.2)

/-- spec: see the C06 statement -/
def waitSpec (c : Case) (o : Json) : Except String (Bool × String) := do
  if (jopt o "panic").isSome then return (false, "panic")
  let startEvs ← parseEvs (← jget o "start")
  let opEvs ← (← asList (← jget o "ops")).mapM parseEvs
  let late ← parseEvs (← jget o "late")
  let recon ← (← asList (← jget o "recon")).mapM (fun j => j.getInt?)
  let ended ← jbool o "ended"
  if !late.isEmpty then return (false, "events after the phase ended")
  -- the deadline's Timeout events are recorded AND sent under the task's lock: no event of a status update can come between
  -- two of them (else that object's last event is Timeout while something else is recorded for it)
  match jopt o "interleaved" with
  | some (Json.arr a) => if !a.isEmpty then return (false, "a status update got through while the deadline's Timeout events were being sent")
  | _ => pure ()
  let ids := List.range c.n
  -- start: exactly one event per object, in order; Skipped iff actuation failed/skipped; Successful only if condition met
  if startEvs.map (·.1) != ids.map (fun (i : Nat) => (Int.ofNat i)) then return (false, "start: not exactly one event per object")
  let mut latest : List (Nat × Obs) := c.cache
  let mut hist : List (Int × Int) := []
  let mut nonePendingMoment := false
  let mut explicitEnd := false
  -- objects that have ever been observed with a UID different from the recorded one: a cluster never gives an
  -- object its old UID back, so the two "is reported again" clauses are not judged for such histories
  let mut everChanged : List Nat := ids.filter (fun i => uidChanged (recOf c i) (getObs c.cache i))
  for (i, e) in startEvs do
    let r := recOf c i.toNat
    let ob := getObs latest i.toNat
    if (e == 2) != actSkipped c.cond r then return (false, s!"start: skipped event wrong for {i}")
    if e == 1 && !(condMet c.cond r ob) then return (false, s!"start: Successful for {i} but condition not met")
    if e == 3 then return (false, "start: timeout event")
    if e != 2 && e != 1 && condMet c.cond r ob && !(uidChanged r ob) then return (false, s!"start: condition met for {i} but not reported reconciled")
  hist := startEvs
  if ids.all (fun i => lastOf hist i != some 0) then nonePendingMoment := true
  let mut k := 0
  for op in c.ops do
    let evs := opEvs[k]!
    k := k + 1
    match op with
    | .update id ob =>
      latest := (id, ob) :: latest
      let flipped := id ∈ everChanged
      if uidChanged (recOf c id) ob then everChanged := id :: everChanged
      if evs.length > 1 then return (false, "more than one event for one status update")
      let r := recOf c id
      let prev := lastOf hist id
      for (i, e) in evs do
        if i != (id : Int) then return (false, "event for another object")
        if e == 1 && !(condMet c.cond r ob) then return (false, s!"Successful for {id} although the latest observation does not meet the condition")
        if e == 2 || e == 3 then return (false, "skipped/timeout event on a status update")
      if id < c.n && !(actSkipped c.cond r) && !flipped then
        -- failed → condition met ⇒ reported reconciled ; reconciled → regress ⇒ pending again
        if prev == some 4 && condMet c.cond r ob && evs.map (·.2) != [1] then
          -- (a Failed that was due to a replaced UID stays failed while the UID is still replaced: condMet is false then)
          return (false, s!"{id}: failed then condition met, but not reported reconciled")
        -- (an apply phase does not look at the UID of an object it has already reported reconciled: a report that is Current at a
        -- fresh generation under another UID leaves it reconciled — interpretation decision, DESIGN §7; any report that fails the
        -- status / generation test makes it pending again, whatever its UID)
        if prev == some 1 && !(condMet c.cond r ob) && !(c.cond == .allCurrent && uidChanged r ob && condMet c.cond r { ob with uid := "" }) &&
           evs.map (·.2) != [0] then
          return (false, s!"{id}: regressed but not reported pending")
        -- failed → neither failed any more nor reconciled (Terminating, Unknown, NotFound in an apply phase, InProgress…) ⇒ pending
        -- again: it is one of the objects the deadline's Timeout is for (theorem C06.failed_then_unfailed_pending)
        if prev == some 4 && !(condMet c.cond r ob) && !(uidChanged r ob) && ob.status != .failed && evs.map (·.2) != [0] then
          return (false, s!"{id}: no longer failed and not reconciled, but not reported pending again")
        if prev == some 0 && condMet c.cond r ob && evs.map (·.2) != [1] then
          return (false, s!"{id}: pending and condition met, but not reported reconciled")
      hist := hist ++ evs
      if ids.all (fun i => lastOf hist i != some 0) then nonePendingMoment := true
    | .timeout =>
      explicitEnd := true
      -- Timeout for exactly the objects still pending
      let pend := ids.filter (fun i => lastOf hist i == some 0)
      if evs.any (fun e => e.2 != 3) then return (false, "deadline: non-timeout event")
      let got := evs.map (fun e => e.1.toNat)
      if !(pend.all (· ∈ got) && got.all (· ∈ pend) && got.length == pend.length) then
        return (false, "deadline: Timeout not reported for exactly the pending objects")
      hist := hist ++ evs
    | .cancel =>
      explicitEnd := true
      if !evs.isEmpty then return (false, "cancel emitted events")
  -- a phase ends early only after a moment at which nothing was pending
  if ended && !explicitEnd && !nonePendingMoment then return (false, "phase ended while objects were pending")
  if !ended && (nonePendingMoment || explicitEnd) then return (false, "phase did not end")
  -- the RESTMapper is reset (once) iff the phase ended and contained a CRD that was not skipped; never otherwise
  match c.crd with
  | none => pure ()
  | some flags =>
    let resets ← (← jget o "resets").getNat?
    let crdNotSkipped := ids.any (fun i => flags.getD i false && !(actSkipped c.cond (recOf c i)))
    let want := if ended && crdNotSkipped then 1 else 0
    if resets != want then
      return (false, s!"RESTMapper reset {resets} times; phase ended: {ended}, contains a CRD that was not skipped: {crdNotSkipped}")
  -- recorded reconcile state = last event
  for i in ids do
    match recOf c i, lastOf hist i with
    | some _, some e =>
      let want : Int := match e with | 0 => 0 | 1 => 1 | 2 => 2 | 3 => 4 | _ => 3
      if recon[i]! != want then return (false, s!"recorded reconcile state of {i} differs from its last event")
    | _, _ => pure ()
  return (true, "")

def handleWait : Handler := fun i o => do
  let c ← parseCase i
  let m := modelOut c
  let (spec, why) := match waitSpec c o with | .ok r => r | .error e => (false, "spec error: " ++ e)
  let (specM, _) ← waitSpec c m
  let kinds := c.ops.map (fun op => match op with | .update .. => "wait:update" | .timeout => "wait:deadline" | .cancel => "wait:cancel")
  let startJ := (jopt m "start").getD Json.null
  let evKinds := match parseEvs startJ with
    | .ok l => l.map (fun e => s!"wait:start-ev{e.2}")
    | .error _ => []
  return { model := m, agree := m == o, spec := spec, specModel := specM, nontrivial := c.ops.length ≥ 1, note := why,
           tags := (kinds ++ evKinds).eraseDups ++ (if c.racing then ["wait:update-during-timeout-delivery"] else []) ++
             (match c.crd with
              | none => []
              | some flags =>
                let ids := List.range c.n
                let anyCrd := ids.any (fun i => flags.getD i false)
                let live := ids.any (fun i => flags.getD i false && !(actSkipped c.cond (recOf c i)))
                let ended := jboolD m "ended" false
                ["wait:crd-field"] ++ (if anyCrd then ["wait:has-crd"] else []) ++ (if anyCrd && !live then ["wait:all-crds-skipped"] else []) ++
                (if live && ended then ["wait:mapper-reset"] else []) ++ (if live && !ended then ["wait:crd-but-not-ended"] else [])) ++
             [s!"wait:objs{c.n}", if c.cond = .allCurrent then "wait:AllCurrent" else "wait:AllNotFound"],
           region := none }

end CliUtils.Drv.C06
