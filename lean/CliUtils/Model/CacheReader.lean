/-
  Executable model of `pkg/kstatus/polling/clusterreader/caching_reader.go` (core Lean only).

  Reading guide (model ↔ code):
    genGroupKinds / build / trackedOf   = genGroupKinds / buildGvkNamespaceSet / the loop of NewCachingClusterReader
                                          (`addPair` = gvkNamespaceSet.add: first occurrence wins, insertion order kept)
    pagerLoop / pagerList               = pager.New(listPageFunc).List as used by listUnstructured: page requests with
                                          Limit 500 / Continue, the `ctx.Done()` test at the top of every round, the
                                          "Expired on page >= 2 ⇒ one full LIST" fallback, aggregation of the pages
    syncLoop / sync                     = CachingClusterReader.Sync (a FRESH map is filled and installed only at the end)
    get / listNs / listCluster          = Get / ListNamespaceScoped / ListClusterScoped
  The cluster behind the reader is a script: per Sync the objects, the RESTMapper table and, per (GroupKind, LIST
  namespace), how the LIST requests end (`Outcome`).
-/
namespace CliUtils.CacheReader

/-- `schema.GroupKind` -/
structure GK where
  group : String
  kind : String
deriving DecidableEq, Repr, Inhabited

/-- `gkNamespace`: a GroupKind and a namespace -/
abbrev Pair := GK × String

/-- what the model keeps of an object: identity, `metadata.generation`, labels (distinct keys) -/
structure Obj where
  gk : GK
  ns : String
  name : String
  gen : Int
  labels : List (String × String)
deriving DecidableEq, Repr, Inhabited

/-- what `mapper.RESTMapping(gk)` answers -/
inductive Scope where
  | namespaced
  | root
  | noMatch                 -- meta.IsNoMatchError
  | err (text : String)     -- any other error
deriving DecidableEq, Repr

/-- label selectors of the script -/
inductive Sel where
  | all
  | nothing
  | eq (k v : String)
  | neq (k v : String)
  | has (k : String)
deriving DecidableEq, Repr

/-- `selector.Matches(labels.Set(u.GetLabels()))` -/
def Sel.matches : Sel → Obj → Bool
  | .all, _ => true
  | .nothing, _ => false
  | .eq k v, o => o.labels.lookup k == some v
  | .neq k v, o => o.labels.lookup k != some v
  | .has k, o => (o.labels.lookup k).isSome

/-- error classes, as far as a caller can tell them apart (`errors.Is`, `errors.As`, apierrors / meta predicates) -/
inductive Err where
  | ctxCanceled                      -- errors.Is(err, context.Canceled)
  | ctxDeadline                      -- errors.Is(err, context.DeadlineExceeded)
  | noMatch                          -- meta.IsNoMatchError
  | mapper (text : String)           -- the scripted "other" error of the RESTMapper
  | list (text : String) (nf : Bool) -- the scripted error of a LIST request; nf: apierrors.IsNotFound
  | notFound                         -- apierrors.NewNotFound made by Get
  | notInCache                       -- "GVK … and Namespace … not found in cache"
  | other
deriving DecidableEq, Repr

def Err.isCtx : Err → Bool
  | .ctxCanceled => true
  | .ctxDeadline => true
  | _ => false

/-- how a scripted page request fails -/
inductive FailKind where
  | other | notFound | expired | canceled | deadline | cancelReal
deriving DecidableEq, Repr

/-- outcome of the LIST requests for one (GroupKind, LIST namespace) during one Sync -/
structure Outcome where
  page : Nat := 0                   -- server page size; 0 = whatever the request's Limit allows
  failAt : Option Nat := none       -- index of the page request that fails
  fail : FailKind := .other
  text : String := ""
  cancelAt : Option Nat := none     -- index of the page request during which the context is cancelled although it succeeds
  fbFail : Bool := false            -- the full LIST after "expired" fails too
deriving Repr, Inhabited

/-- `defaultPageSize` of client-go's pager -/
def pageLimit : Nat := 500

def pageSize (o : Outcome) : Nat := if o.page = 0 then pageLimit else min o.page pageLimit

/-- the rounds of `ListPager.list`. `c`: the context is already cancelled; `off`: items handed out so far (the Continue
token); `idx`: number of the page request; `acc`: the aggregated items. Returns the result and whether the context is
cancelled afterwards. The fuel is never exhausted (`pagerList` starts with `items.length + 1`, every round hands out at
least one item before asking for another page). -/
def pagerLoop (items : List Obj) (o : Outcome) : Nat → Bool → Nat → Nat → List Obj → Except Err (List Obj) × Bool
  | 0, c, _, _, _ => (.error .other, c)
  | fuel + 1, c, off, idx, acc =>
    if c then (.error .ctxCanceled, c)                       -- `case <-ctx.Done(): return nil, …, ctx.Err()`
    else if o.failAt = some idx then
      match o.fail with
      | .other => (.error (.list o.text false), c)
      | .notFound => (.error (.list o.text true), c)
      | .canceled => (.error .ctxCanceled, c)
      | .deadline => (.error .ctxDeadline, c)
      | .cancelReal => (.error .ctxCanceled, true)
      | .expired =>
        -- `!IsResourceExpired || !FullListIfExpired || options.Continue == ""` ⇒ the error; else ONE full LIST whose
        -- result is returned as is
        if idx = 0 then (.error (.list o.text false), c)
        else if o.fbFail then (.error (.list (o.text ++ "-fb") false), c)
        else (.ok items, c)
    else
      let c' := c || decide (o.cancelAt = some idx)
      let chunk := (items.drop off).take (pageSize o)
      if off + pageSize o < items.length then pagerLoop items o fuel c' (off + pageSize o) (idx + 1) (acc ++ chunk)
      else (.ok (acc ++ chunk), c')

/-- `listUnstructured`: one paginated LIST -/
def pagerList (c : Bool) (items : List Obj) (o : Outcome) : Except Err (List Obj) × Bool :=
  pagerLoop items o (items.length + 1) c 0 0 []

/-- a cache entry: the resources of the pair, or the error of its LIST / mapper lookup -/
inductive Entry where
  | items (l : List Obj)
  | err (e : Err)
deriving DecidableEq, Repr

/-- `map[gkNamespace]cacheEntry` as an association list: `set` conses, `get?` finds the newest entry -/
abbrev Cache := List (Pair × Entry)

def Cache.get? : Cache → Pair → Option Entry
  | [], _ => none
  | (k, v) :: r, p => if k = p then some v else Cache.get? r p

def Cache.set (c : Cache) (p : Pair) (e : Entry) : Cache := (p, e) :: c

/-- everything one Sync sees of the outside world -/
structure SyncIn where
  cluster : List Obj
  scopes : List (GK × Scope)            -- the RESTMapper table, first entry wins, unlisted = NoMatch
  outcomes : List (Pair × Outcome)      -- keyed by (GroupKind, LIST namespace), first entry wins, unlisted = plain ok
deriving Repr, Inhabited

def scopeOf : List (GK × Scope) → GK → Scope
  | [], _ => .noMatch
  | (k, s) :: r, gk => if k = gk then s else scopeOf r gk

def outcomeOf : List (Pair × Outcome) → Pair → Outcome
  | [], _ => {}
  | (k, o) :: r, p => if k = p then o else outcomeOf r p

/-- the namespace of the LIST: `ns := ""; if mapping.Scope == meta.RESTScopeNamespace { ns = gn.Namespace }` -/
def listNsOf (sc : Scope) (ns : String) : String := if sc = .namespaced then ns else ""

/-- what the cluster answers to LIST gk in namespace `lns` ("" = all namespaces), in cluster order -/
def listItems (cluster : List Obj) (gk : GK) (lns : String) : List Obj :=
  cluster.filter (fun o => decide (o.gk = gk) && (decide (lns = "") || decide (o.ns = lns)))

/-- the items of the LIST a Sync performs for the tracked pair `p` -/
def pairItems (inp : SyncIn) (p : Pair) : List Obj :=
  listItems inp.cluster p.1 (listNsOf (scopeOf inp.scopes p.1) p.2)

/-- the outcome scripted for that LIST -/
def pairOutcome (inp : SyncIn) (p : Pair) : Outcome :=
  outcomeOf inp.outcomes (p.1, listNsOf (scopeOf inp.scopes p.1) p.2)

/-- the loop of `Sync` over `c.gns`: `c` = context cancelled so far, `acc` = the fresh map -/
def syncLoop (inp : SyncIn) : List Pair → Bool → Cache → Except Err Cache
  | [], _, acc => .ok acc
  | p :: rest, c, acc =>
    match scopeOf inp.scopes p.1 with
    | .noMatch => syncLoop inp rest c (acc.set p (.err .noMatch))
    | .err t => .error (.mapper t)
    | _ =>
      match pagerList c (pairItems inp p) (pairOutcome inp p) with
      | (.error e, c') => if e.isCtx then .error e else syncLoop inp rest c' (acc.set p (.err e))
      | (.ok l, c') => syncLoop inp rest c' (acc.set p (.items l))

/-- the reader: the tracked pairs (`gns`), the cache, and the RESTMapper table currently in force -/
structure St where
  tracked : List Pair
  cache : Cache
  scopes : List (GK × Scope)
deriving Repr

/-- `Sync`: the mapper table of the script step comes into force; the cache is replaced only if the loop completes -/
def sync (st : St) (inp : SyncIn) : St × Option Err :=
  match syncLoop inp st.tracked false [] with
  | .ok c => ({ st with cache := c, scopes := inp.scopes }, none)
  | .error e => ({ st with scopes := inp.scopes }, some e)

/-- result of a read -/
inductive Res where
  | found (o : Obj)
  | items (l : List Obj)
  | err (e : Err)
deriving DecidableEq, Repr

/-- `Get` -/
def get (st : St) (gk : GK) (ns name : String) : Res :=
  match scopeOf st.scopes gk with
  | .noMatch => .err .noMatch
  | .err t => .err (.mapper t)
  | _ =>
    match st.cache.get? (gk, ns) with
    | none => .err .notInCache
    | some (.err e) => .err e
    | some (.items l) =>
      match l.find? (fun o => o.name == name) with
      | some o => .found o
      | none => .err .notFound

/-- `ListNamespaceScoped` -/
def listNs (st : St) (gk : GK) (ns : String) (sel : Sel) : Res :=
  match st.cache.get? (gk, ns) with
  | none => .err .notInCache
  | some (.err e) => .err e
  | some (.items l) => .items (l.filter sel.matches)

/-- `ListClusterScoped` -/
def listCluster (st : St) (gk : GK) (sel : Sel) : Res := listNs st gk "" sel

/-! ### the tracked pairs -/

def gkDeployment : GK := ⟨"apps", "Deployment"⟩
def gkReplicaSet : GK := ⟨"apps", "ReplicaSet"⟩
def gkStatefulSet : GK := ⟨"apps", "StatefulSet"⟩
def gkPod : GK := ⟨"", "Pod"⟩

/-- the hard-coded table of generated kinds -/
def genGroupKinds (gk : GK) : List GK :=
  if gk = gkDeployment then [gkReplicaSet]
  else if gk = gkReplicaSet then [gkPod]
  else if gk = gkStatefulSet then [gkPod]
  else []

/-- `gvkNamespaceSet.add` -/
def addPair (s : List Pair) (p : Pair) : List Pair := if p ∈ s then s else s ++ [p]

/-- `buildGvkNamespaceSet` (fuel: the table is three levels deep) -/
def build : Nat → List GK → String → List Pair → List Pair
  | 0, _, _, s => s
  | _ + 1, [], _, s => s
  | f + 1, gk :: rest, ns, s => build f rest ns (build f (genGroupKinds gk) ns (addPair s (gk, ns)))

def buildFuel : Nat := 16

/-- identifiers as far as the reader looks at them: GroupKind and namespace -/
def trackedOf (ids : List Pair) : List Pair :=
  ids.foldl (fun s id => build buildFuel [id.1] id.2 s) []

/-- `NewCachingClusterReader`; the cache is nil until the first Sync -/
def init (ids : List Pair) (scopes : List (GK × Scope)) : St :=
  { tracked := trackedOf ids, cache := [], scopes := scopes }

/-! ### scripts -/

inductive Op where
  | sync (inp : SyncIn)
  | get (gk : GK) (ns name : String)
  | listNs (gk : GK) (ns : String) (sel : Sel)
  | listCluster (gk : GK) (sel : Sel)
deriving Repr

inductive Out where
  | sync (e : Option Err)
  | read (r : Res)
deriving Repr

def step (st : St) : Op → St × Out
  | .sync inp => let (st', e) := sync st inp; (st', .sync e)
  | .get gk ns n => (st, .read (get st gk ns n))
  | .listNs gk ns sel => (st, .read (listNs st gk ns sel))
  | .listCluster gk sel => (st, .read (listCluster st gk sel))

/-- run a script; the outputs in order -/
def run : St → List Op → List Out
  | _, [] => []
  | st, op :: rest => let (st', o) := step st op; o :: run st' rest

/-- the state after a script -/
def exec : St → List Op → St
  | st, [] => st
  | st, op :: rest => exec (step st op).1 rest

/-! ### notions the theorems are stated with -/

/-- the entry a completed Sync leaves for the tracked pair `p`: a function of this Sync's input alone -/
def entryFor (inp : SyncIn) (p : Pair) : Entry :=
  match scopeOf inp.scopes p.1 with
  | .noMatch => .err .noMatch
  | .err t => .err (.mapper t)
  | _ =>
    match (pagerList false (pairItems inp p) (pairOutcome inp p)).1 with
    | .error e => .err e
    | .ok l => .items l

/-- the mapper knows the kind: `RESTMapping` returns a mapping -/
def Scope.isMapping : Scope → Bool
  | .namespaced => true
  | .root => true
  | _ => false

/-- invariant of every reachable reader state: no pair is tracked twice, and only tracked pairs have a cache entry -/
def WF (st : St) : Prop := st.tracked.Nodup ∧ ∀ q, st.cache.get? q ≠ none → q ∈ st.tracked

/-- generated-kind reachability in the hard-coded table -/
def reach (a b : GK) : Prop :=
  a = b ∨ (a = gkDeployment ∧ (b = gkReplicaSet ∨ b = gkPod)) ∨ (a = gkReplicaSet ∧ b = gkPod) ∨ (a = gkStatefulSet ∧ b = gkPod)

end CliUtils.CacheReader
