import CliUtils.Model.Basic
/-
  Model of pkg/object/graph/{graph,edge}.go, of the sorting half of pkg/object/graph/depends.go
  (HydrateSetList, ReverseSetList, SortObjs, ReverseSortObjs) and of pkg/ordering/sort.go.

  The graph part is generic in the vertex type (the Go code only uses `==` on ids); the ordering part is
  about `Id`.

  Go's `Graph` holds `edges : map[id] -> slice of ids` (adjacency lists; `reverseEdges` is the mirror image and
  plays no part in `Sort`).  The model keeps the map as an association list in first-insertion order.  Map
  iteration order is *not* observable in anything modelled here: `Sort` returns each layer in map order, but
  every consumer (`HydrateSetList`, `edgeMapKeys`, `edgeMapToList`) sorts before use, and the correspondence
  run compares raw layers only after sorting them.
-/
namespace CliUtils.Graph
open CliUtils

variable {α : Type} [DecidableEq α]

/-- `Graph.edges`: vertex ↦ the vertices it depends on ("from" ↦ list of "to"). -/
abbrev Adj (α : Type) := List (α × List α)

/-- the vertices (`Graph.edges` keys). -/
def verts (g : Adj α) : List α := g.map Prod.fst

/-- `Graph.Size`. -/
def size (g : Adj α) : Nat := g.length

/-- `AddVertex`: adds the key with an empty adjacency list unless it exists. -/
def addVertex (g : Adj α) (v : α) : Adj α :=
  if v ∈ verts g then g else g ++ [(v, [])]

/-- the last step of `AddEdge`: append `t` to the adjacency list of `f` unless `isAdjacent`. -/
def addTo (g : Adj α) (f t : α) : Adj α :=
  g.map (fun p => if p.1 = f then (p.1, if t ∈ p.2 then p.2 else p.2 ++ [t]) else p)

/-- `AddEdge`: both endpoints become vertices, then the edge is appended if it is new. -/
def addEdge (g : Adj α) (f t : α) : Adj α :=
  addTo (addVertex (addVertex g f) t) f t

/-- a graph as client code builds it: `New`, `AddVertex` for every `vs`, `AddEdge` for every `es`. -/
def build (vs : List α) (es : List (α × α)) : Adj α :=
  es.foldl (fun g e => addEdge g e.1 e.2) (vs.foldl addVertex [])

/-- `Dependencies(from)`. -/
def deps (g : Adj α) (v : α) : List α :=
  match g.find? (fun p => p.1 = v) with
  | some p => p.2
  | none => []

/-- `Dependents(to)` (order: compared as a set). -/
def dependents (g : Adj α) (v : α) : List α :=
  (g.filter (fun p => v ∈ p.2)).map Prod.fst

/-- all edges as pairs (`edgeMapToList` before sorting). -/
def edgesOf (g : Adj α) : List (α × α) :=
  g.flatMap (fun p => p.2.map (fun d => (p.1, d)))

/-- the leaf test of `Sort`: vertices whose (remaining) adjacency list is empty. -/
def leaves (g : Adj α) : List α :=
  (g.filter (fun p => p.2.isEmpty)).map Prod.fst

/-- `removeVertex` for every vertex of `ls`: the keys are deleted and every occurrence in an adjacency
list is removed.  (Go removes one occurrence per call with `ObjMetadataSet.Remove`, which also permutes the
slice; adjacency lists never hold repeats because `AddEdge` tests `isAdjacent`, and their order is not
observable, so "filter" is the same thing.) -/
def removeVs (g : Adj α) (ls : List α) : Adj α :=
  (g.filter (fun p => decide (p.1 ∉ ls))).map (fun p => (p.1, p.2.filter (fun d => decide (d ∉ ls))))

/-- the loop of `Graph.Sort`, with fuel.  Each round removes at least one vertex, so `g.length` rounds
are enough (`sort_rest_no_leaves` in Props/C14 shows the loop really ended for the reason the Go loop ends:
nothing left, or no leaf left).  Result: the layers and the graph that remained (the cyclic part). -/
def sortAux : Nat → Adj α → List (List α) × Adj α
  | 0, g => ([], g)
  | n + 1, g =>
    if leaves g = [] then ([], g)
    else
      let r := sortAux n (removeVs g (leaves g))
      (leaves g :: r.1, r.2)

/-- `Graph.Sort`: `.1` = `sorted`, `.2` = what is left in `edges` when the loop stops
(empty ⇔ no error; otherwise its keys are the ids of the `validation.Error` and its edges are the
`CyclicDependencyError.Edges`). -/
def sort (g : Adj α) : List (List α) × Adj α := sortAux g.length g

/-! ### sorting by a comparison function (`sort.Sort` with a `Less`) -/

def insertBy (lt : α → α → Bool) (x : α) : List α → List α
  | [] => [x]
  | y :: ys => if lt x y then x :: y :: ys else y :: insertBy lt x ys

/-- insertion sort.  Go's `sort.Sort` is some unstable comparison sort; for a strict total order the sorted
permutation is unique (`hydrate_deterministic`), so the algorithm does not matter. -/
def isort (lt : α → α → Bool) : List α → List α
  | [] => []
  | x :: xs => insertBy lt x (isort lt xs)

/-- `HydrateSetList` on ids: keep the ids that have an object, sort each set, drop sets that became empty. -/
def hydrate (lt : α → α → Bool) (present : α → Bool) (L : List (List α)) : List (List α) :=
  (L.map (fun l => isort lt (l.filter present))).filter (fun l => !l.isEmpty)

/-- `ReverseSetList`: the outer list is reversed and so is every inner list. -/
def reverseSetList (L : List (List α)) : List (List α) :=
  (L.map List.reverse).reverse

/-- result of `SortObjs`/`ReverseSortObjs` seen at the level of ids. -/
structure SortResult (α : Type) where
  layers : List (List α)
  /-- ids named by the cyclic-dependency `validation.Error` (`edgeMapKeys`); `[]` ⇔ no such error -/
  cycle : List α
  /-- `CyclicDependencyError.Edges` (`edgeMapToList`) -/
  cycleEdges : List (α × α)
deriving DecidableEq, Repr

/-- the error part of `Graph.Sort`, from the remaining graph. `lt` = `ordering.less`, `elt` = `SortableEdges.Less`. -/
def cycleIds (lt : α → α → Bool) (rest : Adj α) : List α := isort lt (verts rest)

def cycleEdgeList (elt : α × α → α × α → Bool) (rest : Adj α) : List (α × α) :=
  @isort (α × α) elt (edgesOf rest)

/-- `SortObjs` for objects with ids `vs` whose (already validated) dependency edges are `es`:
`DependencyGraph`, `Sort`, `HydrateSetList`. -/
def sortObjs (lt : α → α → Bool) (elt : α × α → α × α → Bool) (vs : List α) (es : List (α × α)) : SortResult α :=
  if vs = [] then ⟨[], [], []⟩
  else
    let s := sort (build vs es)
    ⟨hydrate lt (fun v => decide (v ∈ vs)) s.1, cycleIds lt s.2, cycleEdgeList elt s.2⟩

/-- `ReverseSortObjs`: `SortObjs`, then `ReverseSetList` on whatever it returned (also next to an error). -/
def reverseSortObjs (lt : α → α → Bool) (elt : α × α → α × α → Bool) (vs : List α) (es : List (α × α)) : SortResult α :=
  let r := sortObjs lt elt vs es
  { r with layers := reverseSetList r.layers }

end CliUtils.Graph

/-! ## pkg/ordering/sort.go and graph/edge.go: the orders on ids -/
namespace CliUtils.Ordering
open CliUtils

/-- `orderFirst` as (group, kind). -/
def orderFirst : List (String × String) := [
  ("", "Namespace"),
  ("", "ResourceQuota"),
  ("storage.k8s.io", "StorageClass"),
  ("apiextensions.k8s.io", "CustomResourceDefinition"),
  ("admissionregistration.k8s.io", "MutatingWebhookConfiguration"),
  ("", "ServiceAccount"),
  ("extensions", "PodSecurityPolicy"),
  ("policy", "PodSecurityPolicy"),
  ("rbac.authorization.k8s.io", "Role"),
  ("rbac.authorization.k8s.io", "ClusterRole"),
  ("rbac.authorization.k8s.io", "RoleBinding"),
  ("rbac.authorization.k8s.io", "ClusterRoleBinding"),
  ("", "ConfigMap"),
  ("", "Secret"),
  ("", "Service"),
  ("", "LimitRange"),
  ("scheduling.k8s.io", "PriorityClass"),
  ("extensions", "Deployment"),
  ("apps", "Deployment"),
  ("apps", "StatefulSet"),
  ("batch", "CronJob"),
  ("policy", "PodDisruptionBudget")]

/-- `orderLast`. -/
def orderLast : List (String × String) := [
  ("admissionregistration.k8s.io", "ValidatingWebhookConfiguration")]

/-- `groupKind2index[gk]` (0 for a kind in neither table: the zero value of a missing map key). -/
def kindIndex (group kind : String) : Int :=
  match orderLast.findIdx? (fun p => p == (group, kind)) with
  | some i => 1 + (i : Int)
  | none =>
    match orderFirst.findIdx? (fun p => p == (group, kind)) with
    | some i => (i : Int) - (orderFirst.length : Int)
    | none => 0

/-- `IsLessThan` on group-kinds. -/
def gkLess (a b : Id) : Bool :=
  let ia := kindIndex a.group a.kind
  let ib := kindIndex b.group b.kind
  if ia ≠ ib then decide (ia < ib)
  else if a.group ≠ b.group then decide (a.group < b.group)
  else decide (a.kind < b.kind)

/-- `less` of sort.go (used by SortableMetas / SortableUnstructureds). -/
def less (a b : Id) : Bool :=
  if ¬ (a.group = b.group ∧ a.kind = b.kind) then gkLess a b
  else if a.ns ≠ b.ns then decide (a.ns < b.ns)
  else decide (a.name < b.name)

/-- `metaIsLessThan` of edge.go. -/
def metaLess (a b : Id) : Bool :=
  if a.group ≠ b.group then decide (a.group < b.group)
  else if a.kind ≠ b.kind then decide (a.kind < b.kind)
  else if a.ns ≠ b.ns then decide (a.ns < b.ns)
  else decide (a.name < b.name)

/-- `SortableEdges.Less`. -/
def edgeLess (e f : Id × Id) : Bool :=
  if e.1 ≠ f.1 then metaLess e.1 f.1 else metaLess e.2 f.2

end CliUtils.Ordering
