import CliUtils.Model.CacheReader
/-
  Executable model of `pkg/kstatus/polling/clusterreader/dynamic_reader.go` (`DynamicClusterReader`, the reader of the
  status watcher): no cache, every read is a request to the cluster. Shares the object / selector / error types with the
  caching reader's model.

    put / del / setFail  = what the script does to the cluster (fake dynamic client): create-or-replace an object, delete it,
                           make GET or LIST requests for one GroupKind fail from now on (or stop failing)
    get / listNs / listCluster = Get / ListNamespaceScoped / ListClusterScoped: mapper lookup (error wrapped with %w, so
                           its class survives), then ONE request with the namespace / name / `selector.String()` given
-/
namespace CliUtils.DynReader
open CliUtils.CacheReader

inductive Verb where
  | get
  | list
deriving DecidableEq, Repr

structure St where
  objs : List Obj                        -- the cluster content, now
  fails : List ((Verb × GK) × Err)       -- requests that fail, first entry wins
  scopes : List (GK × Scope)             -- the RESTMapper table
deriving Repr

def sameKey (a b : Obj) : Bool := decide (a.gk = b.gk) && decide (a.ns = b.ns) && decide (a.name = b.name)

def hasKey (gk : GK) (ns name : String) (o : Obj) : Bool := decide (o.gk = gk) && decide (o.ns = ns) && decide (o.name = name)

def put (st : St) (o : Obj) : St := { st with objs := st.objs.filter (fun x => !sameKey x o) ++ [o] }

def del (st : St) (gk : GK) (ns name : String) : St := { st with objs := st.objs.filter (fun x => !hasKey gk ns name x) }

def setFail (st : St) (v : Verb) (gk : GK) (e : Option Err) : St :=
  let rest := st.fails.filter (fun f => !decide (f.1 = (v, gk)))
  { st with fails := match e with | none => rest | some e => ((v, gk), e) :: rest }

def failOf : List ((Verb × GK) × Err) → Verb → GK → Option Err
  | [], _, _ => none
  | (k, e) :: r, v, gk => if k = (v, gk) then some e else failOf r v gk

/-- `Mapper.RESTMapping(gk)` failed: `fmt.Errorf("failed to map object: %w", err)` keeps the class -/
def mapperErr (st : St) (gk : GK) : Option Err :=
  match scopeOf st.scopes gk with
  | .noMatch => some .noMatch
  | .err t => some (.mapper t)
  | _ => none

/-- the selector travels as `selector.String()`; `labels.Nothing()` prints as the empty string, which the server reads as
"everything" -/
def wireSel : Sel → Sel
  | .nothing => .all
  | s => s

/-- `Get` -/
def get (st : St) (gk : GK) (ns name : String) : Res :=
  match mapperErr st gk with
  | some e => .err e
  | none =>
    match failOf st.fails .get gk with
    | some e => .err e
    | none =>
      match st.objs.find? (hasKey gk ns name) with
      | some o => .found o
      | none => .err .notFound

/-- `ListNamespaceScoped` (namespace "" = all namespaces) -/
def listNs (st : St) (gk : GK) (ns : String) (sel : Sel) : Res :=
  match mapperErr st gk with
  | some e => .err e
  | none =>
    match failOf st.fails .list gk with
    | some e => .err e
    | none => .items (st.objs.filter (fun o => decide (o.gk = gk) && (decide (ns = "") || decide (o.ns = ns)) && (wireSel sel).matches o))

/-- `ListClusterScoped` -/
def listCluster (st : St) (gk : GK) (sel : Sel) : Res := listNs st gk "" sel

inductive Op where
  | put (o : Obj)
  | del (gk : GK) (ns name : String)
  | fail (v : Verb) (gk : GK) (e : Option Err)
  | get (gk : GK) (ns name : String)
  | listNs (gk : GK) (ns : String) (sel : Sel)
  | listCluster (gk : GK) (sel : Sel)
deriving Repr

/-- one step: the new state and the read result, if the operation is a read -/
def step (st : St) : Op → St × Option Res
  | .put o => (put st o, none)
  | .del gk ns n => (del st gk ns n, none)
  | .fail v gk e => (setFail st v gk e, none)
  | .get gk ns n => (st, some (get st gk ns n))
  | .listNs gk ns sel => (st, some (listNs st gk ns sel))
  | .listCluster gk sel => (st, some (listCluster st gk sel))

def run : St → List Op → List (Option Res)
  | _, [] => []
  | st, op :: rest => let (st', r) := step st op; r :: run st' rest

def exec : St → List Op → St
  | st, [] => st
  | st, op :: rest => exec (step st op).1 rest

def init (scopes : List (GK × Scope)) : St := { objs := [], fails := [], scopes := scopes }

/-- no two objects of the cluster share (GroupKind, namespace, name) -/
def Uniq (st : St) : Prop := st.objs.Pairwise (fun a b => sameKey a b = false)

end CliUtils.DynReader
