/-
  JSON trees and the JSONPath fragment of `pkg/jsonpath/jsonpath.go` (Get / Set), core Lean only.

  What is modelled.  `jsonpath.Get/Set` marshal the object with encoding/json, parse it with ajson, evaluate the
  expression with ajson's `ApplyJSONPath`, (Set:) overwrite every matched node, marshal the ajson tree and re-read it
  with yaml.v3 into the same map.  The marshal → ajson → yaml.v3 → unmarshal glue is modelled as the IDENTITY on
  canonical JSON trees (the correspondence run is what checks that; see Drv/C18.lean `frameOK`).  The expression
  language is modelled for the fragment   `$` followed by steps   `.key` | `['key']` | `[n]` | `.*` | `[*]`.
  ajson has a single kind of non-wildcard step: a command string `k`.  On an object it selects the member named `k`;
  on an array it is read with `strconv.Atoi` (so `[1]`, `.1`, `['1']`, `['+1']`, `['01']` are the same step), a
  negative number counts from the end, an out-of-range or non-numeric `k` selects nothing, and the string `length`
  selects a *detached pseudo-node* holding the array length (ajson quirk, region `C18.array-length`): Get returns the
  length, Set "updates" the detached node — it counts as a match and changes nothing.
  On a scalar every step selects nothing.  Set never creates a missing path: zero matches ⇒ (0, nil), tree unchanged.
  Not modelled (never generated): `..`, slices, unions, filters, scripts, and the root expression `$` as a Set target
  (the real code merges a map into the existing map there and fails for any other value).

  Canonical form of numbers (shared with the Go harness): a number is `int n` iff its JSON literal, as encoding/json
  writes the Go value, is an integer in [-2^63, 2^64-1] (what yaml.v3 decodes to an integer type), otherwise
  `float g j` where `g` is Go's `strconv.FormatFloat(f,'g',-1,64)` (= fmt "%v") and `j` the encoding/json text of the
  same float64; both texts are functions of the float64 value, the model treats them as opaque.
-/
namespace CliUtils

/-- a JSON value; `obj` is an association list (well-formed trees have unique keys, see `JV.WF`) -/
inductive JV where
  | null
  | bool (b : Bool)
  | int (n : Int)
  | float (g : String) (j : String)
  | str (s : String)
  | arr (xs : List JV)
  | obj (kvs : List (String × JV))
deriving Inhabited

/-- one step of a path expression: a command string (member name / array index text) or the wildcard -/
inductive Step where
  | key (k : String)
  | wild
deriving DecidableEq, Repr, Inhabited

abbrev Path := List Step

namespace JV

/-- the children of a node, in order (object members in list order, array elements by index) -/
def kids : JV → List JV
  | .arr xs => xs
  | .obj kvs => kvs.map (·.2)
  | _ => []

/-- replace the children of a node, keeping member names (surplus / missing new children: zipped) -/
def setKids : JV → List JV → JV
  | .arr _, ys => .arr ys
  | .obj kvs, ys => .obj ((kvs.zip ys).map (fun e => (e.1.1, e.2)))
  | t, _ => t

def isArr : JV → Bool
  | .arr _ => true
  | _ => false

end JV

/-- `strconv.Atoi` on the characters of a step: optional sign, then one or more ASCII digits
    (values outside int64 make Atoi fail; they are out of range for every array, so the outcome is the same) -/
def digitsVal : List Char → Option Nat
  | [] => none
  | cs => if cs.all Char.isDigit then some (cs.foldl (fun a c => a * 10 + (c.toNat - '0'.toNat)) 0) else none

def atoi (s : String) : Option Int :=
  match s.toList with
  | '-' :: r => (digitsVal r).map (fun n => - (n : Int))
  | '+' :: r => (digitsVal r).map (fun n => (n : Int))
  | cs => (digitsVal cs).map (fun n => (n : Int))

/-- ajson's array subscript: Atoi, `getPositiveIndex` (negative counts from the end), lookup -/
def arrIndex (n : Nat) (k : String) : Option Nat :=
  match atoi k with
  | none => none
  | some z =>
    let z' := if z < 0 then z + n else z
    if 0 ≤ z' ∧ z' < n then some z'.toNat else none

/-- positions (into `kids`) of the children a step selects -/
def selIdx : JV → Step → List Nat
  | .obj kvs, .key k => ((kvs.map (·.1)).idxOf? k).toList
  | .obj kvs, .wild => List.range kvs.length
  | .arr xs, .key k => if k = "length" then [] else (arrIndex xs.length k).toList
  | .arr xs, .wild => List.range xs.length
  | _, _ => []

/-- the ajson `length` pseudo-node: step `length` applied to an array -/
def pseudoLen : JV → Step → Option JV
  | .arr xs, .key k => if k = "length" then some (.int xs.length) else none
  | _, _ => none

/-- `jsonpath.Get`: the values of all matched nodes, in ajson's order -/
def get : JV → Path → List JV
  | t, [] => [t]
  | t, s :: p =>
    (match pseudoLen t s with | some l => get l p | none => []) ++
    (selIdx t s).flatMap (fun i => match t.kids[i]? with | some c => get c p | none => [])

/-- the tree after overwriting every matched node with `v` (pseudo-nodes are detached: nothing to overwrite) -/
def setT (v : JV) : Path → JV → JV
  | [], _ => v
  | s :: p, t => t.setKids (t.kids.mapIdx (fun i c => if i ∈ selIdx t s then setT v p c else c))

inductive SetErr where
  | unsupportedType
deriving DecidableEq, Repr

def maxInt64 : Int := 9223372036854775807

/-- the type switch of `jsonpath.Set`: bool, string, int, float64, []interface{}, map[string]interface{}, nil are
    accepted; every other Go type is an error.  In canonical form the only rejected values are integers above
    MaxInt64 (Go `uint64`, which is what yaml.v3 — hence `jsonpath.Get` — produces for them). -/
def writable : JV → Bool
  | .int n => n ≤ maxInt64
  | _ => true

/-- `jsonpath.Set`: (new tree, number of matched nodes).  Zero matches returns before the type switch. -/
def set (t : JV) (p : Path) (v : JV) : Except SetErr (JV × Nat) :=
  let n := (get t p).length
  if n = 0 then .ok (t, 0)
  else if !writable v then .error .unsupportedType
  else .ok (setT v p t, n)

/-! ### specification vocabulary: concrete addresses -/

/-- the node at a concrete address (list of child positions) -/
def JV.at? : JV → List Nat → Option JV
  | t, [] => some t
  | t, i :: a => match t.kids[i]? with | some c => c.at? a | none => none

/-- the concrete addresses of the real (non-pseudo) nodes a path matches -/
def resolve : JV → Path → List (List Nat)
  | _, [] => [[]]
  | t, s :: p => (selIdx t s).flatMap (fun i => match t.kids[i]? with
      | some c => (resolve c p).map (i :: ·) | none => [])

/-- a node with its children blanked: kind, scalar value, member names / array length -/
def JV.skel : JV → JV
  | .arr xs => .arr (xs.map (fun _ => JV.null))
  | .obj kvs => .obj (kvs.map (fun e => (e.1, JV.null)))
  | t => t

/-- complement of the region `C18.array-length`: no step `length` is applied to an array along the path -/
def lenFree : JV → Path → Bool
  | _, [] => true
  | t, s :: p => (pseudoLen t s).isNone &&
      (selIdx t s).all (fun i => match t.kids[i]? with | some c => lenFree c p | none => true)

/-- member names of an object node -/
def JV.keys : JV → List String
  | .obj kvs => kvs.map (·.1)
  | _ => []

/-- well-formed: every object node reachable in the tree has pairwise distinct member names -/
def JV.WF (t : JV) : Prop := ∀ a c, t.at? a = some c → c.keys.Nodup

end CliUtils
