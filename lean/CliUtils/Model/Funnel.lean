/-
  Model of pkg/kstatus/watcher/event_funnel.go — the event multiplexer — as a labelled transition system with
  interleaving semantics (core Lean only).

  Go code                                              model
  ---------------------------------------------------  ---------------------------------------------------------------
  funnel goroutine (newEventFunnel, lines 38-64)        fields ctxSeen (ctxDoneCh == nil), counter (`inputs`), closed
    select { delta := <-counterCh ; <-ctxDoneCh }        actions add i / dec i (rendezvous on counterCh), seeCtx
    if ctxDoneCh == nil && inputs <= 0 { break }         `exiting`: once true the goroutine never receives again
    deferred close(outCh); close(doneCh)                 action closeOut
  AddInputChannel (lines 69-79)                          addCall i (owner enters the select), then add i (counterCh <- 1
    select { <-ctx.Done() ; counterCh <- 1 }             accepted by the funnel goroutine) or reject i (ctx.Done() taken);
                                                         both may be enabled together — Go's select picks either
  drain (lines 95-102)                                   phase `draining q inClosed`:  q = events the owner has committed to
    for event := range inCh { outCh <- event }           this input and that are not yet on the output (blocked sender,
    deferred counterCh <- -1                             channel buffer, event held by drain), oldest first;
                                                         deliver i (outCh <- e accepted by the consumer),
                                                         startDec i (range ended: closed and empty), dec i
  owner of an input channel (environment)                send i e, closeIn i;   context (environment): cancel

  One reduction is made: "receive on counterCh, then test the exit condition" is one atomic step, and likewise for
  ctx.Done; the test reads only goroutine-local variables, so it commutes with every step of every other goroutine.
-/
namespace CliUtils.Funnel

/-- phase of one producer = one input channel handed (or to be handed) to AddInputChannel -/
inductive Phase where
  | idle                                        -- AddInputChannel not called yet
  | adding                                      -- inside AddInputChannel's select
  | draining (q : List Nat) (inClosed : Bool)   -- +1 accepted, drain goroutine alive
  | decrementing                                -- drain's deferred `counterCh <- -1` pending
  | done                                        -- decrement accepted, drain goroutine gone
  | rejected                                    -- AddInputChannel returned EventFunnelClosedError
deriving DecidableEq, Repr, Inhabited

structure St where
  ctxDone : Bool                -- context cancelled
  ctxSeen : Bool                -- funnel goroutine consumed ctx.Done (its ctxDoneCh is nil)
  counter : Int                 -- funnel goroutine's `inputs`
  closed  : Bool                -- funnel goroutine exited: outCh and doneCh closed
  prods   : List Phase
  out     : List (Nat × Nat)    -- (producer, event) received from outCh, oldest first
  sent    : List (Nat × Nat)    -- ghost: (producer, event) committed by the owners, oldest first
deriving DecidableEq, Repr, Inhabited

def init (n : Nat) : St := ⟨false, false, 0, false, List.replicate n .idle, [], []⟩

inductive Act where
  | cancel
  | seeCtx
  | addCall (i : Nat)
  | add (i : Nat)
  | reject (i : Nat)
  | send (i : Nat) (e : Nat)
  | closeIn (i : Nat)
  | deliver (i : Nat)
  | startDec (i : Nat)
  | dec (i : Nat)
  | closeOut
deriving DecidableEq, Repr

/-- the loop's exit test holds: the goroutine is on its way to the deferred close and receives nothing any more -/
def exiting (s : St) : Bool := s.ctxSeen && decide (s.counter ≤ 0)

/-- the funnel goroutine is blocked in its select, ready to receive from counterCh / ctx.Done -/
def ready (s : St) : Bool := !s.closed && !exiting s

def setP (s : St) (i : Nat) (p : Phase) : St := { s with prods := s.prods.set i p }

/-- one atomic step; `none` = action not enabled in this state -/
def step (s : St) : Act → Option St
  | .cancel => some { s with ctxDone := true }
  | .seeCtx => if s.ctxDone && !s.ctxSeen && ready s then some { s with ctxSeen := true } else none
  | .addCall i =>
    match s.prods[i]? with
    | some .idle => some (setP s i .adding)
    | _ => none
  | .add i =>
    match s.prods[i]? with
    | some .adding => if ready s then some (setP { s with counter := s.counter + 1 } i (.draining [] false)) else none
    | _ => none
  | .reject i =>
    match s.prods[i]? with
    | some .adding => if s.ctxDone then some (setP s i .rejected) else none
    | _ => none
  | .send i e =>
    match s.prods[i]? with
    | some (.draining q false) => some (setP { s with sent := s.sent ++ [(i, e)] } i (.draining (q ++ [e]) false))
    | _ => none
  | .closeIn i =>
    match s.prods[i]? with
    | some (.draining q false) => some (setP s i (.draining q true))
    | _ => none
  | .deliver i =>
    match s.prods[i]? with
    | some (.draining (e :: q) c) => some (setP { s with out := s.out ++ [(i, e)] } i (.draining q c))
    | _ => none
  | .startDec i =>
    match s.prods[i]? with
    | some (.draining [] true) => some (setP s i .decrementing)
    | _ => none
  | .dec i =>
    match s.prods[i]? with
    | some .decrementing => if ready s then some (setP { s with counter := s.counter - 1 } i .done) else none
    | _ => none
  | .closeOut => if exiting s && !s.closed then some { s with closed := true } else none

/-- steps of the environment (context owner, owners of the input channels); all others are steps of the funnel's own
goroutines (with an always-willing consumer of the output) -/
def Act.env : Act → Bool
  | .cancel | .addCall _ | .send _ _ | .closeIn _ => true
  | _ => false

def Act.internal (a : Act) : Bool := !a.env

/-- what would crash the Go program: a send on, or a second close of, the closed output channel -/
def panics (s : St) : Act → Bool
  | .deliver _ => s.closed
  | .closeOut => s.closed
  | _ => false

def run (s : St) : List Act → Option St
  | [] => some s
  | a :: as => match step s a with
    | some s' => run s' as
    | none => none

def active : Phase → Bool
  | .draining _ _ => true
  | .decrementing => true
  | _ => false

/-- number of live drain goroutines -/
def nActive (ps : List Phase) : Nat := (ps.filter active).length

def queue : Phase → List Nat
  | .draining q _ => q
  | _ => []

def qAt (ps : List Phase) (i : Nat) : List Nat :=
  match ps[i]? with
  | some p => queue p
  | none => []

/-- the events of producer `i` in a (producer, event) log -/
def proj (i : Nat) (l : List (Nat × Nat)) : List Nat := (l.filter (fun x => x.1 == i)).map (·.2)

/-- AddInputChannel returned nil for this producer -/
def accepted : Phase → Bool
  | .draining _ _ | .decrementing | .done => true
  | _ => false

/-- termination measure of one producer: number of internal steps it can still take without its owner -/
def pm : Phase → Nat
  | .idle => 0
  | .adding => 3
  | .draining q _ => 2 + q.length
  | .decrementing => 1
  | .done => 0
  | .rejected => 0

def measure (s : St) : Nat :=
  (s.prods.map pm).sum + (if s.ctxSeen then 0 else 1) + (if s.closed then 0 else 1)

/-! ### Observed histories and trace inclusion

The harness drives the real funnel from goroutines and appends to one mutex-protected log:
`cancel`, `addCall i`, `send i e`, `closeIn i` are logged by the acting goroutine *before* it performs the operation
(these steps only enable steps of others, so placing them early keeps a trace a trace); `addOk i` / `addRej i` are logged
after AddInputChannel returned; `out i e` / `outClosed` by the single consumer after each receive. The rendezvous
`add`/`reject`/`seeCtx`/`startDec`/`dec`/`closeOut` are not observable and are searched for (τ steps). -/

inductive Obs where
  | cancel
  | addCall (i : Nat)
  | addOk (i : Nat)
  | addRej (i : Nat)
  | send (i : Nat) (e : Nat)
  | closeIn (i : Nat)
  | out (i : Nat) (e : Nat)
  | outClosed
deriving DecidableEq, Repr

def tauActs (n : Nat) : List Act :=
  [.seeCtx, .closeOut] ++ (List.range n).flatMap (fun i => [.add i, .reject i, .startDec i, .dec i])

def tauSucc (s : St) : List St := (tauActs s.prods.length).filterMap (step s)

def insertNew (acc : List St) : List St → List St
  | [] => acc
  | x :: xs => if x ∈ acc then insertNew acc xs else insertNew (acc ++ [x]) xs

/-- τ-closure by at most `fuel` rounds of breadth-first expansion (stops early at a fixpoint) -/
def tauClose : Nat → List St → List St
  | 0, S => S
  | k + 1, S =>
    let S' := insertNew S (S.flatMap tauSucc)
    if S'.length = S.length then S else tauClose k S'

/-- effect of one observation on one candidate state -/
def obsStep (s : St) : Obs → Option St
  | .cancel => step s .cancel
  | .addCall i => step s (.addCall i)
  | .send i e => step s (.send i e)
  | .closeIn i => step s (.closeIn i)
  | .out i e =>
    match s.prods[i]? with
    | some (.draining (e' :: _) _) => if e' = e then step s (.deliver i) else none
    | _ => none
  | .addOk i =>
    match s.prods[i]? with
    | some p => if accepted p then some s else none
    | none => none
  | .addRej i =>
    match s.prods[i]? with
    | some .rejected => some s
    | _ => none
  | .outClosed => if s.closed then some s else none

/-- enough rounds: every τ step lowers `measure`, which is at most 3n+2 plus the queued events -/
def fuelFor (n : Nat) (h : List Obs) : Nat := 3 * n + 3 + h.length

def acceptsFrom (fuel : Nat) : List St → List Obs → Bool
  | S, [] => !S.isEmpty
  | S, o :: os => acceptsFrom fuel (tauClose fuel (insertNew [] (S.filterMap (fun s => obsStep s o)))) os

/-- trace inclusion: is the observed history `h` of a funnel with `n` producers a trace of the model? -/
def accepts (n : Nat) (h : List Obs) : Bool :=
  acceptsFrom (fuelFor n h) (tauClose (fuelFor n h) [init n]) h

/-- declarative counterpart of `accepts`: `Tr s h s'` — the model can go from `s` to `s'` exhibiting exactly `h` -/
inductive Tr : St → List Obs → St → Prop where
  | nil (s : St) : Tr s [] s
  | tau {s s' s'' : St} {h : List Obs} (a : Act) : a ∈ tauActs s.prods.length → step s a = some s' → Tr s' h s'' → Tr s h s''
  | obs {s s' s'' : St} {h : List Obs} (o : Obs) : obsStep s o = some s' → Tr s' h s'' → Tr s (o :: h) s''

/-- the (producer, event) pairs the consumer received, in order -/
def outsOf : List Obs → List (Nat × Nat)
  | [] => []
  | .out i e :: h => (i, e) :: outsOf h
  | _ :: h => outsOf h

/-- the (producer, event) pairs the owners committed, in order -/
def sendsOf : List Obs → List (Nat × Nat)
  | [] => []
  | .send i e :: h => (i, e) :: sendsOf h
  | _ :: h => sendsOf h

/-- last element satisfying `pred` (e.g. "is about object x") -/
def lastMatching (pred : Nat → Bool) (l : List Nat) : Option Nat := (l.filter pred).getLast?

end CliUtils.Funnel
