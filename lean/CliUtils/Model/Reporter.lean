import CliUtils.Model.Basic
/-
  Model of the sequential decision logic of pkg/kstatus/watcher/object_status_reporter.go (+ default_status_watcher.go,
  object_filter.go, unschedulable.go): which informer targets exist, which are started/stopped when Namespace / CRD
  objects appear or disappear or a ListAndWatch fails, what one watch event makes the handler emit, and the fatal-error
  transition.  Informers, contexts and goroutines are environment: their notifications arrive as inputs (`In`).

  `onceGuard = false` is the pinned code (handleFatalError sends unconditionally, lines 712-722);
  `onceGuard = true` is the repaired behaviour (only the first fatal error is reported).
-/
namespace CliUtils.Reporter

/-- `GroupKindNamespace` (object_status_reporter.go:31) -/
structure Gkn where
  group : String
  kind : String
  ns : String
deriving DecidableEq, Repr, Inhabited, Hashable

/-- `meta.RESTScope` the reporter runs with -/
inductive Scope | root | perNs
deriving DecidableEq, Repr, Inhabited

/-- `RESTScopeStrategy` option of `Watch` -/
inductive Strategy | automatic | root | perNs
deriving DecidableEq, Repr, Inhabited

/-- `autoSelectRESTScopeStrategy`: more than one distinct namespace → root -/
def autoSelect (ids : List Id) : Scope :=
  if (dedup (ids.map (·.ns))).length > 1 then .root else .perNs

def scopeOf (st : Strategy) (ids : List Id) : Scope :=
  match st with
  | .automatic => autoSelect ids
  | .root => .root
  | .perNs => .perNs

/-- `rootScopeGKNs` / `namespaceScopeGKNs` (order comes out of a Go map: compare as sets) -/
def targetsOf (sc : Scope) (ids : List Id) : List Gkn :=
  match sc with
  | .root => dedup (ids.map fun i => ⟨i.group, i.kind, ""⟩)
  | .perNs => dedup (ids.map fun i => ⟨i.group, i.kind, i.ns⟩)

/-- kstatus statuses -/
inductive Status | inProgress | failed | current | terminating | notFound | unknown
deriving DecidableEq, Repr, Inhabited

/-- what the pod-controller readers (Deployment/ReplicaSet/StatefulSet → Pods) report for the object itself:
the object's own computed status, except that InProgress with a Failed generated pod becomes Failed
(statusreaders/pod_controller.go). The event's identifier is always the object's own id. -/
def readerStatus (own : Status) (anyGeneratedPodFailed : Bool) : Status :=
  if own = .inProgress ∧ anyGeneratedPodFailed then .failed else own

inductive Ev where
  | sync
  | update (id : Id) (st : Status)
  | error
deriving DecidableEq, Repr, Inhabited

/-- start/stop requests on the informer table (`informerRefs`) -/
inductive BOp where
  | startAll                         -- Start(): every target
  | startNs (ns : String)            -- onNamespaceAdd / onNamespaceUpdate
  | stopNs (ns : String)             -- onNamespaceDelete
  | startGk (group kind : String)    -- onCRDAdd / onCRDUpdate
  | stopGk (group kind : String)     -- onCRDDelete, NotFound watch error
  | stopOne (t : Gkn)                -- NoMatch in startInformerWithRetry
deriving DecidableEq, Repr

/-- the targets an operation addresses (forEachTargetWithNamespace / forEachTargetWithGroupKind) -/
def BOp.sel : BOp → Gkn → Bool
  | .startAll, _ => true
  | .startNs ns, t => t.ns == ns
  | .stopNs ns, t => t.ns == ns
  | .startGk g k, t => t.group == g && t.kind == k
  | .stopGk g k, t => t.group == g && t.kind == k
  | .stopOne u, t => t == u

def BOp.isStart : BOp → Bool
  | .startAll | .startNs _ | .startGk _ _ => true
  | _ => false

/-- `startInformer` on every addressed target not yet started (informerReference.Start returns false otherwise);
`stopInformer` on every addressed target (informerReference.Stop is a no-op when not started) -/
def applyOp (targets started : List Gkn) (op : BOp) : List Gkn :=
  if op.isStart then started ++ targets.filter (fun t => op.sel t && !(started.contains t))
  else started.filter (fun t => !(op.sel t))

/-- errors passed to the watch error handler, by the class that `watchErrorHandler` tests for, in its order -/
inductive WErr | eof | unexpectedEof | ctxDone | expired | gone | notFound | forbidden | other
deriving DecidableEq, Repr, Inhabited

inductive WAction | retry | stopGroupKind | fatal
deriving DecidableEq, Repr

/-- `watchErrorHandler` (lines 727-766): only NotFound stops informers (silently), only Forbidden is fatal -/
def watchErrAction : WErr → WAction
  | .notFound => .stopGroupKind
  | .forbidden => .fatal
  | _ => .retry

inductive WKind | add | update | delete
deriving DecidableEq, Repr, Inhabited

/-- a watch notification as the handler sees it -/
structure Obj where
  id : Id
  computed : Option Status         -- StatusReader result for this version; none = the reader returned an error
  crdGk : Option (String × String) -- CRD objects: spec.group / spec.names.kind when both are present
  unschedulable : Bool := false    -- isObjectUnschedulable(rs): a delayed re-read is scheduled (not an event by itself)
deriving Repr, Inhabited

def isNamespace (id : Id) : Bool := id.group == "" && id.kind == "Namespace"
def isCRD (id : Id) : Bool := id.group == "apiextensions.k8s.io" && id.kind == "CustomResourceDefinition"

structure Cfg where
  scope : Scope
  targets : List Gkn
  allow : List Id
  onceGuard : Bool
deriving Repr

structure RState where
  started : List Gkn := []
  stopped : Bool := false       -- Stop() was called: reporter context cancelled
  errSent : Bool := false       -- a fatal error was reported (used only when onceGuard)
  syncSent : Bool := false
  events : List Ev := []
  ops : List BOp := []          -- ghost: start/stop requests executed so far
  rechecks : List Id := []      -- ghost: delayed status re-reads scheduled (unschedulable pods)
deriving Repr, Inhabited

inductive In where
  | start                                   -- ObjectStatusReporter.Start
  | synced                                  -- WaitForCacheSync returned true
  | noMatch (t : Gkn)                       -- startInformerNow: RESTMapping has no match
  | startFailed (t : Gkn) (accepted : Bool) -- startInformerNow: any other error; `accepted`: the funnel still took the
                                            -- temporary error channel (possible even after Stop: AddInputChannel's select)
  | watchErr (t : Gkn) (e : WErr)
  | watch (src : Gkn) (k : WKind) (o : Obj) -- informer of target `src` delivers a notification
  | recheck (id : Id) (res : Option Status) -- scheduled re-read fired: status or reader error
  | cancel                                  -- caller's context cancelled
deriving Repr

def doOp (c : Cfg) (s : RState) (op : BOp) : RState :=
  { s with started := applyOp c.targets s.started op, ops := s.ops ++ [op] }

/-- `handleFatalError` on the reporter: one error event, then Stop -/
def fatal (c : Cfg) (s : RState) : RState :=
  if c.onceGuard && s.errSent then s
  else { s with events := s.events ++ [.error], errSent := true, stopped := true }

/-- onNamespace* / onCRD* as called from the handler for the object of this notification -/
def nsCrdOps (c : Cfg) (k : WKind) (o : Obj) : List BOp :=
  if isNamespace o.id then
    match c.scope with
    | .root => []
    | .perNs => [if k = .delete then .stopNs o.id.name else .startNs o.id.name]
  else if isCRD o.id then
    match o.crdGk with
    | none => []
    | some (g, kd) => [if k = .delete then .stopGk g kd else .startGk g kd]
  else []

def emit (s : RState) (e : Ev) : RState := { s with events := s.events ++ [e] }

def step (c : Cfg) (s : RState) : In → RState
  | .start => doOp c s .startAll
  | .cancel => { s with stopped := true }
  | .synced => if s.stopped || s.syncSent then s else { emit s .sync with syncSent := true }
  | .noMatch t => doOp c s (.stopOne t)
  -- lines 294-306. (In the pinned code the error handed to handleFatalError here is the shadowed, nil result of
  -- AddInputChannel, so the event carries a nil error and is sent even when the cause was the cancellation.)
  | .startFailed _ accepted => if accepted then fatal c s else s
  | .watchErr t e =>
    match watchErrAction e with
    | .retry => s
    | .stopGroupKind => doOp c s (.stopGk t.group t.kind)
    | .fatal => fatal c s
  | .watch src k o =>
    -- `ctx.Err() != nil`: the informer's context is a child of the reporter's
    if s.stopped || !(s.started.contains src) then s
    -- AllowListObjectFilter
    else if !(c.allow.contains o.id) then s
    else match k with
      | .delete =>
        emit ((nsCrdOps c k o).foldl (doOp c) s) (.update o.id .notFound)
      | _ =>
        match o.computed with
        | none => fatal c s
        | some st =>
          let s1 := (nsCrdOps c k o).foldl (doOp c) s
          let s2 := if o.unschedulable then { s1 with rechecks := s1.rechecks ++ [o.id] } else s1
          emit s2 (.update o.id st)
  | .recheck id res =>
    -- only tasks scheduled by the handler (for an id that passed the filter) ever fire
    if !(s.rechecks.contains id) then s
    else match res with
      | none => fatal c s
      | some st => emit s (.update id st)

def run (c : Cfg) (s : RState) (ins : List In) : RState := ins.foldl (step c) s

def nErrors (es : List Ev) : Nat := (es.filter (· == .error)).length
def nSyncs (es : List Ev) : Nat := (es.filter (· == .sync)).length

/-- the last update event for `id`, if any -/
def lastFor (id : Id) (es : List Ev) : Option Status :=
  es.foldl (fun acc e => match e with
    | .update i st => if i = id then some st else acc
    | _ => acc) none

/-- closed form of the informer table: the last request addressing `t` decides -/
def lastRel (t : Gkn) (ops : List BOp) : Option Bool :=
  ops.foldl (fun acc op => if op.sel t then some op.isStart else acc) none

/-- the status an update event must carry for a notification: NotFound for deletes, else what the status reader
computed for that version -/
def expectedStatus (k : WKind) (o : Obj) : Option Status := if k = .delete then some .notFound else o.computed

/-! ### `handleFatalError`: the one error report of a reporter -/

/-- what the reporter has sent, and its `fatalErrorSent` flag -/
structure FatalSt where
  sent : List String := []
  flag : Bool := false
deriving Repr, DecidableEq

/-- one call of `handleFatalError`; `none` = the error is (or wraps) a context error — what a handler gets when its own informer
was stopped under it —, `some t` = any other error, with its text -/
def handleFatal (s : FatalSt) (e : Option String) : FatalSt :=
  match e with
  | none => s
  | some t => if s.flag then s else { sent := s.sent ++ [t], flag := true }

def fatalSeq (es : List (Option String)) : FatalSt := es.foldl handleFatal {}

end CliUtils.Reporter
