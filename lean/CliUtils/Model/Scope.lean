import CliUtils.Model.Json
/-
  Model of the scope lookup and of the per-object validation:
    /repo/pkg/object/field.go          NestedField (string and int path elements, error = path prefix that failed)
    /repo/pkg/object/unstructured.go   LookupResourceScope, crdDefinesVersion, IsCRD
    /repo/pkg/object/validation/validate.go   Validator.Validate, findCRDs, validateKind/Name/Namespace
    /repo/pkg/object/validation/collector.go  Collector.Collect (InvalidIds)
  One function per Go function, same order of tests.  Error values are modelled as (type, field path) — never wording.

  Go comparisons of an `interface{}` with a string (`group == ""`, `gvk.Kind != kind`, `name == version`,
  `switch scopeName { case "Namespaced": … }`) are true only when the dynamic value IS a string with that content:
  a number, bool, null, list or map in such a place is "some value different from every string" — it is not an error.
-/
namespace CliUtils.Scope
open CliUtils CliUtils.J

/-- one element of a field path: map key or list index -/
inductive Key where
  | k (s : String)
  | i (n : Nat)
deriving DecidableEq, Repr, Inhabited

/-- the `(value, found, err)` triple of `object.NestedField`; the error is `InvalidType(fields[:i+1], …)`, i.e. a
`field.Error` of type Invalid whose path is the prefix up to and including the element that could not be applied -/
inductive NF where
  | notFound
  | found (v : J)
  | err (path : List Key)

/-- `object.NestedField` (`pre` = the path walked so far, for the error value).
A nil value with path elements left → not found; a string element on a map: the member or not found; on anything else →
InvalidType; an int element on a list: the item or not found (index ≥ len); on anything else → InvalidType. A nil LEAF is found. -/
def nestedFieldAux (pre : List Key) (v : J) : List Key → NF
  | [] => .found v
  | key :: fs =>
    match v, key with
    | .null, _ => .notFound
    | .obj l, .k f =>
      match J.lookup f l with
      | none => .notFound
      | some v' => nestedFieldAux (pre ++ [key]) v' fs
    | .arr xs, .i n =>
      match xs[n]? with
      | none => .notFound
      | some v' => nestedFieldAux (pre ++ [key]) v' fs
    | _, _ => .err (pre ++ [key])

def nestedField (o : J) (p : List Key) : NF := nestedFieldAux [] o p

/-- errors other than "unknown type" that `LookupResourceScope` can return -/
inductive LErr where
  | mapper                       -- the RESTMapper failed with something that is not a NoMatch error
  | notFound (path : List Key)   -- `object.NotFound(path, …)`   (field.ErrorTypeNotFound)
  | invalid (path : List Key)    -- `object.Invalid / InvalidType(path, …)` (field.ErrorTypeInvalid)
deriving DecidableEq, Repr, Inhabited

/-- Go `x == s` for an `interface{}` x and a string s: the dynamic value is a string with this content -/
def isStr (v : J) (s : String) : Bool :=
  match v with
  | .str t => t = s
  | _ => false

def pGroup : List Key := [.k "spec", .k "group"]
def pNamesKind : List Key := [.k "spec", .k "names", .k "kind"]
/-- the path the code REPORTS for a missing `spec.names.kind` (sic: "spec.kind") -/
def pKindReported : List Key := [.k "spec", .k "kind"]
def pVersions : List Key := [.k "spec", .k "versions"]
def pScope : List Key := [.k "spec", .k "scope"]

/-- the loop of `crdDefinesVersion` over `versionsSlice`, item `i` first.  The code re-reads
`NestedField(crd, "spec", "versions", i, "name")` from the root; the prefix `spec.versions` has just been read
successfully as this very list, so the read reduces to the last two steps on the item. -/
def versionLoop (version : String) : List J → Nat → Except LErr Bool
  | [], _ => .ok false
  | x :: rest, i =>
    match nestedFieldAux (pVersions ++ [.i i]) x [.k "name"] with
    | .err p => .error (.invalid p)
    | .notFound => .error (.notFound (pVersions ++ [.i i, .k "name"]))
    | .found nv => if isStr nv version then .ok true else versionLoop version rest (i + 1)

/-- `crdDefinesVersion` -/
def crdDefinesVersion (crd : J) (version : String) : Except LErr Bool :=
  match nestedField crd pVersions with
  | .err p => .error (.invalid p)
  | .notFound => .error (.notFound pVersions)
  | .found (.arr items) =>
    if items.isEmpty then .error (.invalid pVersions)   -- "must not be empty"
    else versionLoop version items 0
  | .found _ => .error (.invalid pVersions)             -- InvalidType: not a []interface{}

/-- what one iteration of the CRD loop of `LookupResourceScope` does -/
inductive CrdRes where
  | next                      -- `continue`: another group or kind
  | fail (e : LErr)           -- `return nil, err`
  | unknown                   -- matching group+kind but the version is not defined: UnknownTypeError
  | scope (namespaced : Bool) -- `return meta.RESTScopeNamespace / RESTScopeRoot`
deriving DecidableEq, Repr, Inhabited

/-- body of `for _, crd := range crds` in `LookupResourceScope` for the object's group / kind / version -/
def crdStep (g k ver : String) (crd : J) : CrdRes :=
  match nestedField crd pGroup with
  | .err p => .fail (.invalid p)
  | .notFound => .fail (.notFound pGroup)
  | .found gv =>
    if isStr gv "" then .fail (.notFound pGroup)
    else
      match nestedField crd pNamesKind with
      | .err p => .fail (.invalid p)
      | .notFound => .fail (.notFound pKindReported)
      | .found kv =>
        if isStr kv "" then .fail (.notFound pKindReported)
        else if !isStr kv k || !isStr gv g then .next
        else
          match crdDefinesVersion crd ver with
          | .error e => .fail e
          | .ok false => .unknown
          | .ok true =>
            match nestedField crd pScope with
            | .err p => .fail (.invalid p)
            | .notFound => .fail (.invalid pScope)        -- scopeName = nil: "expected Namespaced or Cluster"
            | .found sv =>
              if isStr sv "Namespaced" then .scope true
              else if isStr sv "Cluster" then .scope false
              else .fail (.invalid pScope)

/-- what `mapper.RESTMapping(gvk.GroupKind(), gvk.Version)` answers -/
inductive MapAns where
  | namespaced | root | noMatch | error
deriving DecidableEq, Repr, Inhabited

/-- result of `LookupResourceScope` -/
inductive ScopeRes where
  | namespaced | root | unknownType
  | error (e : LErr)
deriving DecidableEq, Repr, Inhabited

/-- the CRD loop: the first CRD that does not `continue` decides; no CRD left: UnknownTypeError -/
def crdLoop (g k ver : String) : List J → ScopeRes
  | [] => .unknownType
  | c :: cs =>
    match crdStep g k ver c with
    | .next => crdLoop g k ver cs
    | .fail e => .error e
    | .unknown => .unknownType
    | .scope true => .namespaced
    | .scope false => .root

/-- `object.LookupResourceScope`: the mapper first, the CRDs only after a NoMatch error -/
def lookupScope (m : MapAns) (g k ver : String) (crds : List J) : ScopeRes :=
  match m with
  | .namespaced => .namespaced
  | .root => .root
  | .error => .error .mapper
  | .noMatch => crdLoop g k ver crds

/-! ### the validator -/

/-- what the validator reads of one object: GroupVersionKind of apiVersion+kind, metadata.name / namespace, and the object tree
(only looked at when the object is a CRD) -/
structure Obj where
  group : String
  version : String
  kind : String
  name : String
  ns : String
  tree : J := .obj []
deriving Inhabited

def Obj.id (o : Obj) : Id := { ns := o.ns, name := o.name, group := o.group, kind := o.kind }

/-- error classes of `Validator.Validate` -/
inductive ErrClass where
  | kindRequired        -- field.Required(kind)
  | nameRequired        -- field.Required(metadata.name)
  | nsRequired          -- field.Required(metadata.namespace)
  | nsMustBeEmpty       -- field.Invalid(metadata.namespace)
  | unknownType         -- *object.UnknownTypeError
  | other (e : LErr)    -- any other error of LookupResourceScope
deriving DecidableEq, Repr, Inhabited

/-- `validateNamespace` -/
def validateNamespace (m : MapAns) (o : Obj) (crds : List J) : List ErrClass :=
  if o.kind = "" then []     -- skip namespace validation if kind is missing
  else
    match lookupScope m o.group o.kind o.version crds with
    | .error e => [.other e]
    | .unknownType => [.unknownType]
    | .namespaced => if o.ns = "" then [.nsRequired] else []
    | .root => if o.ns ≠ "" then [.nsMustBeEmpty] else []

/-- the errors `Validate` gathers for ONE object (`objErrors`), in order -/
def validateObj (m : MapAns) (o : Obj) (crds : List J) : List ErrClass :=
  (if o.kind = "" then [.kindRequired] else []) ++
  (if o.name = "" then [.nameRequired] else []) ++
  validateNamespace m o crds

/-- `object.IsCRD` -/
def isCRD (o : Obj) : Bool := o.group = "apiextensions.k8s.io" && o.kind = "CustomResourceDefinition"

/-- `findCRDs` -/
def findCRDs (objs : List Obj) : List J := (objs.filter isCRD).map (·.tree)

/-- the RESTMapper as a table (group, kind, version) ↦ answer; nothing listed: NoMatch -/
abbrev MapTable := List ((String × String × String) × MapAns)

def MapTable.ans (t : MapTable) (g k v : String) : MapAns :=
  match t.lookup (g, k, v) with
  | some a => a
  | none => .noMatch

/-- `Validator.Validate`: one collected error per object with a non-empty error list, in object order:
(the id the error names, its causes) -/
def validateAll (t : MapTable) (objs : List Obj) : List (Id × List ErrClass) :=
  let crds := findCRDs objs
  objs.filterMap (fun o =>
    let es := validateObj (t.ans o.group o.kind o.version) o crds
    if es.isEmpty then none else some (o.id, es))

/-- `Collector.InvalidIds` after `Validate` (a set: first occurrences) -/
def invalidIds (t : MapTable) (objs : List Obj) : List Id := dedup ((validateAll t objs).map (·.1))

/-! ### reference reading of a well-formed CRD (used by the theorems and by the driver's property predicate;
written by direct pattern matching, not through `nestedField`) -/

structure View where
  group : String
  kind : String
  versions : List String
  namespaced : Bool
deriving DecidableEq, Repr, Inhabited

/-- the names of a `spec.versions` list all of whose items are maps with a string `name` -/
def viewNames : List J → Option (List String)
  | [] => some []
  | .obj l :: rest =>
    match J.lookup "name" l, viewNames rest with
    | some (.str s), some ss => some (s :: ss)
    | _, _ => none
  | _ :: _ => none

/-- a CRD is well-formed when spec.group and spec.names.kind are non-empty strings, spec.versions is a non-empty list of maps
with string names and spec.scope is "Namespaced" or "Cluster" -/
def view (c : J) : Option View :=
  match c with
  | .obj top =>
    match J.lookup "spec" top with
    | some (.obj sp) =>
      match J.lookup "group" sp, J.lookup "names" sp, J.lookup "versions" sp, J.lookup "scope" sp with
      | some (.str g), some (.obj nm), some (.arr items), some (.str sc) =>
        match J.lookup "kind" nm, viewNames items with
        | some (.str k), some vs =>
          if g ≠ "" ∧ k ≠ "" ∧ vs ≠ [] ∧ (sc = "Namespaced" ∨ sc = "Cluster") then
            some { group := g, kind := k, versions := vs, namespaced := sc = "Namespaced" }
          else none
        | _, _ => none
      | _, _, _, _ => none
    | _ => none
  | _ => none

/-- a CRD object tree with the given reading -/
def mkCRD (v : View) : J :=
  .obj [("spec", .obj [("group", .str v.group), ("names", .obj [("kind", .str v.kind)]),
                       ("versions", .arr (v.versions.map (fun s => .obj [("name", .str s)]))),
                       ("scope", .str (if v.namespaced then "Namespaced" else "Cluster"))])]

def View.isFor (g k : String) (v : View) : Bool := v.group = g && v.kind = k

/-- what a list of well-formed CRDs says about a type: the FIRST CRD with this group and kind decides -/
def viewsScope (g k ver : String) (vs : List View) : ScopeRes :=
  match vs.find? (View.isFor g k) with
  | none => .unknownType
  | some v => if ver ∈ v.versions then (if v.namespaced then .namespaced else .root) else .unknownType

end CliUtils.Scope
