import CliUtils.Model.Graph
/-
  Model of the edge construction in pkg/object/graph/depends.go: `DependencyGraph` =
  `addVertices`, `addCRDEdges`, `addNamespaceEdges`, `addDependsOnEdges`, `addApplyTimeMutationEdges`.

  Objects are seen at the level the code looks at them: the id, what a CRD object defines
  (`spec.group`, `spec.names.kind`), and the two annotations *after parsing* (parsing itself — the depends-on
  string grammar, the YAML of apply-time-mutation — belongs to C15/C18; an unparsable annotation is `Ann.invalid`).
  Used by C14 (domain `depgraph`) and meant for C04/C05/C11.
-/
namespace CliUtils.DepEdges
open CliUtils

/-- an annotation on an object, as `dependson.ReadAnnotation` / `mutation.ReadAnnotation` deliver it -/
inductive Ann where
  | absent
  /-- present but `ReadAnnotation` returns an error -/
  | invalid
  /-- the referenced ids in annotation order (depends-on entries; `sourceRef` of each substitution) -/
  | refs (ids : List Id)
deriving DecidableEq, Repr

structure DObj where
  id : Id
  /-- `GetCRDGroupKind`: (spec.group, spec.names.kind) when both are present as strings (looked at only for CRD objects) -/
  crdDefines : Option (String × String) := none
  dependsOn : Ann := .absent
  mutation : Ann := .absent
deriving Repr

inductive AnnKind where
  | dependsOn | mutation
deriving DecidableEq, Repr

inductive ErrKind where
  /-- `InvalidAnnotationError` with a parse error as cause -/
  | invalid
  /-- `DuplicateDependencyError` -/
  | duplicate
  /-- `ExternalDependencyError` -/
  | external
deriving DecidableEq, Repr

/-- one `validation.Error` produced by `DependencyGraph`: the object it names, the annotation, and the causes
(for `duplicate`/`external` the edge target) in order -/
structure DepErr where
  obj : Id
  ann : AnnKind
  items : List (ErrKind × Option Id)
deriving DecidableEq, Repr

structure Result where
  /-- `AddEdge` calls in order (repeats possible; `Graph.build` absorbs them) -/
  edges : List (Id × Id)
  errors : List DepErr
deriving Repr

/-- `schema.GroupKind.String()` — the key of the `crds` map -/
def gkString (group kind : String) : String :=
  if group = "" then kind else kind ++ "." ++ group

/-- `object.IsCRD` -/
def isCRD (i : Id) : Bool := i.group = "apiextensions.k8s.io" && i.kind = "CustomResourceDefinition"

/-- `object.IsKindNamespace` -/
def isNamespaceKind (i : Id) : Bool := i.group = "" && i.kind = "Namespace"

/-- lookup in a Go map filled by successive assignments: the last assignment to a key wins -/
def lookupLast (m : List (String × Id)) (k : String) : Option Id :=
  m.foldl (fun acc p => if p.1 = k then some p.2 else acc) none

/-- `addCRDEdges`: custom resource → the CRD object (of the set) that defines its group-kind -/
def crdEdges (objs : List DObj) : List (Id × Id) :=
  let crds := objs.filterMap (fun o =>
    if isCRD o.id then o.crdDefines.map (fun gk => (gkString gk.1 gk.2, o.id)) else none)
  objs.filterMap (fun o => (lookupLast crds (gkString o.id.group o.id.kind)).map (fun to => (o.id, to)))

/-- `addNamespaceEdges`: namespaced object → the Namespace object (of the set) named like its namespace -/
def nsEdges (objs : List DObj) : List (Id × Id) :=
  let nss := objs.filterMap (fun o => if isNamespaceKind o.id then some (o.id.name, o.id) else none)
  objs.filterMap (fun o =>
    if o.id.ns ≠ "" then (lookupLast nss o.id.ns).map (fun to => (o.id, to)) else none)

/-- the inner loop of `addDependsOnEdges` (`dupIsError = true`) and `addApplyTimeMutationEdges` (`false`):
walk the references with the `seen` set; a repeat is an error / silently skipped; a reference outside the
object set is an external-dependency error; anything else is an edge. -/
def walkRefs (dupIsError : Bool) (ids : List Id) (src : Id) :
    List Id → List Id → List (Id × Id) × List (ErrKind × Option Id)
  | [], _ => ([], [])
  | d :: ds, seen =>
    if d ∈ seen then
      let r := walkRefs dupIsError ids src ds seen
      if dupIsError then (r.1, (ErrKind.duplicate, some d) :: r.2) else r
    else
      let r := walkRefs dupIsError ids src ds (d :: seen)
      if d ∈ ids then ((src, d) :: r.1, r.2) else (r.1, (ErrKind.external, some d) :: r.2)

/-- one annotation kind over all objects -/
def annEdges (kind : AnnKind) (objs : List DObj) : Result :=
  let ids := objs.map (·.id)
  objs.foldl (fun acc o =>
    match (match kind with | .dependsOn => o.dependsOn | .mutation => o.mutation) with
    | .absent => acc
    | .invalid => { acc with errors := acc.errors ++ [⟨o.id, kind, [(ErrKind.invalid, none)]⟩] }
    | .refs rs =>
      let r := walkRefs (kind == .dependsOn) ids o.id rs []
      { edges := acc.edges ++ r.1,
        errors := if r.2.isEmpty then acc.errors else acc.errors ++ [⟨o.id, kind, r.2⟩] })
    ⟨[], []⟩

/-- all `AddEdge` calls of `DependencyGraph` in order, and its errors in order -/
def dependencyEdges (objs : List DObj) : Result :=
  let d := annEdges .dependsOn objs
  let m := annEdges .mutation objs
  { edges := crdEdges objs ++ nsEdges objs ++ d.edges ++ m.edges, errors := d.errors ++ m.errors }

/-- `DependencyGraph` -/
def dependencyGraph (objs : List DObj) : Graph.Adj Id :=
  Graph.build (objs.map (·.id)) (dependencyEdges objs).edges

end CliUtils.DepEdges
