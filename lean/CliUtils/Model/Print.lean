import CliUtils.Model.Event
/-
  Model of the JSON list printer:
    pkg/print/stats/stats.go            Stats, Handle, Inc, Sum, Failed*Sum
    pkg/print/common/errors.go          ResultErrorFromStats
    pkg/printers/json/formatter.go      one `Line` per formatted event, FormatSummary
    pkg/print/list/base.go              BaseListPrinter.Print (the loop)
  A `Line` is the JSON object the formatter marshals, as a record (the timestamp and byte-level encoding are not
  modelled; the harness re-parses every output line with encoding/json).
-/
namespace CliUtils.Print
open CliUtils

/-! ### pkg/print/stats -/

/-- `ApplyStats` / `PruneStats` / `DeleteStats` (three identical structs in Go) -/
structure OpStats where
  successful : Nat := 0
  skipped : Nat := 0
  failed : Nat := 0
deriving DecidableEq, Repr, Inhabited

/-- `WaitStats` -/
structure WaitStats where
  successful : Nat := 0
  timeout : Nat := 0
  failed : Nat := 0
  skipped : Nat := 0
deriving DecidableEq, Repr, Inhabited

/-- `Stats` -/
structure Stats where
  apply : OpStats := {}
  prune : OpStats := {}
  delete : OpStats := {}
  wait : WaitStats := {}
deriving DecidableEq, Repr, Inhabited

/-- `Inc` of Apply/Prune/DeleteStats; `none` = the `default:` branch, which panics (status `Pending`) -/
def OpStats.inc (c : OpStats) : OpStatus → Option OpStats
  | .successful => some { c with successful := c.successful + 1 }
  | .skipped => some { c with skipped := c.skipped + 1 }
  | .failed => some { c with failed := c.failed + 1 }
  | .pending => none

/-- `WaitStats.Inc`: `Pending` is ignored -/
def WaitStats.inc (w : WaitStats) : WaitStatus → WaitStats
  | .pending => w
  | .successful => { w with successful := w.successful + 1 }
  | .skipped => { w with skipped := w.skipped + 1 }
  | .timeout => { w with timeout := w.timeout + 1 }
  | .failed => { w with failed := w.failed + 1 }

def OpStats.sum (c : OpStats) : Nat := c.successful + c.skipped + c.failed
def WaitStats.sum (w : WaitStats) : Nat := w.successful + w.skipped + w.failed + w.timeout

/-- `Stats.Handle`; `none` = panic -/
def Stats.handle {ι : Type} (s : Stats) : Event ι → Option Stats
  | .apply _ _ st _ => (s.apply.inc st).map fun c => { s with apply := c }
  | .prune _ _ st _ => (s.prune.inc st).map fun c => { s with prune := c }
  | .delete _ _ st _ => (s.delete.inc st).map fun c => { s with delete := c }
  | .wait _ _ st => some { s with wait := s.wait.inc st }
  | _ => some s

/-- the statistics after `Handle` was called on every event of a stream in turn, starting from `s` (`none` = a panic) -/
def Stats.handleAll {ι : Type} : Stats → List (Event ι) → Option Stats
  | s, [] => some s
  | s, e :: es =>
    match s.handle e with
    | none => none
    | some s' => Stats.handleAll s' es

def Stats.failedActuationSum (s : Stats) : Nat := s.apply.failed + s.prune.failed + s.delete.failed
def Stats.failedReconciliationSum (s : Stats) : Nat := s.wait.failed + s.wait.timeout

/-- `ResultErrorFromStats` returns a non-nil error -/
def resultError (s : Stats) : Bool :=
  decide (s.failedActuationSum > 0) || decide (s.failedReconciliationSum > 0)

/-! ### pkg/printers/json/formatter.go -/

/-- the numeric fields of a group-finished or summary line (`timeout` only on wait lines) -/
structure Counts where
  count : Nat
  successful : Nat
  skipped : Nat
  failed : Nat
  timeout : Option Nat := none
deriving DecidableEq, Repr

/-- one output line = one JSON object (fields that the formatter does not set are `none` / `[]`) -/
structure Line (ι : Type) where
  /-- "type": validation | apply | prune | delete | wait | status | error | group | summary -/
  type : String
  /-- "action" (group and summary lines) -/
  action : Option String := none
  /-- "status" -/
  status : Option String := none
  /-- the object(s): group/kind/namespace/name of a resource line, or the "objects" of a validation line -/
  ids : List ι := []
  /-- "error" text -/
  error : Option String := none
  /-- "message" (status lines) -/
  message : Option String := none
  /-- count / successful / skipped / failed / timeout -/
  counts : Option Counts := none
deriving DecidableEq, Repr

def OpStats.counts (c : OpStats) : Counts :=
  { count := c.sum, successful := c.successful, skipped := c.skipped, failed := c.failed }

def WaitStats.counts (w : WaitStats) : Counts :=
  { count := w.sum, successful := w.successful, skipped := w.skipped, failed := w.failed, timeout := some w.timeout }

/-- the counters a line about action `a` shows (`FormatActionGroupEvent` / `FormatSummary`) -/
def Stats.countsFor (s : Stats) : Action → Option Counts
  | .apply => some s.apply.counts
  | .prune => some s.prune.counts
  | .delete => some s.delete.counts
  | .wait => some s.wait.counts
  | .inventory => none

variable {ι : Type}

/-- line of an apply / prune / delete event -/
def opLine (type : String) (id : ι) (st : OpStatus) (err : Option String) : Line ι :=
  { type := type, ids := [id], status := some st.str, error := err }

/-- `FormatActionGroupEvent`: counters only on `Finished`, none for inventory groups; the group NAME is not printed -/
def groupLine (a : Action) (st : GroupStatus) (s : Stats) : Line ι :=
  { type := "group", action := some a.str, status := some st.str,
    counts := match st with | .finished => s.countsFor a | .started => none }

/-- The line the formatter writes for event `e`, given the statistics `s` that already include `e`
(`none`: nothing is written — init events, status events when `printStatus` is off, and the id-less validation
event, which the formatter refuses: see `rejected`). -/
def formatEvent (printStatus : Bool) (s : Stats) : Event ι → Option (Line ι)
  | .init _ => none
  | .error msg => some { type := "error", error := some msg }
  | .actionGroup _ a st => some (groupLine a st s)
  | .apply _ id st err => some (opLine "apply" id st err)
  | .prune _ id st err => some (opLine "prune" id st err)
  | .delete _ id st err => some (opLine "delete" id st err)
  | .wait _ id st => some { type := "wait", ids := [id], status := some st.str }
  | .status id st msg =>
    if printStatus then some { type := "status", ids := [id], status := some st, message := some msg } else none
  | .validation ids err =>
    if ids.isEmpty then none else some { type := "validation", ids := ids, error := some err }

/-- `FormatValidationEvent` returns an error: a validation event without identifiers -/
def rejected : Event ι → Bool
  | .validation ids _ => ids.isEmpty
  | _ => false

/-- one summary line -/
def summaryLine (a : Action) (c : Counts) : Line ι :=
  { type := "summary", action := some a.str, counts := some c }

/-- `FormatSummary`: one line per action whose counters are not all zero, in the order apply, prune, delete, wait -/
def summaryLines (s : Stats) : List (Line ι) :=
  (if s.apply ≠ {} then [summaryLine .apply s.apply.counts] else []) ++
  (if s.prune ≠ {} then [summaryLine .prune s.prune.counts] else []) ++
  (if s.delete ≠ {} then [summaryLine .delete s.delete.counts] else []) ++
  (if s.wait ≠ {} then [summaryLine .wait s.wait.counts] else [])

/-! ### pkg/print/list/base.go -/

/-- what `Print` returns -/
inductive PrintErr
  /-- nil -/
  | none
  /-- the `Err` of an error event -/
  | event
  /-- a `ResultError` (from the counters) -/
  | result
  /-- an error returned by the formatter -/
  | format
deriving DecidableEq, Repr, Inhabited

/-- everything observable of one `Print` call -/
structure Result (ι : Type) where
  lines : List (Line ι)
  err : PrintErr
  panicked : Bool := false
deriving DecidableEq, Repr

/-- `BaseListPrinter.Print` from the point where the running statistics are `s`:
every event is counted FIRST (`statsCollector.Handle`), then formatted with the updated statistics;
an error event is printed and ends the loop with its error (no summary, later events unread);
a formatter error ends the loop; when the channel is closed the summary is printed and the
result is `ResultErrorFromStats`. -/
def printLoop (printStatus : Bool) : Stats → List (Event ι) → Result ι
  | s, [] => { lines := summaryLines s, err := if resultError s then .result else .none }
  | s, e :: es =>
    match s.handle e with
    | none => { lines := [], err := .none, panicked := true }
    | some s' =>
      if e.isError then { lines := (formatEvent printStatus s' e).toList, err := .event }
      else if rejected e then { lines := [], err := .format }
      else
        let r := printLoop printStatus s' es
        { r with lines := (formatEvent printStatus s' e).toList ++ r.lines }

/-- `BaseListPrinter.Print` with the JSON formatter -/
def print (printStatus : Bool) (es : List (Event ι)) : Result ι := printLoop printStatus {} es

end CliUtils.Print
