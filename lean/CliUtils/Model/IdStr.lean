import CliUtils.Model.Basic
/-
  Model of the textual encodings of identifiers:
    pkg/object/objmetadata.go          String / ParseObjMetadata   (inventory keys)
    pkg/object/objmetadata_set.go      Hash
    pkg/inventory/inventorycm.go       Store / GetObject / Load     (keys of the ConfigMap `data`)
    pkg/object/dependson/strings.go    Format/Parse of depends-on references
  Strings that the code parses are `List Char`.
-/
namespace CliUtils.IdStr

abbrev Str := List Char

structure IdC where
  ns : Str
  name : Str
  group : Str
  kind : Str
deriving DecidableEq, Repr

/-- Go `strings.Index(s, "_")` split -/
def splitFirst (sep : Char) : Str → Option (Str × Str)
  | [] => none
  | c :: cs => if c = sep then some ([], cs) else
      match splitFirst sep cs with
      | some (a, b) => some (c :: a, b)
      | none => none

/-- Go `strings.LastIndex(s, "_")` split -/
def splitLast (sep : Char) : Str → Option (Str × Str)
  | [] => none
  | c :: cs =>
      match splitLast sep cs with
      | some (a, b) => some (c :: a, b)
      | none => if c = sep then some ([], cs) else none

/-- `strings.ReplaceAll(name, ":", "__")` -/
def encColons : Str → Str
  | [] => []
  | c :: cs => if c = ':' then '_' :: '_' :: encColons cs else c :: encColons cs

/-- `strings.ReplaceAll(name, "__", ":")` (leftmost, non-overlapping) -/
def decColons : Str → Str
  | [] => []
  | [c] => [c]
  | a :: b :: cs => if a = '_' ∧ b = '_' then ':' :: decColons cs else a :: decColons (b :: cs)

def rbacGroup : Str := "rbac.authorization.k8s.io".toList
def rbacKinds : List Str := ["Role".toList, "ClusterRole".toList, "RoleBinding".toList, "ClusterRoleBinding".toList]

/-- `RBACGroupKind` lookup -/
def isRBAC (group kind : Str) : Bool := group = rbacGroup ∧ kind ∈ rbacKinds

/-- `ObjMetadata.String` -/
def format (i : IdC) : Str :=
  i.ns ++ '_' :: ((if isRBAC i.group i.kind then encColons i.name else i.name) ++ '_' :: (i.group ++ '_' :: i.kind))

/-- `ParseObjMetadata`; `none` = any of its errors -/
def parse (s : Str) : Option IdC :=
  match splitFirst '_' s with
  | none => none
  | some (ns, s1) =>
    match splitLast '_' s1 with
    | none => none
    | some (s2, kind) =>
      match splitLast '_' s2 with
      | none => none
      | some (name0, group) =>
        let name := decColons name0
        if '_' ∈ name then none
        else some { ns := ns, name := name, group := group, kind := kind }

/-- does the id survive a store/load cycle? -/
def roundTrips (i : IdC) : Bool := parse (format i) = some i

/-- `ConfigMap.Store` + `GetObject` as repaired (fix: ids that cannot be encoded losslessly are rejected):
the keys written to `data`; `none` = error, nothing written -/
def store (ids : List IdC) : Option (List Str) :=
  if ids.all roundTrips then some (dedup (ids.map format)) else none

/-- `ConfigMap.Load` on the keys of `data` -/
def load (keys : List Str) : Option (List IdC) := keys.mapM parse

/-! ### Hash -/

def fnvStep (h : UInt32) (b : UInt8) : UInt32 := (h ^^^ b.toUInt32) * 16777619

def fnv32a (bs : List UInt8) : UInt32 := bs.foldl fnvStep 2166136261

def sortStrs (l : List String) : List String := l.mergeSort (fun a b => decide (a ≤ b))

/-- the byte string fed to the hash: the sorted encodings of the DISTINCT ids (as repaired) -/
def hashKey (ids : List IdC) : List String := sortStrs ((dedup ids).map (fun i => String.ofList (format i)))

def hexDigits (n : Nat) : String := String.ofList (Nat.toDigits 16 n)

/-- `ObjMetadataSet.Hash` -/
def hash (ids : List IdC) : String :=
  hexDigits (fnv32a ((hashKey ids).flatMap (fun s => s.toUTF8.toList))).toNat

/-! ### depends-on references -/

/-- `strings.Split(s, sep)` for a one-character separator -/
def splitOn (sep : Char) : Str → List Str
  | [] => [[]]
  | c :: cs =>
    if c = sep then [] :: splitOn sep cs
    else match splitOn sep cs with
      | [] => [[c]]          -- unreachable: splitOn never returns []
      | f :: fs => (c :: f) :: fs

/-- Go `unicode.IsSpace` -/
def isSpace (c : Char) : Bool :=
  c = ' ' ∨ c = '\t' ∨ c = '\n' ∨ c.toNat = 0x0B ∨ c.toNat = 0x0C ∨ c = '\r' ∨ c.toNat = 0x85 ∨ c.toNat = 0xA0 ∨
  c.toNat = 0x1680 ∨ (0x2000 ≤ c.toNat ∧ c.toNat ≤ 0x200A) ∨ c.toNat = 0x2028 ∨ c.toNat = 0x2029 ∨
  c.toNat = 0x202F ∨ c.toNat = 0x205F ∨ c.toNat = 0x3000

def trimLeft : Str → Str
  | [] => []
  | c :: cs => if isSpace c then trimLeft cs else c :: cs

/-- `strings.TrimSpace` -/
def trimSpace (s : Str) : Str := (trimLeft (trimLeft s).reverse).reverse

def namespacesField : Str := "namespaces".toList

/-- `dependson.FormatObjMetadata`; `none` = error (empty kind or name) -/
def depFormat (i : IdC) : Option Str :=
  if i.kind = [] then none
  else if i.name = [] then none
  else if i.ns ≠ [] then
    some (i.group ++ '/' :: (namespacesField ++ '/' :: (i.ns ++ '/' :: (i.kind ++ '/' :: i.name))))
  else some (i.group ++ '/' :: (i.kind ++ '/' :: i.name))

/-- `dependson.ParseObjMetadata` -/
def depParse (s : Str) : Option IdC :=
  match splitOn '/' (trimSpace s) with
  | [g, k, n] => some { ns := [], name := n, group := g, kind := k }
  | [g, nsf, ns, k, n] => if nsf = namespacesField then some { ns := ns, name := n, group := g, kind := k } else none
  | _ => none

def joinWith (sep : Char) : List Str → Str
  | [] => []
  | [a] => a
  | a :: b :: rest => a ++ sep :: joinWith sep (b :: rest)

/-- `FormatDependencySet` -/
def depSetFormat (l : List IdC) : Option Str := (l.mapM depFormat).map (joinWith ',')

/-- `ParseDependencySet` -/
def depSetParse (s : Str) : Option (List IdC) := (splitOn ',' s).mapM depParse

end CliUtils.IdStr
