import CliUtils.Model.Basic
/-
  Model of pkg/kstatus/polling:
    event/event.go            ResourceStatus, ResourceStatusEqual, getGeneration
    aggregator/aggregator.go  AggregateStatus
    engine/engine.go          PollerEngine.Poll, statusPollerRunner.{Run,syncAndPoll,pollStatusForAllResources,
                              isUpdatedResourceStatus,handleSyncAndPollErr}, validateIdentifiers
    collector/collector.go    ResourceStatusCollector.{processEvent,LatestObservation}
    statusreaders/{common,pod_controller}.go   errResourceToResourceStatus, errIdentifierToResourceStatus,
                              podControllerStatusReader.readStatus (decision logic)
  The ticker is replaced by "one poll per scripted snapshot"; the cluster reader / status readers are the environment:
  what `Sync` and each `ReadStatus` call return in poll k is part of the input script.
-/
namespace CliUtils.Poll
open CliUtils

/-- `status.Status`: the six constants of status.go -/
inductive Status | inProgress | failed | current | terminating | notFound | unknown
deriving DecidableEq, Repr, Inhabited

/-- `event.ResourceStatus`, the fields ResourceStatusEqual looks at.
`res`: `none` = `Resource == nil`, `some g` = a resource whose `GetGeneration()` is `g`.
`err`: `none` = `Error == nil`, `some t` = an error with `Error() == t`. -/
inductive RS where
  | mk (id : Id) (status : Status) (message : String) (res : Option Int) (err : Option String)
       (generated : List RS)
deriving Repr, Inhabited

namespace RS
def id : RS → Id | mk i _ _ _ _ _ => i
def status : RS → Status | mk _ s _ _ _ _ => s
def message : RS → String | mk _ _ m _ _ _ => m
def res : RS → Option Int | mk _ _ _ r _ _ => r
def err : RS → Option String | mk _ _ _ _ e _ => e
def generated : RS → List RS | mk _ _ _ _ _ g => g
/-- `getGeneration`: 0 for a nil resource -/
def generation (r : RS) : Int := match r.res with | none => 0 | some g => g
end RS

/-- the error clause of ResourceStatusEqual: both non-nil with different text, or exactly one nil -/
def errDiffers : Option String → Option String → Bool
  | some a, some b => a != b
  | none, some _ => true
  | some _, none => true
  | none, none => false

mutual
/-- `ResourceStatusEqual`, clause by clause -/
def rsEqual : RS → RS → Bool
  | .mk i1 s1 m1 r1 e1 g1, .mk i2 s2 m2 r2 e2 g2 =>
    if i1 ≠ i2 ∨ s1 ≠ s2 ∨ m1 ≠ m2 then false
    else if (match r1 with | none => (0 : Int) | some g => g) ≠ (match r2 with | none => (0 : Int) | some g => g) then false
    else if errDiffers e1 e2 then false
    else rsEqualList g1 g2
/-- the length test and the pairwise, in-order loop over GeneratedResources -/
def rsEqualList : List RS → List RS → Bool
  | [], [] => true
  | a :: as, b :: bs => rsEqual a b && rsEqualList as bs
  | [], _ :: _ => false
  | _ :: _, [] => false
end

/-! ### AggregateStatus -/

/-- the loop of AggregateStatus with its two flags and the early return on Failed -/
def aggLoop (desired : Status) : List Status → Bool → Bool → Status
  | [], allDesired, anyUnknown =>
    if anyUnknown then .unknown else if allDesired then desired else .inProgress
  | s :: ss, allDesired, anyUnknown =>
    if s = .failed then .failed
    else aggLoop desired ss (allDesired && decide (s = desired)) (anyUnknown || decide (s = .unknown))

/-- `AggregateStatus` on the statuses of the given resources -/
def aggregateS (l : List Status) (desired : Status) : Status :=
  if l.isEmpty then desired else aggLoop desired l true false

def aggregate (rss : List RS) (desired : Status) : Status := aggregateS (rss.map RS.status) desired

/-! ### the polling engine -/

inductive ErrKind | ctx | notFound | other
deriving DecidableEq, Repr, Inhabited

/-- an `error` value: `ctx` = `errors.Is(err, context.Canceled) || errors.Is(err, context.DeadlineExceeded)`,
`notFound` = `apierrors.IsNotFound(err)` -/
structure Err where
  kind : ErrKind
  text : String
deriving DecidableEq, Repr, Inhabited

def Err.isCtx (e : Err) : Bool := e.kind = .ctx

/-- `event.Event` as sent by the poller (it never sends SyncEvent; the collector also accepts it) -/
inductive Event
  | update (rs : RS)
  | error (text : String)
  | sync
deriving Repr, Inhabited

def Event.isUpdate : Event → Bool | .update _ => true | _ => false
def Event.isError : Event → Bool | .error _ => true | _ => false

/-- `previousResourceStatuses` -/
abbrev Prev := Id → Option RS
def Prev.empty : Prev := fun _ => none
def Prev.set (p : Prev) (id : Id) (rs : RS) : Prev := fun j => if j = id then some rs else p j

/-- `isUpdatedResourceStatus`: the lookup key is the identifier inside the fresh status -/
def isUpdated (p : Prev) (rs : RS) : Bool :=
  match p rs.id with
  | none => true
  | some old => !rsEqual rs old

/-- what one `ReadStatus` call does: returns a status (optionally the context gets cancelled while it runs), or an error -/
inductive ReadRes
  | ok (rs : RS) (cancels : Bool)
  | fail (e : Err)
deriving Inhabited

/-- what one `Sync` call does -/
inductive SyncRes
  | ok (cancels : Bool)
  | fail (e : Err)
deriving Inhabited

/-- the environment during one poll -/
structure Poll where
  sync : SyncRes
  read : Id → ReadRes

/-- a poll in which nothing special happens: every resource is read from the snapshot -/
def plain (snap : Id → RS) : Poll := { sync := .ok false, read := fun id => .ok (snap id) false }

/-- result of `pollStatusForAllResources` -/
structure LoopOut where
  prev : Prev
  events : List Event
  err : Option Err
  cancelled : Bool

/-- the error `ctx.Err()` -/
def ctxErr : Err := { kind := .ctx, text := "context canceled" }

/-- `pollStatusForAllResources`: `cancelled` = the context is done -/
def pollLoop (read : Id → ReadRes) : List Id → Bool → Prev → LoopOut
  | [], c, p => { prev := p, events := [], err := none, cancelled := c }
  | id :: ids, c, p =>
    if c then { prev := p, events := [], err := some ctxErr, cancelled := c }
    else match read id with
      | .fail e => { prev := p, events := [], err := some e, cancelled := c }
      | .ok rs c' =>
        if isUpdated p rs then
          let o := pollLoop read ids c' (p.set id rs)
          { o with events := .update rs :: o.events }
        else pollLoop read ids c' p

/-- one complete, undisturbed poll of a snapshot: new state and the events sent -/
def pollOnce (ids : List Id) (p : Prev) (snap : Id → RS) : Prev × List Event :=
  let o := pollLoop (fun id => .ok (snap id) false) ids false p
  (o.prev, o.events)

/-- `handleSyncAndPollErr`: context errors are swallowed, anything else is sent as one ErrorEvent -/
def errEvents (e : Err) : List Event := if e.isCtx then [] else [.error e.text]

/-- `Run` from the k-th `syncAndPoll` on. The returned list is everything sent on the channel before it is closed
(the channel is always closed when the list ends: `defer close(eventChannel)`). An exhausted script means the caller
cancels the context. -/
def runFrom (ids : List Id) : List Poll → Prev → Bool → List Event
  | [], _, _ => []
  | q :: qs, p, c =>
    if c then []
    else match q.sync with
      | .fail e => errEvents e
      | .ok c1 =>
        let o := pollLoop q.read ids c1 p
        match o.err with
        | some e => o.events ++ errEvents e
        | none => o.events ++ runFrom ids qs o.prev o.cancelled

/-- scope lookup result of `Mapper.RESTMapping(gk)` -/
inductive Scope
  | namespaced | cluster | noMatch
  | err (text : String)
deriving DecidableEq, Repr, Inhabited

/-- `validateIdentifiers`: `some text` = the error returned (`<validate>` stands for the engine's own message) -/
def validate (scope : Id → Scope) : List Id → Option String
  | [] => none
  | id :: ids =>
    match scope id with
    | .noMatch => validate scope ids
    | .err t => some t
    | .namespaced => if id.ns = "" then some "<validate>" else validate scope ids
    | .cluster => validate scope ids

/-- static part of a `Poll` call -/
structure Cfg where
  ids : List Id
  scope : Id → Scope
  factoryErr : Option String

/-- `PollerEngine.Poll`: everything sent on the returned channel before it is closed -/
def run (cfg : Cfg) (script : List Poll) : List Event :=
  match validate cfg.scope cfg.ids with
  | some t => [.error t]
  | none =>
    match cfg.factoryErr with
    | some t => [.error t]
    | none => runFrom cfg.ids script Prev.empty false

/-! ### the collector -/

inductive EvType | update | error | sync
deriving DecidableEq, Repr, Inhabited

def Event.type : Event → EvType
  | .update _ => .update
  | .error _ => .error
  | .sync => .sync

/-- `ResourceStatusCollector` -/
structure Collector where
  lastType : EvType
  statuses : List (Id × RS)
  error : Option String

def assocSet (m : List (Id × RS)) (id : Id) (rs : RS) : List (Id × RS) :=
  match m with
  | [] => [(id, rs)]
  | (k, v) :: rest => if k = id then (id, rs) :: rest else (k, v) :: assocSet rest id rs

def assocGet (m : List (Id × RS)) (id : Id) : Option RS :=
  match m with
  | [] => none
  | (k, v) :: rest => if k = id then some v else assocGet rest id

/-- the placeholder stored by `NewResourceStatusCollector` -/
def initialRS (id : Id) : RS := .mk id .unknown "" none none []

/-- `NewResourceStatusCollector`; `LastEventType` starts as the zero value, which is ResourceUpdateEvent -/
def Collector.new (ids : List Id) : Collector :=
  { lastType := .update, statuses := ids.foldl (fun m id => assocSet m id (initialRS id)) [], error := none }

/-- `processEvent` -/
def Collector.step (c : Collector) (e : Event) : Collector :=
  match e with
  | .error t => { c with lastType := .error, error := some t }
  | .update rs => { c with lastType := .update, statuses := assocSet c.statuses rs.id rs }
  | .sync => { c with lastType := .sync }

/-- `Listen` over a whole event stream -/
def collect (ids : List Id) (evs : List Event) : Collector := evs.foldl Collector.step (Collector.new ids)

/-- the order of `ResourceStatuses.Less` (namespace, group, kind, name) -/
def idLess (a b : Id) : Bool :=
  if a.ns ≠ b.ns then a.ns < b.ns
  else if a.group ≠ b.group then a.group < b.group
  else if a.kind ≠ b.kind then a.kind < b.kind
  else a.name < b.name

/-- `LatestObservation().ResourceStatuses` -/
def Collector.observation (c : Collector) : List RS :=
  (c.statuses.map (·.2)).mergeSort (fun a b => !(idLess b.id a.id))

/-! ### statusreaders: error conversion and the pod-controller rule -/

/-- `errResourceToResourceStatus(err, resource, genResources...)`; `gen` = generation of the fetched resource -/
def errResource (e : Err) (id : Id) (gen : Int) (gens : List RS) : Except Err RS :=
  match e.kind with
  | .ctx => .error e
  | .notFound => .ok (.mk id .notFound "Resource not found" none none [])
  | .other => .ok (.mk id .unknown "" (some gen) (some e.text) gens)

/-- `errIdentifierToResourceStatus(err, identifier)` -/
def errIdentifier (e : Err) (id : Id) : Except Err RS :=
  match e.kind with
  | .ctx => .error e
  | .notFound => .ok (.mk id .notFound "Resource not found" none none [])
  | .other => .ok (.mk id .unknown "" none (some e.text) [])

/-- `baseStatusReader.ReadStatus` with the generic `ReadStatusForObject`: `mapErr` = the RESTMapper lookup failed,
`get` = what `reader.Get` did (error, or a resource with this generation), `c` = what the status function returned -/
def genericRead (id : Id) (mapErr : Option Err) (get : Except Err Int) (c : Except Err (Status × String)) : Except Err RS :=
  match mapErr with
  | some e => errIdentifier e id
  | none =>
    match get with
    | .error e => errIdentifier e id
    | .ok gen =>
      match c with
      | .error e => errResource e id gen []
      | .ok (s, msg) => .ok (.mk id s msg (some gen) none [])

/-- result of `statusForGenResourcesFunc` -/
inductive GenRes
  | ok (pods : List RS)
  | fail (e : Err)

/-- result of `statusFunc` (status.Compute) -/
inductive Compute
  | ok (s : Status) (msg : String)
  | fail (e : Err)

def failedMessage (n : Nat) : String := toString n ++ " pods have failed"

/-- `podControllerStatusReader.readStatus` -/
def podController (id : Id) (gen : Int) (g : GenRes) (c : Compute) : Except Err RS :=
  match g with
  | .fail e => errResource e id gen []
  | .ok pods =>
    match c with
    | .fail e => errResource e id gen pods
    | .ok s msg =>
      let failed := pods.filter (fun p => p.status = .failed)
      if s = .inProgress ∧ failed.length > 0 then
        .ok (.mk id .failed (failedMessage failed.length) (some gen) none pods)
      else .ok (.mk id s msg (some gen) none pods)

end CliUtils.Poll
