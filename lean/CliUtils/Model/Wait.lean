import CliUtils.Model.Manager
import CliUtils.Model.IdSet
/-
  Model of the wait task: pkg/apply/taskrunner/task.go (startInner, StatusUpdate, sendTimeoutEvents, Cancel),
  condition.go (allMatchStatus) and the resource cache it reads (pkg/apply/cache).
  One transition per entry point; the RW-mutex makes each of them atomic in the code.
-/
namespace CliUtils.Wait
open CliUtils

inductive KStatus | inProgress | failed | current | terminating | notFound | unknown
deriving DecidableEq, Repr, Inhabited

inductive Cond | allCurrent | allNotFound
deriving DecidableEq, Repr, Inhabited

inductive WEv | pending | successful | skipped | timeout | failed
deriving DecidableEq, Repr, Inhabited

/-- what the resource cache holds for one id: status, Resource != nil, its generation and UID -/
structure Obs where
  status : KStatus
  hasRes : Bool
  gen : Int
  uid : String
deriving DecidableEq, Repr, Inhabited

/-- `ResourceCache.Get` for an id never put: Unknown, no resource -/
def Obs.missing : Obs := { status := .unknown, hasRes := false, gen := 0, uid := "" }

structure WState (α : Type) where
  ids : List α
  cond : Cond
  pending : List α
  failed : List α
  mgr : Mgr α
  cache : List (α × Obs)            -- latest Put first
  events : List (α × WEv)           -- in emission order
  cancelled : Bool                  -- cancelFunc has been called: the phase is ending

variable {α : Type} [DecidableEq α]

def getObs (cache : List (α × Obs)) (id : α) : Obs :=
  match cache.lookup id with
  | some o => o
  | none => Obs.missing

def rcOfEv : WEv → Reconcile
  | .pending => .pending | .successful => .succeeded | .skipped => .skipped | .timeout => .timeout | .failed => .failed

/-- record the reconcile status (an unknown id only logs an error) and emit the wait event -/
def emit (s : WState α) (id : α) (e : WEv) : WState α :=
  { s with mgr := (s.mgr.setReconcile id (rcOfEv e)).getD s.mgr, events := s.events ++ [(id, e)] }

/-- `WaitTask.skipped` — note Go's operator precedence: `c == AllCurrent && IsFailedApply || IsSkippedApply` -/
def skipped (c : Cond) (m : Mgr α) (id : α) : Bool :=
  ((c = .allCurrent && m.isActuation id .apply .failed) || m.isActuation id .apply .skipped) ||
  ((c = .allNotFound && m.isActuation id .delete .failed) || m.isActuation id .delete .skipped)

/-- `WaitTask.changedUID` -/
def changedUID (m : Mgr α) (o : Obs) (id : α) : Bool :=
  match m.find? id with
  | none => false
  | some r => r.uid ≠ "" && o.hasRes && o.uid ≠ "" && r.uid ≠ o.uid

/-- `reconciledByID` = `conditionMet` for one id = `allMatchStatus` -/
def reconciled (c : Cond) (m : Mgr α) (o : Obs) (id : α) : Bool :=
  (match c with
   | .allCurrent => o.status = .current
   | .allNotFound => o.status = .notFound) &&
  decide ((m.appliedGen id).1 ≤ (if o.hasRes then o.gen else 0))

/-- `handleChangedUID` -/
def handleChangedUID (s : WState α) (id : α) : WState α :=
  match s.cond with
  | .allNotFound => emit s id .successful
  | .allCurrent => emit s id .failed

/-- body of the loop of `startInner` for one id; returns the new state and whether the id is pending -/
def startOne (s : WState α) (id : α) : WState α :=
  let o := getObs s.cache id
  if skipped s.cond s.mgr id then emit s id .skipped
  else if changedUID s.mgr o id then handleChangedUID s id
  else if reconciled s.cond s.mgr o id then emit s id .successful
  else { emit s id .pending with pending := s.pending ++ [id] }

def endIfNonePending (s : WState α) : WState α :=
  if s.pending.isEmpty then { s with cancelled := true } else s

/-- `Start` / `startInner` -/
def start (ids : List α) (c : Cond) (m : Mgr α) (cache : List (α × Obs)) : WState α :=
  endIfNonePending (ids.foldl startOne
    { ids := ids, cond := c, pending := [], failed := [], mgr := m, cache := cache, events := [], cancelled := false })

/-- `StatusUpdate` (the cache already holds the new observation), as repaired: the `failed` branch also
detects a replaced UID -/
def statusUpdateInner (s : WState α) (id : α) : WState α :=
  let o := getObs s.cache id
  if id ∈ s.pending then
    if changedUID s.mgr o id then { handleChangedUID s id with pending := IdSet.remove s.pending id }
    else if reconciled s.cond s.mgr o id then { emit s id .successful with pending := IdSet.remove s.pending id }
    else if o.status = .failed then
      { emit s id .failed with pending := IdSet.remove s.pending id, failed := s.failed ++ [id] }
    else s
  else if id ∉ s.ids then s
  else if skipped s.cond s.mgr id then s
  else if id ∈ s.failed then
    if changedUID s.mgr o id then { handleChangedUID s id with failed := IdSet.remove s.failed id }
    else if reconciled s.cond s.mgr o id then { emit s id .successful with failed := IdSet.remove s.failed id }
    else if o.status ≠ .failed then
      { emit s id .pending with failed := IdSet.remove s.failed id, pending := s.pending ++ [id] }
    else s
  else
    if !(reconciled s.cond s.mgr o id) then { emit s id .pending with pending := s.pending ++ [id] }
    else s

/-- the runner's handling of one status event while this task is current: cache Put, then StatusUpdate if the id
belongs to the task -/
def statusUpdate (s : WState α) (id : α) (o : Obs) : WState α :=
  let s1 := { s with cache := (id, o) :: s.cache }
  if id ∈ s1.ids then
    let s2 := statusUpdateInner s1 id
    -- `if id ∉ ids return` sits before the final cancel check in the code; here id ∈ ids
    endIfNonePending s2
  else s1

/-- `sendTimeoutEvents` (deadline fired) -/
def timeout (s : WState α) : WState α :=
  { s.pending.foldl (fun st id => emit st id .timeout) s with cancelled := true }

/-- `Cancel` -/
def cancel (s : WState α) : WState α := { s with cancelled := true }

inductive Op (α : Type)
  | update (id : α) (o : Obs)
  | timeout
  | cancel

def step (s : WState α) : Op α → WState α
  | .update id o => statusUpdate s id o
  | .timeout => timeout s
  | .cancel => cancel s

def run (ids : List α) (c : Cond) (m : Mgr α) (cache : List (α × Obs)) (ops : List (Op α)) : WState α :=
  ops.foldl step (start ids c m cache)

/-! ### `updateRESTMapper` (task.go): the goroutine that ends the phase resets the RESTMapper, after the context is done
(none pending / deadline / cancel) and before the task result is delivered, iff the phase contains a CRD that was not skipped -/

/-- `foundCRD` of `updateRESTMapper`: some id of the task is a CRD (`id.GroupKind == crdGK`) and not `w.skipped` -/
def needsReset (ids : List α) (crd : α → Bool) (m : Mgr α) (c : Cond) : Bool :=
  ids.any (fun id => crd id && !skipped c m id)

/-- number of `Reset()` calls the task has made on its mapper in state `s`: the ending goroutine runs once, only after
`cancelFunc` / the deadline (`s.cancelled`), and reads the actuation table as it is then -/
def resets (crd : α → Bool) (s : WState α) : Nat :=
  if s.cancelled && needsReset s.ids crd s.mgr s.cond then 1 else 0

end CliUtils.Wait
